package main

import (
	"fmt"
	"hash/fnv"
	"math/rand"
	"sort"
	"strconv"
	"strings"
	"time"

	"github.com/prometheus/client_golang/prometheus"
	dto "github.com/prometheus/client_model/go"

	"github.com/prometheus/statsd_exporter/pkg/clock"
	"github.com/prometheus/statsd_exporter/pkg/event"
	"github.com/prometheus/statsd_exporter/pkg/exporter"
)

type preFam struct{ name, ty, help string }

func sumVec(c *prometheus.CounterVec) int {
	ch := make(chan prometheus.Metric, 256)
	go func() { c.Collect(ch); close(ch) }()
	n := 0
	for m := range ch {
		var d dto.Metric
		m.Write(&d)
		n += int(d.GetCounter().GetValue())
	}
	return n
}

func famString(mf *dto.MetricFamily) string {
	ty := "?"
	switch mf.GetType() {
	case dto.MetricType_COUNTER:
		ty = "c"
	case dto.MetricType_GAUGE:
		ty = "g"
	case dto.MetricType_HISTOGRAM:
		ty = "h"
	case dto.MetricType_SUMMARY:
		ty = "s"
	}
	var ss []string
	for _, m := range mf.Metric {
		lm := map[string]string{}
		for _, lp := range m.Label {
			lm[lp.GetName()] = lp.GetValue()
		}
		s := "{" + labelsStr(lm) + "}"
		switch ty {
		case "c":
			s += bits(m.GetCounter().GetValue())
		case "g":
			s += bits(m.GetGauge().GetValue())
		case "s":
			s += fmt.Sprintf("%d/%s", m.GetSummary().GetSampleCount(), bits(m.GetSummary().GetSampleSum()))
		case "h":
			h := m.GetHistogram()
			var bs []string
			for _, b := range h.Bucket {
				bs = append(bs, fmt.Sprintf("%s:%d", bits(b.GetUpperBound()), b.GetCumulativeCount()))
			}
			bs = append(bs, fmt.Sprintf("inf:%d", h.GetSampleCount()))
			s += fmt.Sprintf("%d/%s/%s", h.GetSampleCount(), bits(h.GetSampleSum()), strings.Join(bs, "."))
		}
		ss = append(ss, s)
	}
	sort.Strings(ss)
	return enc(mf.GetName()) + ":" + ty + ":" + enc(mf.GetHelp()) + " " + strings.Join(ss, " ")
}

func execPipe(op string) (res string) {
	f := strings.Fields(op)
	if len(f) < 4 || f[0] != "pipe" || len(f[1]) != 4 {
		return "bad-op"
	}
	flags := f[1]
	npre, _ := strconv.Atoi(f[2])
	i := 3
	var pres []preFam
	for k := 0; k < npre; k++ {
		pres = append(pres, preFam{dec(f[i]), f[i+1], dec(f[i+2])})
		i += 3
	}
	if f[i] != "|" {
		return "bad-op"
	}
	subs := splitToks(f[i+1:], ";")

	// cache kind: any — the cache is invisible (C13); derive it from the op text so that replay is deterministic
	h := fnv.New32a()
	h.Write([]byte(op))
	hv := h.Sum32()
	kind := []string{"none", "lru", "rr"}[hv%3]
	m := newRealMapper(kind, []int{1, 2, 1000}[(hv/3)%3])

	saved := clock.ClockInstance
	defer func() { clock.ClockInstance = saved }()
	now := time.Unix(1000, 0)
	clock.ClockInstance = &clock.Clock{Instant: now, TickerCh: make(chan time.Time)}

	reg := prometheus.NewRegistry()
	preNames := map[string]bool{}
	for _, p := range pres {
		preNames[p.name] = true
		switch p.ty {
		case "c":
			v := prometheus.NewCounterVec(prometheus.CounterOpts{Name: p.name, Help: p.help}, []string{"pre"})
			v.WithLabelValues("1").Inc()
			reg.MustRegister(v)
		default:
			v := prometheus.NewGaugeVec(prometheus.GaugeOpts{Name: p.name, Help: p.help}, []string{"pre"})
			v.WithLabelValues("1").Set(1)
			reg.MustRegister(v)
		}
	}
	eventsActions := prometheus.NewCounterVec(prometheus.CounterOpts{Name: "ea"}, []string{"action"})
	eventsUnmapped := prometheus.NewCounter(prometheus.CounterOpts{Name: "eu"})
	errorEventStats := prometheus.NewCounterVec(prometheus.CounterOpts{Name: "ee"}, []string{"reason"})
	eventStats := prometheus.NewCounterVec(prometheus.CounterOpts{Name: "es"}, []string{"type"})
	conflicting := prometheus.NewCounterVec(prometheus.CounterOpts{Name: "ec"}, []string{"type", "name"})
	metricsCount := prometheus.NewGaugeVec(prometheus.GaugeOpts{Name: "mc"}, []string{"type"})
	ex := exporter.NewExporter(reg, m, nopLogger, eventsActions, eventsUnmapped, errorEventStats, eventStats, conflicting, metricsCount)
	ch := make(chan event.Events)
	done := make(chan interface{}, 1)
	go func() {
		defer func() { done <- recover() }()
		ex.Listen(ch)
	}()
	dead, hung := false, false
	defer func() {
		if !dead {
			close(ch)
			<-done
		}
		_ = hung
	}()
	send := func(evs event.Events) bool {
		for k := 0; k < 2; k++ { // the second (empty) batch is received only after the first was handled
			var b event.Events
			if k == 0 {
				b = evs
			}
			select {
			case ch <- b:
			case <-done:
				dead = true
				return false
			case <-time.After(3 * time.Second):
				// the exporter goroutine neither takes the next batch nor died: it hangs (it cannot be
				// stopped from here and keeps spinning until this process exits)
				dead, hung = true, true
				return false
			}
		}
		return true
	}
	parser := parserFor(flags)
	var outs, infos []string
	for _, sub := range subs {
		if dead {
			outs = append(outs, "dead")
			continue
		}
		if len(sub) == 0 {
			outs = append(outs, "bad-op")
			continue
		}
		switch sub[0] {
		case "load":
			c := decodeCfg(&rd{t: sub[1:]})
			if err := m.InitFromYAMLString(c.yaml()); err != nil {
				outs = append(outs, "err")
			} else {
				outs = append(outs, "ok")
			}
		case "line":
			l := dec(sub[1])
			if _, huge := pfDict(l); huge {
				outs = append(outs, "skip-huge")
				continue
			}
			var evs event.Events
			panicked := false
			func() {
				defer func() {
					if e := recover(); e != nil {
						panicked = true
					}
				}()
				se := prometheus.NewCounterVec(prometheus.CounterOpts{Name: "se"}, []string{"reason"})
				c1 := prometheus.NewCounter(prometheus.CounterOpts{Name: "sr"})
				c2 := prometheus.NewCounter(prometheus.CounterOpts{Name: "te"})
				c3 := prometheus.NewCounter(prometheus.CounterOpts{Name: "tr"})
				evs = parser.LineToEvents(l, *se, c1, c2, c3, nopLogger)
			}()
			if panicked {
				dead = true
				close(ch)
				<-done
				outs = append(outs, "panic")
				infos = append(infos, "parser-panic")
				continue
			}
			if send(evs) {
				outs = append(outs, "ok")
			} else if hung {
				outs = append(outs, "hang")
			} else {
				outs = append(outs, "panic")
			}
		case "adv":
			d, _ := strconv.ParseInt(sub[1], 10, 64)
			now = now.Add(time.Duration(d))
			clock.ClockInstance.Instant = now
			outs = append(outs, "ok")
		case "sweep":
			select {
			case clock.ClockInstance.TickerCh <- now:
				if send(nil) {
					outs = append(outs, "ok")
				} else {
					outs = append(outs, "panic")
				}
			case <-done:
				dead = true
				outs = append(outs, "panic")
			}
		case "scrape":
			func() {
				defer func() {
					if e := recover(); e != nil {
						// the panicking collector keeps its mutex: every later Gather would block
						outs = append(outs, "gather-panic")
						dead = true
						close(ch)
						<-done
					}
				}()
				// Gather runs the collectors' Write methods; a summary whose stream duration is a few nanoseconds chases the
				// wall clock there and never returns (the goroutine is left behind; the history is over)
				type gres struct {
					mfs []*dto.MetricFamily
					err error
					pan any
				}
				gch := make(chan gres, 1)
				go func() {
					defer func() {
						if e := recover(); e != nil {
							gch <- gres{pan: e}
						}
					}()
					m, e := reg.Gather()
					gch <- gres{mfs: m, err: e}
				}()
				var g gres
				select {
				case g = <-gch:
				case <-time.After(10 * time.Second):
					outs = append(outs, "gather-hang")
					infos = append(infos, "stalled")
					dead = true
					return
				}
				if g.pan != nil {
					panic(g.pan)
				}
				mfs, err := g.mfs, g.err
				if err != nil {
					outs = append(outs, "gather-error")
					e := err.Error()
					if len(e) > 120 {
						e = e[:120]
					}
					infos = append(infos, strings.Map(func(r rune) rune {
						if r == '\t' || r == '\n' || r == ',' {
							return ' '
						}
						return r
					}, e))
					return
				}
				var fs []string
				for _, mf := range mfs {
					if preNames[mf.GetName()] {
						continue
					}
					fs = append(fs, famString(mf))
				}
				sort.Strings(fs)
				outs = append(outs, fmt.Sprintf("S conf=%d err=%d drop=%d F %s", sumVec(conflicting), sumVec(errorEventStats),
					int(counterVecVal(eventsActions, "drop")), strings.Join(fs, " ")))
			}()
		default:
			outs = append(outs, "bad-op")
		}
	}
	return strings.Join(outs, " ; ") + "\t" + strings.Join(infos, ",")
}

func counterVecVal(c *prometheus.CounterVec, lv string) float64 {
	var d dto.Metric
	c.WithLabelValues(lv).Write(&d)
	return d.GetCounter().GetValue()
}

// ---------------------------------------------------------------- history builder

type pipeHist struct {
	flags string
	pres  []preFam
	subs  []string
	cfgs  []*rawCfg
	lines int
}

func (h *pipeHist) load(c *rawCfg) {
	h.cfgs = append(h.cfgs, c)
	h.subs = append(h.subs, "load "+c.encode())
}
func (h *pipeHist) line(l string) {
	h.lines++
	h.subs = append(h.subs, "line "+enc(l)+" @L@")
}
func (h *pipeHist) adv(d time.Duration) { h.subs = append(h.subs, fmt.Sprintf("adv %d", int64(d))) }
func (h *pipeHist) sweep()              { h.subs = append(h.subs, "sweep") }
func (h *pipeHist) scrape()             { h.subs = append(h.subs, "scrape") }

// metric name the parser derives from the line under the history's flags (for the rx oracle)
func (h *pipeHist) metricOf(l string) (string, bool) {
	r, panicked := runParser(h.flags, l)
	if panicked || len(r.events) == 0 {
		return "", false
	}
	return r.events[0].MetricName(), true
}

func (h *pipeHist) op() string {
	pats := regexPatterns(h.cfgs...)
	subs := make([]string, len(h.subs))
	for i, s := range h.subs {
		if strings.HasSuffix(s, " @L@") {
			s = strings.TrimSuffix(s, " @L@")
			l := dec(strings.Fields(s)[1])
			d, _ := pfDict(l)
			nd := 0
			if d != "" {
				nd = len(strings.Fields(d))
			}
			s += " " + strconv.Itoa(nd)
			if d != "" {
				s += " " + d
			}
			if name, ok := h.metricOf(l); ok {
				s += " " + rxOracle(pats, name)
			} else {
				s += " 0"
			}
		}
		subs[i] = s
	}
	head := fmt.Sprintf("pipe %s %d", h.flags, len(h.pres))
	for _, p := range h.pres {
		head += " " + enc(p.name) + " " + p.ty + " " + enc(p.help)
	}
	return head + " | " + strings.Join(subs, " ; ")
}

// ---------------------------------------------------------------- generators

type pipeCfgOpts struct {
	regex, drop, scale, ttl, help, hist, honor, labels, unordered bool
}

var pcComps = []string{"a", "b", "c"}

func genPipeCfg(r *rand.Rand, o pipeCfgOpts) *rawCfg {
	c := &rawCfg{}
	if o.hist && r.Intn(3) == 0 {
		c.obs = sp("histogram")
	}
	if o.ttl && r.Intn(3) == 0 {
		c.ttl = int64(time.Second) * int64(1+r.Intn(3))
	}
	if o.unordered && r.Intn(4) == 0 {
		c.ordDisabled = true
	}
	if o.hist && r.Intn(4) == 0 {
		c.buckets = []float64{0.001, 0.5, 2}
	}
	n := r.Intn(5)
	for i := 0; i < n; i++ {
		l := 1 + r.Intn(3)
		var fs []string
		for j := 0; j < l; j++ {
			if r.Intn(3) == 0 {
				fs = append(fs, "*")
			} else {
				fs = append(fs, pick(r, pcComps))
			}
		}
		ru := rawRule{match: strings.Join(fs, "."), name: pick(r, []string{"m", "m_$1", "x_${1}_$2", "n", "$1", "m", "q"})}
		if o.regex && r.Intn(5) == 0 {
			ru.match = pick(r, []string{`^a\.(.*)$`, `^([abc])\.([abc])$`, `b`, `^(.*)\.c$`})
			ru.matchType = sp("regex")
		}
		if o.labels && r.Intn(2) == 0 {
			ru.labels = append(ru.labels, [2]string{pick(r, []string{"rl", "tag1", "job"}), pick(r, []string{"one", "$1", "v_$2", "x-$1-y", ""})})
			if r.Intn(3) == 0 {
				ru.labels = append(ru.labels, [2]string{"extra", "e"})
			}
		}
		if o.honor && r.Intn(3) == 0 {
			ru.honor = true
		}
		if o.drop && r.Intn(8) == 0 {
			ru.action = sp("drop")
		}
		if o.scale && r.Intn(4) == 0 {
			s := []float64{0.001, 1000, -1, 0, 2.5}[r.Intn(5)]
			ru.scale = &s
		}
		if o.ttl && r.Intn(3) == 0 {
			ru.ttl = int64(time.Second) * int64(1+r.Intn(4))
		}
		if o.help && r.Intn(3) == 0 {
			ru.help = pick(r, []string{"help one", "help two"})
		}
		if r.Intn(3) == 0 {
			ru.mmt = sp(pick(r, []string{"counter", "gauge", "observer", "timer"}))
		}
		if o.hist {
			switch r.Intn(6) {
			case 0:
				ru.obs = sp("histogram")
			case 1:
				ru.obs = sp("summary")
			case 2:
				ru.obs = sp("histogram")
				b := []float64{0.01, 0.1, 1, 10}
				pb := &b
				ru.ho = &pb
			case 3:
				ru.timer = sp("histogram")
			}
		}
		c.rules = append(c.rules, ru)
	}
	return c
}

var plNames = []string{"a", "b", "a.b", "a.c", "b.c", "a.b.c", "c.c", "a.a", "x.y", "b.b.b"}
var plTagKeys = []string{"tag1", "rl", "job", "k.k", "9x"}
var plTagVals = []string{"v", "w", "x y", "é", "1"}

func genWellFormedLine(r *rand.Rand, names []string, tagP float64) string {
	name := pick(r, names)
	nameSide, dog := name, ""
	if r.Float64() < tagP {
		nt := 1 + r.Intn(2)
		var eq, col []string
		for i := 0; i < nt; i++ {
			k, v := pick(r, plTagKeys), pick(r, plTagVals)
			eq = append(eq, k+"="+v)
			col = append(col, k+":"+v)
		}
		switch r.Intn(4) {
		case 0:
			nameSide = name + "#" + strings.Join(eq, ",")
		case 1:
			nameSide = name + "," + strings.Join(eq, ",")
		case 2:
			nameSide = name + "[" + strings.Join(eq, ",") + "]"
		default:
			dog = "|#" + strings.Join(col, ",")
		}
	}
	sample := func() string {
		ty := pick(r, []string{"c", "c", "g", "g", "ms", "h", "d"})
		v := pick(r, []string{"1", "2", "0.5", "100", "3", "250", "7"})
		if ty == "g" && r.Intn(3) == 0 {
			v = pick(r, []string{"+1", "-1", "+0.5", "-3"})
		}
		s := v + "|" + ty
		if r.Intn(4) == 0 {
			s += "|@" + pick(r, []string{"0.1", "0.5", "1", "0.25", "0.3"})
		}
		return s
	}
	if r.Intn(8) == 0 {
		return nameSide + ":" + pick(r, []string{"1", "2.5", "30"}) + ":" + pick(r, []string{"4", "5"}) + ":" + pick(r, []string{"6", "0.7"}) + "|" + pick(r, []string{"ms", "h", "d"}) + pick(r, []string{"", "|@0.5"}) + dog
	}
	if dog != "" || r.Intn(3) != 0 {
		return nameSide + ":" + sample() + dog
	}
	n := 2 + r.Intn(3)
	var ss []string
	for i := 0; i < n; i++ {
		ss = append(ss, sample())
	}
	return nameSide + ":" + strings.Join(ss, ":")
}

// genRefusedLine: a line with a sample the exporter REFUSES (negative / NaN / -Inf counter increment, also through a
// negative sampling rate), usually with tags of its own
func genRefusedLine(r *rand.Rand, names []string) string {
	l := genWellFormedLine(r, names, 0.9)
	for _, v := range []string{"1", "2", "0.5", "100", "3", "250", "7"} {
		l = strings.Replace(l, ":"+v+"|c", ":"+pick(r, []string{"-1", "NaN", "-0.5", "-inf"})+"|c", 1)
	}
	if !strings.Contains(l, "|c") {
		i := strings.IndexAny(l, ":")
		tagsOf := ""
		if k := strings.Index(l, "|#"); k >= 0 {
			tagsOf = l[k:]
		}
		if i > 0 {
			l = l[:i] + ":" + pick(r, []string{"-1", "NaN", "-2.5", "1|c|@-1"}) + "|c" + tagsOf
			l = strings.Replace(l, "|c|@-1|c", "|c|@-1", 1)
		}
	}
	return l
}

func init() {
	all := pipeCfgOpts{true, true, true, true, true, true, true, true, true}
	rule := "a history = a generated mapping configuration (0-4 glob/regex rules over components {a,b,c,*} with labels/$n templates, honor_labels, scale, ttl, help, drop, match_metric_type, observer_type, buckets), then lines, clock advances, sweeps, reloads and scrapes through the real Listen loop (mock clock); the scrape result (families, types, help, label sets, values as bit patterns, bucket counts, conflict/error/drop counters) is compared with the model. "

	c01 := &Component{Name: "pipe_c01", Exec: execPipe, Rule: rule + "C01 stream: 8-25 well-formed lines of all five stat types, four tag styles, sampling, multi-sample and extended-aggregation, names drawn so that rules match, one line in twelve with a counter increment the exporter refuses (negative, NaN); scrape at the end and after a third of the lines. Non-trivial: >=2 distinct series and at least one mapped line; distinct by op text."}
	c01.Gen = func(r *rand.Rand, tier string, emit Emit) {
		n := 3000
		if tier == "thorough" {
			n = 60000
		}
		for i := 0; i < n; i++ {
			h := &pipeHist{flags: "1111"}
			if r.Intn(4) == 0 {
				h.flags = fmt.Sprintf("%04b", r.Intn(16))
			}
			cfg := genPipeCfg(r, all)
			h.load(cfg)
			k := 8 + r.Intn(18)
			for j := 0; j < k; j++ {
				if r.Intn(12) == 0 { // a refused increment among the accepted samples: it leaves no trace but the error counter
					h.line(genRefusedLine(r, plNames))
				} else {
					h.line(genWellFormedLine(r, plNames, 0.4))
				}
				if r.Intn(3) == 0 {
					h.scrape()
				}
			}
			h.scrape()
			emit(h.op(), len(cfg.rules) > 0, fmt.Sprintf("rules%d", len(cfg.rules)))
		}
	}
	register(c01)
}
