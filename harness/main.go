// Command harness drives the real statsd_exporter packages (from /repo's working tree,
// via the replace directive in go.mod) with generated operations, one operation per line,
// and records the implementation's canonicalised observable result per operation.
//
//	harness gen  <component> <seed> <tier> <outprefix>   writes <outprefix>.ops .impl .stats.json
//	harness exec <component> <opsfile>                   prints the implementation's result per op line
//
// Every operation line is self-contained (stateful components put a whole history on one
// line), so any line can be replayed and shrunk on its own. Generation goes through the
// same Exec that replay uses.
package main

import (
	"bufio"
	"encoding/hex"
	"encoding/json"
	"fmt"
	"hash/fnv"
	"math/rand"
	"os"
	"sort"
	"strconv"
	"strings"
)

type Emit func(op string, nontrivial bool, tags ...string)

type Component struct {
	Name string
	// Gen produces op lines. tier is "quick" or "thorough".
	Gen func(r *rand.Rand, tier string, emit Emit)
	// Exec runs one op line against the real code and returns the canonical result.
	Exec func(op string) string
	// Rule describes generation and the non-triviality rule (for the evidence file).
	Rule string
	// Exhaustive is set by Gen when a finite space was enumerated completely.
	Exhaustive bool
}

var components = map[string]*Component{}

func register(c *Component) { components[c.Name] = c }

func enc(s string) string {
	if s == "" {
		return "-"
	}
	return hex.EncodeToString([]byte(s))
}

func dec(s string) string {
	if s == "-" {
		return ""
	}
	b, err := hex.DecodeString(s)
	if err != nil {
		panic("bad hex field " + s)
	}
	return string(b)
}

type stats struct {
	Component   string         `json:"component"`
	Evaluations int            `json:"evaluations"`
	Nontrivial  int            `json:"distinct_nontrivial"`
	Distinct    int            `json:"distinct"`
	Tags        map[string]int `json:"distribution"`
	Samples     []string       `json:"samples"`
	Rule        string         `json:"rule"`
	Exhaustive  bool           `json:"exhaustive"`
}

func main() {
	if len(os.Args) < 3 {
		fmt.Fprintln(os.Stderr, "usage: harness gen|exec <component> ...")
		os.Exit(2)
	}
	if os.Args[1] == "stress" {
		stressMain(os.Args[2:])
		return
	}
	c := components[os.Args[2]]
	if c == nil {
		var names []string
		for n := range components {
			names = append(names, n)
		}
		sort.Strings(names)
		fmt.Fprintln(os.Stderr, "unknown component; have:", strings.Join(names, " "))
		os.Exit(2)
	}
	switch os.Args[1] {
	case "gen":
		seed, _ := strconv.ParseInt(os.Args[3], 10, 64)
		tier, prefix := os.Args[4], os.Args[5]
		fo, _ := os.Create(prefix + ".ops")
		fi, _ := os.Create(prefix + ".impl")
		wo, wi := bufio.NewWriterSize(fo, 1<<20), bufio.NewWriterSize(fi, 1<<20)
		st := stats{Component: c.Name, Tags: map[string]int{}, Rule: c.Rule}
		seen := map[uint64]bool{}
		seenNT := map[uint64]bool{}
		nBlocked := 0
		r := rand.New(rand.NewSource(seed))
		sr := rand.New(rand.NewSource(seed ^ 0x5eed))
		// corpus first
		var emit Emit
		emit = func(op string, nontrivial bool, tags ...string) {
			st.Evaluations++
			h := fnv.New64a()
			h.Write([]byte(op))
			k := h.Sum64()
			if !seen[k] {
				seen[k] = true
			}
			if nontrivial && !seenNT[k] {
				seenNT[k] = true
			}
			for _, t := range tags {
				st.Tags[t]++
			}
			res := c.Exec(op)
			if strings.Contains(res, "BLOCKED") || strings.Contains(res, "stalled") {
				nBlocked++
			}
			wo.WriteString(op)
			wo.WriteByte('\n')
			wi.WriteString(res)
			wi.WriteByte('\n')
			if len(st.Samples) < 4 {
				st.Samples = append(st.Samples, op+" => "+res)
			} else if sr.Intn(st.Evaluations) < 4 {
				st.Samples[4%len(st.Samples)+sr.Intn(len(st.Samples)-4+1)%len(st.Samples)] = op + " => " + res
			}
		}
		finish := func() {
			wo.Flush()
			wi.Flush()
			st.Distinct = len(seen)
			st.Nontrivial = len(seenNT)
			st.Exhaustive = c.Exhaustive && nBlocked < 3
			for i, s := range st.Samples {
				if len(s) > 600 {
					st.Samples[i] = s[:600] + "…"
				}
			}
			b, _ := json.MarshalIndent(st, "", " ")
			os.WriteFile(prefix+".stats.json", b, 0o644)
		}
		emit0 := emit
		emit = func(op string, nontrivial bool, tags ...string) {
			emit0(op, nontrivial, tags...)
			if nBlocked >= 3 {
				// a blocked/stalled implementation costs seconds per operation: three such results are
				// enough evidence, stop the stream here
				finish()
				os.Exit(0)
			}
		}
		c.Gen(r, tier, emit)
		finish()
		return
		wo.Flush()
		wi.Flush()
		st.Distinct = len(seen)
		st.Nontrivial = len(seenNT)
		st.Exhaustive = c.Exhaustive
		for i, s := range st.Samples {
			if len(s) > 600 {
				st.Samples[i] = s[:600] + "…"
			}
		}
		b, _ := json.MarshalIndent(st, "", " ")
		os.WriteFile(prefix+".stats.json", b, 0o644)
	case "exec":
		f, err := os.Open(os.Args[3])
		if err != nil {
			panic(err)
		}
		sc := bufio.NewScanner(f)
		sc.Buffer(make([]byte, 1<<20), 1<<26)
		w := bufio.NewWriter(os.Stdout)
		for sc.Scan() {
			w.WriteString(c.Exec(sc.Text()))
			w.WriteByte('\n')
		}
		w.Flush()
	default:
		os.Exit(2)
	}
}
