package main

import (
	"fmt"
	"math/rand"
	"regexp"
	"sort"
	"strconv"
	"strings"

	"github.com/prometheus/statsd_exporter/pkg/mapper"
	"github.com/prometheus/statsd_exporter/pkg/mappercache/lru"
	"github.com/prometheus/statsd_exporter/pkg/mappercache/randomreplacement"
)

// ---------------------------------------------------------------- raw configuration (what the YAML says)

type quant struct{ q, e float64 }

type rawSO struct {
	quantiles  *[]quant
	maxAge     int64 // ns
	ageBuckets int
	bufCap     int
}

type rawRule struct {
	match, name string
	labels      [][2]string
	honor       bool
	obs, timer  *string
	matchType   *string
	help        string
	action      *string
	mmt         *string
	ttl         int64 // ns
	scale       *float64
	legacyB     *[]float64
	legacyQ     *[]quant
	so          *rawSO
	ho          **[]float64 // nil: no histogram_options; *ho == nil: histogram_options without buckets
}

type rawCfg struct {
	obs, timer, matchType *string
	ordDisabled           bool
	ttl                   int64
	buckets, legacyB      []float64
	quantiles, legacyQ    []quant
	maxAge                int64
	ageBuckets, bufCap    int
	rules                 []rawRule
}

func sp(s string) *string { return &s }

func yq(s string) string { // YAML double-quoted scalar
	var sb strings.Builder
	sb.WriteByte('"')
	for _, c := range []byte(s) {
		switch {
		case c == '"' || c == '\\':
			sb.WriteByte('\\')
			sb.WriteByte(c)
		case c < 0x20 || c == 0x7f:
			fmt.Fprintf(&sb, "\\x%02x", c)
		default:
			sb.WriteByte(c)
		}
	}
	sb.WriteByte('"')
	return sb.String()
}

func yf(f float64) string {
	s := strconv.FormatFloat(f, 'g', -1, 64)
	switch s {
	case "+Inf":
		return ".inf"
	case "-Inf":
		return "-.inf"
	case "NaN":
		return ".nan"
	}
	return s
}

func yfloats(fs []float64) string {
	var o []string
	for _, f := range fs {
		o = append(o, yf(f))
	}
	return "[" + strings.Join(o, ", ") + "]"
}

func yquants(qs []quant) string {
	var o []string
	for _, q := range qs {
		o = append(o, fmt.Sprintf("{quantile: %s, error: %s}", yf(q.q), yf(q.e)))
	}
	return "[" + strings.Join(o, ", ") + "]"
}

func ydur(ns int64) string { return fmt.Sprintf("%dns", ns) }

func (c *rawCfg) yaml() string {
	var sb strings.Builder
	sb.WriteString("defaults:\n")
	w := func(ind, k, v string) { fmt.Fprintf(&sb, "%s%s: %s\n", ind, k, v) }
	if c.obs != nil {
		w("  ", "observer_type", yq(*c.obs))
	}
	if c.timer != nil {
		w("  ", "timer_type", yq(*c.timer))
	}
	if c.matchType != nil {
		w("  ", "match_type", yq(*c.matchType))
	}
	if c.ordDisabled {
		w("  ", "glob_disable_ordering", "true")
	}
	if c.ttl != 0 {
		w("  ", "ttl", ydur(c.ttl))
	}
	if len(c.legacyB) > 0 {
		w("  ", "buckets", yfloats(c.legacyB))
	}
	if len(c.legacyQ) > 0 {
		w("  ", "quantiles", yquants(c.legacyQ))
	}
	if len(c.buckets) > 0 {
		sb.WriteString("  histogram_options:\n")
		w("    ", "buckets", yfloats(c.buckets))
	}
	if len(c.quantiles) > 0 || c.maxAge != 0 || c.ageBuckets != 0 || c.bufCap != 0 {
		sb.WriteString("  summary_options:\n")
		if len(c.quantiles) > 0 {
			w("    ", "quantiles", yquants(c.quantiles))
		}
		if c.maxAge != 0 {
			w("    ", "max_age", ydur(c.maxAge))
		}
		if c.ageBuckets != 0 {
			w("    ", "age_buckets", strconv.Itoa(c.ageBuckets))
		}
		if c.bufCap != 0 {
			w("    ", "buf_cap", strconv.Itoa(c.bufCap))
		}
	}
	if len(c.rules) == 0 {
		sb.WriteString("mappings: []\n")
		return sb.String()
	}
	sb.WriteString("mappings:\n")
	for _, r := range c.rules {
		fmt.Fprintf(&sb, "- match: %s\n", yq(r.match))
		w("  ", "name", yq(r.name))
		if len(r.labels) > 0 {
			sb.WriteString("  labels:\n")
			for _, kv := range r.labels {
				w("    ", yq(kv[0]), yq(kv[1]))
			}
		}
		if r.honor {
			w("  ", "honor_labels", "true")
		}
		if r.obs != nil {
			w("  ", "observer_type", yq(*r.obs))
		}
		if r.timer != nil {
			w("  ", "timer_type", yq(*r.timer))
		}
		if r.matchType != nil {
			w("  ", "match_type", yq(*r.matchType))
		}
		if r.help != "" {
			w("  ", "help", yq(r.help))
		}
		if r.action != nil {
			w("  ", "action", yq(*r.action))
		}
		if r.mmt != nil {
			w("  ", "match_metric_type", yq(*r.mmt))
		}
		if r.ttl != 0 {
			w("  ", "ttl", ydur(r.ttl))
		}
		if r.scale != nil {
			w("  ", "scale", yfloats([]float64{*r.scale})[1:len(yfloats([]float64{*r.scale}))-1])
		}
		if r.legacyB != nil {
			w("  ", "buckets", yfloats(*r.legacyB))
		}
		if r.legacyQ != nil {
			w("  ", "quantiles", yquants(*r.legacyQ))
		}
		if r.so != nil {
			if r.so.quantiles == nil && r.so.maxAge == 0 && r.so.ageBuckets == 0 && r.so.bufCap == 0 {
				w("  ", "summary_options", "{}")
			} else {
				sb.WriteString("  summary_options:\n")
				if r.so.quantiles != nil {
					w("    ", "quantiles", yquants(*r.so.quantiles))
				}
				if r.so.maxAge != 0 {
					w("    ", "max_age", ydur(r.so.maxAge))
				}
				if r.so.ageBuckets != 0 {
					w("    ", "age_buckets", strconv.Itoa(r.so.ageBuckets))
				}
				if r.so.bufCap != 0 {
					w("    ", "buf_cap", strconv.Itoa(r.so.bufCap))
				}
			}
		}
		if r.ho != nil {
			if *r.ho == nil {
				w("  ", "histogram_options", "{}")
			} else {
				sb.WriteString("  histogram_options:\n")
				w("    ", "buckets", yfloats(**r.ho))
			}
		}
	}
	return sb.String()
}

// ---------------------------------------------------------------- protocol encoding of a configuration

func optHex(s *string) string {
	if s == nil {
		return "~"
	}
	return enc(*s)
}

func encFloats(fs []float64) string {
	o := []string{strconv.Itoa(len(fs))}
	for _, f := range fs {
		o = append(o, bits(f))
	}
	return strings.Join(o, " ")
}

func encQuants(qs []quant) string {
	o := []string{strconv.Itoa(len(qs))}
	for _, q := range qs {
		o = append(o, bits(q.q), bits(q.e))
	}
	return strings.Join(o, " ")
}

func rxCompiles(s string) bool { return compiled(s) != nil }

func (c *rawCfg) encode() string {
	t := []string{"D", optHex(c.obs), optHex(c.timer), optHex(c.matchType), b01(c.ordDisabled), strconv.FormatInt(c.ttl, 10),
		encFloats(c.buckets), encFloats(c.legacyB), encQuants(c.quantiles), encQuants(c.legacyQ),
		strconv.FormatInt(c.maxAge, 10), strconv.Itoa(c.ageBuckets), strconv.Itoa(c.bufCap), strconv.Itoa(len(c.rules))}
	for _, r := range c.rules {
		t = append(t, "r", enc(r.match), enc(r.name), strconv.Itoa(len(r.labels)))
		for _, kv := range r.labels {
			t = append(t, enc(kv[0]), enc(kv[1]))
		}
		t = append(t, b01(r.honor), optHex(r.obs), optHex(r.timer), optHex(r.matchType), enc(r.help), optHex(r.action), optHex(r.mmt),
			strconv.FormatInt(r.ttl, 10))
		if r.scale == nil {
			t = append(t, "~")
		} else {
			t = append(t, bits(*r.scale))
		}
		if r.legacyB == nil {
			t = append(t, "~")
		} else {
			t = append(t, encFloats(*r.legacyB))
		}
		if r.legacyQ == nil {
			t = append(t, "~")
		} else {
			t = append(t, encQuants(*r.legacyQ))
		}
		if r.so == nil {
			t = append(t, "~")
		} else {
			t = append(t, "+")
			if r.so.quantiles == nil {
				t = append(t, "~")
			} else {
				t = append(t, encQuants(*r.so.quantiles))
			}
			t = append(t, strconv.FormatInt(r.so.maxAge, 10), strconv.Itoa(r.so.ageBuckets), strconv.Itoa(r.so.bufCap))
		}
		if r.ho == nil {
			t = append(t, "~")
		} else {
			t = append(t, "+")
			if *r.ho == nil {
				t = append(t, "~")
			} else {
				t = append(t, encFloats(**r.ho))
			}
		}
		t = append(t, b01(rxCompiles(r.match)))
	}
	return strings.Join(t, " ")
}

func b01(b bool) string {
	if b {
		return "1"
	}
	return "0"
}

// decoder (mirror of the Lean reader) — used by Exec so that every op line is self-contained
type rd struct {
	t []string
	i int
}

func (r *rd) tok() string {
	if r.i >= len(r.t) {
		panic("short op")
	}
	r.i++
	return r.t[r.i-1]
}
func (r *rd) int() int64  { v, err := strconv.ParseInt(r.tok(), 10, 64); must(err); return v }
func (r *rd) hex() string { return dec(r.tok()) }
func (r *rd) optHex() *string {
	t := r.tok()
	if t == "~" {
		return nil
	}
	s := dec(t)
	return &s
}
func (r *rd) float() float64 { return unbits(r.tok()) }
func (r *rd) floatsN(n int) []float64 {
	o := []float64{}
	for i := 0; i < n; i++ {
		o = append(o, r.float())
	}
	return o
}
func (r *rd) quantsN(n int) []quant {
	o := []quant{}
	for i := 0; i < n; i++ {
		q := r.float()
		e := r.float()
		o = append(o, quant{q, e})
	}
	return o
}
func (r *rd) optFloats() *[]float64 {
	t := r.tok()
	if t == "~" {
		return nil
	}
	n, _ := strconv.Atoi(t)
	fs := r.floatsN(n)
	return &fs
}
func (r *rd) optQuants() *[]quant {
	t := r.tok()
	if t == "~" {
		return nil
	}
	n, _ := strconv.Atoi(t)
	qs := r.quantsN(n)
	return &qs
}

func must(err error) {
	if err != nil {
		panic(err)
	}
}

func unbits(s string) float64 {
	if s == "nan" {
		return nan()
	}
	u, err := strconv.ParseUint(s, 16, 64)
	must(err)
	return float64frombits(u)
}

func decodeCfg(r *rd) *rawCfg {
	if r.tok() != "D" {
		panic("cfg")
	}
	c := &rawCfg{}
	c.obs, c.timer, c.matchType = r.optHex(), r.optHex(), r.optHex()
	c.ordDisabled = r.tok() == "1"
	c.ttl = r.int()
	c.buckets = r.floatsN(int(r.int()))
	c.legacyB = r.floatsN(int(r.int()))
	c.quantiles = r.quantsN(int(r.int()))
	c.legacyQ = r.quantsN(int(r.int()))
	c.maxAge = r.int()
	c.ageBuckets = int(r.int())
	c.bufCap = int(r.int())
	n := int(r.int())
	for i := 0; i < n; i++ {
		if r.tok() != "r" {
			panic("rule")
		}
		var ru rawRule
		ru.match, ru.name = r.hex(), r.hex()
		nl := int(r.int())
		for j := 0; j < nl; j++ {
			k := r.hex()
			v := r.hex()
			ru.labels = append(ru.labels, [2]string{k, v})
		}
		ru.honor = r.tok() == "1"
		ru.obs, ru.timer, ru.matchType = r.optHex(), r.optHex(), r.optHex()
		ru.help = r.hex()
		ru.action, ru.mmt = r.optHex(), r.optHex()
		ru.ttl = r.int()
		if t := r.tok(); t != "~" {
			f := unbits(t)
			ru.scale = &f
		}
		ru.legacyB = r.optFloats()
		ru.legacyQ = r.optQuants()
		if r.tok() == "+" {
			so := &rawSO{}
			so.quantiles = r.optQuants()
			so.maxAge = r.int()
			so.ageBuckets = int(r.int())
			so.bufCap = int(r.int())
			ru.so = so
		}
		if r.tok() == "+" {
			b := r.optFloats()
			ru.ho = &b
		}
		r.tok() // rxok
		c.rules = append(c.rules, ru)
	}
	return c
}

// ---------------------------------------------------------------- executing a mapper history on the real mapper

func newRealMapper(kind string, size int) *mapper.MetricMapper {
	m := &mapper.MetricMapper{Logger: nopLogger}
	switch kind {
	case "lru":
		c, _ := lru.NewMetricMapperLRUCache(nil, size)
		if c != nil {
			m.UseCache(c)
		}
	case "rr":
		c, _ := randomreplacement.NewMetricMapperRRCache(nil, size)
		if c != nil {
			m.UseCache(c)
		}
	}
	return m
}

var mtypes = []mapper.MetricType{mapper.MetricTypeCounter, mapper.MetricTypeGauge, mapper.MetricTypeObserver}

func helpIdx(h string) string {
	if strings.HasPrefix(h, "h") {
		return h[1:]
	}
	return "?" + enc(h)
}

func mappingStr(mp *mapper.MetricMapping, labels map[string]string, present bool) string {
	if mp == nil || !present {
		if mp != nil || present || labels != nil {
			return "inconsistent-miss"
		}
		return "none"
	}
	return "r" + helpIdx(mp.HelpText) + " " + enc(mp.Name) + " [" + labelsStr(labels) + "]"
}

func execMapper(op string) (res string) {
	defer func() {
		if e := recover(); e != nil {
			res = fmt.Sprintf("panic %v", e)
		}
	}()
	f := strings.Fields(op)
	if len(f) < 4 || f[0] != "mapper" || f[3] != "|" {
		return "bad-op"
	}
	size, _ := strconv.Atoi(f[2])
	m := newRealMapper(f[1], size)
	var outs, infos []string
	for _, sub := range splitToks(f[4:], ";") {
		if len(sub) == 0 {
			outs = append(outs, "bad-op")
			continue
		}
		switch sub[0] {
		case "load":
			r := &rd{t: sub[1:]}
			c := decodeCfg(r)
			if err := m.InitFromYAMLString(c.yaml()); err != nil {
				outs = append(outs, "err")
				infos = append(infos, "E")
			} else {
				outs = append(outs, "ok")
			}
		case "get":
			ty, _ := strconv.Atoi(sub[1])
			mp, labels, present := m.GetMapping(dec(sub[2]), mtypes[ty])
			outs = append(outs, mappingStr(mp, labels, present))
		default:
			outs = append(outs, "bad-op")
		}
	}
	return strings.Join(outs, " ; ") + "\t" + strings.Join(infos, ",")
}

func splitToks(t []string, sep string) [][]string {
	out := [][]string{{}}
	for _, x := range t {
		if x == sep {
			out = append(out, []string{})
		} else {
			out[len(out)-1] = append(out[len(out)-1], x)
		}
	}
	return out
}

var rxCache = map[string]*regexp.Regexp{}

func compiled(p string) *regexp.Regexp {
	re, ok := rxCache[p]
	if !ok {
		re, _ = regexp.Compile(p)
		if len(rxCache) > 100000 {
			rxCache = map[string]*regexp.Regexp{}
		}
		rxCache[p] = re
	}
	return re
}

// rx oracle for one lookup: results of every compilable regex-rule pattern of the given configs on the name
func rxOracle(pats []string, name string) string {
	var parts []string
	n := 0
	for _, p := range pats {
		re := compiled(p)
		if re == nil {
			continue
		}
		idx := re.FindStringSubmatchIndex(name)
		if len(idx) == 0 {
			continue
		}
		n++
		names := re.SubexpNames()
		parts = append(parts, enc(p), strconv.Itoa(len(names)))
		for g := range names {
			parts = append(parts, enc(names[g]))
			if idx[2*g] < 0 {
				parts = append(parts, "~")
			} else {
				parts = append(parts, enc(name[idx[2*g]:idx[2*g+1]]))
			}
		}
	}
	return strings.TrimSpace(strconv.Itoa(n) + " " + strings.Join(parts, " "))
}

func regexPatterns(cfgs ...*rawCfg) []string {
	seen := map[string]bool{}
	var out []string
	for _, c := range cfgs {
		for _, r := range c.rules {
			// a rule may be a regex rule through its own match_type or through the default
			if !seen[r.match] {
				seen[r.match] = true
				out = append(out, r.match)
			}
		}
	}
	sort.Strings(out)
	return out
}

type mapperHist struct {
	kind string
	size int
	subs []string
	cfgs []*rawCfg
}

func (h *mapperHist) load(c *rawCfg) {
	h.cfgs = append(h.cfgs, c)
	h.subs = append(h.subs, "load "+c.encode())
}
func (h *mapperHist) get(ty int, name string) {
	h.subs = append(h.subs, "get "+strconv.Itoa(ty)+" "+enc(name)+" @RX@"+enc(name))
}
func (h *mapperHist) op() string {
	pats := regexPatterns(h.cfgs...)
	subs := make([]string, len(h.subs))
	for i, s := range h.subs {
		if j := strings.Index(s, " @RX@"); j >= 0 {
			name := dec(s[j+5:])
			s = s[:j] + " " + rxOracle(pats, name)
		}
		subs[i] = s
	}
	return fmt.Sprintf("mapper %s %d | %s", h.kind, h.size, strings.Join(subs, " ; "))
}

// ---------------------------------------------------------------- generators

func globPats(alpha []string, maxLen int) []string {
	var out []string
	cur := []string{""}
	for l := 1; l <= maxLen; l++ {
		var nxt []string
		for _, c := range cur {
			for _, a := range alpha {
				if c == "" {
					nxt = append(nxt, a)
				} else {
					nxt = append(nxt, c+"."+a)
				}
			}
		}
		out = append(out, nxt...)
		cur = nxt
	}
	return out
}

func simpleRule(i int, match string, mmt string) rawRule {
	r := rawRule{match: match, name: fmt.Sprintf("r%d_$1", i), help: fmt.Sprintf("h%d", i),
		labels: [][2]string{{"c1", "$1"}, {"c2", "$2"}, {"c3", "$3-x"}}}
	if mmt != "" {
		r.mmt = sp(mmt)
	}
	return r
}

func init() {
	exec := execMapper
	tys := []string{"", "counter", "gauge"}
	P := globPats([]string{"a", "b", "*"}, 3)
	N := globPats([]string{"a", "b", "z", "*"}, 3) // "*" as a literal component of a metric name
	type variant struct{ pat, ty string }
	var variants []variant
	for _, p := range P {
		for _, t := range tys {
			variants = append(variants, variant{p, t})
		}
	}
	allLookups := func(h *mapperHist) int {
		for _, n := range N {
			for t := 0; t < 3; t++ {
				h.get(t, n)
			}
		}
		return len(N) * 3
	}
	matchesGlob := func(pat, name string) bool {
		p, n := strings.Split(pat, "."), strings.Split(name, ".")
		if len(p) != len(n) {
			return false
		}
		for i := range p {
			if p[i] != "*" && p[i] != n[i] {
				return false
			}
		}
		return true
	}
	// how many of the lookups are matched by >= 2 rules (non-trivial for C04/C12)
	ntRules := func(rs []variant) bool {
		for _, n := range N {
			c := 0
			for _, r := range rs {
				if matchesGlob(r.pat, n) {
					c++
				}
			}
			if c >= 2 {
				return true
			}
		}
		return false
	}
	mkCfg := func(rs []variant, unordered bool) *rawCfg {
		c := &rawCfg{ordDisabled: unordered}
		for i, r := range rs {
			c.rules = append(c.rules, simpleRule(i, r.pat, r.ty))
		}
		return c
	}
	exhaustive := func(unordered bool, maxRules int, perms bool, emit Emit, tag string) {
		var rec func(rs []variant)
		rec = func(rs []variant) {
			if len(rs) > 0 {
				h := &mapperHist{kind: "none"}
				h.load(mkCfg(rs, unordered))
				allLookups(h)
				emit(h.op(), ntRules(rs), fmt.Sprintf("%s_rules%d", tag, len(rs)))
			}
			if len(rs) == maxRules {
				return
			}
			for _, v := range variants {
				rec(append(rs[:len(rs):len(rs)], v))
			}
		}
		rec(nil)
	}
	randomRules := func(r *rand.Rand, n int, comps []string, maxLen int) []variant {
		var rs []variant
		for i := 0; i < n; i++ {
			l := 1 + r.Intn(maxLen)
			var fs []string
			for j := 0; j < l; j++ {
				fs = append(fs, comps[r.Intn(len(comps))])
			}
			if fs[0] != "*" && fs[0][0] >= '0' && fs[0][0] <= '9' {
				fs[0] = "a"
			}
			rs = append(rs, variant{strings.Join(fs, "."), tys[r.Intn(3)]})
		}
		return rs
	}
	randomName := func(r *rand.Rand, comps []string, maxLen int) string {
		l := 1 + r.Intn(maxLen)
		var fs []string
		for j := 0; j < l; j++ {
			fs = append(fs, comps[r.Intn(len(comps))])
		}
		return strings.Join(fs, ".")
	}
	// derive a regex rule from a glob pattern (C04 mixed mode, C11 translation)
	toRegex := func(pat string) string {
		return "^" + strings.ReplaceAll(strings.ReplaceAll(pat, ".", `\.`), "*", `([^.]*)`) + "$"
	}

	c04 := &Component{Name: "mapper_c04", Exec: exec,
		Rule: "ordered glob mode. Exhaustive: every ordered list of 1..K rules (K=2 quick, K=2 plus all 3-rule lists thorough) with patterns of length <=3 over {a,b,*} x match_metric_type in {none,counter,gauge}, each looked up with every name of length <=3 over {a,b,z} x 3 metric types (117 lookups per op line); then random lists of 3..12 rules over 5 components + '*' with lengths 1..5, a third of them with some rules turned into regex rules (translated patterns or free regexes), looked up with 40 random names; half of these histories give the mapper object a past or a future (another configuration loaded before, or a reload to a glob-less configuration afterwards), since the property speaks about the configuration in force. Non-trivial: at least one looked-up name is matched by >=2 rules; distinct by op text."}
	c04.Gen = func(r *rand.Rand, tier string, emit Emit) {
		// corpus: the two repaired AddState defects
		for _, rs := range [][]variant{{{"a.b.c", ""}, {"a.b", ""}}, {{"a.b", ""}, {"*.b", ""}, {"a.b", ""}}, {{"a.b", "counter"}, {"*.b", ""}, {"a.b", ""}}, {{"a.*", ""}, {"a.b", ""}}, {{"*.*", ""}, {"a.*", ""}, {"a.b", ""}}} {
			h := &mapperHist{kind: "none"}
			h.load(mkCfg(rs, false))
			allLookups(h)
			emit(h.op(), true, "corpus")
		}
		K := 2
		exhaustive(false, K, false, emit, "exh")
		n3 := 4000
		nr := 6000
		if tier == "thorough" {
			n3 = 120000
			nr = 60000
		}
		// 3-rule lists: sampled in quick, a much larger sample in thorough (the full space is 117^3 = 1.6M lists x 117 lookups)
		for i := 0; i < n3; i++ {
			rs := []variant{variants[r.Intn(len(variants))], variants[r.Intn(len(variants))], variants[r.Intn(len(variants))]}
			h := &mapperHist{kind: "none"}
			h.load(mkCfg(rs, false))
			allLookups(h)
			emit(h.op(), ntRules(rs), "rand_rules3")
		}
		c04.Exhaustive = true
		comps := []string{"a", "b", "c", "dd", "e-1", "*", "*"}
		ncomps := []string{"a", "b", "c", "dd", "e-1", "zz", "", "*"}
		for i := 0; i < nr; i++ {
			rs := randomRules(r, 3+r.Intn(10), comps, 5)
			cfg := mkCfg(rs, false)
			tag := "rand_glob"
			if i%3 == 0 {
				tag = "rand_mixed"
				for j := range cfg.rules {
					switch r.Intn(4) {
					case 0:
						cfg.rules[j].match = toRegex(cfg.rules[j].match)
						cfg.rules[j].matchType = sp("regex")
					case 1:
						cfg.rules[j].match = pick(r, []string{`^a\.(.*)$`, `b`, `^(?P<first>[^.]+)\.(?P<second>.*)$`, `(a|b)\.(c)?`, `^$`, `.*`, `^([a-c])\.([a-c])\.`})
						cfg.rules[j].matchType = sp("regex")
						cfg.rules[j].name = fmt.Sprintf("r%d_${1}_$2", j)
						cfg.rules[j].labels = append(cfg.rules[j].labels, [2]string{"named", "$first-${second}"})
					}
				}
				if r.Intn(4) == 0 {
					cfg.matchType = sp("regex")
					for j := range cfg.rules {
						if cfg.rules[j].matchType == nil && r.Intn(2) == 0 {
							cfg.rules[j].matchType = sp("glob")
						}
					}
				}
			}
			h := &mapperHist{kind: "none"}
			if i%4 == 1 { // the mapper object has a past: another configuration was loaded before (glob-only, regex-only, empty)
				prev := mkCfg(randomRules(r, r.Intn(4), comps, 3), false)
				if r.Intn(2) == 0 {
					for j := range prev.rules {
						prev.rules[j].match = toRegex(prev.rules[j].match)
						prev.rules[j].matchType = sp("regex")
					}
				}
				h.load(prev)
				h.get(0, randomName(r, ncomps, 3))
				tag += "_after_reload"
			}
			h.load(cfg)
			for k := 0; k < 40; k++ {
				h.get(r.Intn(3), randomName(r, ncomps, 5))
			}
			if i%4 == 2 { // ... and a future: reload to a configuration without glob rules, then the same kind of lookups
				next := mkCfg(randomRules(r, r.Intn(3), comps, 3), false)
				for j := range next.rules {
					next.rules[j].match = toRegex(next.rules[j].match)
					next.rules[j].matchType = sp("regex")
				}
				h.load(next)
				for k := 0; k < 20; k++ {
					h.get(r.Intn(3), randomName(r, ncomps, 4))
				}
				tag += "_then_reload"
			}
			emit(h.op(), true, tag)
		}
	}
	register(c04)

	c12 := &Component{Name: "mapper_c12", Exec: exec,
		Rule: "glob_disable_ordering: true. Exhaustive: every ordered list (hence every permutation of every set) of 1..2 rules over the C04 pattern/type alphabet x all 117 lookups; sampled 3-rule lists each in all 6 permutations; random lists of 3..12 rules of mixed lengths in 3 random permutations x 40 names. Non-trivial: some name matched by >=2 rules."}
	c12.Gen = func(r *rand.Rand, tier string, emit Emit) {
		for _, rs := range [][]variant{{{"a.b.*", ""}, {"*.*.c", ""}, {"*.*.*", ""}}, {{"a", ""}, {"a.b.c", ""}, {"*.b", ""}}} {
			h := &mapperHist{kind: "none"}
			h.load(mkCfg(rs, true))
			allLookups(h)
			h.get(0, "a.x.c")
			emit(h.op(), true, "corpus")
		}
		exhaustive(true, 2, true, emit, "exh")
		c12.Exhaustive = true
		n3, nr := 700, 2000
		if tier == "thorough" {
			n3, nr = 20000, 20000
		}
		perms3 := [][]int{{0, 1, 2}, {0, 2, 1}, {1, 0, 2}, {1, 2, 0}, {2, 0, 1}, {2, 1, 0}}
		for i := 0; i < n3; i++ {
			base := []variant{variants[r.Intn(len(variants))], variants[r.Intn(len(variants))], variants[r.Intn(len(variants))]}
			for _, p := range perms3 {
				rs := []variant{base[p[0]], base[p[1]], base[p[2]]}
				h := &mapperHist{kind: "none"}
				h.load(mkCfg(rs, true))
				allLookups(h)
				emit(h.op(), ntRules(rs), "rules3_allperms")
			}
		}
		comps := []string{"a", "b", "c", "dd", "*", "*"}
		ncomps := []string{"a", "b", "c", "dd", "zz", "*"}
		for i := 0; i < nr; i++ {
			rs := randomRules(r, 3+r.Intn(10), comps, 4)
			for k := 0; k < 3; k++ {
				r.Shuffle(len(rs), func(a, b int) { rs[a], rs[b] = rs[b], rs[a] })
				h := &mapperHist{kind: "none"}
				h.load(mkCfg(rs, true))
				for q := 0; q < 40; q++ {
					h.get(r.Intn(3), randomName(r, ncomps, 4))
				}
				emit(h.op(), true, "rand_perm")
			}
		}
	}
	register(c12)

	c11 := &Component{Name: "mapper_c11", Exec: exec,
		Rule: "templates: name and label templates built from literal pieces (letters, digits, _, -, space, %, :) and references $n / ${n}, n in 0..12, incl. repeated, adjacent and out-of-range ones; patterns with 0..11 wildcards; one config holds the glob rule and (as a second config in the same history) its regex translation ^lit\\.([^.]*)...$; looked up with matching names whose captured components contain unicode and punctuation; every fourth history holds 2-4 sibling glob rules sharing prefixes (the search visits other rules' branches first), each with templates incl. references beyond its own wildcard count, and then their regex translations in the same order. Non-trivial: the template has >=2 references or a reference adjacent to a literal."}
	c11.Gen = func(r *rand.Rand, tier string, emit Emit) {
		n := 8000
		if tier == "thorough" {
			n = 150000
		}
		lits := []string{"a", "x_", "-", " ", "%", ":", "9", "foo", "_", "%s", "b:", "a", "x_", "-", " ", ":", "9", "foo", "_", ".", "B", "%%", "%d", "$", "$$", "}", "{", "$x", "${ab}", "é", "×", "α", "€", "ü9"}
		capv := []string{"foo", "é", "a-b", "x y", "1", "%", "€:", "A_B", "", "q$", "{1}", "*"}
		corpus := [][2]string{{"$1$2", "*.*"}, {"100%-$1", "*"}, {"$1-$11", "*.a"}, {"${1}_x_$2", "*.*"}, {"$1a", "*"}, {"$0", "*"}, {"x", "a.*"}, {"$3", "*.*"}, {"a$", "*"}, {"${1", "*"}, {"$", "a"}, {"$$1", "*"}, {"$$", "*"}, {"$1$$2", "*.*"}, {"$1$x$2", "*.*"}, {"$1}", "*"}, {"${1}}", "*"}, {"$${1}", "*"}, {"$1é", "*"}, {"${1é}", "*"}, {"${1}é", "*"}, {"é$1-", "*"}, {"$1×$2", "*.*"}, {"$é", "*"}, {"$1α", "*"}}
		mk := func(tmpl, pat string, lblT []string) (*rawCfg, *rawCfg) {
			g := rawRule{match: pat, name: "n_" + tmpl, help: "h0"}
			for i, t := range lblT {
				g.labels = append(g.labels, [2]string{fmt.Sprintf("l%d", i), t})
			}
			x := g
			x.match = toRegex(pat)
			x.matchType = sp("regex")
			return &rawCfg{rules: []rawRule{g}}, &rawCfg{rules: []rawRule{x}}
		}
		run := func(tmpl, pat string, lblT []string, nt bool, tag string) {
			gc, xc := mk(tmpl, pat, lblT)
			h := &mapperHist{kind: "none"}
			names := []string{}
			for k := 0; k < 4; k++ {
				var fs []string
				for _, f := range strings.Split(pat, ".") {
					if f == "*" {
						fs = append(fs, pick(r, capv))
					} else {
						fs = append(fs, f)
					}
				}
				names = append(names, strings.Join(fs, "."))
			}
			h.load(gc)
			for _, nm := range names {
				h.get(r.Intn(3), nm)
			}
			h.load(xc)
			for _, nm := range names {
				h.get(r.Intn(3), nm)
			}
			emit(h.op(), nt, tag)
		}
		for _, c := range corpus {
			run("x", c[1], []string{c[0], "lit"}, true, "corpus")
			run(c[0], c[1], []string{c[0], "lit"}, true, "corpus")
		}
		for i := 0; i < n; i++ {
			nw := r.Intn(12)
			var fs []string
			total := nw + r.Intn(3)
			if total == 0 {
				total = 1
			}
			stars := map[int]bool{}
			for len(stars) < nw && len(stars) < total {
				stars[r.Intn(total)] = true
			}
			for j := 0; j < total; j++ {
				if stars[j] {
					fs = append(fs, "*")
				} else {
					fs = append(fs, pick(r, []string{"a", "b", "c1", "d-e"}))
				}
			}
			pat := strings.Join(fs, ".")
			gen := func(lits []string) (string, bool) {
				var sb strings.Builder
				refs, adj := 0, false
				k := 1 + r.Intn(5)
				prevRef := false
				for j := 0; j < k; j++ {
					if r.Intn(2) == 0 {
						idx := r.Intn(13)
						if r.Intn(2) == 0 {
							fmt.Fprintf(&sb, "$%d", idx)
						} else {
							fmt.Fprintf(&sb, "${%d}", idx)
						}
						refs++
						prevRef = true
					} else {
						sb.WriteString(pick(r, lits))
						if prevRef {
							adj = true
						}
						prevRef = false
					}
				}
				return sb.String(), refs >= 2 || adj
			}
			t1, nt1 := gen([]string{"a", "x_", "9", "foo", "_", "B"}) // metric names admit only [a-zA-Z0-9_] and references
			t2, nt2 := gen(lits)
			t3, nt3 := gen(lits)
			run(t1, pat, []string{t2, t3}, nt1 || nt2 || nt3, fmt.Sprintf("wild%d", len(stars)))
			if i%4 != 0 {
				continue
			}
			// sibling rules: 2-4 glob rules over a small alphabet that share prefixes (so the search backtracks and
			// visits branches of other rules first), each with its own templates incl. references beyond its own
			// wildcard count; then the same rules translated to regex, in the same order (ordered mode: first match)
			rs := randomRules(r, 2+r.Intn(3), []string{"a", "b", "c", "*", "*"}, 4)
			gc, xc := &rawCfg{}, &rawCfg{}
			for j, v := range rs {
				tn, _ := gen([]string{"a", "x_", "9", "_"})
				tl, _ := gen(lits)
				g := rawRule{match: v.pat, name: fmt.Sprintf("n%d_", j) + tn, help: fmt.Sprintf("h%d", j), labels: [][2]string{{"l0", tl}, {"l1", "$1-$2-$3-$4"}}}
				x := g
				x.match = toRegex(v.pat)
				x.matchType = sp("regex")
				gc.rules = append(gc.rules, g)
				xc.rules = append(xc.rules, x)
			}
			h := &mapperHist{kind: "none"}
			var names []string
			for _, v := range rs { // names that match a rule, their wildcards filled with the other rules' literals
				for k := 0; k < 3; k++ {
					var fs []string
					for _, f := range strings.Split(v.pat, ".") {
						if f == "*" {
							fs = append(fs, pick(r, []string{"a", "b", "c", "a", "b", "c", "zz", "é", "*"}))
						} else {
							fs = append(fs, f)
						}
					}
					names = append(names, strings.Join(fs, "."))
				}
			}
			names = append(names, randomName(r, []string{"a", "b", "c", "zz"}, 4))
			h.load(gc)
			for _, nm := range names {
				h.get(0, nm)
			}
			h.load(xc)
			for _, nm := range names {
				h.get(0, nm)
			}
			emit(h.op(), true, "siblings")
		}
	}
	register(c11)

	cfgPool := func(r *rand.Rand) []*rawCfg {
		comps := []string{"a", "b", "c", "*", "*"}
		var pool []*rawCfg
		for i := 0; i < 4; i++ {
			cfg := mkCfg(randomRules(r, 1+r.Intn(6), comps, 3), i == 3)
			if i == 1 { // regex only
				for j := range cfg.rules {
					cfg.rules[j].match = toRegex(cfg.rules[j].match)
					cfg.rules[j].matchType = sp("regex")
				}
			}
			if i == 2 { // mixed
				for j := range cfg.rules {
					if j%2 == 0 {
						cfg.rules[j].match = toRegex(cfg.rules[j].match)
						cfg.rules[j].matchType = sp("regex")
					}
				}
			}
			pool = append(pool, cfg)
		}
		pool = append(pool, &rawCfg{}) // empty
		return pool
	}
	invalidCfgs := func(r *rand.Rand) []*rawCfg {
		bad := func(f func(*rawRule)) *rawCfg {
			ru := simpleRule(0, "a.*", "")
			f(&ru)
			return &rawCfg{rules: []rawRule{simpleRule(1, "b.*", ""), ru}}
		}
		return []*rawCfg{
			bad(func(x *rawRule) { x.match = "a..b" }),
			bad(func(x *rawRule) { x.match = "9a.b" }),
			bad(func(x *rawRule) { x.match = "a.b*" }),
			bad(func(x *rawRule) { x.name = "" }),
			bad(func(x *rawRule) { x.name = "9x" }),
			bad(func(x *rawRule) { x.name = "a-b" }),
			bad(func(x *rawRule) { x.labels = [][2]string{{"a", "v"}} }),
			bad(func(x *rawRule) { x.labels = [][2]string{{"9ab", "v"}} }),
			bad(func(x *rawRule) { x.labels = [][2]string{{"a-b", "v"}} }),
			bad(func(x *rawRule) { x.matchType = sp("regex"); x.match = "a(b" }),
			bad(func(x *rawRule) { x.matchType = sp("fancy") }),
			bad(func(x *rawRule) { x.action = sp("explode") }),
			bad(func(x *rawRule) { x.mmt = sp("wrong") }),
			bad(func(x *rawRule) { x.obs = sp("bogus") }),
			bad(func(x *rawRule) { x.timer = sp("bogus") }),
			bad(func(x *rawRule) {
				q := []quant{{0.5, 0.1}}
				x.legacyQ = &q
				x.so = &rawSO{quantiles: &q}
			}),
			bad(func(x *rawRule) {
				b := []float64{1, 2}
				pb := &b
				x.legacyB = &b
				x.ho = &pb
				x.obs = sp("histogram")
			}),
			bad(func(x *rawRule) { x.obs = sp("histogram"); x.so = &rawSO{maxAge: 5} }),
			bad(func(x *rawRule) { b := []float64{1, 2}; pb := &b; x.obs = sp("summary"); x.ho = &pb }),
			{obs: sp("nonsense")},
			{matchType: sp("nonsense")},
		}
	}

	c13 := &Component{Name: "mapper_c13", Exec: exec,
		Rule: "cache invisibility: the same history of 30..40 (thorough up to 400) lookups over a key space of 2..12 names x 3 types, with reloads among 5 configs (glob-only, regex-only, mixed, unordered, empty) and occasional invalid reloads, is run through a mapper without cache, with the LRU cache and with the random-replacement cache, each of sizes 1,2,3,8,1000 (11 op lines per history). The model side runs the *cached* model. Non-trivial: the history contains a repeated key (hit), more distinct keys than the cache size (eviction), a miss that is looked up again (negative entry) and a reload; distinct by op text."}
	c13.Gen = func(r *rand.Rand, tier string, emit Emit) {
		nh, maxLen := 500, 40
		if tier == "thorough" {
			nh, maxLen = 6000, 400
		}
		for i := 0; i < nh; i++ {
			pool := cfgPool(r)
			inv := invalidCfgs(r)
			nnames := 2 + r.Intn(11)
			ncomps := []string{"a", "b", "c", "z", "*"}
			var names []string
			for k := 0; k < nnames; k++ {
				names = append(names, randomName(r, ncomps, 3))
			}
			type step struct {
				cfg  *rawCfg
				ty   int
				name string
			}
			var steps []step
			steps = append(steps, step{cfg: pool[r.Intn(len(pool))]})
			l := 30 + r.Intn(maxLen-29)
			reloads, repeats := 0, 0
			seen := map[string]bool{}
			for k := 0; k < l; k++ {
				switch x := r.Intn(20); {
				case x == 0:
					steps = append(steps, step{cfg: pool[r.Intn(len(pool))]})
					reloads++
				case x == 1:
					steps = append(steps, step{cfg: inv[r.Intn(len(inv))]})
				default:
					s := step{ty: r.Intn(3), name: names[r.Intn(len(names))]}
					key := fmt.Sprint(s.ty, s.name)
					if seen[key] {
						repeats++
					}
					seen[key] = true
					steps = append(steps, s)
				}
			}
			nt := reloads > 0 && repeats > 0 && len(seen) > 3
			for _, kind := range []string{"none", "lru", "rr"} {
				sizes := []int{1, 2, 3, 8, 1000}
				if kind == "none" {
					sizes = []int{0}
				}
				for _, sz := range sizes {
					h := &mapperHist{kind: kind, size: sz}
					for _, s := range steps {
						if s.cfg != nil {
							h.load(s.cfg)
						} else {
							h.get(s.ty, s.name)
						}
					}
					emit(h.op(), nt, "cache_"+kind)
				}
			}
		}
	}
	register(c13)

	c14 := &Component{Name: "mapper_c14", Exec: exec,
		Rule: "reload histories: sequences of 3..8 loads drawn from valid configs (glob-only, regex-only, mixed, unordered, empty) and 21 classes of invalid configs (bad match/name/label key, bad regex, unknown match_type/action/match_metric_type/observer_type/timer_type, legacy+new quantiles/buckets, histogram with summary_options and vice versa, bad defaults enums), each load followed by 12 lookups over a small name space; with no cache, LRU(2) and RR(2). Non-trivial: the history has a failing load after a successful one and a successful load after that."}
	c14.Gen = func(r *rand.Rand, tier string, emit Emit) {
		nh := 1500
		if tier == "thorough" {
			nh = 40000
		}
		// every invalid class once, after a valid config, with the full lookup table before and after
		{
			pool := cfgPool(r)
			for i, bad := range invalidCfgs(r) {
				h := &mapperHist{kind: []string{"none", "lru", "rr"}[i%3], size: 2}
				h.load(pool[i%4])
				allLookups(h)
				h.load(bad)
				allLookups(h)
				h.load(pool[(i+1)%4])
				allLookups(h)
				emit(h.op(), true, "invalid_class")
			}
		}
		for i := 0; i < nh; i++ {
			pool := cfgPool(r)
			inv := invalidCfgs(r)
			h := &mapperHist{kind: []string{"none", "lru", "rr"}[r.Intn(3)], size: 2}
			nl := 3 + r.Intn(6)
			okSeen, badAfterOk, okAfterBad := false, false, false
			for k := 0; k < nl; k++ {
				if r.Intn(3) == 0 {
					h.load(inv[r.Intn(len(inv))])
					if okSeen {
						badAfterOk = true
					}
				} else {
					h.load(pool[r.Intn(len(pool))])
					okSeen = true
					if badAfterOk {
						okAfterBad = true
					}
				}
				for q := 0; q < 12; q++ {
					h.get(r.Intn(3), randomName(r, []string{"a", "b", "c", "z"}, 3))
				}
			}
			emit(h.op(), okAfterBad, "reload_hist")
		}
	}
	register(c14)
}
