package main

import (
	"fmt"
	"math/rand"
	"strconv"
	"strings"
	"sync"
	"sync/atomic"

	"github.com/prometheus/statsd_exporter/pkg/mapper"
)

// mapperrace <seed> <cachekind> <size> <readers> <reloads>
// N lookup goroutines race with one reloader that alternates two configurations whose answers are disjoint
// ("gen A" / "gen B" in the rule name). Checked on the real mapper:
//   - every answer is entirely A or entirely B (name and label agree), never a mixture, and never fails;
//   - after a reload has RETURNED, the reloader's own lookups (no other reload can intervene) answer only with the
//     new configuration — nothing cached under the previous configuration survives;
//   - a failing reload in between changes nothing.
//
// Output: `ok` or the first offence. The model's answer is the theorem `racing_lookup_old_or_new`: always `ok`.
func execMapperRace(op string) string {
	f := strings.Fields(op)
	if len(f) != 6 || f[0] != "mapperrace" {
		return "bad-op"
	}
	seed, _ := strconv.ParseInt(f[1], 10, 64)
	size, _ := strconv.Atoi(f[3])
	readers, _ := strconv.Atoi(f[4])
	reloads, _ := strconv.Atoi(f[5])
	cfg := func(gen string) string {
		return fmt.Sprintf("mappings:\n- match: a.*\n  name: %s_a\n  labels:\n    gen: %s\n    cap: $1\n- match: '^b\\.(.*)$'\n  match_type: regex\n  name: %s_b\n  labels:\n    gen: %s\n- match: c.*.*\n  name: %s_c_$2\n  labels:\n    gen: %s\n", gen, gen, gen, gen, gen, gen)
	}
	bad := "mappings:\n- match: a..b\n  name: x\n"
	m := newRealMapper(f[2], size)
	must(m.InitFromYAMLString(cfg("A")))
	names := []string{"a.x", "a.y", "b.z", "c.p.q", "a.z", "b.w", "c.r.s", "none.here"}
	var offence atomic.Value
	report := func(s string) {
		offence.CompareAndSwap(nil, s)
	}
	check := func(name string, want string) {
		mp, labels, present := m.GetMapping(name, mtypes[0])
		if strings.HasPrefix(name, "none") {
			if present || mp != nil {
				report("unmapped name answered: " + name)
			}
			return
		}
		if !present || mp == nil {
			report("lookup failed for " + name)
			return
		}
		g := labels["gen"]
		if !strings.HasPrefix(mp.Name, g+"_") {
			report(fmt.Sprintf("mixture: name %s with label gen=%s for %s", mp.Name, g, name))
		}
		if want != "" && g != want {
			report(fmt.Sprintf("stale answer after reload returned: %s answered by configuration %s, want %s", name, g, want))
		}
	}
	stop := make(chan struct{})
	var wg sync.WaitGroup
	for g := 0; g < readers; g++ {
		wg.Add(1)
		go func(g int) {
			defer wg.Done()
			r := rand.New(rand.NewSource(seed + int64(g)))
			for {
				select {
				case <-stop:
					return
				default:
				}
				check(names[r.Intn(len(names))], "")
			}
		}(g)
	}
	r := rand.New(rand.NewSource(seed * 31))
	cur := "A"
	for i := 0; i < reloads && offence.Load() == nil; i++ {
		if r.Intn(5) == 0 {
			if err := m.InitFromYAMLString(bad); err == nil {
				report("invalid configuration was accepted")
			}
		} else {
			if cur == "A" {
				cur = "B"
			} else {
				cur = "A"
			}
			if err := m.InitFromYAMLString(cfg(cur)); err != nil {
				report("valid configuration rejected: " + err.Error())
			}
		}
		for _, n := range names {
			check(n, cur)
		}
	}
	close(stop)
	wg.Wait()
	if o := offence.Load(); o != nil {
		return o.(string)
	}
	_ = mapper.MetricTypeCounter
	return "ok"
}

func init() {
	c := &Component{Name: "mapperrace", Exec: execMapperRace,
		Rule: "sampled real schedules: 2-8 lookup goroutines race with one reloader alternating two configurations with disjoint answers (and occasional invalid configurations), for no cache / LRU / random replacement of sizes 1,3,1000, 200 (thorough 2000) reloads per run; every answer must be entirely old or entirely new and, once a reload has returned, only new. Non-trivial: a cache is configured; distinct by op text."}
	c.Gen = func(r *rand.Rand, tier string, emit Emit) {
		n, reloads := 12, 200
		if tier == "thorough" {
			n, reloads = 60, 2000
		}
		for i := 0; i < n; i++ {
			kind := []string{"none", "lru", "rr"}[i%3]
			emit(fmt.Sprintf("mapperrace %d %s %d %d %d", r.Int63n(1<<40), kind, []int{1, 3, 1000}[r.Intn(3)], 2+r.Intn(7), reloads), kind != "none", "kind_"+kind)
		}
	}
	register(c)
}
