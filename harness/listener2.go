package main

import (
	"fmt"
	"math/rand"
	"net"
	"strconv"
	"strings"
	"sync"
	"time"

	"github.com/prometheus/client_golang/prometheus"

	"github.com/prometheus/statsd_exporter/pkg/clock"
	"github.com/prometheus/statsd_exporter/pkg/listener"
	"github.com/prometheus/statsd_exporter/pkg/relay"
)

// tcpconc <hexpayload>…  — every payload goes over its own TCP connection, all at once; every line carries the
// connection number as a prefix ("<i>~"), so the lines the listener hands on can be sorted out per connection.
// Output: per connection the lines (in order) and the totals.
func execTCPConc(op string) string {
	f := strings.Fields(op)
	if len(f) < 2 || f[0] != "tcpconc" {
		return "bad-op"
	}
	if tcpLn == nil {
		ln, err := net.ListenTCP("tcp", &net.TCPAddr{IP: net.IPv4(127, 0, 0, 1)})
		must(err)
		tcpLn = ln
	}
	p := &recParser{}
	lines, tooLong := ctr(), ctr()
	l := &listener.StatsDTCPListener{Conn: tcpLn, EventHandler: nullHandler{}, Logger: nopLogger, LineParser: p,
		LinesReceived: lines, EventsFlushed: ctr(),
		SampleErrors:    *prometheus.NewCounterVec(prometheus.CounterOpts{Name: "se"}, []string{"reason"}),
		SamplesReceived: ctr(), TagErrors: ctr(), TagsReceived: ctr(), TCPConnections: ctr(), TCPErrors: ctr(), TCPLineTooLong: tooLong}
	n := len(f) - 1
	var wg, hw sync.WaitGroup
	accepted := make(chan *net.TCPConn, n)
	go func() {
		for i := 0; i < n; i++ {
			c, err := tcpLn.AcceptTCP()
			if err != nil {
				return
			}
			accepted <- c
		}
	}()
	for i := 0; i < n; i++ {
		wg.Add(1)
		go func(payload string) {
			defer wg.Done()
			c, err := net.DialTCP("tcp", nil, tcpLn.Addr().(*net.TCPAddr))
			if err != nil {
				return
			}
			c.SetNoDelay(true)
			b := []byte(payload)
			for len(b) > 0 {
				k := 1 + len(b)/3
				c.Write(b[:k])
				b = b[k:]
			}
			c.CloseWrite()
			// keep the socket open until the handler is done with it (an over-long line closes it from the other side)
			buf := make([]byte, 16)
			c.SetReadDeadline(time.Now().Add(5 * time.Second))
			c.Read(buf)
			c.Close()
		}(dec(f[1+i]))
	}
	for i := 0; i < n; i++ {
		select {
		case c := <-accepted:
			hw.Add(1)
			go func() { defer hw.Done(); l.HandleConn(c) }() // as Listen does: one goroutine per connection
		case <-time.After(5 * time.Second):
			return "accept-timeout"
		}
	}
	done := make(chan struct{})
	go func() { hw.Wait(); wg.Wait(); close(done) }()
	select {
	case <-done:
	case <-time.After(10 * time.Second):
		return "timeout"
	}
	per := make([][]string, n)
	other := 0
	p.mu.Lock()
	for _, ln := range p.lines {
		i, rest, ok := strings.Cut(ln, "~")
		k, err := strconv.Atoi(i)
		if !ok || err != nil || k < 0 || k >= n {
			other++
			continue
		}
		per[k] = append(per[k], rest)
	}
	p.mu.Unlock()
	var out []string
	for _, ls := range per {
		out = append(out, linesStr(ls))
	}
	return fmt.Sprintf("%s lines=%d toolong=%d other=%d", strings.Join(out, " "), ctrVal(lines), ctrVal(tooLong), other)
}

// framerelay <pktlen> <hexpayload>: one datagram through HandlePacket of a UDP listener that has a real Relay attached;
// what the parser gets and what the relay target receives (after a flush tick).
func execFrameRelay(op string) string {
	f := strings.Fields(op)
	if len(f) != 3 || f[0] != "framerelay" {
		return "bad-op"
	}
	if relayRecv == nil {
		c, err := net.ListenUDP("udp", &net.UDPAddr{IP: net.IPv4(127, 0, 0, 1)})
		must(err)
		c.SetReadBuffer(8 << 20)
		relayRecv = c
		relayTarget = c.LocalAddr().String()
	}
	pktLen, _ := strconv.Atoi(f[1])
	saved := clock.ClockInstance
	tick := make(chan time.Time)
	clock.ClockInstance = &clock.Clock{Instant: time.Unix(0, 0), TickerCh: tick}
	r, err := relay.NewRelay(nopLogger, relayTarget, uint(pktLen))
	must(err)
	doTick := func() bool {
		select {
		case tick <- time.Unix(0, 0):
			return true
		case <-time.After(time.Second):
			return false
		}
	}
	doTick()
	clock.ClockInstance = saved
	defer r.VerifCloseConn()
	p0, _, _ := relayCounters()
	p := &recParser{}
	lines := ctr()
	l := &listener.StatsDUDPListener{EventHandler: nullHandler{}, Logger: nopLogger, LineParser: p, Relay: r,
		UDPPackets: ctr(), UDPPacketDrops: ctr(), LinesReceived: lines, EventsFlushed: ctr(),
		SampleErrors:    *prometheus.NewCounterVec(prometheus.CounterOpts{Name: "se"}, []string{"reason"}),
		SamplesReceived: ctr(), TagErrors: ctr(), TagsReceived: ctr(), UdpPacketQueue: make(chan []byte, 1)}
	done := make(chan struct{})
	go func() { l.HandlePacket([]byte(dec(f[2]))); close(done) }()
	select {
	case <-done:
	case <-time.After(3 * time.Second):
		return "BLOCKED in HandlePacket"
	}
	for i := 0; r.VerifPending() > 0; i++ {
		if i > 10000 {
			return "BLOCKED: relay channel not drained"
		}
		time.Sleep(100 * time.Microsecond)
	}
	if !doTick() || !doTick() {
		return "BLOCKED: relay sender takes no tick"
	}
	p1, _, _ := relayCounters()
	var dgrams []string
	buf := make([]byte, 65536)
	for i := 0; i < p1-p0; i++ {
		relayRecv.SetReadDeadline(time.Now().Add(500 * time.Millisecond))
		n, _, err := relayRecv.ReadFromUDP(buf)
		if err != nil {
			dgrams = append(dgrams, "MISSING")
			break
		}
		dgrams = append(dgrams, enc(string(buf[:n])))
	}
	return fmt.Sprintf("%s lines=%d relayed=D[%s]", linesStr(p.lines), ctrVal(lines), strings.Join(dgrams, " "))
}

func init() {
	tc := &Component{Name: "tcpconc", Exec: execTCPConc,
		Rule: "2-8 concurrent TCP connections into HandleConn goroutines of one listener, each sending its own payload of lines prefixed with the connection number (some payloads end unterminated, one in four contains an over-long line); per connection the lines handed on must be exactly that connection's lines in order (an over-long line ends only its own connection), the line and too-long counters must add up. Non-trivial: >=3 connections of which one has an over-long line; distinct by op text."}
	tc.Gen = func(r *rand.Rand, tier string, emit Emit) {
		n := 150
		if tier == "thorough" {
			n = 3000
		}
		for i := 0; i < n; i++ {
			k := 2 + r.Intn(7)
			var ps []string
			long := false
			for c := 0; c < k; c++ {
				var sb strings.Builder
				m := 1 + r.Intn(12)
				for j := 0; j < m; j++ {
					if r.Intn(4*m) == 0 {
						sb.WriteString(fmt.Sprintf("%d~%s:1|c", c, strings.Repeat("x", 4090+r.Intn(12))))
						long = true
					} else {
						sb.WriteString(fmt.Sprintf("%d~m%d:%d|c", c, j, j))
						if r.Intn(6) == 0 {
							sb.WriteString("\r")
						}
					}
					if j < m-1 || r.Intn(2) == 0 {
						sb.WriteString("\n")
					}
				}
				ps = append(ps, enc(sb.String()))
			}
			emit("tcpconc "+strings.Join(ps, " "), k >= 3 && long, fmt.Sprintf("conns%d", k))
		}
	}
	register(tc)

	fr := &Component{Name: "framerelay", Exec: execFrameRelay,
		Rule: "one datagram through HandlePacket of a UDP listener with a real Relay attached (mock ticker, loopback target): the lines handed to the parser and, after a flush tick, the datagrams the relay target received; payloads of 1-30 lines incl. empty lines and lines around the relay's packet length. Every non-empty line that fits must be relayed exactly once, in order, newline-terminated. Non-trivial: the payload has an empty line or a line longer than the packet length, and >=3 lines; distinct by op text."}
	fr.Gen = func(r *rand.Rand, tier string, emit Emit) {
		n := 500
		if tier == "thorough" {
			n = 10000
		}
		for i := 0; i < n; i++ {
			pl := []int{8, 16, 40, 200, 1400}[r.Intn(5)]
			m := 1 + r.Intn(30)
			var ls []string
			nt := false
			for j := 0; j < m; j++ {
				switch r.Intn(8) {
				case 0:
					ls = append(ls, "")
					nt = true
				case 1:
					ls = append(ls, strings.Repeat("y", pl-2+r.Intn(4)))
					nt = true
				default:
					ls = append(ls, fmt.Sprintf("m%d:1|c", j))
				}
			}
			emit(fmt.Sprintf("framerelay %d %s", pl, enc(strings.Join(ls, "\n"))), nt && m >= 3, fmt.Sprintf("pkt%d", pl))
		}
	}
	register(fr)
}
