package main

import (
	"fmt"
	"math/rand"
	"strings"
	"unicode"
	"unicode/utf8"
)

// namerune <hex>: what regexp.Expand's name scanner does with the rune at the head of the bytes
// (utf8.DecodeRuneInString, then unicode.IsLetter || unicode.IsDigit || '_'): "<width>:<0|1>".
// Ties SE.nameRune (the Latin table of the regexp.Expand model) to Go's unicode tables.
func execNameRune(op string) string {
	f := strings.Fields(op)
	if len(f) != 2 || f[0] != "namerune" {
		return "bad-op"
	}
	s := dec(f[1])
	if s == "" {
		return "0:0"
	}
	r, w := utf8.DecodeRuneInString(s)
	b := 0
	if unicode.IsLetter(r) || unicode.IsDigit(r) || r == '_' {
		b = 1
	}
	return fmt.Sprintf("%d:%d", w, b)
}

func init() {
	c := &Component{Name: "namerune", Exec: execNameRune,
		Rule: "EXHAUSTIVE over the empty string, all 256 one-byte and all 65536 two-byte strings (this covers every rune the model's table speaks about, U+0000..U+027F, and every invalid one- or two-byte encoding), plus sampled three- and four-byte strings (the model answers 'not modelled' for lead bytes 0xCA..0xF4). Non-trivial: the head is not ASCII; distinct by op text."}
	c.Gen = func(r *rand.Rand, tier string, emit Emit) {
		emit("namerune -", false, "empty")
		for a := 0; a < 256; a++ {
			emit("namerune "+enc(string([]byte{byte(a)})), a >= 0x80, "one-byte")
		}
		for a := 0; a < 256; a++ {
			for b := 0; b < 256; b++ {
				emit("namerune "+enc(string([]byte{byte(a), byte(b)})), a >= 0x80, "two-byte")
			}
		}
		n := 2000
		if tier == "thorough" {
			n = 200000
		}
		for i := 0; i < n; i++ {
			k := 3 + r.Intn(2)
			bs := make([]byte, k)
			for j := range bs {
				bs[j] = byte(r.Intn(256))
			}
			if r.Intn(2) == 0 {
				bs[0] = byte(0xC2 + r.Intn(0x33))
				for j := 1; j < k; j++ {
					bs[j] = byte(0x80 + r.Intn(0x40))
				}
			}
			emit("namerune "+enc(string(bs)), bs[0] >= 0x80, "longer")
		}
	}
	c.Exhaustive = true
	register(c)
}
