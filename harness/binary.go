package main

import (
	"fmt"
	"io"
	"math"
	"math/rand"
	"net"
	"net/http"
	"os"
	"os/exec"
	"path/filepath"
	"sort"
	"strings"
	"time"

	dto "github.com/prometheus/client_model/go"
	"github.com/prometheus/common/expfmt"
)

// The `binary_*` streams drive the BUILT statsd_exporter binary (main.go: flag parsing, listener / event-queue /
// exporter / HTTP wiring) with the same `pipe …` op lines the in-process pipeline streams use, over a real UDP socket
// and the real /metrics endpoint. Only `load` (once, at start-up), `line` and `scrape` are supported.

func freePort(network string) int {
	if network == "udp" {
		c, err := net.ListenUDP("udp", &net.UDPAddr{IP: net.IPv4(127, 0, 0, 1)})
		must(err)
		defer c.Close()
		return c.LocalAddr().(*net.UDPAddr).Port
	}
	l, err := net.Listen("tcp", "127.0.0.1:0")
	must(err)
	defer l.Close()
	return l.Addr().(*net.TCPAddr).Port
}

var exporterBin = os.Getenv("VERIF_EXPORTER_BIN")

func onoff(flag string, on byte) string {
	if on == '1' {
		return "--" + flag
	}
	return "--no-" + flag
}

func internalFamily(n string) bool {
	for _, p := range []string{"go_", "process_", "statsd_exporter_", "promhttp_", "statsd_metric_mapper_", "zz_q_"} {
		if strings.HasPrefix(n, p) {
			return true
		}
	}
	return false
}

func scrapeHTTP(url string) (map[string]*dto.MetricFamily, int, error) {
	resp, err := http.Get(url)
	if err != nil {
		return nil, 0, err
	}
	defer resp.Body.Close()
	if resp.StatusCode != 200 {
		io.Copy(io.Discard, resp.Body)
		return nil, resp.StatusCode, nil
	}
	var p expfmt.TextParser
	mfs, err := p.TextToMetricFamilies(resp.Body)
	return mfs, 200, err
}

func sumFamily(mf *dto.MetricFamily, label, value string) int {
	if mf == nil {
		return 0
	}
	n := 0.0
	for _, m := range mf.Metric {
		ok := label == ""
		for _, l := range m.Label {
			if l.GetName() == label && l.GetValue() == value {
				ok = true
			}
		}
		if ok {
			n += m.GetCounter().GetValue()
		}
	}
	return int(n)
}

func execBinary(op string) (res string) {
	if exporterBin == "" {
		return "no-binary (VERIF_EXPORTER_BIN unset)"
	}
	f := strings.Fields(op)
	if len(f) < 5 || f[0] != "pipe" || f[2] != "0" || f[3] != "|" {
		return "bad-op"
	}
	flags := f[1]
	subs := splitToks(f[4:], ";")
	if len(subs) == 0 || subs[0][0] != "load" {
		return "bad-op"
	}
	cfg := decodeCfg(&rd{t: subs[0][1:]})
	dir, err := os.MkdirTemp("", "vhbin")
	must(err)
	defer os.RemoveAll(dir)
	cfgFile := filepath.Join(dir, "mapping.yml")
	must(os.WriteFile(cfgFile, []byte(cfg.yaml()), 0o644))
	web, udp := freePort("tcp"), freePort("udp")
	cmd := exec.Command(exporterBin,
		fmt.Sprintf("--web.listen-address=127.0.0.1:%d", web),
		fmt.Sprintf("--statsd.listen-udp=127.0.0.1:%d", udp),
		"--statsd.listen-tcp=", "--statsd.mapping-config="+cfgFile,
		"--statsd.event-flush-interval=2ms", "--log.level=error",
		onoff("statsd.parse-dogstatsd-tags", flags[0]), onoff("statsd.parse-influxdb-tags", flags[1]),
		onoff("statsd.parse-librato-tags", flags[2]), onoff("statsd.parse-signalfx-tags", flags[3]))
	cmd.Stdout, cmd.Stderr = io.Discard, io.Discard
	if err := cmd.Start(); err != nil {
		return "start-failed " + err.Error()
	}
	exited := make(chan error, 1)
	go func() { exited <- cmd.Wait() }()
	defer func() {
		cmd.Process.Kill()
		<-exited
	}()
	url := fmt.Sprintf("http://127.0.0.1:%d/metrics", web)
	ready := false
	for i := 0; i < 400 && !ready; i++ {
		select {
		case <-exited:
			exited <- nil
			return "err ; binary exited at start-up"
		default:
		}
		if _, code, err := scrapeHTTP(url); err == nil && code == 200 {
			ready = true
		} else {
			time.Sleep(5 * time.Millisecond)
		}
	}
	if !ready {
		return "not-ready"
	}
	conn, err := net.DialUDP("udp", nil, &net.UDPAddr{IP: net.IPv4(127, 0, 0, 1), Port: udp})
	must(err)
	defer conn.Close()
	outs := []string{"ok"}
	sent := 0
	for _, sub := range subs[1:] {
		switch sub[0] {
		case "line":
			l := dec(sub[1])
			if _, huge := pfDict(l); huge {
				outs = append(outs, "skip-huge")
				continue
			}
			if len(l) > 0 {
				conn.Write([]byte(l))
			}
			outs = append(outs, "ok")
		case "scrape":
			sent++
			sentinel := fmt.Sprintf("zz.q.q.q.q.q.%d:1|c", sent)
			want := fmt.Sprintf("zz_q_q_q_q_q_%d", sent)
			conn.Write([]byte(sentinel))
			var mfs map[string]*dto.MetricFamily
			code := 0
			for i := 0; i < 600; i++ {
				m, c, err := scrapeHTTP(url)
				code = c
				if err == nil && c == 200 {
					if _, ok := m[want]; ok {
						mfs = m
						break
					}
				}
				if c == 500 {
					// the sentinel cannot be seen on a failing endpoint: give the pipeline time, then accept the 500
					time.Sleep(30 * time.Millisecond)
					_, c2, _ := scrapeHTTP(url)
					if c2 == 500 {
						break
					}
				}
				time.Sleep(2 * time.Millisecond)
			}
			if mfs == nil {
				if code == 500 {
					outs = append(outs, "gather-error")
				} else {
					outs = append(outs, fmt.Sprintf("no-sentinel(code %d)", code))
				}
				continue
			}
			var fs []string
			for name, mf := range mfs {
				if internalFamily(name) {
					continue
				}
				if mf.GetType() == dto.MetricType_HISTOGRAM {
					for _, m := range mf.Metric {
						var bs []*dto.Bucket
						for _, b := range m.Histogram.Bucket {
							if !math.IsInf(b.GetUpperBound(), 1) {
								bs = append(bs, b)
							}
						}
						m.Histogram.Bucket = bs
					}
				}
				fs = append(fs, famString(mf))
			}
			sort.Strings(fs)
			outs = append(outs, fmt.Sprintf("S conf=%d err=%d drop=%d F %s",
				sumFamily(mfs["statsd_exporter_events_conflict_total"], "", ""),
				sumFamily(mfs["statsd_exporter_events_error_total"], "", ""),
				sumFamily(mfs["statsd_exporter_events_actions_total"], "action", "drop"),
				strings.Join(fs, " ")))
		default:
			outs = append(outs, "bad-op")
		}
	}
	return strings.Join(outs, " ; ") + "\t"
}

func init() {
	c := &Component{Name: "binary", Exec: execBinary,
		Rule: "the BUILT binary (main.go wiring: flags, UDP listener, packet queue, event queue, exporter, /metrics) started per history with a generated mapping file and one of the 16 parser-flag combinations; 4-10 well-formed lines in all tag syntaxes sent over a real UDP socket, scraped over HTTP (a sentinel line marks the end of processing), the parsed exposition compared with the pipeline model's scrape. Non-trivial: the history has tags or >= 2 distinct series; distinct by op text."}
	c.Gen = func(r *rand.Rand, tier string, emit Emit) {
		n := 48
		if tier == "thorough" {
			n = 800
		}
		opts := pipeCfgOpts{regex: true, drop: true, scale: true, ttl: false, help: false, hist: true, honor: true, labels: true, unordered: true}
		for i := 0; i < n; i++ {
			h := &pipeHist{flags: fmt.Sprintf("%04b", i%16)}
			h.load(genPipeCfg(r, opts))
			k := 4 + r.Intn(7)
			for j := 0; j < k; j++ {
				h.line(genWellFormedLine(r, plNames, 0.6))
			}
			h.scrape()
			emit(h.op(), true, "flags_"+h.flags)
		}
	}
	register(c)
}
