package main

import (
	"fmt"
	"hash/fnv"
	"io"
	"math"
	"math/rand"
	"net"
	"net/http"
	"os"
	"os/exec"
	"path/filepath"
	"sort"
	"strings"
	"time"

	dto "github.com/prometheus/client_model/go"
	"github.com/prometheus/common/expfmt"
)

// The `binary_*` streams drive the BUILT statsd_exporter binary (main.go: flag parsing, listener / event-queue /
// exporter / HTTP wiring) with the same `pipe …` op lines the in-process pipeline streams use, over a real UDP socket
// and the real /metrics endpoint. Only `load` (once, at start-up), `line` and `scrape` are supported.

func freePort(network string) int {
	if network == "udp" {
		c, err := net.ListenUDP("udp", &net.UDPAddr{IP: net.IPv4(127, 0, 0, 1)})
		must(err)
		defer c.Close()
		return c.LocalAddr().(*net.UDPAddr).Port
	}
	l, err := net.Listen("tcp", "127.0.0.1:0")
	must(err)
	defer l.Close()
	return l.Addr().(*net.TCPAddr).Port
}

var exporterBin = os.Getenv("VERIF_EXPORTER_BIN")

func onoff(flag string, on byte) string {
	if on == '1' {
		return "--" + flag
	}
	return "--no-" + flag
}

func internalFamily(n string) bool {
	for _, p := range []string{"go_", "process_", "statsd_exporter_", "promhttp_", "statsd_metric_mapper_", "zz_q_"} {
		if strings.HasPrefix(n, p) {
			return true
		}
	}
	return false
}

func scrapeHTTP(url string) (map[string]*dto.MetricFamily, int, error) {
	resp, err := http.Get(url)
	if err != nil {
		return nil, 0, err
	}
	defer resp.Body.Close()
	if resp.StatusCode != 200 {
		io.Copy(io.Discard, resp.Body)
		return nil, resp.StatusCode, nil
	}
	var p expfmt.TextParser
	mfs, err := p.TextToMetricFamilies(resp.Body)
	return mfs, 200, err
}

func sumFamily(mf *dto.MetricFamily, label, value string) int {
	if mf == nil {
		return 0
	}
	n := 0.0
	for _, m := range mf.Metric {
		ok := label == ""
		for _, l := range m.Label {
			if l.GetName() == label && l.GetValue() == value {
				ok = true
			}
		}
		if ok {
			n += m.GetCounter().GetValue()
		}
	}
	return int(n)
}

func execBinary(op string) (res string) {
	if exporterBin == "" {
		return "no-binary (VERIF_EXPORTER_BIN unset)"
	}
	f := strings.Fields(op)
	if len(f) < 5 || f[0] != "pipe" || f[2] != "0" || f[3] != "|" {
		return "bad-op"
	}
	flags := f[1]
	subs := splitToks(f[4:], ";")
	if len(subs) == 0 || subs[0][0] != "load" {
		return "bad-op"
	}
	cfg := decodeCfg(&rd{t: subs[0][1:]})
	dir, err := os.MkdirTemp("", "vhbin")
	must(err)
	defer os.RemoveAll(dir)
	cfgFile := filepath.Join(dir, "mapping.yml")
	must(os.WriteFile(cfgFile, []byte(cfg.yaml()), 0o644))
	web, udp, tcpPort := freePort("tcp"), freePort("udp"), freePort("tcp")
	// transport of this history: UDP datagrams or one TCP connection (derived from the op text, so replay is deterministic)
	hh := fnv.New32a()
	hh.Write([]byte(op))
	useTCP := hh.Sum32()%2 == 1
	cmd := exec.Command(exporterBin,
		fmt.Sprintf("--web.listen-address=127.0.0.1:%d", web),
		fmt.Sprintf("--statsd.listen-udp=127.0.0.1:%d", udp),
		fmt.Sprintf("--statsd.listen-tcp=127.0.0.1:%d", tcpPort), "--statsd.mapping-config="+cfgFile,
		"--statsd.event-flush-interval=2ms", "--log.level=error", "--web.enable-lifecycle",
		onoff("statsd.parse-dogstatsd-tags", flags[0]), onoff("statsd.parse-influxdb-tags", flags[1]),
		onoff("statsd.parse-librato-tags", flags[2]), onoff("statsd.parse-signalfx-tags", flags[3]))
	cmd.Stdout, cmd.Stderr = io.Discard, io.Discard
	if err := cmd.Start(); err != nil {
		return "start-failed " + err.Error()
	}
	exited := make(chan error, 1)
	go func() { exited <- cmd.Wait() }()
	defer func() {
		cmd.Process.Kill()
		<-exited
	}()
	url := fmt.Sprintf("http://127.0.0.1:%d/metrics", web)
	ready := false
	for i := 0; i < 400 && !ready; i++ {
		select {
		case <-exited:
			exited <- nil
			return "err ; binary exited at start-up"
		default:
		}
		if _, code, err := scrapeHTTP(url); err == nil && code == 200 {
			ready = true
		} else {
			time.Sleep(5 * time.Millisecond)
		}
	}
	if !ready {
		return "not-ready"
	}
	var conn net.Conn
	if useTCP {
		conn, err = net.DialTCP("tcp", nil, &net.TCPAddr{IP: net.IPv4(127, 0, 0, 1), Port: tcpPort})
	} else {
		conn, err = net.DialUDP("udp", nil, &net.UDPAddr{IP: net.IPv4(127, 0, 0, 1), Port: udp})
	}
	must(err)
	defer conn.Close()
	sendLine := func(l string) {
		if useTCP {
			conn.Write([]byte(l + "\n"))
		} else {
			conn.Write([]byte(l))
		}
	}
	outs := []string{"ok"}
	sent := 0
	// waits until everything sent so far has been processed: a sentinel line must show up on the endpoint
	syncPipeline := func() (map[string]*dto.MetricFamily, int) {
		sent++
		sendLine(fmt.Sprintf("zz.q.q.q.q.q.%d:1|c", sent))
		want := fmt.Sprintf("zz_q_q_q_q_q_%d", sent)
		code := 0
		for i := 0; i < 600; i++ {
			m, c, err := scrapeHTTP(url)
			code = c
			if err == nil && c == 200 {
				if _, ok := m[want]; ok {
					return m, 200
				}
			}
			if c == 500 {
				time.Sleep(30 * time.Millisecond)
				if _, c2, _ := scrapeHTTP(url); c2 == 500 {
					return nil, 500
				}
			}
			time.Sleep(2 * time.Millisecond)
		}
		return nil, code
	}
	for _, sub := range subs[1:] {
		switch sub[0] {
		case "line":
			l := dec(sub[1])
			if _, huge := pfDict(l); huge {
				outs = append(outs, "skip-huge")
				continue
			}
			if len(l) > 0 {
				sendLine(l)
			}
			outs = append(outs, "ok")
		case "load": // reload through the lifecycle endpoint (the handler runs reloadConfig synchronously)
			syncPipeline()
			c2 := decodeCfg(&rd{t: sub[1:]})
			must(os.WriteFile(cfgFile, []byte(c2.yaml()), 0o644))
			before, _, _ := scrapeHTTP(url)
			resp, err := http.Post(fmt.Sprintf("http://127.0.0.1:%d/-/reload", web), "text/plain", nil)
			if err != nil {
				outs = append(outs, "reload-failed")
				continue
			}
			io.Copy(io.Discard, resp.Body)
			resp.Body.Close()
			after, _, _ := scrapeHTTP(url)
			f0 := sumFamily(before["statsd_exporter_config_reloads_total"], "outcome", "failure")
			f1 := sumFamily(after["statsd_exporter_config_reloads_total"], "outcome", "failure")
			if f1 > f0 {
				outs = append(outs, "err")
			} else {
				outs = append(outs, "ok")
			}
		case "scrape":
			mfs, code := syncPipeline()
			if mfs == nil {
				if code == 500 {
					outs = append(outs, "gather-error")
				} else {
					outs = append(outs, fmt.Sprintf("no-sentinel(code %d)", code))
				}
				continue
			}
			var fs []string
			for name, mf := range mfs {
				if internalFamily(name) {
					continue
				}
				if mf.GetType() == dto.MetricType_HISTOGRAM {
					for _, m := range mf.Metric {
						var bs []*dto.Bucket
						for _, b := range m.Histogram.Bucket {
							if !math.IsInf(b.GetUpperBound(), 1) {
								bs = append(bs, b)
							}
						}
						m.Histogram.Bucket = bs
					}
				}
				fs = append(fs, famString(mf))
			}
			sort.Strings(fs)
			outs = append(outs, fmt.Sprintf("S conf=%d err=%d drop=%d F %s",
				sumFamily(mfs["statsd_exporter_events_conflict_total"], "", ""),
				sumFamily(mfs["statsd_exporter_events_error_total"], "", ""),
				sumFamily(mfs["statsd_exporter_events_actions_total"], "action", "drop"),
				strings.Join(fs, " ")))
		default:
			outs = append(outs, "bad-op")
		}
	}
	return strings.Join(outs, " ; ") + "\t"
}

func init() {
	c := &Component{Name: "binary", Exec: execBinary,
		Rule: "the BUILT binary (main.go wiring: flags, UDP listener, packet queue, event queue, exporter, /metrics) started per history with a generated mapping file and one of the 16 parser-flag combinations; 4-10 well-formed lines in all tag syntaxes sent over a real UDP socket or one TCP connection (alternating), occasional valid/invalid reloads through /-/reload, scraped over HTTP (a sentinel line marks the end of processing), the parsed exposition compared with the pipeline model's scrape. Non-trivial: the history has tags or >= 2 distinct series; distinct by op text."}
	c.Gen = func(r *rand.Rand, tier string, emit Emit) {
		n := 48
		if tier == "thorough" {
			n = 800
		}
		opts := pipeCfgOpts{regex: true, drop: true, scale: true, ttl: false, help: false, hist: true, honor: true, labels: true, unordered: true}
		for i := 0; i < n; i++ {
			h := &pipeHist{flags: fmt.Sprintf("%04b", i%16)}
			h.load(genPipeCfg(r, opts))
			k := 4 + r.Intn(7)
			for j := 0; j < k; j++ {
				h.line(genWellFormedLine(r, plNames, 0.6))
				if r.Intn(12) == 0 { // reload (valid or invalid) through /-/reload
					if r.Intn(3) == 0 {
						h.load(&rawCfg{rules: []rawRule{{match: "a..b", name: "x"}}})
					} else {
						h.load(genPipeCfg(r, opts))
					}
				}
			}
			h.scrape()
			emit(h.op(), true, "flags_"+h.flags)
		}
	}
	register(c)
}

// checkconfig: `mapper none 0 | load <cfg>` ops answered by running the binary with --check-config (exit status)
func execCheckConfig(op string) string {
	if exporterBin == "" {
		return "no-binary"
	}
	f := strings.Fields(op)
	if len(f) < 6 || f[0] != "mapper" || f[3] != "|" || f[4] != "load" {
		return "bad-op"
	}
	cfg := decodeCfg(&rd{t: f[5:]})
	dir, err := os.MkdirTemp("", "vhchk")
	must(err)
	defer os.RemoveAll(dir)
	cfgFile := filepath.Join(dir, "mapping.yml")
	must(os.WriteFile(cfgFile, []byte(cfg.yaml()), 0o644))
	cmd := exec.Command(exporterBin, "--check-config", "--statsd.mapping-config="+cfgFile, "--log.level=error",
		"--web.listen-address=127.0.0.1:0", "--statsd.listen-udp=", "--statsd.listen-tcp=")
	cmd.Stdout, cmd.Stderr = io.Discard, io.Discard
	done := make(chan error, 1)
	must(cmd.Start())
	go func() { done <- cmd.Wait() }()
	select {
	case err := <-done:
		if err != nil {
			return "err\t"
		}
		return "ok\t"
	case <-time.After(10 * time.Second):
		cmd.Process.Kill()
		return "check-config did not exit"
	}
}

func init() {
	c := &Component{Name: "checkconfig", Exec: execCheckConfig,
		Rule: "configurations of the C19 option grammar (valid, boundary and invalid values for every option) written to a mapping file and checked with the built binary's --check-config; exit status 0/1 compared with the model's loader. Non-trivial: the configuration deviates from the valid baseline; distinct by op text."}
	c.Gen = func(r *rand.Rand, tier string, emit Emit) {
		n := 60
		if tier == "thorough" {
			n = 1500
		}
		for i := 0; i < n; i++ {
			cfg, nt := genC19Cfg(r)
			h := &mapperHist{kind: "none"}
			h.load(cfg)
			emit(h.op(), nt, "cfg")
		}
	}
	register(c)
}
