package main

import (
	"fmt"
	"hash/fnv"
	"io"
	"math"
	"math/rand"
	"net"
	"net/http"
	"os"
	"os/exec"
	"path/filepath"
	"regexp"
	"sort"
	"strconv"
	"strings"
	"syscall"
	"time"

	dto "github.com/prometheus/client_model/go"
	"github.com/prometheus/common/expfmt"
)

// The `binary_*` streams drive the BUILT statsd_exporter binary (main.go: flag parsing, listener / event-queue /
// exporter / HTTP wiring) with the same `pipe …` op lines the in-process pipeline streams use, over a real UDP socket
// and the real /metrics endpoint. Only `load` (once, at start-up), `line` and `scrape` are supported.

func freePort(network string) int {
	if network == "udp" {
		c, err := net.ListenUDP("udp", &net.UDPAddr{IP: net.IPv4(127, 0, 0, 1)})
		must(err)
		defer c.Close()
		return c.LocalAddr().(*net.UDPAddr).Port
	}
	l, err := net.Listen("tcp", "127.0.0.1:0")
	must(err)
	defer l.Close()
	return l.Addr().(*net.TCPAddr).Port
}

var exporterBin = os.Getenv("VERIF_EXPORTER_BIN")

func onoff(flag string, on byte) string {
	if on == '1' {
		return "--" + flag
	}
	return "--no-" + flag
}

// the exporter's own families: the metric names its source declares (read from /repo when the harness starts) and
// whatever the endpoint exposes before the first line is sent (Go runtime, process, promhttp, build info); a statsd
// metric that merely starts like one of them (statsd_exporter_events_total___v) is not internal
var internalNames = func() map[string]bool {
	m := map[string]bool{}
	re := regexp.MustCompile(`Name:\s*"([a-z_]+)"`)
	filepath.Walk("/repo", func(p string, fi os.FileInfo, err error) error {
		if err != nil || fi.IsDir() || !strings.HasSuffix(p, ".go") || strings.HasSuffix(p, "_test.go") || strings.Contains(p, "/vendor/") {
			return nil
		}
		b, _ := os.ReadFile(p)
		for _, g := range re.FindAllStringSubmatch(string(b), -1) {
			m[g[1]] = true
		}
		return nil
	})
	return m
}()

func internalFamily(n string) bool {
	return internalNames[n] || strings.HasPrefix(n, "zz_q_")
}

func scrapeHTTP(url string) (map[string]*dto.MetricFamily, int, error) {
	resp, err := http.Get(url)
	if err != nil {
		return nil, 0, err
	}
	defer resp.Body.Close()
	if resp.StatusCode != 200 {
		io.Copy(io.Discard, resp.Body)
		return nil, resp.StatusCode, nil
	}
	var p expfmt.TextParser
	mfs, err := p.TextToMetricFamilies(resp.Body)
	return mfs, 200, err
}

func sumFamily(mf *dto.MetricFamily, label, value string) int {
	if mf == nil {
		return 0
	}
	n := 0.0
	for _, m := range mf.Metric {
		ok := label == ""
		for _, l := range m.Label {
			if l.GetName() == label && l.GetValue() == value {
				ok = true
			}
		}
		if ok {
			n += m.GetCounter().GetValue()
		}
	}
	return int(n)
}

func execBinary(op string) (res string) {
	if exporterBin == "" {
		return "no-binary (VERIF_EXPORTER_BIN unset)"
	}
	f := strings.Fields(op)
	if len(f) < 5 || f[0] != "pipe" {
		return "bad-op"
	}
	flags := f[1]
	// pre-registered families named in the op (C03 stream) are the binary's own collectors: nothing to set up
	npre, _ := strconv.Atoi(f[2])
	if len(f) < 4+3*npre || f[3+3*npre] != "|" {
		return "bad-op"
	}
	subs := splitToks(f[4+3*npre:], ";")
	if len(subs) == 0 || subs[0][0] != "load" {
		return "bad-op"
	}
	cfg := decodeCfg(&rd{t: subs[0][1:]})
	dir, err := os.MkdirTemp("", "vhbin")
	must(err)
	defer os.RemoveAll(dir)
	cfgFile := filepath.Join(dir, "mapping.yml")
	must(os.WriteFile(cfgFile, []byte(cfg.yaml()), 0o644))
	web, udp, tcpPort := freePort("tcp"), freePort("udp"), freePort("tcp")
	// deployment of this history, derived from the op text so that a replay is deterministic: transport (UDP datagrams,
	// one TCP connection, Unixgram datagrams), reload trigger (POST /-/reload or SIGHUP), mapping cache flags, flush
	// threshold, and (one history in four) a relay target on loopback
	hh := fnv.New32a()
	hh.Write([]byte(op))
	hv := hh.Sum32()
	transport := []string{"udp", "tcp", "unixgram"}[hv%3]
	useTCP := transport == "tcp"
	sighup := (hv>>4)%2 == 1
	cacheFlags := [][]string{{}, {"--statsd.cache-type=random", "--statsd.cache-size=2"}, {"--statsd.cache-size=1"}, {"--statsd.cache-type=random"}}[(hv>>5)%4]
	flushThr := []string{"1000", "1", "3"}[(hv>>7)%3]
	withRelay := (hv>>9)%4 == 0
	unixPath := filepath.Join(dir, "s.sock")
	args := []string{
		fmt.Sprintf("--web.listen-address=127.0.0.1:%d", web),
		fmt.Sprintf("--statsd.listen-udp=127.0.0.1:%d", udp),
		fmt.Sprintf("--statsd.listen-tcp=127.0.0.1:%d", tcpPort), "--statsd.mapping-config=" + cfgFile,
		"--statsd.listen-unixgram=" + unixPath,
		"--statsd.event-flush-interval=2ms", "--statsd.event-flush-threshold=" + flushThr, "--log.level=error", "--web.enable-lifecycle",
		onoff("statsd.parse-dogstatsd-tags", flags[0]), onoff("statsd.parse-influxdb-tags", flags[1]),
		onoff("statsd.parse-librato-tags", flags[2]), onoff("statsd.parse-signalfx-tags", flags[3])}
	args = append(args, cacheFlags...)
	var relayConn *net.UDPConn
	if withRelay {
		relayConn, err = net.ListenUDP("udp", &net.UDPAddr{IP: net.IPv4(127, 0, 0, 1)})
		must(err)
		relayConn.SetReadBuffer(4 << 20)
		defer relayConn.Close()
		args = append(args, "--statsd.relay.address="+relayConn.LocalAddr().String())
	}
	cmd := exec.Command(exporterBin, args...)
	cmd.Stdout, cmd.Stderr = io.Discard, io.Discard
	if err := cmd.Start(); err != nil {
		return "start-failed " + err.Error()
	}
	exited := make(chan error, 1)
	go func() { exited <- cmd.Wait() }()
	defer func() {
		cmd.Process.Kill()
		<-exited
	}()
	url := fmt.Sprintf("http://127.0.0.1:%d/metrics", web)
	ready := false
	for i := 0; i < 400 && !ready; i++ {
		select {
		case <-exited:
			exited <- nil
			return "err ; binary exited at start-up"
		default:
		}
		if m0, code, err := scrapeHTTP(url); err == nil && code == 200 {
			ready = true
			for n := range m0 {
				internalNames[n] = true
			}
		} else {
			time.Sleep(5 * time.Millisecond)
		}
	}
	if !ready {
		return "not-ready"
	}
	var conn net.Conn
	switch transport {
	case "tcp":
		conn, err = net.DialTCP("tcp", nil, &net.TCPAddr{IP: net.IPv4(127, 0, 0, 1), Port: tcpPort})
	case "udp":
		conn, err = net.DialUDP("udp", nil, &net.UDPAddr{IP: net.IPv4(127, 0, 0, 1), Port: udp})
	default:
		conn, err = net.DialUnix("unixgram", nil, &net.UnixAddr{Name: unixPath, Net: "unixgram"})
	}
	if err != nil {
		return "dial-failed " + err.Error()
	}
	defer conn.Close()
	var relayWant strings.Builder
	sendLine := func(l string) {
		relayWant.WriteString(l + "\n")
		if useTCP {
			conn.Write([]byte(l + "\n"))
		} else {
			conn.Write([]byte(l))
		}
	}
	outs := []string{"ok"}
	sent := 0
	// waits until everything sent so far has been processed: a sentinel line must show up on the endpoint
	syncPipeline := func() (map[string]*dto.MetricFamily, int) {
		sent++
		sendLine(fmt.Sprintf("zz.q.q.q.q.q.%d:1|c", sent))
		want := fmt.Sprintf("zz_q_q_q_q_q_%d", sent)
		code := 0
		for i := 0; i < 600; i++ {
			m, c, err := scrapeHTTP(url)
			code = c
			if err == nil && c == 200 {
				if _, ok := m[want]; ok {
					return m, 200
				}
			}
			if c == 500 {
				time.Sleep(30 * time.Millisecond)
				if _, c2, _ := scrapeHTTP(url); c2 == 500 {
					return nil, 500
				}
			}
			time.Sleep(2 * time.Millisecond)
		}
		return nil, code
	}
	for _, sub := range subs[1:] {
		switch sub[0] {
		case "line":
			l := dec(sub[1])
			if _, huge := pfDict(l); huge {
				outs = append(outs, "skip-huge")
				continue
			}
			if len(l) > 0 {
				sendLine(l)
			}
			outs = append(outs, "ok")
		case "load": // reload through the lifecycle endpoint (the handler runs reloadConfig synchronously)
			syncPipeline()
			c2 := decodeCfg(&rd{t: sub[1:]})
			must(os.WriteFile(cfgFile, []byte(c2.yaml()), 0o644))
			before, _, _ := scrapeHTTP(url)
			total := func(m map[string]*dto.MetricFamily) int {
				return sumFamily(m["statsd_exporter_config_reloads_total"], "", "")
			}
			var after map[string]*dto.MetricFamily
			if sighup { // the signal handler reloads asynchronously: wait for the reload counter to move
				cmd.Process.Signal(syscall.SIGHUP)
				for i := 0; i < 1500; i++ {
					after, _, _ = scrapeHTTP(url)
					if total(after) > total(before) {
						break
					}
					time.Sleep(2 * time.Millisecond)
				}
				if total(after) <= total(before) {
					outs = append(outs, "reload-failed (no reaction to SIGHUP)")
					continue
				}
			} else {
				resp, err := http.Post(fmt.Sprintf("http://127.0.0.1:%d/-/reload", web), "text/plain", nil)
				if err != nil {
					outs = append(outs, "reload-failed")
					continue
				}
				io.Copy(io.Discard, resp.Body)
				resp.Body.Close()
				after, _, _ = scrapeHTTP(url)
			}
			f0 := sumFamily(before["statsd_exporter_config_reloads_total"], "outcome", "failure")
			f1 := sumFamily(after["statsd_exporter_config_reloads_total"], "outcome", "failure")
			if f1 > f0 {
				outs = append(outs, "err")
			} else {
				outs = append(outs, "ok")
			}
		case "scrape":
			mfs, code := syncPipeline()
			if mfs == nil {
				if code == 500 {
					outs = append(outs, "gather-error")
				} else {
					outs = append(outs, fmt.Sprintf("no-sentinel(code %d)", code))
				}
				continue
			}
			var fs []string
			for name, mf := range mfs {
				if internalFamily(name) {
					continue
				}
				if mf.GetType() == dto.MetricType_HISTOGRAM {
					for _, m := range mf.Metric {
						var bs []*dto.Bucket
						for _, b := range m.Histogram.Bucket {
							if !math.IsInf(b.GetUpperBound(), 1) {
								bs = append(bs, b)
							}
						}
						m.Histogram.Bucket = bs
					}
				}
				fs = append(fs, famString(mf))
			}
			sort.Strings(fs)
			outs = append(outs, fmt.Sprintf("S conf=%d err=%d drop=%d F %s",
				sumFamily(mfs["statsd_exporter_events_conflict_total"], "", ""),
				sumFamily(mfs["statsd_exporter_events_error_total"], "", ""),
				sumFamily(mfs["statsd_exporter_events_actions_total"], "action", "drop"),
				strings.Join(fs, " ")))
		default:
			outs = append(outs, "bad-op")
		}
	}
	if withRelay {
		// SE.Props.C18.datagram_lines_relayed_once / C17: at the latest one tick (1s) after the last line the target has
		// received every non-empty line once, in order, newline-terminated
		want := relayWant.String()
		var got strings.Builder
		buf := make([]byte, 65536)
		deadline := time.Now().Add(2500 * time.Millisecond)
		for got.Len() < len(want) && time.Now().Before(deadline) {
			relayConn.SetReadDeadline(time.Now().Add(300 * time.Millisecond))
			n, _, err := relayConn.ReadFromUDP(buf)
			if err == nil {
				got.Write(buf[:n])
			}
		}
		if got.String() != want {
			outs = append(outs, fmt.Sprintf("relay-mismatch got=%s want=%s", enc(got.String()), enc(want)))
		}
	}
	return strings.Join(outs, " ; ") + fmt.Sprintf("\ttransport=%s sighup=%v relay=%v cache=%v thr=%s", transport, sighup, withRelay, cacheFlags, flushThr)
}

func init() {
	c := &Component{Name: "binary", Exec: execBinary,
		Rule: "the BUILT binary (main.go wiring: flags, UDP listener, packet queue, event queue, exporter, /metrics) started per history with a generated mapping file and one of the 16 parser-flag combinations; 4-10 well-formed lines in all tag syntaxes sent over a real UDP socket, one TCP connection or a Unixgram socket (by hash of the op), mapping cache flags (lru/random, sizes 1, 2, 1000), flush thresholds 1/3/1000, occasional valid/invalid reloads through /-/reload or SIGHUP, one history in four with --statsd.relay.address pointing at a loopback socket whose received bytes must be exactly the lines sent, scraped over HTTP (a sentinel line marks the end of processing), the parsed exposition compared with the pipeline model's scrape. Non-trivial: the history has tags or >= 2 distinct series; distinct by op text."}
	c.Gen = func(r *rand.Rand, tier string, emit Emit) {
		n := 48
		if tier == "thorough" {
			n = 800
		}
		opts := pipeCfgOpts{regex: true, drop: true, scale: true, ttl: false, help: false, hist: true, honor: true, labels: true, unordered: true}
		for i := 0; i < n; i++ {
			h := &pipeHist{flags: fmt.Sprintf("%04b", i%16)}
			h.load(genPipeCfg(r, opts))
			k := 4 + r.Intn(7)
			for j := 0; j < k; j++ {
				h.line(genWellFormedLine(r, plNames, 0.6))
				if r.Intn(12) == 0 { // reload (valid or invalid) through /-/reload
					if r.Intn(3) == 0 {
						h.load(&rawCfg{rules: []rawRule{{match: "a..b", name: "x"}}})
					} else {
						h.load(genPipeCfg(r, opts))
					}
				}
			}
			h.scrape()
			emit(h.op(), true, "flags_"+h.flags)
		}
	}
	register(c)
}

func init() {
	c := &Component{Name: "binary_c03", Exec: execBinary,
		Rule: "the C03 histories (names with _sum/_count/_bucket suffixes, names of the exporter's own collectors statsd_exporter_events_total and go_goroutines, all-tag names, reserved and exotic tag keys, two rules giving one name different help) sent to the BUILT binary over UDP/TCP/Unixgram and scraped over HTTP after every line: the text exposition is parsed back (expfmt) and compared with the model's scrape; HTTP 500 must coincide with the model's Gather failure. Non-trivial as in pipe_c03; distinct by op text."}
	c.Gen = func(r *rand.Rand, tier string, emit Emit) {
		n := 40
		if tier == "thorough" {
			n = 600
		}
		genC03(r, n, emit, false) // no mock clock in the built binary
	}
	register(c)
}

// checkconfig: `mapper none 0 | load <cfg>` ops answered by running the binary with --check-config (exit status)
func execCheckConfig(op string) string {
	if exporterBin == "" {
		return "no-binary"
	}
	f := strings.Fields(op)
	if len(f) < 6 || f[0] != "mapper" || f[3] != "|" || f[4] != "load" {
		return "bad-op"
	}
	cfg := decodeCfg(&rd{t: f[5:]})
	dir, err := os.MkdirTemp("", "vhchk")
	must(err)
	defer os.RemoveAll(dir)
	cfgFile := filepath.Join(dir, "mapping.yml")
	must(os.WriteFile(cfgFile, []byte(cfg.yaml()), 0o644))
	cmd := exec.Command(exporterBin, "--check-config", "--statsd.mapping-config="+cfgFile, "--log.level=error",
		"--web.listen-address=127.0.0.1:0", "--statsd.listen-udp=", "--statsd.listen-tcp=")
	cmd.Stdout, cmd.Stderr = io.Discard, io.Discard
	done := make(chan error, 1)
	must(cmd.Start())
	go func() { done <- cmd.Wait() }()
	select {
	case err := <-done:
		if err != nil {
			return "err\t"
		}
		return "ok\t"
	case <-time.After(10 * time.Second):
		cmd.Process.Kill()
		return "check-config did not exit"
	}
}

func init() {
	c := &Component{Name: "checkconfig", Exec: execCheckConfig,
		Rule: "configurations of the C19 option grammar (valid, boundary and invalid values for every option) written to a mapping file and checked with the built binary's --check-config; exit status 0/1 compared with the model's loader. Non-trivial: the configuration deviates from the valid baseline; distinct by op text."}
	c.Gen = func(r *rand.Rand, tier string, emit Emit) {
		n := 60
		if tier == "thorough" {
			n = 1500
		}
		for i := 0; i < n; i++ {
			cfg, nt := genC19Cfg(r)
			h := &mapperHist{kind: "none"}
			h.load(cfg)
			emit(h.op(), nt, "cfg")
		}
	}
	register(c)
}
