package main

import (
	"fmt"
	"io"
	"math/rand"
	"net"
	"os"
	"os/exec"
	"path/filepath"
	"strings"
	"time"

	dto "github.com/prometheus/client_model/go"
)

// binframe <udp|tcp|unixgram> <hexpayload> [pfdict…]: one payload into a freshly started BUILT exporter (all tag
// syntaxes on, no mapping file) over the given transport; then the listener/parser accounting counters of main.go's
// wiring, read from /metrics once they are stable:
//
//	lines toolong udp unixgram tcpconn samples errs tagerrs tags
func mergedDict(payload string) string {
	seen := map[string]bool{}
	var out []string
	for _, l := range strings.Split(payload, "\n") {
		for _, v := range []string{l, strings.TrimSuffix(l, "\r")} {
			d, _ := pfDict(v)
			for _, t := range strings.Fields(d) {
				if !seen[t] {
					seen[t] = true
					out = append(out, t)
				}
			}
		}
	}
	return strings.Join(out, " ")
}

func execBinFrame(op string) string {
	if exporterBin == "" {
		return "no-binary (VERIF_EXPORTER_BIN unset)"
	}
	f := strings.Fields(op)
	if len(f) < 3 || f[0] != "binframe" {
		return "bad-op"
	}
	transport, payload := f[1], dec(f[2])
	dir, err := os.MkdirTemp("", "vhbf")
	must(err)
	defer os.RemoveAll(dir)
	web, udp, tcpPort := freePort("tcp"), freePort("udp"), freePort("tcp")
	unixPath := filepath.Join(dir, "s.sock")
	cmd := exec.Command(exporterBin,
		fmt.Sprintf("--web.listen-address=127.0.0.1:%d", web),
		fmt.Sprintf("--statsd.listen-udp=127.0.0.1:%d", udp),
		fmt.Sprintf("--statsd.listen-tcp=127.0.0.1:%d", tcpPort),
		"--statsd.listen-unixgram="+unixPath, "--statsd.event-flush-interval=2ms", "--log.level=error")
	cmd.Stdout, cmd.Stderr = io.Discard, io.Discard
	if err := cmd.Start(); err != nil {
		return "start-failed " + err.Error()
	}
	exited := make(chan error, 1)
	go func() { exited <- cmd.Wait() }()
	defer func() {
		cmd.Process.Kill()
		<-exited
	}()
	url := fmt.Sprintf("http://127.0.0.1:%d/metrics", web)
	ready := false
	for i := 0; i < 400 && !ready; i++ {
		select {
		case <-exited:
			exited <- nil
			return "binary exited at start-up"
		default:
		}
		if _, code, err := scrapeHTTP(url); err == nil && code == 200 {
			ready = true
		} else {
			time.Sleep(5 * time.Millisecond)
		}
	}
	if !ready {
		return "not-ready"
	}
	switch transport {
	case "udp":
		c, err := net.DialUDP("udp", nil, &net.UDPAddr{IP: net.IPv4(127, 0, 0, 1), Port: udp})
		must(err)
		c.Write([]byte(payload))
		c.Close()
	case "unixgram":
		c, err := net.DialUnix("unixgram", nil, &net.UnixAddr{Name: unixPath, Net: "unixgram"})
		if err != nil {
			return "dial-failed " + err.Error()
		}
		c.Write([]byte(payload))
		c.Close()
	case "tcp":
		c, err := net.DialTCP("tcp", nil, &net.TCPAddr{IP: net.IPv4(127, 0, 0, 1), Port: tcpPort})
		must(err)
		b := []byte(payload)
		for len(b) > 0 {
			k := 1 + len(b)/2
			c.Write(b[:k])
			b = b[k:]
		}
		c.CloseWrite()
		buf := make([]byte, 8)
		c.SetReadDeadline(time.Now().Add(3 * time.Second))
		c.Read(buf) // returns when the exporter has closed its side: the handler is done
		c.Close()
	default:
		return "bad-op"
	}
	read := func() (string, bool) {
		m, code, err := scrapeHTTP(url)
		if err != nil || code != 200 {
			return "", false
		}
		g := func(n string) int { return sumFamily(m[n], "", "") }
		arrived := g("statsd_exporter_udp_packets_total") + g("statsd_exporter_unixgram_packets_total") + g("statsd_exporter_tcp_connections_total")
		return fmt.Sprintf("lines=%d toolong=%d udp=%d unixgram=%d tcpconn=%d samples=%d errs=%d tagerrs=%d tags=%d",
			g("statsd_exporter_lines_total"), g("statsd_exporter_tcp_too_long_lines_total"), g("statsd_exporter_udp_packets_total"),
			g("statsd_exporter_unixgram_packets_total"), g("statsd_exporter_tcp_connections_total"), g("statsd_exporter_samples_total"),
			g("statsd_exporter_sample_errors_total"), g("statsd_exporter_tag_errors_total"), g("statsd_exporter_tags_total")), arrived > 0
	}
	prev, stable := "", 0
	for i := 0; i < 300; i++ {
		cur, arrived := read()
		if arrived && cur == prev {
			stable++
			if stable >= 3 {
				return cur + "\t"
			}
		} else {
			stable = 0
		}
		prev = cur
		time.Sleep(8 * time.Millisecond)
	}
	return "unstable " + prev
}

var _ = dto.MetricType_COUNTER

func init() {
	c := &Component{Name: "binframe", Exec: execBinFrame,
		Rule: "one payload per freshly started BUILT exporter over UDP, Unixgram or TCP (two writes, then half-close): 1-12 lines from well-formed samples, malformed samples, tags in all four syntaxes (incl. malformed tags), empty lines, CRLF endings, an unterminated last line, and for TCP occasionally a line longer than 4096 bytes; compared: the accounting counters that main.go wires into the listeners and the parser (lines, tcp_too_long_lines, udp/unixgram packets, tcp connections, samples, sample errors, tag errors, tags). Non-trivial: the payload has >=2 lines and an empty, malformed or over-long one; distinct by op text."}
	c.Gen = func(r *rand.Rand, tier string, emit Emit) {
		n := 60
		if tier == "thorough" {
			n = 1500
		}
		good := []string{"a.b:1|c", "x:2.5|g", "t:3|ms|@0.5", "h:1|h|#k:v,k2:v2", "i,k=v:1|c", "l#k=v:4|g", "s[k=v]:1|c", "m:1|c:2|g", "e:1:2:3|ms", "d:7|d"}
		bad := []string{"nocolon", ":1|c", "a:1", "a:x|c", "a:1|q", "a:1|c|@zz", "a:1|c|#k", "a,k:1|c", "a:1|c|#:v", "a:1|s", "a:1|c||"}
		for i := 0; i < n; i++ {
			tr := []string{"udp", "tcp", "unixgram"}[i%3]
			k := 1 + r.Intn(12)
			var ls []string
			nt := false
			for j := 0; j < k; j++ {
				switch r.Intn(10) {
				case 0:
					ls = append(ls, "")
					nt = true
				case 1, 2:
					ls = append(ls, pick(r, bad))
					nt = true
				case 3:
					if tr == "tcp" && r.Intn(3) == 0 {
						ls = append(ls, "long:"+strings.Repeat("1", 4090+r.Intn(12))+"|c")
						nt = true
					} else {
						ls = append(ls, pick(r, good)+"\r")
					}
				default:
					ls = append(ls, pick(r, good))
				}
			}
			payload := strings.Join(ls, "\n")
			if r.Intn(2) == 0 {
				payload += "\n"
			}
			op := "binframe " + tr + " " + enc(payload)
			if d := mergedDict(payload); d != "" {
				op += " " + d
			}
			emit(op, nt && k >= 2, tr)
		}
	}
	register(c)
}
