package main

import (
	"fmt"
	"math/rand"
)

// `harness gen witness …` is not a stream: it prints the short witness op lines that
// known_findings.json records (so they are built with the same encoders as the streams).
func init() {
	register(&Component{Name: "witness", Exec: func(string) string { return "" }, Gen: func(_ *rand.Rand, _ string, emit Emit) {
		one := func(id string, unordered bool, rules [][2]string, ty int, name string, mod func(*rawCfg)) {
			c := &rawCfg{ordDisabled: unordered}
			for i, r := range rules {
				c.rules = append(c.rules, simpleRule(i, r[0], r[1]))
			}
			if mod != nil {
				mod(c)
			}
			h := &mapperHist{kind: "none"}
			h.load(c)
			h.get(ty, name)
			fmt.Printf("%s\t%s\n", id, h.op())
		}
		tmpl := func(id, pat, t string, name string) {
			one(id, false, [][2]string{{pat, ""}}, 0, name, func(c *rawCfg) {
				c.rules[0].name = "x"
				c.rules[0].labels = [][2]string{{"lbl", t}}
			})
		}
		one("backtracking_disabled_incomplete", true, [][2]string{{"a.b.*", ""}, {"*.*.c", ""}, {"*.*.*", ""}}, 0, "a.x.c", nil)
		one("fsm_prefix_rule_lost", false, [][2]string{{"a.b.c", ""}, {"a.b", ""}}, 0, "a.b", nil)
		one("fsm_duplicate_pattern_priority", false, [][2]string{{"a.b", ""}, {"*.b", ""}, {"a.b", ""}}, 0, "a.b", nil)
		tmpl("template_dollar_in_reference", "*.*", "$1$2", "foo.bar")
		tmpl("template_has_percent", "*", "50%s-$1", "foo")
		tmpl("template_ref_prefix_of_ref", "*.a", "$1-$11", "foo.a")
		tmpl("template_brace_mismatch", "*", "${1", "foo")
		tmpl("template_leading_zero_ref", "*", "$01", "foo")
		tmpl("literal_star_component", "a.*.*", "$1-$2", "a.*.y")
	}})
}
