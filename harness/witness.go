package main

import (
	"fmt"
	"math/rand"
	"time"
)

// `harness gen witness …` is not a stream: it prints the short witness op lines that
// known_findings.json records (so they are built with the same encoders as the streams).
func init() {
	register(&Component{Name: "witness", Exec: func(string) string { return "" }, Gen: func(_ *rand.Rand, _ string, emit Emit) {
		one := func(id string, unordered bool, rules [][2]string, ty int, name string, mod func(*rawCfg)) {
			c := &rawCfg{ordDisabled: unordered}
			for i, r := range rules {
				c.rules = append(c.rules, simpleRule(i, r[0], r[1]))
			}
			if mod != nil {
				mod(c)
			}
			h := &mapperHist{kind: "none"}
			h.load(c)
			h.get(ty, name)
			fmt.Printf("%s\t%s\n", id, h.op())
		}
		tmpl := func(id, pat, t string, name string) {
			one(id, false, [][2]string{{pat, ""}}, 0, name, func(c *rawCfg) {
				c.rules[0].name = "x"
				c.rules[0].labels = [][2]string{{"lbl", t}}
			})
		}
		one("backtracking_disabled_incomplete", true, [][2]string{{"a.b.*", ""}, {"*.*.c", ""}, {"*.*.*", ""}}, 0, "a.x.c", nil)
		one("fsm_prefix_rule_lost", false, [][2]string{{"a.b.c", ""}, {"a.b", ""}}, 0, "a.b", nil)
		one("fsm_duplicate_pattern_priority", false, [][2]string{{"a.b", ""}, {"*.b", ""}, {"a.b", ""}}, 0, "a.b", nil)
		tmpl("template_dollar_in_reference", "*.*", "$1$2", "foo.bar")
		tmpl("template_dollar_escape", "*", "$$1", "foo")
		one("template_unicode_letter_after_ref", false, [][2]string{{`^([^.]*)$`, ""}}, 0, "foo", func(c *rawCfg) {
			c.rules[0].matchType = sp("regex")
			c.rules[0].name = "x"
			c.rules[0].labels = [][2]string{{"lbl", "$1é"}}
		})
		tmpl("template_has_percent", "*", "50%s-$1", "foo")
		tmpl("template_ref_prefix_of_ref", "*.a", "$1-$11", "foo.a")
		tmpl("template_brace_mismatch", "*", "${1", "foo")
		tmpl("template_leading_zero_ref", "*", "$01", "foo")
		tmpl("literal_star_component", "a.*.*", "$1-$2", "a.*.y")
	}})
}

func init() {
	prev := components["witness"].Gen
	components["witness"].Gen = func(r *rand.Rand, tier string, emit Emit) {
		prev(r, tier, emit)
		pipe := func(id string, cfg *rawCfg, pres []preFam, lines ...string) {
			h := &pipeHist{flags: "1111", pres: pres}
			h.load(cfg)
			for _, l := range lines {
				if l == "@scrape" {
					h.scrape()
				} else {
					h.line(l)
				}
			}
			h.scrape()
			fmt.Printf("%s\t%s\n", id, h.op())
		}
		hist := rawRule{match: "hist.*", name: "$1", obs: sp("histogram"), mmt: sp("observer")}
		pipe("help_mismatch", &rawCfg{rules: []rawRule{{match: "h1", name: "hh", help: "help one"}, {match: "h2", name: "hh", help: "help two"}}}, nil, "h1:1|c", "h2:1|c|#t:v")
		pipe("observer_companion_unchecked", &rawCfg{}, nil, "x:1|ms", "x_sum:1|ms")
		pipe("observer_companion_unchecked_hist", &rawCfg{rules: []rawRule{hist}}, nil, "hist.x_bucket:1|h", "hist.x:1|h")
		pipe("preregistered_name_collision", &rawCfg{}, []preFam{{"statsd_exporter_events_total", "c", "The total number of StatsD events seen."}}, "statsd_exporter_events_total:1|c")
		pipe("counter_uint64_wrap", &rawCfg{}, nil, "c:1e19|c", "@scrape", "c:1e19|c")
		pipe("sampling_multiplicity_unbounded", &rawCfg{}, nil, "x:1|ms|@0.0001")
		b := []float64{1, 0.5}
		pb := &b
		pipe("loader_accepts_unsorted_buckets", &rawCfg{rules: []rawRule{{match: "t.*", name: "m", obs: sp("histogram"), ho: &pb}}}, nil, "t.a:1|ms")
		pipe("loader_accepts_negative_max_age", &rawCfg{maxAge: -1000000000}, nil, "t.a:1|ms")
		pipe("loader_accepts_tiny_max_age", &rawCfg{maxAge: 4}, nil, "t.a:1|ms")
		q := []quant{{1.5, 0.1}}
		pipe("loader_accepts_bad_quantile", &rawCfg{quantiles: q}, nil, "t.a:1|ms")
	}
}

func init() {
	prev := components["witness"].Gen
	components["witness"].Gen = func(r *rand.Rand, tier string, emit Emit) {
		prev(r, tier, emit)
		pipe := func(id string, cfg *rawCfg, f func(h *pipeHist)) {
			h := &pipeHist{flags: "1111"}
			h.load(cfg)
			f(h)
			h.scrape()
			fmt.Printf("%s\t%s\n", id, h.op())
		}
		lines := func(ls ...string) func(h *pipeHist) {
			return func(h *pipeHist) {
				for _, l := range ls {
					h.line(l)
				}
			}
		}
		hist := rawRule{match: "hist.*", name: "$1", obs: sp("histogram"), mmt: sp("observer")}
		pipe("fixed_signalfx_brackets", &rawCfg{}, lines("a]b[:1|c", "ok:1|c"))
		pipe("fixed_reserved_label_quantile", &rawCfg{}, lines("foo:1|ms|#quantile:0.5", "ok:1|c"))
		pipe("fixed_reserved_label_le", &rawCfg{rules: []rawRule{hist}}, lines("hist.foo:1|ms|#le:0.5", "ok:1|c"))
		pipe("fixed_reserved_label_prefix", &rawCfg{}, lines("foo:1|c|#__x:1", "ok:1|c"))
		pipe("fixed_empty_metric_name", &rawCfg{}, lines(",a=b:1|c", "[a=b]:1|c", "ok:1|c"))
		pipe("fixed_label_leak", &rawCfg{rules: []rawRule{{match: "a.b", name: "a_b", mmt: sp("counter"), labels: [][2]string{{"rule", "one"}}}}}, lines("a.b:1|c:2|g"))
		pipe("fixed_counter_nan", &rawCfg{}, lines("foo:NaN|c", "bar:inf|c|@inf", "baz:1|c|@nan", "foo:1|c"))
		mk := func(ttl time.Duration) *rawCfg {
			return &rawCfg{rules: []rawRule{{match: "a.*", name: "a_$1", ttl: int64(ttl)}}}
		}
		pipe("fixed_ttl_not_refreshed", mk(100*time.Second), func(h *pipeHist) {
			h.line("a.x:1|c")
			h.load(mk(time.Second))
			h.adv(time.Second)
			h.line("a.x:1|c")
			h.adv(9 * time.Second)
			h.sweep()
		})
		pipe("fixed_expiry_leak", &rawCfg{ttl: int64(time.Second), rules: []rawRule{{match: "a.b", name: "a_b", mmt: sp("gauge"), labels: [][2]string{{"rule", "one"}}}}}, func(h *pipeHist) {
			h.line("a.b#t=v:1|c:2|g")
			h.adv(3 * time.Second)
			h.sweep()
		})
	}
}
