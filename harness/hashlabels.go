package main

import (
	"fmt"
	"math/rand"
	"strconv"
	"strings"

	"github.com/prometheus/client_golang/prometheus"

	"github.com/prometheus/statsd_exporter/pkg/mapper"
	"github.com/prometheus/statsd_exporter/pkg/registry"
)

// hl <n> (k v)* / <m> (k v)*  →  N=<same|diff> V=<same|diff>: do the two label maps get the same names hash / values hash?
func execHL(op string) string {
	f := strings.Fields(op)
	if len(f) < 4 || f[0] != "hl" {
		return "bad-op"
	}
	i := 1
	readMap := func() prometheus.Labels {
		n, _ := strconv.Atoi(f[i])
		i++
		m := prometheus.Labels{}
		for k := 0; k < n; k++ {
			m[dec(f[i])] = dec(f[i+1])
			i += 2
		}
		return m
	}
	a := readMap()
	if f[i] != "/" {
		return "bad-op"
	}
	i++
	b := readMap()
	r := registry.NewRegistry(prometheus.NewRegistry(), &mapper.MetricMapper{})
	ha, _ := r.HashLabels(a)
	hb, _ := r.HashLabels(b)
	sd := func(x bool) string {
		if x {
			return "same"
		}
		return "diff"
	}
	// the inputs are injective on these pairs, so "same hash" is compared through the inputs by the model (N, V);
	// the hash values themselves are compared with the model's FNV-64a bit for bit (A, B)
	return fmt.Sprintf("N=%s V=%s A=%016x/%016x B=%016x/%016x", sd(ha.Names == hb.Names), sd(ha.Values == hb.Values),
		uint64(ha.Names), uint64(ha.Values), uint64(hb.Names), uint64(hb.Values))
}

func init() {
	c := &Component{Name: "hashlabels", Exec: execHL,
		Rule: "pairs of label maps for Registry.HashLabels: equal maps, maps differing in one value / one name / the number of labels, and ADVERSARIAL pairs in which name or value boundaries are shifted across every plausible separator spelling (U+00FF 'ÿ', U+00FE, NUL, ';', ',', '|', space, '=', the empty string), e.g. {a:'xÿy', b:'z'} vs {a:'x', b:'yÿz'} and {ab:'v'} vs {a:'v', b:''}-like name shifts. The two hashes must be equal iff the name sets / the label maps are equal. Non-trivial: an adversarial pair; distinct by op text."}
	c.Gen = func(r *rand.Rand, tier string, emit Emit) {
		seps := []string{"ÿ", "þ", "\x00", ";", ",", "|", " ", "=", "", "ÿÿ", "ÿ\x00"}
		pieces := []string{"x", "y", "z", "Saint", "Jean", "ves", "1", "é", "a", "b"}
		enc2 := func(m [][2]string) string {
			s := strconv.Itoa(len(m))
			for _, kv := range m {
				s += " " + enc(kv[0]) + " " + enc(kv[1])
			}
			return s
		}
		emitPair := func(a, b [][2]string, nt bool, tag string) {
			emit("hl "+enc2(a)+" / "+enc2(b), nt, tag)
		}
		n := 400
		if tier == "thorough" {
			n = 20000
		}
		for _, s := range seps {
			for i := 0; i < n/len(seps)+1; i++ {
				p1, p2, p3 := pick(r, pieces), pick(r, pieces), pick(r, pieces)
				// value boundary shifted across the separator spelling
				emitPair([][2]string{{"a", p1 + s + p2}, {"b", p3}}, [][2]string{{"a", p1}, {"b", p2 + s + p3}}, true, "shift_value")
				// three labels
				emitPair([][2]string{{"a", p1}, {"b", p2 + s + p3}, {"c", p1}}, [][2]string{{"a", p1 + s + p2}, {"b", p3}, {"c", p1}}, true, "shift_value3")
				// name boundary shifted
				emitPair([][2]string{{"a" + s + "b", p1}}, [][2]string{{"a", p1}, {"b", p1}}, true, "shift_name")
				emitPair([][2]string{{"k" + s, p1}, {"m", p2}}, [][2]string{{"k", p1}, {s + "m", p2}}, true, "shift_name2")
				// name/value boundary
				emitPair([][2]string{{"a", p1 + s}}, [][2]string{{"a" + s, p1}}, true, "shift_name_value")
				emitPair([][2]string{{"a", ""}, {"b", p1}}, [][2]string{{"a", p1}, {"b", ""}}, true, "empty_values")
			}
		}
		for i := 0; i < n; i++ {
			k := r.Intn(4)
			var a [][2]string
			for j := 0; j < k; j++ {
				a = append(a, [2]string{pick(r, []string{"a", "b", "c", "tag1", "job"}) + strconv.Itoa(j), pick(r, pieces)})
			}
			b := append([][2]string{}, a...)
			switch r.Intn(4) {
			case 0: // equal, other insertion order
				for x, y := 0, len(b)-1; x < y; x, y = x+1, y-1 {
					b[x], b[y] = b[y], b[x]
				}
				emitPair(a, b, false, "equal")
			case 1:
				if len(b) > 0 {
					b[0][1] += "x"
				}
				emitPair(a, b, false, "value_differs")
			case 2:
				b = append(b, [2]string{"extra", "v"})
				emitPair(a, b, false, "extra_label")
			default:
				if len(b) > 0 {
					b[0][0] += "_"
				}
				emitPair(a, b, false, "name_differs")
			}
		}
	}
	register(c)
}
