package main

import (
	"fmt"
	"math/rand"
	"net"
	"strconv"
	"strings"
	"time"

	"github.com/prometheus/client_golang/prometheus"
	dto "github.com/prometheus/client_model/go"

	"github.com/prometheus/statsd_exporter/pkg/clock"
	"github.com/prometheus/statsd_exporter/pkg/relay"
)

var relayRecv *net.UDPConn
var relayTarget string

func relayCounters() (packets, long, relayed int) {
	mfs, _ := prometheus.DefaultGatherer.Gather()
	get := func(name string) int {
		for _, mf := range mfs {
			if mf.GetName() != name {
				continue
			}
			for _, m := range mf.Metric {
				for _, l := range m.Label {
					if l.GetName() == "target" && l.GetValue() == relayTarget {
						return int(valueOf(m))
					}
				}
			}
		}
		return 0
	}
	return get("statsd_exporter_relay_packets_total"), get("statsd_exporter_relay_long_lines_total"), get("statsd_exporter_relay_lines_relayed_total")
}

func valueOf(m *dto.Metric) float64 {
	if m.Counter != nil {
		return m.Counter.GetValue()
	}
	return m.GetGauge().GetValue()
}

// relay <pktlen> | l <hexline> ; tick ; fail ; …   (an implicit final tick ends every history)
func execRelay(op string) string {
	f := strings.Fields(op)
	if len(f) < 3 || f[0] != "relay" || f[2] != "|" {
		return "bad-op"
	}
	if relayRecv == nil {
		c, err := net.ListenUDP("udp", &net.UDPAddr{IP: net.IPv4(127, 0, 0, 1)})
		must(err)
		c.SetReadBuffer(8 << 20)
		relayRecv = c
		relayTarget = c.LocalAddr().String()
	}
	pktLen, _ := strconv.Atoi(f[1])
	saved := clock.ClockInstance
	tick := make(chan time.Time)
	clock.ClockInstance = &clock.Clock{Instant: time.Unix(0, 0), TickerCh: tick}
	r, err := relay.NewRelay(nopLogger, relayTarget, uint(pktLen))
	must(err)
	p0, l0, r0 := relayCounters()
	blocked := false
	doTick := func() bool {
		select {
		case tick <- time.Unix(0, 0):
			return true
		case <-time.After(time.Second):
			blocked = true
			return false
		}
	}
	doTick() // the sender goroutine now holds the mock ticker (flushing an empty buffer is a no-op)
	clock.ClockInstance = saved
	closed := false
	expect := -1
	var subsOut []string
	subs := append(splitToks(f[3:], ";"), []string{"tick"})
	for _, sub := range subs {
		if blocked {
			break
		}
		switch {
		case len(sub) == 2 && sub[0] == "l":
			done := make(chan struct{})
			line := dec(sub[1])
			go func() { r.RelayLine(line); close(done) }()
			select {
			case <-done:
			case <-time.After(time.Second):
				blocked = true
				continue
			}
			for i := 0; r.VerifPending() > 0; i++ { // the sender takes the line before the next operation
				if i > 10000 {
					blocked = true
					break
				}
				time.Sleep(100 * time.Microsecond)
			}
			subsOut = append(subsOut, "l")
		case len(sub) == 1 && sub[0] == "tick":
			doTick()
			subsOut = append(subsOut, "tick")
		case len(sub) == 1 && sub[0] == "fail":
			if doTick() && doTick() { // flush, and make sure the flush is complete before the socket goes away
				p, _, _ := relayCounters()
				if expect < 0 {
					expect = p - p0
				}
				r.VerifCloseConn()
				closed = true
			}
			subsOut = append(subsOut, "fail")
		}
	}
	if !blocked {
		doTick() // second tick: when it is taken, the sends of the final tick are complete
	}
	p1, l1, r1 := relayCounters()
	if expect < 0 {
		expect = p1 - p0
	}
	var dgrams []string
	buf := make([]byte, 65536)
	for i := 0; i < expect; i++ {
		relayRecv.SetReadDeadline(time.Now().Add(500 * time.Millisecond))
		n, _, err := relayRecv.ReadFromUDP(buf)
		if err != nil {
			dgrams = append(dgrams, "MISSING")
			break
		}
		dgrams = append(dgrams, enc(string(buf[:n])))
	}
	// nothing more may arrive
	relayRecv.SetReadDeadline(time.Now().Add(200 * time.Microsecond))
	if n, _, err := relayRecv.ReadFromUDP(buf); err == nil {
		dgrams = append(dgrams, "EXTRA:"+enc(string(buf[:n])))
	}
	if !closed {
		r.VerifCloseConn()
	}
	b := ""
	if blocked {
		b = " BLOCKED"
	}
	return fmt.Sprintf("D[%s] packets=%d long=%d relayed=%d%s\t%s", strings.Join(dgrams, " "), p1-p0, l1-l0, r1-r0, b, strings.Join(subsOut, " "))
}

func init() {
	c := &Component{Name: "relay", Exec: execRelay,
		Rule: "histories on the real Relay (mock ticker, loopback UDP receiver, the verif hook VerifPending to let the sender take each line before the next operation): packet lengths from {2,3,5,8,16,64,200,1432,1500} and random 2..1500; line lengths around the boundaries (packetLength-3..packetLength+1, 0, 1), lines that exactly fill a packet together, lines already ending in a newline; ticks at any position; an injected send failure (socket closed, hook VerifCloseConn) at any position followed by up to 150 more lines. Compared: every datagram byte-for-byte in order, packets/long-lines/relayed-lines counters, and that RelayLine never blocks. Non-trivial: at least 2 datagrams, or a long line, or a failure followed by more than 100 lines; distinct by op text."}
	c.Gen = func(r *rand.Rand, tier string, emit Emit) {
		n := 1500
		if tier == "thorough" {
			n = 30000
		}
		mkLine := func(l int) string {
			b := make([]byte, l)
			for i := range b {
				b[i] = "abcdefghijklmnopqrstuvwxyz0123456789:|#@."[r.Intn(41)]
			}
			return string(b)
		}
		// corpus: the repaired defect — one failed send, then more lines than the channel holds
		{
			subs := []string{"l " + enc("foo:1|c"), "fail"}
			for i := 0; i < 130; i++ {
				subs = append(subs, "l "+enc(fmt.Sprintf("m%d:1|c", i)))
			}
			emit("relay 200 | "+strings.Join(subs, " ; "), true, "corpus_fail")
		}
		for i := 0; i < n; i++ {
			pl := []int{2, 3, 5, 8, 16, 64, 200, 1432, 1500}[r.Intn(9)]
			if r.Intn(3) == 0 {
				pl = 2 + r.Intn(1499)
			}
			var subs []string
			k := 1 + r.Intn(25)
			failed := false
			after := 0
			for j := 0; j < k; j++ {
				switch x := r.Intn(12); {
				case x == 0:
					subs = append(subs, "tick")
				case x == 1 && !failed && i%6 == 0:
					subs = append(subs, "fail")
					failed = true
					if r.Intn(3) == 0 {
						k += 110 + r.Intn(40)
					}
				default:
					var l int
					switch r.Intn(6) {
					case 0:
						l = pl - 3 + r.Intn(5)
					case 1:
						l = r.Intn(3)
					case 2:
						l = pl/2 - 1 + r.Intn(2)
					default:
						l = 1 + r.Intn(pl)
					}
					if l < 0 {
						l = 0
					}
					line := mkLine(l)
					if l > 0 && r.Intn(10) == 0 {
						line = line[:l-1] + "\n"
					}
					subs = append(subs, "l "+enc(line))
					if failed {
						after++
					}
				}
			}
			tag := "hist"
			if failed {
				tag = "hist_fail"
			}
			emit(fmt.Sprintf("relay %d | %s", pl, strings.Join(subs, " ; ")), len(subs) > 3 || after > 100, tag)
		}
	}
	register(c)
}
