package main

import (
	"fmt"
	"log/slog"
	"math/rand"
	"net"
	"os"
	"path/filepath"
	"strconv"
	"strings"
	"sync"
	"time"

	"github.com/prometheus/client_golang/prometheus"
	dto "github.com/prometheus/client_model/go"

	"github.com/prometheus/statsd_exporter/pkg/event"
	"github.com/prometheus/statsd_exporter/pkg/listener"
)

// recParser records every line the listener hands to the parser (framing is what C18 is about)
type recParser struct {
	mu    sync.Mutex
	lines []string
	seen  chan string
	// return one event per line (for the rigs that also watch the event handler)
	events bool
}

func (p *recParser) LineToEvents(line string, _ prometheus.CounterVec, _ prometheus.Counter, _ prometheus.Counter, _ prometheus.Counter, _ *slog.Logger) event.Events {
	p.mu.Lock()
	p.lines = append(p.lines, line)
	p.mu.Unlock()
	if p.seen != nil {
		p.seen <- line
	}
	if p.events { // one event per line, named after the line: what reaches the event handler can be told apart
		return event.Events{&event.CounterEvent{CMetricName: line, CValue: 1}}
	}
	return nil
}

type nullHandler struct{}

func (nullHandler) Queue(event.Events) {}

// recHandler records the names of the events the listener hands to the event handler, in order
type recHandler struct {
	mu    sync.Mutex
	names []string
}

func (h *recHandler) Queue(es event.Events) {
	h.mu.Lock()
	for _, e := range es {
		h.names = append(h.names, e.MetricName())
	}
	h.mu.Unlock()
}

func sameStrings(a, b []string) int {
	if len(a) != len(b) {
		return 0
	}
	for i := range a {
		if a[i] != b[i] {
			return 0
		}
	}
	return 1
}

func ctr() prometheus.Counter { return prometheus.NewCounter(prometheus.CounterOpts{Name: "x"}) }
func ctrVal(c prometheus.Counter) int {
	var m dto.Metric
	c.Write(&m)
	return int(m.GetCounter().GetValue())
}

func linesStr(ls []string) string {
	var o []string
	for _, l := range ls {
		o = append(o, enc(l))
	}
	return "L[" + strings.Join(o, " ") + "]"
}

const sentinel = "\x00SENTINEL\x00"

// strip the lines of the trailing sentinel datagram
func untilSentinel(ls []string) []string {
	for i, l := range ls {
		if l == sentinel {
			return ls[:i]
		}
	}
	return append(ls, "NO-SENTINEL")
}

type dgramRig struct {
	p     *recParser
	eh    *recHandler
	lines prometheus.Counter
	send  func([]byte)
}

var udpRig, unixRig *dgramRig

func newUDPRig() *dgramRig {
	conn, err := net.ListenUDP("udp", &net.UDPAddr{IP: net.IPv4(127, 0, 0, 1)})
	must(err)
	conn.SetReadBuffer(4 << 20)
	p := &recParser{seen: make(chan string, 100000), events: true}
	eh := &recHandler{}
	lines := ctr()
	l := &listener.StatsDUDPListener{Conn: conn, EventHandler: eh, Logger: nopLogger, LineParser: p,
		UDPPackets: ctr(), UDPPacketDrops: ctr(), LinesReceived: lines, EventsFlushed: ctr(),
		SampleErrors:    *prometheus.NewCounterVec(prometheus.CounterOpts{Name: "se"}, []string{"reason"}),
		SamplesReceived: ctr(), TagErrors: ctr(), TagsReceived: ctr(), UdpPacketQueue: make(chan []byte, 1000)}
	go l.Listen()
	c, err := net.DialUDP("udp", nil, conn.LocalAddr().(*net.UDPAddr))
	must(err)
	return &dgramRig{p: p, eh: eh, lines: lines, send: func(b []byte) { c.Write(b) }}
}

func (r *dgramRig) run(payload string) string {
	r.p.mu.Lock()
	r.p.lines = nil
	r.p.mu.Unlock()
	r.eh.mu.Lock()
	r.eh.names = nil
	r.eh.mu.Unlock()
	before := ctrVal(r.lines)
	if len(payload) > 0 { // an empty datagram carries nothing to frame; the generator avoids it
		r.send([]byte(payload))
	}
	r.send([]byte(sentinel))
	deadline := time.After(3 * time.Second)
	for {
		select {
		case s := <-r.p.seen:
			if s == sentinel {
				r.p.mu.Lock()
				ls := untilSentinel(r.p.lines)
				r.p.mu.Unlock()
				// the sentinel's own event is queued right after it was parsed: give the handler a moment
				var qs []string
				for i := 0; i < 200; i++ {
					r.eh.mu.Lock()
					qs = append([]string(nil), r.eh.names...)
					r.eh.mu.Unlock()
					if len(qs) > 0 && qs[len(qs)-1] == sentinel {
						break
					}
					time.Sleep(50 * time.Microsecond)
				}
				qs = untilSentinel(qs)
				return fmt.Sprintf("%s lines=%d queued=%d qsame=%d", linesStr(ls), ctrVal(r.lines)-before-1, len(qs), sameStrings(qs, ls))
			}
		case <-deadline:
			return "timeout"
		}
	}
}

func frameUDP(payload string) string {
	if udpRig == nil {
		udpRig = newUDPRig()
	}
	return udpRig.run(payload)
}

func frameUnixgram(payload string) string {
	if unixRig == nil {
		d, err := os.MkdirTemp("", "vh")
		must(err)
		path := filepath.Join(d, "s")
		conn, err := net.ListenUnixgram("unixgram", &net.UnixAddr{Net: "unixgram", Name: path})
		must(err)
		p := &recParser{seen: make(chan string, 100000), events: true}
		eh := &recHandler{}
		lines := ctr()
		l := &listener.StatsDUnixgramListener{Conn: conn, EventHandler: eh, Logger: nopLogger, LineParser: p,
			UnixgramPackets: ctr(), LinesReceived: lines, EventsFlushed: ctr(),
			SampleErrors:    *prometheus.NewCounterVec(prometheus.CounterOpts{Name: "se"}, []string{"reason"}),
			SamplesReceived: ctr(), TagErrors: ctr(), TagsReceived: ctr()}
		go l.Listen()
		c, err := net.DialUnix("unixgram", nil, &net.UnixAddr{Net: "unixgram", Name: path})
		must(err)
		os.RemoveAll(d) // both ends are open; the path is no longer needed
		unixRig = &dgramRig{p: p, eh: eh, lines: lines, send: func(b []byte) { c.Write(b) }}
	}
	return unixRig.run(payload)
}

var tcpLn *net.TCPListener

func frameTCP(payload string, sizes []int) string {
	if tcpLn == nil {
		ln, err := net.ListenTCP("tcp", &net.TCPAddr{IP: net.IPv4(127, 0, 0, 1)})
		must(err)
		tcpLn = ln
	}
	p := &recParser{events: true}
	eh := &recHandler{}
	lines, tooLong := ctr(), ctr()
	l := &listener.StatsDTCPListener{Conn: tcpLn, EventHandler: eh, Logger: nopLogger, LineParser: p,
		LinesReceived: lines, EventsFlushed: ctr(),
		SampleErrors:    *prometheus.NewCounterVec(prometheus.CounterOpts{Name: "se"}, []string{"reason"}),
		SamplesReceived: ctr(), TagErrors: ctr(), TagsReceived: ctr(), TCPConnections: ctr(), TCPErrors: ctr(), TCPLineTooLong: tooLong}
	c, err := net.DialTCP("tcp", nil, tcpLn.Addr().(*net.TCPAddr))
	must(err)
	c.SetNoDelay(true)
	sc, err := tcpLn.AcceptTCP()
	must(err)
	done := make(chan struct{})
	go func() { l.HandleConn(sc); close(done) }()
	go func() {
		rest := []byte(payload)
		for i, k := range sizes {
			if len(rest) == 0 {
				break
			}
			if k > len(rest) {
				k = len(rest)
			}
			if _, err := c.Write(rest[:k]); err != nil {
				break
			}
			rest = rest[k:]
			if i%3 == 1 {
				time.Sleep(30 * time.Microsecond)
			}
		}
		if len(rest) > 0 {
			c.Write(rest)
		}
		c.CloseWrite()
	}()
	select {
	case <-done:
	case <-time.After(5 * time.Second):
		c.Close()
		return "timeout"
	}
	c.Close()
	// every line's events must have reached the event handler, in line order, when the connection handler returns
	return fmt.Sprintf("%s lines=%d toolong=%d queued=%d qsame=%d", linesStr(p.lines), ctrVal(lines), ctrVal(tooLong), len(eh.names), sameStrings(eh.names, p.lines))
}

// frame dgram|udp|unixgram|tcp <hexpayload> [chunk sizes]
func execFrame(op string) string {
	f := strings.Fields(op)
	if len(f) < 3 || f[0] != "frame" {
		return "bad-op"
	}
	payload := dec(f[2])
	switch f[1] {
	case "dgram": // both datagram transports must agree; report UDP's answer, flag a difference
		a, b := frameUDP(payload), frameUnixgram(payload)
		if a != b {
			return "TRANSPORTS-DIFFER udp=" + a + " unixgram=" + b
		}
		return a
	case "tcp":
		var sizes []int
		for _, s := range f[3:] {
			k, _ := strconv.Atoi(s)
			sizes = append(sizes, k)
		}
		return frameTCP(payload, sizes)
	}
	return "bad-op"
}

// udpq <cap> | enq <hexbuf> <n> ; proc ; …   — EnqueueUdpPacket with ONE reused read buffer, as Listen uses it
func execUdpq(op string) string {
	f := strings.Fields(op)
	if len(f) < 3 || f[0] != "udpq" || f[2] != "|" {
		return "bad-op"
	}
	capacity, _ := strconv.Atoi(f[1])
	p := &recParser{}
	packets, drops := ctr(), ctr()
	l := &listener.StatsDUDPListener{EventHandler: nullHandler{}, Logger: nopLogger, LineParser: p,
		UDPPackets: packets, UDPPacketDrops: drops, LinesReceived: ctr(), EventsFlushed: ctr(),
		SampleErrors:    *prometheus.NewCounterVec(prometheus.CounterOpts{Name: "se"}, []string{"reason"}),
		SamplesReceived: ctr(), TagErrors: ctr(), TagsReceived: ctr(), UdpPacketQueue: make(chan []byte, capacity)}
	buf := make([]byte, 65535)
	for _, sub := range splitToks(f[3:], ";") {
		switch {
		case len(sub) == 3 && sub[0] == "enq":
			b := dec(sub[1])
			n, _ := strconv.Atoi(sub[2])
			copy(buf, b) // the next datagram overwrites the shared buffer
			l.EnqueueUdpPacket(buf, n)
		case len(sub) == 1 && sub[0] == "proc":
			select {
			case pk := <-l.UdpPacketQueue:
				l.HandlePacket(pk)
			default:
			}
		}
	}
	return fmt.Sprintf("packets=%d drops=%d queued=%d %s", ctrVal(packets), ctrVal(drops), len(l.UdpPacketQueue), linesStr(p.lines))
}

func init() {
	genPayload := func(r *rand.Rand) string {
		var sb strings.Builder
		n := 1 + r.Intn(50)
		if r.Intn(3) == 0 {
			n = 1 + r.Intn(4)
		}
		for i := 0; i < n; i++ {
			switch r.Intn(12) {
			case 0: // empty line
			case 1:
				sb.WriteString("a.b:1|c\r")
			case 2:
				sb.WriteString(strings.Repeat("x", 4090+r.Intn(10)) + ":1|c")
			case 3:
				sb.WriteString(strings.Repeat("y", 4093+r.Intn(3)) + "\r")
			case 4:
				sb.WriteString("\r")
			default:
				sb.WriteString(pick(r, []string{"foo:1|c", "a.b:2|g|#t:v", "x:1|ms|@0.1", "é:1|c", "bar:1|c\r", "q"}))
			}
			if i < n-1 || r.Intn(2) == 0 {
				sb.WriteString("\n")
			}
		}
		return sb.String()
	}
	fr := &Component{Name: "frame", Exec: execFrame,
		Rule: "payloads of 1-50 lines (empty lines, CR LF, trailing newline or not, lines of 4090..4099 bytes around the 4096-byte TCP limit, bare CR) sent (a) as one UDP datagram and one Unixgram datagram to real listeners on loopback/unix sockets (both must agree) and (b) over a real TCP connection in generated segments (random write sizes 1..5000 with pauses) into HandleConn; a recording parser shows which lines the listener hands on; compared: the lines, the line counter, the too-long counter. For TCP the chunk-level bufio model is also compared with the stream-level specification (spec note). Non-trivial: payload with >=2 lines incl. an empty line, a CR or a line within 6 bytes of the limit; distinct by op text."}
	fr.Gen = func(r *rand.Rand, tier string, emit Emit) {
		n := 1200
		if tier == "thorough" {
			n = 20000
		}
		for _, p := range []string{"a\nb", "a\n", "\n", "a\r\nb\r\n", "a", strings.Repeat("z", 4095) + "\nq", strings.Repeat("z", 4096) + "\nq", strings.Repeat("z", 4094) + "\r\nq", strings.Repeat("z", 4095) + "\r\nq", "a\n\nb\n\n"} {
			emit("frame dgram "+enc(p), true, "corpus")
			emit("frame tcp "+enc(p)+" 1 1 4000 90 7", true, "corpus")
			emit("frame tcp "+enc(p), true, "corpus")
		}
		for i := 0; i < n; i++ {
			p := genPayload(r)
			nt := strings.Count(p, "\n") >= 1 && (strings.Contains(p, "\n\n") || strings.Contains(p, "\r") || len(p) > 4000)
			if len(p) < 60000 && len(p) > 0 {
				emit("frame dgram "+enc(p), nt, "dgram")
			}
			var sizes []string
			for j := 0; j < r.Intn(12); j++ {
				sizes = append(sizes, strconv.Itoa(1+r.Intn([]int{3, 50, 5000}[r.Intn(3)])))
			}
			emit(strings.TrimSpace("frame tcp "+enc(p)+" "+strings.Join(sizes, " ")), nt, "tcp")
		}
	}
	register(fr)

	uq := &Component{Name: "udpq", Exec: execUdpq,
		Rule: "EnqueueUdpPacket called as Listen calls it - with ONE reused read buffer that the next datagram overwrites - for packet-queue capacities 0..4, interleaved with processing steps in every pattern: sequences of 1-12 operations over {enqueue datagram d_i (1-3 lines, lengths differing so that a stale tail would show), process one}. Compared: packets, drops, queue length, and every line handed on (a datagram's lines must be those of its own bytes). Non-trivial: some datagram is dropped and some datagram is processed after a later one overwrote the buffer; distinct by op text."}
	uq.Gen = func(r *rand.Rand, tier string, emit Emit) {
		n := 4000
		if tier == "thorough" {
			n = 80000
		}
		for i := 0; i < n; i++ {
			capacity := r.Intn(5)
			var subs []string
			k := 1 + r.Intn(12)
			enq, proc := 0, 0
			for j := 0; j < k; j++ {
				if r.Intn(3) != 0 {
					d := fmt.Sprintf("d%d.%s:%d|c", j, strings.Repeat("x", r.Intn(12)), j)
					if r.Intn(3) == 0 {
						d += fmt.Sprintf("\nsecond%d:1|g", j)
					}
					subs = append(subs, fmt.Sprintf("enq %s %d", enc(d), len(d)))
					enq++
				} else {
					subs = append(subs, "proc")
					proc++
				}
			}
			for j := 0; j < 5; j++ {
				subs = append(subs, "proc")
			}
			emit(fmt.Sprintf("udpq %d | %s", capacity, strings.Join(subs, " ; ")), enq > capacity && enq >= 2, fmt.Sprintf("cap%d", capacity))
		}
	}
	register(uq)
}
