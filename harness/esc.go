package main

import (
	"fmt"
	"math/rand"
	"strings"

	"github.com/prometheus/statsd_exporter/pkg/mapper"
)

// escape <hex>  →  ok <hex> | panic
func execEscape(op string) (res string) {
	f := strings.Fields(op)
	if len(f) != 2 || f[0] != "escape" {
		return "bad-op"
	}
	defer func() {
		if e := recover(); e != nil {
			res = "panic"
		}
	}()
	return "ok " + enc(mapper.EscapeMetricName(dec(f[1])))
}

var escSymbols = []string{"a", "7", "_", "-", ".", "é", "€", "\U0001F600", "�", "\x80", "\xe2"}

func escNontrivial(s string) bool {
	for i := 0; i < len(s); i++ {
		c := s[i]
		if !(c >= 'a' && c <= 'z' || c >= 'A' && c <= 'Z' || c >= '0' && c <= '9' || c == '_') {
			return true
		}
	}
	return false
}

func init() {
	c := &Component{Name: "escape", Exec: execEscape,
		Rule: "exhaustive: every string of 0..L symbols (L=5 quick, 6 thorough) over 11 symbol classes {letter, digit, _, -, ., 2/3/4-byte rune, literal U+FFFD, stray continuation byte 0x80, stray lead byte 0xE2}; then random strings of 1..64 bytes (half from a punctuation-rich ASCII/UTF-8 alphabet, half raw bytes) and all 1- and 2-byte strings. Non-trivial: contains at least one byte outside [A-Za-z0-9_]; distinct: by op text."}
	c.Gen = func(r *rand.Rand, tier string, emit Emit) {
		// corpus: the witnesses of the repaired defect and friends
		for _, s := range []string{"\xffa-", "\xffab", "a--b", "1abc", "", "-", "--", "a-\xff-b", "\xf0\x9f\x98", "ab\xc3"} {
			emit("escape "+enc(s), escNontrivial(s), "corpus")
		}
		L := 5
		if tier == "thorough" {
			L = 6
		}
		var rec func(prefix string, depth int)
		rec = func(prefix string, depth int) {
			emit("escape "+enc(prefix), escNontrivial(prefix), fmt.Sprintf("exh_len%d", depth))
			if depth == L {
				return
			}
			for _, s := range escSymbols {
				rec(prefix+s, depth+1)
			}
		}
		rec("", 0)
		c.Exhaustive = true
		// all 1- and 2-byte strings (ties the UTF-8 decoder model)
		for a := 0; a < 256; a++ {
			emit("escape "+enc(string([]byte{byte(a)})), true, "bytes1")
			for b := 0; b < 256; b++ {
				emit("escape "+enc(string([]byte{byte(a), byte(b)})), true, "bytes2")
			}
		}
		n := 100000
		if tier == "thorough" {
			n = 1500000
		}
		alpha := []string{"a", "Z", "0", "9", "_", "-", "-", ".", ":", " ", "é", "€", "\U0001F600", "�", "\x80", "\xbf", "\xc0", "\xe2", "\xed\xa0\x80", "\xf4\x90\x80\x80", "\xf0\x9f"}
		for i := 0; i < n; i++ {
			var sb strings.Builder
			l := 1 + r.Intn(64)
			if i%2 == 0 {
				for sb.Len() < l {
					sb.WriteString(alpha[r.Intn(len(alpha))])
				}
				emit("escape "+enc(sb.String()), escNontrivial(sb.String()), "rand_struct")
			} else {
				b := make([]byte, l)
				for j := range b {
					switch r.Intn(4) {
					case 0:
						b[j] = byte(r.Intn(256))
					case 1:
						b[j] = byte(0x80 + r.Intn(0x80))
					default:
						b[j] = "abcXYZ019_--."[r.Intn(13)]
					}
				}
				emit("escape "+enc(string(b)), escNontrivial(string(b)), "rand_bytes")
			}
		}
	}
	register(c)
}
