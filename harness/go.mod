module verifharness

go 1.23.0

require (
	github.com/prometheus/client_golang v1.22.0
	github.com/prometheus/client_model v0.6.1
	github.com/prometheus/common v0.63.0
	github.com/prometheus/statsd_exporter v0.0.0
)

require (
	github.com/beorn7/perks v1.0.1 // indirect
	github.com/cespare/xxhash/v2 v2.3.0 // indirect
	github.com/golang/groupcache v0.0.0-20210331224755-41bb18bfe9da // indirect
	github.com/munnerz/goautoneg v0.0.0-20191010083416-a7dc8b61c822 // indirect
	github.com/prometheus/procfs v0.15.1 // indirect
	golang.org/x/sys v0.31.0 // indirect
	google.golang.org/protobuf v1.36.5 // indirect
	gopkg.in/yaml.v2 v2.4.0 // indirect
)

replace github.com/prometheus/statsd_exporter => /repo
