package main

import "math"

func nan() float64                     { return math.NaN() }
func float64frombits(u uint64) float64 { return math.Float64frombits(u) }

func inf() float64 { return math.Inf(1) }
