package main

import (
	"fmt"
	"math/rand"
	"runtime"
	"strconv"
	"strings"
	"sync"
	"time"

	"github.com/prometheus/client_golang/prometheus"

	"github.com/prometheus/statsd_exporter/pkg/clock"
	"github.com/prometheus/statsd_exporter/pkg/event"
)

type detQueue struct {
	eq     *event.EventQueue
	c      chan event.Events
	tick   chan time.Time
	nextID int
}

var detQueues = map[int]*detQueue{}

// one real EventQueue (and its ticker goroutine) per threshold, reused and drained between ops
func getDetQueue(thr int) *detQueue {
	if dq, ok := detQueues[thr]; ok {
		return dq
	}
	saved := clock.ClockInstance
	tick := make(chan time.Time)
	clock.ClockInstance = &clock.Clock{Instant: time.Unix(0, 0), TickerCh: tick}
	c := make(chan event.Events, 4096)
	eq := event.NewEventQueue(c, thr, time.Second, prometheus.NewCounter(prometheus.CounterOpts{Name: "f"}))
	clock.ClockInstance = saved
	dq := &detQueue{eq: eq, c: c, tick: tick}
	detQueues[thr] = dq
	return dq
}

func (dq *detQueue) doTick() {
	before := len(dq.c)
	dq.tick <- time.Unix(0, 0)
	for i := 0; len(dq.c) == before; i++ { // Flush always sends exactly one batch (possibly empty)
		if i > 1000 {
			time.Sleep(50 * time.Microsecond)
		} else {
			runtime.Gosched()
		}
	}
}

func (dq *detQueue) drain() {
	dq.doTick()
	for len(dq.c) > 0 {
		<-dq.c
	}
}

// queue <thr> | q <n> ; tick ; recv ; …
func execQueue(op string) string {
	f := strings.Fields(op)
	if len(f) < 3 || f[0] != "queue" || f[2] != "|" {
		return "bad-op"
	}
	thr, _ := strconv.Atoi(f[1])
	dq := getDetQueue(thr)
	dq.drain()
	next := 0
	var outs []string
	show := func() string { return fmt.Sprintf("q=%d c=%d", dq.eq.Len(), len(dq.c)) }
	for _, sub := range splitToks(f[3:], ";") {
		switch {
		case len(sub) == 2 && sub[0] == "q":
			k, _ := strconv.Atoi(sub[1])
			evs := make(event.Events, k)
			for i := range evs {
				evs[i] = &event.CounterEvent{CMetricName: "e", CValue: float64(next + i)}
			}
			next += k
			dq.eq.Queue(evs)
			outs = append(outs, show())
		case len(sub) == 1 && sub[0] == "tick":
			dq.doTick()
			outs = append(outs, show())
		case len(sub) == 1 && sub[0] == "recv":
			select {
			case b := <-dq.c:
				var ids []string
				for _, e := range b {
					ids = append(ids, strconv.Itoa(int(e.Value())))
				}
				outs = append(outs, "recv ["+strings.Join(ids, ",")+"]")
			default:
				outs = append(outs, "empty")
			}
		default:
			outs = append(outs, "bad-op")
		}
	}
	return strings.Join(outs, " ; ")
}

// qconc <seed> <thr> <cap> <nprod> <sizes of producer calls>…  → delivered batches (observation, judged by the spec)
func execQConc(op string) string {
	f := strings.Fields(op)
	if len(f) < 5 || f[0] != "qconc" {
		return "bad-op"
	}
	seed, _ := strconv.ParseInt(f[1], 10, 64)
	thr, _ := strconv.Atoi(f[2])
	capacity, _ := strconv.Atoi(f[3])
	np, _ := strconv.Atoi(f[4])
	r := rand.New(rand.NewSource(seed))
	saved := clock.ClockInstance
	tick := make(chan time.Time)
	clock.ClockInstance = &clock.Clock{Instant: time.Unix(0, 0), TickerCh: tick}
	c := make(chan event.Events, capacity)
	eq := event.NewEventQueue(c, thr, time.Second, prometheus.NewCounter(prometheus.CounterOpts{Name: "f"}))
	clock.ClockInstance = saved
	total := 0
	var progs [][]int
	for p := 0; p < np; p++ {
		var sizes []int
		for _, s := range strings.Split(f[5+p], ",") {
			k, _ := strconv.Atoi(s)
			sizes = append(sizes, k)
			total += k
		}
		progs = append(progs, sizes)
	}
	var wg sync.WaitGroup
	for p, sizes := range progs {
		wg.Add(1)
		delay := r.Intn(3)
		go func(p int, sizes []int) {
			defer wg.Done()
			id := p * 100000
			for _, k := range sizes {
				evs := make(event.Events, k)
				for i := range evs {
					evs[i] = &event.CounterEvent{CMetricName: "e", CValue: float64(id + i)}
				}
				id += k
				eq.Queue(evs)
				if delay > 0 {
					runtime.Gosched()
				}
			}
		}(p, sizes)
	}
	stopTicks := make(chan struct{})
	ticksDone := make(chan struct{})
	go func() { // free-running ticker
		defer close(ticksDone)
		for {
			select {
			case tick <- time.Unix(0, 0):
				runtime.Gosched()
			case <-stopTicks:
				return
			}
		}
	}()
	slow := r.Intn(2) == 0
	var delivered [][]int
	got := 0
	prodDone := make(chan struct{})
	go func() { wg.Wait(); close(prodDone) }()
	deadline := time.After(20 * time.Second)
	finished := false
	for !finished {
		select {
		case b := <-c:
			var ids []int
			for _, e := range b {
				ids = append(ids, int(e.Value()))
			}
			got += len(ids)
			if len(ids) > 0 {
				delivered = append(delivered, ids)
			}
			if slow && r.Intn(4) == 0 {
				time.Sleep(20 * time.Microsecond)
			}
			select {
			case <-prodDone:
				if got == total {
					finished = true
				}
			default:
			}
		case <-deadline:
			return "stalled"
		}
	}
	close(stopTicks)
	// the ticker goroutine of the queue may be blocked sending an (empty) batch: keep draining until the tick feeder stops
	for done := false; !done; {
		select {
		case <-c:
		case <-ticksDone:
			done = true
		}
	}
	var bs []string
	for _, b := range delivered {
		var ids []string
		for _, x := range b {
			ids = append(ids, strconv.Itoa(x))
		}
		bs = append(bs, strings.Join(ids, ","))
	}
	return strings.Join(bs, " ")
}

// queueblk <thr> <cap> <n>: one Queue(n) call on a channel of capacity cap; a tick is fired while the producer is
// inside the call; then everything is drained. Output: batches in delivery order, final queue length.
func execQueueBlk(op string) string {
	f := strings.Fields(op)
	if len(f) != 4 || f[0] != "queueblk" {
		return "bad-op"
	}
	thr, _ := strconv.Atoi(f[1])
	capacity, _ := strconv.Atoi(f[2])
	n, _ := strconv.Atoi(f[3])
	saved := clock.ClockInstance
	tick := make(chan time.Time)
	clock.ClockInstance = &clock.Clock{Instant: time.Unix(0, 0), TickerCh: tick}
	c := make(chan event.Events, capacity)
	eq := event.NewEventQueue(c, thr, time.Second, prometheus.NewCounter(prometheus.CounterOpts{Name: "f"}))
	clock.ClockInstance = saved
	evs := make(event.Events, n)
	for i := range evs {
		evs[i] = &event.CounterEvent{CMetricName: "e", CValue: float64(i)}
	}
	done := make(chan struct{})
	go func() { eq.Queue(evs); close(done) }()
	var got []string
	recv := func(b event.Events) {
		var ids []string
		for _, e := range b {
			ids = append(ids, strconv.Itoa(int(e.Value())))
		}
		got = append(got, "["+strings.Join(ids, ",")+"]")
	}
	// the producer is inside the call once its first batch is visible (or it has returned: n below the threshold)
	if capacity > 0 {
		for i := 0; len(c) == 0; i++ {
			select {
			case <-done:
				i = -1
			default:
			}
			if i < 0 {
				break
			}
			if i > 100000 {
				return "stalled"
			}
			runtime.Gosched()
		}
	} else {
		select { // rendezvous channel: take the first batch (if any) to know the producer is inside
		case b := <-c:
			if len(b) > 0 {
				recv(b)
			}
		case <-done:
		}
	}
	select {
	case tick <- time.Unix(0, 0):
	case <-time.After(2 * time.Second):
		return "stalled"
	}
	// give the ticker goroutine time to reach the queue's mutex while the producer is still inside the call
	// (nobody drains yet, so a producer that has to block stays blocked)
	time.Sleep(300 * time.Microsecond)
	// drain: until the producer returned and the tick's flush is through (queue empty), within a time limit.
	// eq.Len() takes the queue's mutex, which a flush blocked on the full channel holds: ask in a goroutine and
	// keep receiving meanwhile.
	deadline := time.After(1500 * time.Millisecond)
	producerDone := false
	lenCh := make(chan int, 1)
	asking := false
	last := -1
	for {
		if producerDone && !asking {
			asking = true
			go func() { lenCh <- eq.Len() }()
		}
		select {
		case b := <-c:
			if len(b) > 0 { // an empty tick batch carries nothing; both sides ignore it
				recv(b)
			}
		case <-done:
			producerDone = true
			done = nil
		case l := <-lenCh:
			asking = false
			last = l
			if l == 0 && len(c) == 0 {
				return fmt.Sprintf("got=%s len=0", strings.Join(got, " "))
			}
			time.Sleep(50 * time.Microsecond)
		case <-deadline:
			return fmt.Sprintf("got=%s len=%d BLOCKED(not drained within 1.5s)", strings.Join(got, " "), last)
		}
	}
}

func init() {
	blk := &Component{Name: "queueblk", Exec: execQueueBlk,
		Rule: "EXHAUSTIVE: thresholds 1..4 x channel capacities 1..4 x Queue(n) for n in 0..14: one producer call, a flush tick fired while the producer is inside the call (holding the mutex, blocked on the full channel when n is large enough), then the consumer drains; compared: every batch in delivery order and the final queue length (the tick must flush what the producer left below the threshold). Non-trivial: the producer blocks (n >= threshold*(capacity+1)) and leaves a remainder (n mod threshold != 0); distinct by op text."}
	blk.Gen = func(r *rand.Rand, tier string, emit Emit) {
		for thr := 1; thr <= 4; thr++ {
			for capacity := 1; capacity <= 4; capacity++ {
				for n := 0; n <= 14; n++ {
					emit(fmt.Sprintf("queueblk %d %d %d", thr, capacity, n), n >= thr*(capacity+1) && n%thr != 0, fmt.Sprintf("thr%d", thr))
				}
			}
		}
		blk.Exhaustive = true
	}
	register(blk)
	det := &Component{Name: "queue", Exec: execQueue,
		Rule: "EXHAUSTIVE: every sequence of length <= L (L=5 quick, 6 thorough) over {Queue(1), Queue(2), Queue(3), Queue(5), tick, recv} for flush thresholds 1..4, on the real EventQueue driven by the mock ticker with uniquely numbered events; after every call the queue length, the channel length and (for recv) the delivered batch are compared with the micro-step model run under the call's canonical schedule. Non-trivial: the sequence contains a Queue that crosses the threshold, a tick with a non-empty queue and a recv; distinct by op text."}
	det.Gen = func(r *rand.Rand, tier string, emit Emit) {
		L := 5
		if tier == "thorough" {
			L = 6
		}
		alpha := []string{"q 1", "q 2", "q 3", "q 5", "tick", "recv"}
		for thr := 1; thr <= 4; thr++ {
			var rec func(seq []string)
			rec = func(seq []string) {
				if len(seq) > 0 {
					s := strings.Join(seq, " ; ")
					nt := strings.Contains(s, "q ") && strings.Contains(s, "tick") && strings.Contains(s, "recv")
					emit(fmt.Sprintf("queue %d | %s", thr, s), nt, fmt.Sprintf("thr%d_len%d", thr, len(seq)))
				}
				if len(seq) == L {
					return
				}
				for _, a := range alpha {
					rec(append(seq[:len(seq):len(seq)], a))
				}
			}
			rec(nil)
		}
		det.Exhaustive = true
		for i := 0; i < 2000; i++ { // longer random sequences, other thresholds
			thr := []int{0, 1, 2, 3, 4, 7, 16}[r.Intn(7)]
			var seq []string
			for j := 0; j < 10+r.Intn(30); j++ {
				switch r.Intn(4) {
				case 0:
					seq = append(seq, "tick")
				case 1:
					seq = append(seq, "recv")
				default:
					seq = append(seq, fmt.Sprintf("q %d", r.Intn(20)))
				}
			}
			emit(fmt.Sprintf("queue %d | %s", thr, strings.Join(seq, " ; ")), true, "rand_long")
		}
	}
	register(det)

	conc := &Component{Name: "qconc", Exec: execQConc,
		Rule: "sampled schedules of the real runtime: 1-8 producer goroutines with 5-45 uniquely numbered events each in calls of 1-5 events, a free-running mock ticker, a slow or fast consumer, channel capacities 0..8, thresholds 1..4; the observed delivery (non-empty batches in order) is judged by the Lean specification predicates (exactly once, per-producer order, batch <= threshold, everything delivered). Non-trivial: >=2 producers; distinct by op text."}
	conc.Gen = func(r *rand.Rand, tier string, emit Emit) {
		n := 300
		if tier == "thorough" {
			n = 5000
		}
		for i := 0; i < n; i++ {
			np := 1 + r.Intn(8)
			var progs []string
			for p := 0; p < np; p++ {
				left := 5 + r.Intn(41)
				var sizes []string
				for left > 0 {
					k := 1 + r.Intn(5)
					if k > left {
						k = left
					}
					sizes = append(sizes, strconv.Itoa(k))
					left -= k
				}
				progs = append(progs, strings.Join(sizes, ","))
			}
			emit(fmt.Sprintf("qconc %d %d %d %d %s", r.Int63(), 1+r.Intn(4), r.Intn(9), np, strings.Join(progs, " ")), np >= 2, fmt.Sprintf("prod%d", np))
		}
	}
	register(conc)
}
