package main

import (
	"fmt"
	"math/rand"
	"time"
)

func init() {
	c19 := &Component{Name: "pipe_c19", Exec: execPipe, Rule: "C19 stream: configurations from the YAML grammar with every option drawn from valid, boundary and invalid values (buckets unsorted/duplicate/empty/with +Inf/NaN, quantiles outside [0,1] or NaN, max_age negative/zero/huge/a few nanoseconds (so that max_age / age_buckets is 0 with its own or with an INHERITED age_buckets, and the other way round), age_buckets/buf_cap 0 or large, reserved or too-short label names, huge ttl, odd scale, legacy + new option combinations, bad enums, bad match/name), loaded into the real mapper; when the load succeeds a standard battery of lines of every type hitting every rule (plus unmapped names) is sent and the endpoint is scraped after every line. Whether the load is accepted is compared with the model's `load`; the run after it with the pipeline model. Non-trivial: the configuration differs from the valid baseline in at least one option class; distinct by op text."}
	c19.Gen = func(r *rand.Rand, tier string, emit Emit) {
		n := 4000
		if tier == "thorough" {
			n = 80000
		}
		battery := []string{"t.a:1|ms", "t.a:2|ms|#tag:v", "t.a:1|c", "t.a:5|g", "t.b:1|h", "t.b:3|d|@0.5", "u.x:1|ms", "u.x:1|c", "t.a:0.5:1.5|ms", "t.a:-1|ms", "t.a:nan|ms"}
		{ // corpus: max_age so small that MaxAge/AgeBuckets is 0 -> client_golang's summary spins forever on the first Observe
			h := &pipeHist{flags: "1111"}
			h.load(&rawCfg{maxAge: 4, rules: []rawRule{{match: "t.*", name: "m_$1"}}})
			h.line("t.a:1|c")
			h.scrape()
			h.line("t.b:1|ms")
			h.line("t.c:1|c")
			h.scrape()
			emit(h.op(), true, "corpus_hang")
		}
		// corpus: the two halves of max_age / age_buckets come from different places (defaults and rule), each fine alone
		ms := int64(time.Millisecond)
		for _, cr := range [][4]int64{{int64(10 * time.Minute), 60, 30, 0}, {50, 0, 0, 100}, {30, 0, 0, 0}, {0, 1000, 999, 0}, {0, 1000, 1000, 0}, {int64(time.Hour), 1000, 4, 1},
			{int64(10 * time.Minute), 1000, 10 * ms, 0}, {50 * ms, 0, 0, 100}, {0, 1000, 1000 * ms, 0}, {int64(time.Hour), 1000, 4 * ms, 1}, {int64(10 * time.Minute), 60, 30 * ms, 0}} {
			for _, obs := range []*string{nil, sp("summary")} { // only a rule that resolves to summary inherits the missing half
				h := &pipeHist{flags: "1111"}
				h.load(&rawCfg{maxAge: cr[0], ageBuckets: int(cr[1]), rules: []rawRule{{match: "t.*", name: "m_$1", obs: obs, so: &rawSO{maxAge: cr[2], ageBuckets: int(cr[3])}}, {match: "u.*", name: "n_$1"}}})
				for _, l := range battery {
					h.line(l)
					h.scrape()
				}
				emit(h.op(), true, "corpus_inherit")
			}
		}
		for i := 0; i < n; i++ {
			c, deviates := genC19Cfg(r)
			cls := []string{}
			if deviates {
				cls = append(cls, "x")
			}
			h := &pipeHist{flags: "1111"}
			h.load(c)
			for _, l := range battery {
				h.line(l)
				h.scrape()
			}
			tag := "baseline"
			if len(cls) > 0 {
				tag = fmt.Sprintf("classes%d", len(cls))
			}
			emit(h.op(), len(cls) > 0, tag)
		}
	}
	register(c19)
}

// genC19Cfg draws one configuration of the C19 option grammar; the bool says whether it deviates from the baseline
func genC19Cfg(r *rand.Rand) (*rawCfg, bool) {
	bucketSets := [][]float64{{0.1, 1, 10}, {1, 0.5}, {1, 1}, {}, {1, 2, inf()}, {nan(), 1}, {-1, 0, 1}, {5}, {inf()}, {1, nan()}}
	quantSets := [][]quant{{{0.5, 0.05}, {0.9, 0.01}}, {{1.5, 0.1}}, {{-0.1, 0.1}}, {{0.5, 2}}, {{nan(), 0.1}}, {}, {{0, 0}, {1, 0}}, {{0.5, -0.1}}}
	ages := []int64{0, int64(5 * time.Minute), -int64(time.Second), int64(10 * time.Minute), int64(time.Hour), -1, 1 << 62, 4, 30, 999, 1000, int64(time.Millisecond), 5 * int64(time.Millisecond), 10 * int64(time.Millisecond), int64(time.Second)}
	small := []int{0, 1, 5, 1000, 60}
	labelNames := []string{"ok_label", "ab", "a", "__x", "le", "quantile", "_", "__", "9a", "a-b", "job"}
	c := &rawCfg{}
	cls := []string{}
	mark := func(s string) { cls = append(cls, s) }
	if r.Intn(3) == 0 {
		c.obs = sp(pick(r, []string{"histogram", "summary", "", "bogus"}))
		mark("d_obs")
	}
	if r.Intn(6) == 0 {
		c.timer = sp(pick(r, []string{"histogram", "summary", "nope"}))
		mark("d_timer")
	}
	if r.Intn(4) == 0 {
		c.buckets = bucketSets[r.Intn(len(bucketSets))]
		mark("d_buckets")
	}
	if r.Intn(8) == 0 {
		c.legacyB = bucketSets[r.Intn(len(bucketSets))]
		mark("d_legacy_buckets")
	}
	if r.Intn(4) == 0 {
		c.quantiles = quantSets[r.Intn(len(quantSets))]
		mark("d_quantiles")
	}
	if r.Intn(8) == 0 {
		c.legacyQ = quantSets[r.Intn(len(quantSets))]
		mark("d_legacy_quantiles")
	}
	if r.Intn(4) == 0 {
		c.maxAge = ages[r.Intn(len(ages))]
		c.ageBuckets = small[r.Intn(len(small))]
		c.bufCap = small[r.Intn(len(small))]
		mark("d_summary_opts")
	}
	if r.Intn(5) == 0 {
		c.ttl = []int64{int64(time.Second), 1 << 62, -int64(time.Second), 1}[r.Intn(4)]
		mark("d_ttl")
	}
	nr := 1 + r.Intn(3)
	for j := 0; j < nr; j++ {
		ru := rawRule{match: pick(r, []string{"t.*", "t.a", "*.a", "t.b", "*.*"}), name: pick(r, []string{"m", "m_$1", "n"})}
		if r.Intn(3) == 0 {
			ru.obs = sp(pick(r, []string{"histogram", "summary", "", "hist"}))
			mark("obs")
		}
		if r.Intn(3) == 0 {
			b := bucketSets[r.Intn(len(bucketSets))]
			pb := &b
			if r.Intn(4) == 0 {
				pb = nil
			}
			ru.ho = &pb
			mark("hist_opts")
		}
		if r.Intn(6) == 0 {
			b := bucketSets[r.Intn(len(bucketSets))]
			ru.legacyB = &b
			mark("legacy_buckets")
		}
		if r.Intn(3) == 0 {
			so := &rawSO{maxAge: ages[r.Intn(len(ages))], ageBuckets: small[r.Intn(len(small))], bufCap: small[r.Intn(len(small))]}
			if r.Intn(2) == 0 {
				q := quantSets[r.Intn(len(quantSets))]
				so.quantiles = &q
			}
			ru.so = so
			mark("summary_opts")
		}
		if r.Intn(6) == 0 {
			q := quantSets[r.Intn(len(quantSets))]
			ru.legacyQ = &q
			mark("legacy_quantiles")
		}
		if r.Intn(2) == 0 {
			ru.labels = append(ru.labels, [2]string{pick(r, labelNames), pick(r, []string{"v", "$1", ""})})
			mark("labels")
		}
		if r.Intn(5) == 0 {
			s := []float64{0, -1, nan(), inf(), 1e300, 1e-300}[r.Intn(6)]
			ru.scale = &s
			mark("scale")
		}
		if r.Intn(6) == 0 {
			ru.ttl = []int64{1, 1 << 62, -5, int64(time.Hour)}[r.Intn(4)]
			mark("ttl")
		}
		if r.Intn(10) == 0 {
			ru.help = pick(r, []string{"h one", "h two"})
			mark("help")
		}
		if r.Intn(12) == 0 {
			ru.match = pick(r, []string{"t..a", "9t.a", "t.a*", ""})
			mark("bad_match")
		}
		if r.Intn(12) == 0 {
			ru.name = pick(r, []string{"", "9m", "m-x", "m.$1"})
			mark("bad_name")
		}
		if r.Intn(12) == 0 {
			ru.matchType = sp(pick(r, []string{"regex", "glob", "other"}))
			mark("match_type")
		}
		if r.Intn(12) == 0 {
			ru.action = sp(pick(r, []string{"drop", "map", "zap"}))
			mark("action")
		}
		if r.Intn(8) == 0 {
			ru.mmt = sp(pick(r, []string{"counter", "observer", "timer", "histogram"}))
			mark("mmt")
		}
		c.rules = append(c.rules, ru)
	}
	return c, len(cls) > 0
}
