package main

import (
	"fmt"
	"math/rand"
	"os"
	"runtime"
	"strconv"
	"sync"
	"time"

	"github.com/prometheus/client_golang/prometheus"

	"github.com/prometheus/statsd_exporter/pkg/event"
	"github.com/prometheus/statsd_exporter/pkg/exporter"
	"github.com/prometheus/statsd_exporter/pkg/line"
	"github.com/prometheus/statsd_exporter/pkg/mapper"
	"github.com/prometheus/statsd_exporter/pkg/relay"
)

// `harness stress <seed> <tier> <gomaxprocs>`: the schedule mix of C20's quantifier in one process, meant to be
// built with -race (the race detector is the *search* for a concrete racing pair; the proof obligation is the
// lock discipline over the extracted access table). Prints nothing itself; race reports go to stderr.
func stressMain(args []string) {
	seed, _ := strconv.ParseInt(args[0], 10, 64)
	tier := args[1]
	procs, _ := strconv.Atoi(args[2])
	runtime.GOMAXPROCS(procs)
	dur := 1500 * time.Millisecond
	if tier == "thorough" {
		dur = 10 * time.Second
	}
	cfgs := []string{
		"defaults:\n  ttl: 1s\n  observer_type: histogram\n  histogram_options:\n    buckets: [0.1, 1, 10]\nmappings:\n- match: a.*\n  name: a_$1\n  labels:\n    lbl: $1\n- match: b.*.*\n  name: b\n  observer_type: summary\n",
		"defaults:\n  ttl: 2s\n  observer_type: summary\nmappings:\n- match: a.*\n  name: a2_$1\n- match: '^c\\.(.*)$'\n  match_type: regex\n  name: c_$1\n",
		"mappings: []\n",
		// unordered glob mode with capture references (the FSM's early-return path)
		"defaults:\n  glob_disable_ordering: true\n  ttl: 1s\nmappings:\n- match: a.*\n  name: au_$1\n  labels:\n    lbl: $1\n- match: b.*.*\n  name: bu_$2\n  labels:\n    l1: $1\n    l2: $2\n",
	}
	for _, kind := range []string{"none", "lru", "rr"} {
		m := newRealMapper(kind, 8)
		must(m.InitFromYAMLString(cfgs[0]))
		stop := make(chan struct{})
		var wg sync.WaitGroup
		// N concurrent GetMapping callers (library use) per cache kind
		for g := 0; g < 6; g++ {
			wg.Add(1)
			go func(g int) {
				defer wg.Done()
				r := rand.New(rand.NewSource(seed + int64(g)))
				names := []string{"a.x", "a.y", "b.x.y", "c.z", "q", "a.z", "b.b.b"}
				for {
					select {
					case <-stop:
						return
					default:
					}
					m.GetMapping(names[r.Intn(len(names))], mtypes[r.Intn(3)])
				}
			}(g)
		}
		// the pipeline: listeners -> event queue -> exporter, scrapers, reloader
		reg := prometheus.NewRegistry()
		ea := prometheus.NewCounterVec(prometheus.CounterOpts{Name: "ea"}, []string{"action"})
		eu := prometheus.NewCounter(prometheus.CounterOpts{Name: "eu"})
		ee := prometheus.NewCounterVec(prometheus.CounterOpts{Name: "ee"}, []string{"reason"})
		es := prometheus.NewCounterVec(prometheus.CounterOpts{Name: "es"}, []string{"type"})
		ec := prometheus.NewCounterVec(prometheus.CounterOpts{Name: "ec"}, []string{"type", "name"})
		mc := prometheus.NewGaugeVec(prometheus.GaugeOpts{Name: "mc"}, []string{"type"})
		ex := exporter.NewExporter(reg, m, nopLogger, ea, eu, ee, es, ec, mc)
		events := make(chan event.Events, 64)
		eq := event.NewEventQueue(events, 16, 20*time.Millisecond, prometheus.NewCounter(prometheus.CounterOpts{Name: "f"}))
		go ex.Listen(events)
		rl, err := relay.NewRelay(nopLogger, "127.0.0.1:9", 512)
		must(err)
		for g := 0; g < 4; g++ { // "listeners": parse lines and queue events
			wg.Add(1)
			go func(g int) {
				defer wg.Done()
				r := rand.New(rand.NewSource(seed*7 + int64(g)))
				p := line.NewParser()
				p.EnableDogstatsdParsing()
				p.EnableInfluxdbParsing()
				se := prometheus.NewCounterVec(prometheus.CounterOpts{Name: "se"}, []string{"reason"})
				c1, c2, c3 := ctr(), ctr(), ctr()
				lines := []string{"a.x:1|c", "a.y:2|g", "b.x.y:3|ms", "c.z:1|h|#t:v", "q:1|c:2|g", "a.z,k=v:1|c", "a.x:1|ms|@0.5"}
				for {
					select {
					case <-stop:
						return
					default:
					}
					l := lines[r.Intn(len(lines))]
					rl.RelayLine(l)
					eq.Queue(p.LineToEvents(l, *se, c1, c2, c3, nopLogger))
				}
			}(g)
		}
		for g := 0; g < 2; g++ { // scrapers
			wg.Add(1)
			go func() {
				defer wg.Done()
				for {
					select {
					case <-stop:
						return
					default:
					}
					reg.Gather()
					time.Sleep(time.Millisecond)
				}
			}()
		}
		for g := 0; g < 2; g++ { // reloaders (the SIGHUP goroutine and a POST /-/reload handler can overlap) alternating configs (ttl, observer type, buckets, rules)
			wg.Add(1)
			go func(g int) {
				defer wg.Done()
				i := g
				for {
					select {
					case <-stop:
						return
					default:
					}
					i++
					m.InitFromYAMLString(cfgs[i%len(cfgs)])
					time.Sleep(time.Duration(300+g*170) * time.Microsecond)
				}
			}(g)
		}
		time.Sleep(dur / 3)
		close(stop)
		wg.Wait()
		rl.VerifCloseConn()
		_ = mapper.MetricTypeCounter
	}
	fmt.Fprintln(os.Stderr, "stress done")
}
