package main

import (
	"fmt"
	"log/slog"
	"math/rand"
	"net"
	"strconv"
	"strings"
	"sync"
	"sync/atomic"
	"time"

	"github.com/prometheus/client_golang/prometheus"

	"github.com/prometheus/statsd_exporter/pkg/event"
	"github.com/prometheus/statsd_exporter/pkg/listener"
)

// gateParser blocks on the FIRST line of every datagram (lines starting with 'd') until a token is released, so that the
// processing goroutine of the real Listen loop can be held behind while further datagrams arrive on the socket.
type gateParser struct {
	mu      sync.Mutex
	lines   []string
	entered atomic.Int64
	gate    chan struct{}
}

func (p *gateParser) LineToEvents(line string, _ prometheus.CounterVec, _ prometheus.Counter, _ prometheus.Counter, _ prometheus.Counter, _ *slog.Logger) event.Events {
	if strings.HasPrefix(line, "d") {
		p.entered.Add(1)
		<-p.gate
	}
	p.mu.Lock()
	p.lines = append(p.lines, line)
	p.mu.Unlock()
	return nil
}

func (p *gateParser) nlines() int {
	p.mu.Lock()
	defer p.mu.Unlock()
	return len(p.lines)
}

func waitFor(d time.Duration, cond func() bool) bool {
	deadline := time.Now().Add(d)
	for !cond() {
		if time.Now().After(deadline) {
			return false
		}
		time.Sleep(20 * time.Microsecond)
	}
	return true
}

// udpl <cap> | send <hex> ; rel ; …   — the REAL Listen loop on a loopback socket with a packet queue of capacity <cap>
// (>= 1); the processing goroutine is held inside the parser on the first line of each datagram until `rel` lets exactly
// one datagram through. A datagram is accepted iff fewer than cap+1 are pending (one in the parser, cap in the queue):
// the model is the packet queue of `udpq` with capacity cap+1 and `rel` as its `proc`.
func execUdpl(op string) string {
	f := strings.Fields(op)
	if len(f) < 3 || f[0] != "udpl" || f[2] != "|" {
		return "bad-op"
	}
	capacity, _ := strconv.Atoi(f[1])
	if capacity < 1 {
		return "bad-op"
	}
	conn, err := net.ListenUDP("udp", &net.UDPAddr{IP: net.IPv4(127, 0, 0, 1)})
	must(err)
	defer conn.Close()
	conn.SetReadBuffer(4 << 20)
	p := &gateParser{gate: make(chan struct{}, 1000)}
	packets, drops := ctr(), ctr()
	l := &listener.StatsDUDPListener{Conn: conn, EventHandler: nullHandler{}, Logger: nopLogger, LineParser: p,
		UDPPackets: packets, UDPPacketDrops: drops, LinesReceived: ctr(), EventsFlushed: ctr(),
		SampleErrors:    *prometheus.NewCounterVec(prometheus.CounterOpts{Name: "se"}, []string{"reason"}),
		SamplesReceived: ctr(), TagErrors: ctr(), TagsReceived: ctr(), UdpPacketQueue: make(chan []byte, capacity)}
	go l.Listen()
	c, err := net.DialUDP("udp", nil, conn.LocalAddr().(*net.UDPAddr))
	must(err)
	defer c.Close()

	sent, released, wantLines := 0, 0, 0
	var pendingLines []int // line counts of the datagrams the harness expects to be pending (in the parser first)
	busy := func() bool { return int(p.entered.Load()) > released }
	settled := func() bool {
		q := len(l.UdpPacketQueue)
		return ctrVal(packets) == sent && ctrVal(drops)+int(p.entered.Load())+q == sent && (busy() || q == 0)
	}
	stalled := false
	for _, sub := range splitToks(f[3:], ";") {
		switch {
		case len(sub) == 2 && sub[0] == "send":
			d := dec(sub[1])
			before := ctrVal(drops)
			c.Write([]byte(d))
			sent++
			if !waitFor(2*time.Second, settled) {
				stalled = true
			}
			if ctrVal(drops) == before {
				pendingLines = append(pendingLines, strings.Count(d, "\n")+1)
			}
		case len(sub) == 1 && sub[0] == "rel":
			if !busy() {
				continue
			}
			p.gate <- struct{}{}
			released++
			if len(pendingLines) > 0 {
				wantLines += pendingLines[0]
				pendingLines = pendingLines[1:]
			}
			// the released datagram's lines are handed on, then the next pending datagram (if any) enters the parser
			waitFor(200*time.Millisecond, func() bool { return p.nlines() >= wantLines })
			if !waitFor(2*time.Second, settled) {
				stalled = true
			}
		}
	}
	queued := len(l.UdpPacketQueue)
	if busy() {
		queued++
	}
	p.mu.Lock()
	ls := append([]string(nil), p.lines...)
	p.mu.Unlock()
	out := fmt.Sprintf("packets=%d drops=%d queued=%d %s", ctrVal(packets), ctrVal(drops), queued, linesStr(ls))
	if stalled {
		out += " stalled"
	}
	// let the goroutines of this op finish
	for i := 0; i < 64; i++ {
		p.gate <- struct{}{}
	}
	return out
}

func init() {
	ul := &Component{Name: "udpl", Exec: execUdpl,
		Rule: "the REAL StatsDUDPListener.Listen loop on a loopback socket with packet-queue capacities 1..3 and a gated parser that holds the processing goroutine on the first line of each datagram: sequences of 2-14 operations over {send datagram d_i (1-3 lines, lengths differing so that a stale tail or a foreign datagram would show), release one datagram}, then everything is released. The model is the packet queue with one more slot (the datagram inside the parser). Compared: packets, drops, pending datagrams, and every line handed on in order (a datagram's lines must be those of its own bytes, also when later datagrams arrived while it was waiting, also after drops). Non-trivial: some datagram is dropped and a later one is accepted and processed after yet another arrived; distinct by op text."}
	ul.Gen = func(r *rand.Rand, tier string, emit Emit) {
		n := 300
		if tier == "thorough" {
			n = 5000
		}
		mk := func(j int, r *rand.Rand) string {
			d := fmt.Sprintf("d%d.%s:%d|c", j, strings.Repeat("x", r.Intn(12)), j)
			if r.Intn(3) == 0 {
				d += fmt.Sprintf("\nsecond%d:1|g", j)
			}
			if r.Intn(6) == 0 {
				d += fmt.Sprintf("\nthird%d.%s:1|g", j, strings.Repeat("y", r.Intn(5)))
			}
			return d
		}
		// corpus: fill, drop, make room, accept, overwrite
		for capacity := 1; capacity <= 3; capacity++ {
			var subs []string
			j := 0
			for ; j < capacity+2; j++ {
				subs = append(subs, "send "+enc(mk(j, r)))
			}
			subs = append(subs, "rel", "send "+enc(mk(j, r)), "send "+enc(mk(j+1, r)), "rel", "send "+enc(mk(j+2, r)))
			for k := 0; k < capacity+3; k++ {
				subs = append(subs, "rel")
			}
			emit(fmt.Sprintf("udpl %d | %s", capacity, strings.Join(subs, " ; ")), true, "corpus")
		}
		for i := 0; i < n; i++ {
			capacity := 1 + r.Intn(3)
			var subs []string
			k := 2 + r.Intn(13)
			pending, sends, dropped, acceptedAfterDrop := 0, 0, false, false
			for j := 0; j < k; j++ {
				if r.Intn(10) < 7 {
					subs = append(subs, "send "+enc(mk(j, r)))
					sends++
					if pending < capacity+1 {
						pending++
						if dropped {
							acceptedAfterDrop = true
						}
					} else {
						dropped = true
					}
				} else {
					subs = append(subs, "rel")
					if pending > 0 {
						pending--
					}
				}
			}
			for j := 0; j < capacity+2; j++ {
				subs = append(subs, "rel")
			}
			emit(fmt.Sprintf("udpl %d | %s", capacity, strings.Join(subs, " ; ")), acceptedAfterDrop && sends >= 4, fmt.Sprintf("cap%d", capacity))
		}
	}
	register(ul)
}
