package main

import (
	"fmt"
	"math/rand"
	"strings"
	"time"
)

// the history generator of the C03 stream, shared with the binary-level variant
var genC03 func(r *rand.Rand, n int, emit Emit, withTime bool)

func init() {
	all := pipeCfgOpts{true, true, true, true, true, true, true, true, true}
	base := "a history through the real Listen loop (mock clock) compared with the model at every scrape. "

	// ------------------------------------------------------------ C05 labels
	c05 := &Component{Name: "pipe_c05", Exec: execPipe, Rule: base + "C05 stream: rules with static and $n label templates whose keys clash with tag keys, honor_labels on/off, type-filtered rules so that samples of one line match different rules; lines group samples in all ways (single, multi-sample with mixed types, extended aggregation) with tags in all four syntaxes; lines are repeated so that cached mapping results are reused; every sixth line carries a sample the exporter refuses (negative, NaN or -Inf counter increment, negative sampling rate) with tags of its own, which must not show on any later sample. Non-trivial: a multi-sample line whose samples have different types under a config with a type-filtered rule carrying labels."}
	c05.Gen = func(r *rand.Rand, tier string, emit Emit) {
		// corpus: the repaired leak
		{
			h := &pipeHist{flags: "1111"}
			h.load(&rawCfg{rules: []rawRule{{match: "a.b", name: "a_b", mmt: sp("counter"), labels: [][2]string{{"rule", "one"}}}}})
			h.line("a.b:1|c:2|g")
			h.scrape()
			emit(h.op(), true, "corpus")
			h = &pipeHist{flags: "1111"}
			h.load(&rawCfg{ttl: int64(time.Second), rules: []rawRule{{match: "a.b", name: "a_b", mmt: sp("gauge"), labels: [][2]string{{"rule", "one"}}}}})
			h.line("a.b#t=v:1|c:2|g")
			h.scrape()
			h.adv(3 * time.Second)
			h.sweep()
			h.scrape()
			emit(h.op(), true, "corpus")
			// a refused sample's tags must not reach the next sample (either order of keys, same and other rule)
			for _, bad := range []string{"a.b:-1|c|#shard:7", "a.c#shard=7:NaN|c", "a.b:1|c|@-1|#shard:7,zone:x"} {
				h = &pipeHist{flags: "1111"}
				h.load(&rawCfg{rules: []rawRule{{match: "a.*", name: "m_$1", labels: [][2]string{{"job", "app"}}}}})
				h.line("a.b:1|c|#region:eu")
				h.line(bad)
				h.line("a.b:2|c|#region:eu")
				h.line("a.c:5|ms|#region:eu")
				h.scrape()
				emit(h.op(), true, "corpus")
			}
		}
		n := 3000
		if tier == "thorough" {
			n = 60000
		}
		for i := 0; i < n; i++ {
			h := &pipeHist{flags: "1111"}
			cfg := &rawCfg{}
			nr := 1 + r.Intn(3)
			typed := false
			for j := 0; j < nr; j++ {
				ru := rawRule{match: pick(r, []string{"a.b", "a.*", "*.b", "*.*", "a"}), name: pick(r, []string{"m", "n", "m_$1"})}
				nl := 1 + r.Intn(2)
				for k := 0; k < nl; k++ {
					key := pick(r, []string{"tag1", "rl", "job", "_9x", "k_k"})
					dup := false
					for _, kv := range ru.labels {
						if kv[0] == key {
							dup = true
						}
					}
					if !dup {
						ru.labels = append(ru.labels, [2]string{key, pick(r, []string{"one", "two", "$1", "r-$1", "$2"})})
					}
				}
				ru.honor = r.Intn(2) == 0
				if r.Intn(2) == 0 {
					ru.mmt = sp(pick(r, []string{"counter", "gauge", "observer"}))
					typed = true
				}
				cfg.rules = append(cfg.rules, ru)
			}
			h.load(cfg)
			mixed, refused := false, false
			var prev []string
			k := 4 + r.Intn(8)
			for j := 0; j < k; j++ {
				var l string
				if len(prev) > 0 && r.Intn(3) == 0 {
					l = prev[r.Intn(len(prev))]
				} else if r.Intn(6) == 0 {
					// a sample the exporter REFUSES (negative / NaN counter increment, also through the sampling rate), with
					// tags of its own: nothing of it may show in the label set of any later sample
					l = genRefusedLine(r, []string{"a.b", "a.b", "a.c", "b.b", "a"})
					refused = true
				} else {
					l = genWellFormedLine(r, []string{"a.b", "a.b", "a.c", "b.b", "a"}, 0.7)
				}
				if strings.Count(l, "|c") > 0 && (strings.Count(l, "|g") > 0 || strings.Count(l, "|ms") > 0) {
					mixed = true
				}
				prev = append(prev, l)
				h.line(l)
				h.scrape()
			}
			tag := "hist"
			if refused {
				tag = "hist_refused"
			}
			emit(h.op(), mixed && typed, tag)
		}
	}
	register(c05)

	// ------------------------------------------------------------ C06 counters
	c06 := &Component{Name: "pipe_c06", Exec: execPipe, Rule: base + "C06 stream: histories of 5-20 counter lines on 1-3 series with values and sample rates drawn from finite, negative, signed-zero, huge (1e19, 1e308), denormal, Inf, NaN and hex spellings, under rules with scale in {unset, 0, -1, 0.001, 1000, NaN, Inf}, a third of the lines carrying 2-4 increments of the series (one event batch in which refused and accepted increments are neighbours), with a scrape after every line and occasional TTL expiry. Non-trivial: the history contains a rejected increment (negative or NaN after sampling and scaling) and at least two accepted increments."}
	c06.Gen = func(r *rand.Rand, tier string, emit Emit) {
		vals := []string{"1", "2", "0", "-1", "0.5", "1e19", "1e308", "5e-324", "inf", "-inf", "NaN", "+Inf", "0x1p-2", "-0", "3", "1e300", "18446744073709551615", "9007199254740993", "4.5"}
		rates := []string{"", "", "", "0.1", "0.5", "2", "0", "inf", "nan", "-1", "-0.5", "1e-3", "bar", "1e309", "-0"}
		corpus := [][]string{{"foo:NaN|c"}, {"bar:inf|c|@inf"}, {"baz:1|c|@nan"}, {"c:1e19|c", "c:1e19|c"}, {"c:-1|c"}, {"c:1|c|@-1"},
			// several increments of one series in ONE event batch: a refused one must not be netted against its neighbours
			{"c:-3|c:5|c"}, {"c:NaN|c:2|c"}, {"c:5|c:-3|c:1|c"}, {"c:1|c", "c:-1|c|@0.5:4|c:2|c"}, {"c:-inf|c:inf|c"}}
		for _, ls := range corpus {
			h := &pipeHist{flags: "1111"}
			h.load(&rawCfg{})
			for _, l := range ls {
				h.line(l)
				h.scrape()
			}
			emit(h.op(), true, "corpus")
		}
		n := 4000
		if tier == "thorough" {
			n = 80000
		}
		for i := 0; i < n; i++ {
			h := &pipeHist{flags: "1111"}
			cfg := &rawCfg{}
			if r.Intn(2) == 0 {
				s := []float64{0, -1, 0.001, 1000, nan(), inf(), -0.0}[r.Intn(7)]
				cfg.rules = append(cfg.rules, rawRule{match: "a.*", name: "a_$1", scale: &s})
			}
			if r.Intn(4) == 0 {
				cfg.ttl = int64(2 * time.Second)
			}
			h.load(cfg)
			k := 5 + r.Intn(16)
			rej, acc := 0, 0
			for j := 0; j < k; j++ {
				v, rate := pick(r, vals), pick(r, rates)
				if r.Intn(3) != 0 {
					v = pick(r, []string{"1", "2", "0.5", "3", "4.5"})
				}
				l := pick(r, []string{"a.x", "a.y", "plain"}) + ":" + v + "|c"
				if rate != "" {
					l += "|@" + rate
				}
				if r.Intn(3) == 0 { // 2-4 increments of the series in one line = one event batch
					for m := 1 + r.Intn(3); m > 0; m-- {
						v2 := pick(r, []string{"1", "2", "0.5", "3", "4.5", "5", "-1", "-3", "NaN", "0", "-0.5", "inf"})
						l += ":" + v2 + "|c"
						if r.Intn(5) == 0 {
							l += "|@" + pick(r, []string{"0.5", "-1", "2", "0.1"})
						}
						if strings.HasPrefix(v2, "-") || v2 == "NaN" {
							rej++
						} else {
							acc++
						}
					}
				}
				if strings.HasPrefix(v, "-") || strings.Contains(strings.ToLower(v), "nan") || strings.HasPrefix(rate, "-") || rate == "nan" {
					rej++
				} else {
					acc++
				}
				h.line(l)
				h.scrape()
				if cfg.ttl != 0 && r.Intn(6) == 0 {
					h.adv(3 * time.Second)
					h.sweep()
					h.scrape()
				}
			}
			emit(h.op(), rej > 0 && acc > 1, "hist")
		}
	}
	register(c06)

	// ------------------------------------------------------------ C07 TTL
	c07 := &Component{Name: "pipe_c07", Exec: execPipe, Rule: base + "C07 stream: EXHAUSTIVE over all operation sequences of length <= D (D=5 quick, 6 thorough) over the 7-operation alphabet {sample A (counter a.x, rule ttl 2s), sample B (same name, other label set), sample C (gauge c.y, default ttl), advance 1s, advance 2s+1ns, sweep, reload with other ttls (rule ttl 5s / default ttl 1s, toggling)} with a scrape after every operation, starting from a config with rule ttl 2s and default ttl 0 (never expires); then random histories of depth 40 over a wider alphabet (4 series incl. an observer, ttl 0, reloads among 3 configs). Non-trivial: the sequence contains a sample, a clock advance beyond a ttl and a sweep (in that order); distinct by op text."}
	c07.Gen = func(r *rand.Rand, tier string, emit Emit) {
		mk := func(ruleTTL, defTTL time.Duration) *rawCfg {
			return &rawCfg{ttl: int64(defTTL), rules: []rawRule{{match: "a.*", name: "a_$1", ttl: int64(ruleTTL), labels: [][2]string{{"rl", "r"}}}}}
		}
		cfgA, cfgB := mk(2*time.Second, 0), mk(5*time.Second, time.Second)
		D := 5
		if tier == "thorough" {
			D = 6
		}
		// corpus: the repaired defects
		{
			h := &pipeHist{flags: "1111"}
			h.load(mk(100*time.Second, 0))
			h.line("a.x:1|c")
			h.load(mk(time.Second, 0))
			h.adv(time.Second)
			h.line("a.x:1|c")
			h.adv(9 * time.Second)
			h.sweep()
			h.scrape()
			emit(h.op(), true, "corpus")
		}
		var rec func(seq []int)
		rec = func(seq []int) {
			if len(seq) > 0 {
				h := &pipeHist{flags: "1111"}
				h.load(cfgA)
				cur := 0
				sample, adv, swept := false, false, false
				for _, o := range seq {
					switch o {
					case 0:
						h.line("a.x:1|c")
						sample = true
					case 1:
						h.line("a.x:2|c|#t:v")
						sample = true
					case 2:
						h.line("c.y:3|g")
						sample = true
					case 3:
						h.adv(time.Second)
					case 4:
						h.adv(2*time.Second + 1)
						if sample {
							adv = true
						}
					case 5:
						h.sweep()
						if adv {
							swept = true
						}
					case 6:
						cur = 1 - cur
						if cur == 1 {
							h.load(cfgB)
						} else {
							h.load(cfgA)
						}
					}
					h.scrape()
				}
				emit(h.op(), swept, fmt.Sprintf("exh_depth%d", len(seq)))
			}
			if len(seq) == D {
				return
			}
			for o := 0; o < 7; o++ {
				rec(append(seq[:len(seq):len(seq)], o))
			}
		}
		rec(nil)
		c07.Exhaustive = true
		n := 1500
		if tier == "thorough" {
			n = 30000
		}
		cfgs := []*rawCfg{cfgA, cfgB, mk(0, 0), mk(time.Second, 3*time.Second)}
		for i := 0; i < n; i++ {
			h := &pipeHist{flags: "1111"}
			h.load(cfgs[r.Intn(len(cfgs))])
			sample, adv, swept := false, false, false
			for j := 0; j < 40; j++ {
				switch r.Intn(9) {
				case 0, 1:
					h.line(pick(r, []string{"a.x:1|c", "a.x:1|c|#t:v", "a.y:2|g", "c.y:3|g", "a.z:5|ms", "c.t:1|h"}))
					sample = true
				case 2:
					h.line(genWellFormedLine(r, []string{"a.x", "c.y", "a.z"}, 0.3))
					sample = true
				case 3:
					h.adv(time.Second)
				case 4:
					h.adv(time.Duration(1+r.Intn(5))*time.Second + time.Duration(r.Intn(2)))
					if sample {
						adv = true
					}
				case 5, 6:
					h.sweep()
					if adv {
						swept = true
					}
				case 7:
					h.load(cfgs[r.Intn(len(cfgs))])
				default:
					h.adv(time.Duration(r.Intn(3)) * time.Second)
					h.sweep()
				}
				if r.Intn(2) == 0 {
					h.scrape()
				}
			}
			h.scrape()
			emit(h.op(), swept, "rand_depth40")
		}
	}
	register(c07)

	// ------------------------------------------------------------ C08 conflicts
	c08 := &Component{Name: "pipe_c08", Exec: execPipe, Rule: base + "C08 stream: EXHAUSTIVE over all ordered pairs and triples of claims (kind in {counter, gauge, summary, histogram} x name in {X, X_sum, X_count, X_bucket} x label set in {none, one tag}) = 32 claims, 32^2 pairs and (quick: 6000 sampled, thorough: all 32768) triples, each followed by a scrape, with ordinary traffic on an unrelated series before and after and a repeat of the first claim at the end; plus histories with TTL expiry between the claims. Non-trivial: at least two claims of different kind on related names; distinct by op text."}
	c08.Gen = func(r *rand.Rand, tier string, emit Emit) {
		type claim struct {
			kind, name string
			tag        bool
		}
		var claims []claim
		for _, k := range []string{"c", "g", "s", "h"} {
			for _, n := range []string{"X", "X_sum", "X_count", "X_bucket"} {
				for _, t := range []bool{false, true} {
					claims = append(claims, claim{k, n, t})
				}
			}
		}
		line := func(c claim) string {
			// summary vs histogram is chosen by a rule on the name prefix: "hX…" names map to histograms
			name := c.name
			ty := map[string]string{"c": "c", "g": "g", "s": "ms", "h": "h"}[c.kind]
			if c.kind == "h" {
				name = "hist." + c.name
			}
			l := name + ":1|" + ty
			if c.tag {
				l += "|#t:v"
			}
			return l
		}
		cfg := &rawCfg{rules: []rawRule{{match: "hist.*", name: "$1", obs: sp("histogram"), mmt: sp("observer")}}}
		cfgTTL := &rawCfg{ttl: int64(time.Second), rules: cfg.rules}
		run := func(cs []claim, tag string, ttl bool) {
			h := &pipeHist{flags: "1111"}
			if ttl {
				h.load(cfgTTL)
			} else {
				h.load(cfg)
			}
			h.line("other:1|c")
			kinds := map[string]bool{}
			for i, c := range cs {
				h.line(line(c))
				h.scrape()
				kinds[c.kind] = true
				if ttl && i == 0 {
					h.adv(2 * time.Second)
					h.sweep()
					h.scrape()
				}
			}
			h.line("other:1|c")
			h.line(line(cs[0]))
			h.scrape()
			emit(h.op(), len(kinds) > 1, tag)
		}
		for _, a := range claims {
			for _, b := range claims {
				run([]claim{a, b}, "pairs", false)
				if !a.tag && !b.tag {
					run([]claim{a, b}, "pairs_ttl", true)
				}
			}
		}
		c08.Exhaustive = true
		if tier == "thorough" {
			for _, a := range claims {
				for _, b := range claims {
					for _, c := range claims {
						run([]claim{a, b, c}, "triples", false)
					}
				}
			}
		} else {
			for i := 0; i < 6000; i++ {
				run([]claim{claims[r.Intn(32)], claims[r.Intn(32)], claims[r.Intn(32)]}, "triples_sampled", false)
			}
		}
	}
	register(c08)

	// ------------------------------------------------------------ C03 scrape consistency
	c03 := &Component{Name: "pipe_c03", Exec: execPipe, Rule: base + "C03 stream: lines whose names end in _sum/_count/_bucket, equal the names of two pre-registered collectors (a counter and a gauge family registered in the same registry before the exporter starts), or consist only of tags; tag keys that are reserved (__x, le, quantile), exotic (unicode, dots, digits first) or clash with rule labels; rules giving one name different help strings (one pair without, one pair with a ttl so that all series of the name can expire); a rule that gives a name an expiring series next to its never-expiring one, with clock advances and TTL sweeps in between; all stat types; a scrape after every line. Non-trivial: the history touches at least one name with a companion suffix or a pre-registered name, or a reserved tag key."}
	c03.Gen = func(r *rand.Rand, tier string, emit Emit) {
		n := 4000
		if tier == "thorough" {
			n = 80000
		}
		genC03(r, n, emit, true)
	}
	genC03 = func(r *rand.Rand, n int, emit Emit, withTime bool) {
		pres := []preFam{{"statsd_exporter_events_total", "c", "The total number of StatsD events seen."}, {"go_goroutines", "g", "Number of goroutines that currently exist."}}
		names := []string{"x", "x_sum", "x_count", "x_bucket", "statsd_exporter_events_total", "go_goroutines", "y", "y_sum", "a.b", "9z"}
		keys := []string{"__x", "le", "quantile", "tag1", "é", "a.b", "9k", "t", "_", "__"}
		corpus := [][]string{{"t1:1|c", "@adv3", "t2:1|c", "t1:1|c"}, {"t2:1|c", "t1:1|c", "@adv3", "t1:1|c|#a:b", "t2:1|c"}, {"x:1|c", "ttl.x:1|c", "@adv3", "x:3|g"}, {"ttl.y:1|ms", "@adv3", "y_sum:1|c", "y:1|ms"}, {"foo:1|c|#__x:1"}, {",a=b:1|c"}, {"[a=b]:1|c"}, {"foo:1|ms|#quantile:0.5"}, {"hist.foo:1|ms|#le:0.5"}, {"x:1|ms", "x_sum:1|ms"}, {"hist.x_bucket:1|h", "hist.x:1|h"}, {"h1:1|c", "h2:1|c|#t:v"}}
		// `ttl.<name>` gives <name> a series that expires after 2s next to the never-expiring series of the plain line
		base := &rawCfg{rules: []rawRule{{match: "hist.*", name: "$1", obs: sp("histogram"), mmt: sp("observer")},
			{match: "h1", name: "hh", help: "help one"}, {match: "h2", name: "hh", help: "help two"},
			{match: "ttl.*", name: "$1", ttl: int64(2 * time.Second), labels: [][2]string{{"exp", "1"}}},
			// one name, two help strings, every series of it expiring
			{match: "t1", name: "tt", help: "help one", ttl: int64(2 * time.Second)},
			{match: "t2", name: "tt", help: "help two", ttl: int64(2 * time.Second), labels: [][2]string{{"kk", "v"}}}}}
		for _, ls := range corpus {
			h := &pipeHist{flags: "1111", pres: pres}
			h.load(base)
			for _, l := range ls {
				if l == "@adv3" {
					if !withTime {
						continue
					}
					h.adv(3 * time.Second)
					h.sweep()
				} else {
					h.line(l)
				}
				h.scrape()
			}
			h.line("fine:1|c")
			h.scrape()
			emit(h.op(), true, "corpus")
		}
		for i := 0; i < n; i++ {
			h := &pipeHist{flags: "1111", pres: pres}
			if r.Intn(5) == 0 {
				h.flags = fmt.Sprintf("%04b", r.Intn(16))
			}
			cfg := base
			if r.Intn(2) == 0 {
				cfg = genPipeCfg(r, all)
				cfg.rules = append(cfg.rules, base.rules...)
			}
			h.load(cfg)
			k := 3 + r.Intn(10)
			nt := false
			for j := 0; j < k; j++ {
				if withTime && r.Intn(9) == 0 { // time passes and the sweep runs: names may be freed, partly or entirely
					h.adv(time.Duration(1+r.Intn(3)) * time.Second)
					h.sweep()
					h.scrape()
					continue
				}
				name := pick(r, names)
				if r.Intn(4) == 0 {
					name = "hist." + name
				} else if r.Intn(6) == 0 {
					name = "ttl." + name
				}
				if r.Intn(8) == 0 {
					name = pick(r, []string{"h1", "h2", "t1", "t2"})
				}
				if strings.Contains(name, "_") {
					nt = true
				}
				l := name
				tagged := r.Intn(3) == 0
				if tagged {
					key := pick(r, keys)
					if strings.HasPrefix(key, "__") || key == "le" || key == "quantile" {
						nt = true
					}
					switch r.Intn(3) {
					case 0:
						l += "#" + key + "=v"
					case 1:
						l += "," + key + "=v"
					default:
						l += ":1|" + pick(r, []string{"c", "g", "ms", "h"}) + "|#" + key + ":v"
						h.line(l)
						h.scrape()
						continue
					}
				}
				if r.Intn(25) == 0 {
					l = pick(r, []string{",a=b", "[a=b]", "#a=b", "[a=b]x"})
				}
				l += ":" + pick(r, []string{"1", "2", "0.5"}) + "|" + pick(r, []string{"c", "g", "ms", "h", "d"})
				h.line(l)
				h.scrape()
			}
			emit(h.op(), nt, "hist")
		}
	}
	register(c03)

	// ------------------------------------------------------------ C02 hostile input
	c02 := &Component{Name: "pipe_c02", Exec: execPipe, Rule: base + "C02 stream: every history interleaves hostile lines (grammar-aware mutations of valid lines, raw delimiter-rich and invalid-UTF-8 byte strings, reserved label names, extreme numerics, the corpus of once-crashing inputs) with well-formed lines at every position under generated configurations and random parser-flag combinations; the well-formed lines that follow must be processed and exposed exactly as the model says (a panic anywhere in parser, exporter, registry or client library ends the history with `panic`, which the model never predicts for these inputs). Non-trivial: the history has a hostile line that raised an error or produced an odd event, followed by a well-formed line; distinct by op text."}
	c02.Gen = func(r *rand.Rand, tier string, emit Emit) {
		n := 5000
		if tier == "thorough" {
			n = 100000
		}
		crashers := []string{"a]b[:1|c", "a]b[c]:1|c", "foo:1|ms|#quantile:0.5", "hist.foo:1|ms|#le:0.5", "foo:1|c|#__name__:x", ",a=b:1|c", "[a=b]:1|c", "\xff\xfe:1|c", "foo:NaN|c", "foo:1|ms|@0.0001", "foo:1|h|@-1", "foo:1|d|@nan", "foo:1|ms|@inf", "x:1e400|g", "x:-1e400|ms", "x:nan|h", "hist.x:nan|h", "hist.x:inf|h", "x:1|c|@1e-400"}
		hist := rawRule{match: "hist.*", name: "$1", obs: sp("histogram"), mmt: sp("observer")}
		for _, cr := range crashers {
			for _, fl := range []string{"1111", "0000", "0001", "1000"} {
				h := &pipeHist{flags: fl}
				h.load(&rawCfg{rules: []rawRule{hist}})
				h.line("ok.before:1|c")
				h.line(cr)
				h.line("ok.after:1|c")
				h.line("hist.ok:5|ms")
				h.scrape()
				emit(h.op(), true, "corpus")
			}
		}
		for i := 0; i < n; i++ {
			h := &pipeHist{flags: fmt.Sprintf("%04b", r.Intn(16))}
			if r.Intn(2) == 0 {
				h.flags = "1111"
			}
			cfg := genPipeCfg(r, all)
			cfg.rules = append(cfg.rules, hist)
			h.load(cfg)
			k := 4 + r.Intn(10)
			hostileSeen, nt := false, false
			for j := 0; j < k; j++ {
				switch r.Intn(5) {
				case 0:
					h.line(genHostile(r))
					hostileSeen = true
				case 1:
					l, _ := genLine(r)
					h.line(mutate(r, l))
					hostileSeen = true
				case 2:
					h.line(pick(r, crashers))
					hostileSeen = true
				default:
					h.line(genWellFormedLine(r, plNames, 0.3))
					if hostileSeen {
						nt = true
					}
				}
				if r.Intn(3) == 0 {
					h.scrape()
				}
			}
			h.scrape()
			emit(h.op(), nt, "hist")
		}
	}
	register(c02)
}
