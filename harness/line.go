package main

import (
	"errors"
	"fmt"
	"math"
	"math/rand"
	"sort"
	"strconv"
	"strings"

	"github.com/prometheus/client_golang/prometheus"
	dto "github.com/prometheus/client_model/go"
	"github.com/prometheus/common/promslog"

	"github.com/prometheus/statsd_exporter/pkg/event"
	"github.com/prometheus/statsd_exporter/pkg/line"
)

var nopLogger = promslog.NewNopLogger()

func bits(f float64) string {
	if math.IsNaN(f) {
		return "nan"
	}
	return fmt.Sprintf("%016x", math.Float64bits(f))
}

// pfDict: every token of the line on which strconv.ParseFloat does not return a syntax error.
func pfDict(l string) (string, bool) {
	seen := map[string]bool{}
	var out []string
	huge := false
	add := func(c string, rate bool) {
		if rate { // a tiny sample rate asks for 1/rate events: keep the harness from exhausting memory
			if v, err := strconv.ParseFloat(c, 64); (err == nil || errors.Is(err, strconv.ErrRange)) && v != 0 && math.Abs(v) < 1e-4 {
				huge = true
			}
		}
		if seen[c] {
			return
		}
		seen[c] = true
		v, err := strconv.ParseFloat(c, 64)
		e := "o"
		if err != nil {
			if errors.Is(err, strconv.ErrRange) {
				e = "r"
			} else {
				return
			}
		}
		out = append(out, enc(c)+"="+bits(v)+":"+e)
	}
	both := func(c string) {
		add(c, false)
		if strings.HasPrefix(c, "@") {
			add(c[1:], true)
		}
	}
	for _, p := range strings.Split(l, "|") {
		both(p)
		for _, q := range strings.Split(p, ":") {
			both(q)
		}
	}
	return strings.Join(out, " "), huge
}

func parserFor(flags string) *line.Parser {
	p := line.NewParser()
	if flags[0] == '1' {
		p.EnableDogstatsdParsing()
	}
	if flags[1] == '1' {
		p.EnableInfluxdbParsing()
	}
	if flags[2] == '1' {
		p.EnableLibratoParsing()
	}
	if flags[3] == '1' {
		p.EnableSignalFXParsing()
	}
	return p
}

func counterVal(c prometheus.Counter) int {
	var m dto.Metric
	c.Write(&m)
	return int(m.GetCounter().GetValue())
}

func labelsStr(l map[string]string) string {
	var ks []string
	for k := range l {
		ks = append(ks, k)
	}
	sort.Strings(ks)
	var out []string
	for _, k := range ks {
		out = append(out, enc(k)+"="+enc(l[k]))
	}
	return strings.Join(out, ",")
}

func evStr(e event.Event) string {
	k := "?"
	switch ev := e.(type) {
	case *event.CounterEvent:
		k = "c"
	case *event.GaugeEvent:
		k = "g"
		if ev.GRelative {
			k = "g+"
		}
	case *event.ObserverEvent:
		k = "o"
	}
	return k + ":" + enc(e.MetricName()) + ":" + bits(e.Value())
}

func rle(xs []string) []string {
	var out []string
	for i := 0; i < len(xs); {
		j := i
		for j < len(xs) && xs[j] == xs[i] {
			j++
		}
		if j-i == 1 {
			out = append(out, xs[i])
		} else {
			out = append(out, fmt.Sprintf("%s*%d", xs[i], j-i))
		}
		i = j
	}
	return out
}

type parseResult struct {
	events event.Events
	strict string
	info   string
}

func runParser(flags, l string) (res parseResult, panicked bool) {
	defer func() {
		if e := recover(); e != nil {
			panicked = true
		}
	}()
	p := parserFor(flags)
	sampleErrors := prometheus.NewCounterVec(prometheus.CounterOpts{Name: "se"}, []string{"reason"})
	samplesReceived := prometheus.NewCounter(prometheus.CounterOpts{Name: "sr"})
	tagErrors := prometheus.NewCounter(prometheus.CounterOpts{Name: "te"})
	tagsReceived := prometheus.NewCounter(prometheus.CounterOpts{Name: "tr"})
	evs := p.LineToEvents(l, *sampleErrors, samplesReceived, tagErrors, tagsReceived, nopLogger)
	var es []string
	for _, e := range evs {
		es = append(es, evStr(e))
	}
	lbl := ""
	if len(evs) > 0 {
		lbl = labelsStr(evs[0].Labels())
		for _, e := range evs[1:] {
			if labelsStr(e.Labels()) != lbl {
				lbl = "INCONSISTENT-LABELS-WITHIN-LINE"
			}
		}
	}
	ch := make(chan prometheus.Metric, 64)
	go func() { sampleErrors.Collect(ch); close(ch) }()
	var reasons []string
	ne := 0
	for m := range ch {
		var d dto.Metric
		m.Write(&d)
		n := int(d.GetCounter().GetValue())
		ne += n
		reasons = append(reasons, fmt.Sprintf("%s:%d", d.GetLabel()[0].GetValue(), n))
	}
	sort.Strings(reasons)
	res.events = evs
	res.strict = fmt.Sprintf("n=%d [%s] L=%s S=%d TE=%d TR=%d NE=%d", len(evs), strings.Join(rle(es), " "), lbl,
		counterVal(samplesReceived), counterVal(tagErrors), counterVal(tagsReceived), ne)
	res.info = "errs=" + strings.Join(reasons, ",")
	return res, false
}

// parse <flags> <hexline> [dict...]
func execParse(op string) string {
	f := strings.Fields(op)
	if len(f) < 3 || f[0] != "parse" || len(f[1]) != 4 {
		return "bad-op"
	}
	l := dec(f[2])
	if _, huge := pfDict(l); huge {
		return "skip-huge"
	}
	r, panicked := runParser(f[1], l)
	if panicked {
		return "panic"
	}
	return r.strict + "\t" + r.info
}

func parseOp(flags, l string) string {
	d, _ := pfDict(l)
	op := "parse " + flags + " " + enc(l)
	if d != "" {
		op += " " + d
	}
	return op
}

// ---------------------------------------------------------------- generators

func pick(r *rand.Rand, xs []string) string { return xs[r.Intn(len(xs))] }

var lgNames = []string{"foo", "a.b", "a.b.c", "x-y", "9lives", "é.ü", "a b", "foo_bar", "a..b", "m", "Zq.1", "x--y", "€uro", "a.*"}
var lgKeys = []string{"tag1", "a.b", "9x", "k-k", "é", "k", "tag2", "__x", "le", "quantile", "a b"}
var lgVals = []string{"bar", "v v", "x=y", "é", "1", "b.c", "€", "v:w", "#v", "a/b"}
var lgNums = []string{"1", "2", "0", "-1", "+3", "1.5", "100", "-0", "+0.25", "1e3", "1e-3", "1e308", "1e309", "-1e309", "1e-400", "NaN", "nan", "inf", "-Inf", "+Inf", "0x1p-2", "1_0", ".5", "5.", "1e", "", "abc", "--1", "+-1", "0x", "1 ", "١"}
var lgGoodNums = []string{"1", "2", "0", "-1", "+3", "1.5", "100", "+0.25", "1e3", "300", "0.001", "12345678"}
var lgTypes = []string{"c", "g", "ms", "h", "d", "s", "x", "", "cc", "C", "ms "}
var lgGoodTypes = []string{"c", "g", "ms", "h", "d"}
var lgRates = []string{"0.1", "0.5", "1", "2", "0", "bar", "inf", "nan", "-0.5", "1e-3", "0x1p-2", "", "0.3", "1e309", "-0", "0.25", "1e400", "-inf", "0.01"}

type tagT struct{ k, v, raw string } // raw != "" ⇒ malformed form rendered literally up to the separator

func genTags(r *rand.Rand, n int, malformedP float64) []tagT {
	var ts []tagT
	for i := 0; i < n; i++ {
		if r.Float64() < malformedP {
			switch r.Intn(4) {
			case 0:
				ts = append(ts, tagT{raw: "E"}) // entirely empty tag
			case 1:
				ts = append(ts, tagT{k: "", v: pick(r, lgVals)}) // empty key
			case 2:
				ts = append(ts, tagT{k: pick(r, lgKeys), v: ""}) // empty value
			default:
				ts = append(ts, tagT{raw: "N", k: pick(r, lgKeys)}) // no separator
			}
		} else {
			ts = append(ts, tagT{k: pick(r, lgKeys), v: pick(r, lgVals)})
		}
	}
	return ts
}

func renderTags(ts []tagT, sep string, hashPrefix bool) string {
	var out []string
	for _, t := range ts {
		s := ""
		switch t.raw {
		case "E":
			s = ""
		case "N":
			s = t.k
		default:
			s = t.k + sep + t.v
		}
		if hashPrefix && s != "" && len(out)%2 == 1 {
			s = "#" + s
		}
		out = append(out, s)
	}
	return strings.Join(out, ",")
}

func genSample(r *rand.Rand, good bool) string {
	if good {
		s := pick(r, lgGoodNums) + "|" + pick(r, lgGoodTypes)
		if r.Intn(3) == 0 {
			s += "|@" + pick(r, []string{"0.1", "0.5", "1", "0.25", "2", "0.01"})
		}
		return s
	}
	switch r.Intn(8) {
	case 0:
		return pick(r, lgNums) + "|" + pick(r, lgGoodTypes)
	case 1:
		return pick(r, lgGoodNums) + "|" + pick(r, lgTypes)
	case 2:
		return pick(r, lgGoodNums) + "|" + pick(r, lgGoodTypes) + "|@" + pick(r, lgRates)
	case 3:
		return pick(r, lgGoodNums) + "|" + pick(r, lgGoodTypes) + "|" + pick(r, []string{"", "x", "0.5", "@", "#", "@0.5|@0.5", "@0.5|", "|", "@0.1|x|y", "@2|#"})
	case 4:
		return pick(r, lgGoodNums)
	case 5:
		return pick(r, lgNums) + "|" + pick(r, lgTypes) + "|@" + pick(r, lgRates)
	case 6:
		return ""
	default:
		return pick(r, lgGoodNums) + "|" + pick(r, lgGoodTypes) + "|@" + pick(r, lgRates) + "|@" + pick(r, lgRates)
	}
}

func mutate(r *rand.Rand, s string) string {
	if len(s) == 0 {
		return s
	}
	b := []byte(s)
	delims := ":|#,=[]@"
	switch r.Intn(5) {
	case 0: // drop a byte
		i := r.Intn(len(b))
		b = append(b[:i:i], b[i+1:]...)
	case 1: // duplicate a byte
		i := r.Intn(len(b))
		b = append(b[:i+1:i+1], b[i:]...)
	case 2: // replace by a delimiter
		b[r.Intn(len(b))] = delims[r.Intn(len(delims))]
	case 3: // insert a delimiter
		i := r.Intn(len(b) + 1)
		b = append(b[:i:i], append([]byte{delims[r.Intn(len(delims))]}, b[i:]...)...)
	default: // swap two bytes
		i, j := r.Intn(len(b)), r.Intn(len(b))
		b[i], b[j] = b[j], b[i]
	}
	return string(b)
}

// genLine builds one structured line; returns the line and a few distribution tags
func genLine(r *rand.Rand) (string, []string) { return genLineMode(r, "") }

// mode "c09": single-sample lines (the four tag syntaxes are the subject); mode "c10": multi-sample and
// extended-aggregation lines; "": everything
func genLineMode(r *rand.Rand, mode string) (string, []string) {
	name := pick(r, lgNames)
	var tags []string
	ntags := 0
	if r.Intn(2) == 0 {
		ntags = 1 + r.Intn(4)
	}
	mal := 0.0
	if r.Intn(3) == 0 {
		mal = 0.35
	}
	ts := genTags(r, ntags, mal)
	style := r.Intn(5) // 0 none/dogstatsd decided below, 1 librato, 2 influx, 3 signalfx, 4 dogstatsd
	nameSide := name
	dog := ""
	if ntags > 0 {
		switch style {
		case 1:
			nameSide = name + "#" + renderTags(ts, "=", false)
			tags = append(tags, "style_librato")
		case 2:
			nameSide = name + "," + renderTags(ts, "=", false)
			tags = append(tags, "style_influx")
		case 3:
			cut := r.Intn(len(name) + 1)
			nameSide = name[:cut] + "[" + renderTags(ts, "=", false) + "]" + name[cut:]
			tags = append(tags, "style_signalfx")
		default:
			dog = "|#" + renderTags(ts, ":", r.Intn(4) == 0)
			tags = append(tags, "style_dogstatsd")
		}
		if r.Intn(12) == 0 { // mixed styles
			dog = "|#" + renderTags(genTags(r, 1, 0), ":", false)
			tags = append(tags, "mixed")
		}
	}
	var body string
	if (mode == "" && r.Intn(5) == 0) || (mode == "c10" && r.Intn(3) == 0) { // extended aggregation
		n := 2 + r.Intn(4)
		var vs []string
		for i := 0; i < n; i++ {
			if r.Intn(6) == 0 {
				vs = append(vs, pick(r, lgNums))
			} else {
				vs = append(vs, pick(r, lgGoodNums))
			}
		}
		ty := pick(r, []string{"ms", "h", "d", "ms", "h", "d", "c", "g", "x", ""})
		body = strings.Join(vs, ":") + "|" + ty
		if r.Intn(2) == 0 {
			body += "|@" + pick(r, []string{"0.5", "0.1", "1", "bar", "0", "0.25"})
		}
		body += dog
		tags = append(tags, "extagg")
	} else {
		n := 1
		if r.Intn(2) == 0 {
			n = 1 + r.Intn(6)
		}
		if mode == "c09" {
			n = 1
		}
		if mode == "c10" {
			n = 2 + r.Intn(5)
		}
		var ss []string
		bad := 0
		for i := 0; i < n; i++ {
			good := r.Intn(4) != 0
			if !good {
				bad++
			}
			ss = append(ss, genSample(r, good))
		}
		body = strings.Join(ss, ":") + dog
		if n > 1 {
			tags = append(tags, "multi")
			if bad > 0 {
				tags = append(tags, "multi_with_malformed")
			}
		}
	}
	l := nameSide + ":" + body
	if r.Intn(6) == 0 {
		l = mutate(r, l)
		tags = append(tags, "mutated")
		if r.Intn(3) == 0 {
			l = mutate(r, l)
		}
	}
	return l, tags
}

func genHostile(r *rand.Rand) string {
	alpha := []string{"a", "b", "1", "0", ".", ":", "|", "#", ",", "=", "[", "]", "@", "c", "g", "ms", "h", "d", "s", "-", "+", "e", "\xff", "é", "\x80", " ", "\n", "|#", "|@", ":1|c", "inf", "nan", "\t", "*", "$"}
	n := 1 + r.Intn(24)
	var sb strings.Builder
	for i := 0; i < n; i++ {
		sb.WriteString(alpha[r.Intn(len(alpha))])
	}
	return sb.String()
}

var parseCorpus = []string{
	"a]b[:1|c", "a]b[c:1|c", "[a=b]:1|c", ",a=b:1|c", "foo:1|c:2|g", "foo:NaN|c", "bar:inf|c|@inf", "baz:1|c|@nan",
	"foo:1|ms|#quantile:0.5", "foo:1|ms|#le:0.5", "a.b#t=v:1|c:2|g", "foo:1|c|@bar", "foo:1|c|@0.1|#a:b", "foo:1:2:3|ms|@0.5|#a:b,c:d",
	"foo:1:2|c", "foo:1:2|x|#a:b", "foo#a=b:1|c|#c:d", "foo:1|c|#", "foo:1|c|#,", "foo:1|c|#a:", "foo:1|c|#:b", "foo:1|c|#a", "foo[a=b:1|c",
	"foo]:1|c", "foo[]:1|c", "foo[a=b][c=d]:1|c", "foo,:1|c", "foo#:1|c", "foo,a=b,:1|c", "foo,,a=b:1|c", "foo:1|ms|@0.5|@0.25", "foo:1|s|@0.5", "foo:1|s", "foo:1|x|@0.5",
	"foo:|c", "foo:1|", "foo:1", "foo:", ":1|c", "foo", "", "foo:1|c|@0.5|#a:b|x", "foo:1|c|x|y|z", "\xff:1|c", "foo:1|c|#a:\xff", "foo:+1|g", "foo:-1|g|@0.1", "foo:-1|c",
	"foo:1|c|@1e309", "foo:1|ms|@-0.5", "foo:1|ms|@inf", "foo:1|ms|@nan", "foo:1|ms|@2", "foo:1|ms|@0.3", "foo:1|h|@1e-3", "foo:0x10|c", "foo:1_000|c", "foo:1e309|c",
}

func init() {
	c := &Component{Name: "parse", Exec: execParse,
		Rule: "corpus (witnesses of repaired/known defects and every error branch) under all 16 flag combinations; then a structured stream built from the line grammar (name from 14 shapes incl. components needing escaping; 0-4 tags in one of the four syntaxes incl. SignalFX brackets in the middle of the name, malformed tags (empty, empty key, empty value, no separator) in any position, occasional mixed styles; 1-6 samples each well-formed or malformed (bad number from 32 spellings incl. NaN/Inf/hex/denormal/range errors, unknown/set/empty type, empty or surplus fields, bad/duplicate rates) or an extended-aggregation value list with valid/invalid type), 1 in 6 lines mutated (drop/dup/replace/insert delimiter/swap), each under a random flag combination; then a hostile stream of random delimiter-rich and invalid-UTF-8 byte strings. Non-trivial: the line has >=2 samples, or tags, or raises an error counter; distinct by op text.",
	}
	c.Gen = func(r *rand.Rand, tier string, emit Emit) {
		allFlags := []string{}
		for i := 0; i < 16; i++ {
			allFlags = append(allFlags, fmt.Sprintf("%04b", i))
		}
		nt := func(res string, l string) bool {
			return strings.Count(l, ":") >= 2 || strings.ContainsAny(l, "#,[") || !strings.Contains(res, "NE=0")
		}
		em := func(flags, l string, tags ...string) {
			if _, huge := pfDict(l); huge {
				return
			}
			op := parseOp(flags, l)
			emit(op, nt(execParse(op), l), append(tags, "flags_"+flags)...)
		}
		for _, l := range parseCorpus {
			for _, fl := range allFlags {
				em(fl, l, "corpus")
			}
		}
		n := 60000
		if tier == "thorough" {
			n = 1200000
		}
		for i := 0; i < n; i++ {
			l, tags := genLine(r)
			fl := allFlags[r.Intn(16)]
			if r.Intn(2) == 0 {
				fl = "1111"
			}
			em(fl, l, tags...)
		}
		for i := 0; i < n/3; i++ {
			em(allFlags[r.Intn(16)], genHostile(r), "hostile")
		}
	}
	register(c)
	for _, mode := range []string{"c09", "c10"} {
		mode := mode
		v := &Component{Name: "parse_" + mode, Exec: execParse}
		if mode == "c09" {
			v.Rule = "C09 stream: lines with exactly ONE sample (so that only tag handling is exercised): the corpus plus grammar-built lines whose 1-4 tags are written in one of the four syntaxes (SignalFX brackets anywhere in the name), malformed tags (entirely empty, empty key, empty value, no separator) in any position, occasional mixed styles, 1 in 6 lines mutated, under all 16 flag combinations (half of the lines with all four enabled). Non-trivial: the line has tags or a tag-syntax marker; distinct by op text."
		} else {
			v.Rule = "C10 stream: lines with 2-6 samples, each well-formed (any type, optional rate) or malformed (bad number from 32 spellings, unknown/set/empty type, empty or surplus fields, bad or duplicate rates) in every position, and extended-aggregation value lists with valid and invalid types, with and without rate and DogStatsD tags; 1 in 6 lines mutated. Non-trivial: >=2 samples of which at least one is malformed, or an extended-aggregation line; distinct by op text."
		}
		v.Gen = func(r *rand.Rand, tier string, emit Emit) {
			allFlags := []string{}
			for i := 0; i < 16; i++ {
				allFlags = append(allFlags, fmt.Sprintf("%04b", i))
			}
			em := func(flags, l string, nt bool, tags ...string) {
				if _, huge := pfDict(l); huge {
					return
				}
				emit(parseOp(flags, l), nt, append(tags, "flags_"+flags)...)
			}
			for _, l := range parseCorpus {
				multi := strings.Count(l, ":") >= 2
				if (mode == "c09") == multi {
					continue
				}
				for _, fl := range allFlags {
					em(fl, l, true, "corpus")
				}
			}
			n := 60000
			if tier == "thorough" {
				n = 1200000
			}
			for i := 0; i < n; i++ {
				l, tags := genLineMode(r, mode)
				fl := allFlags[r.Intn(16)]
				if r.Intn(2) == 0 {
					fl = "1111"
				}
				nt := strings.ContainsAny(l, "#,[")
				if mode == "c10" {
					nt = false
					for _, t := range tags {
						if t == "multi_with_malformed" || t == "extagg" {
							nt = true
						}
					}
				}
				em(fl, l, nt, tags...)
			}
		}
		register(v)
	}
}

// parse_exh: every string over a delimiter-rich alphabet up to a length bound, through the real parser
func init() {
	c := &Component{Name: "parse_exh", Exec: execParse,
		Rule: "EXHAUSTIVE: every string of length 0..L (L=4 quick, 5 thorough) over the 16-symbol alphabet {a 1 : | # @ , = [ ] c m s h . -} (all delimiters of the line grammar and of the four tag syntaxes, the type letters, a digit, a sign) with all four tag syntaxes enabled, and every string of length 0..3 with all of them disabled. Non-trivial: the parser produced an event or an error counter moved; distinct by op text."}
	c.Gen = func(r *rand.Rand, tier string, emit Emit) {
		alpha := []byte("a1:|#@,=[]cmsh.-")
		L := 4
		if tier == "thorough" {
			L = 5
		}
		var rec func(prefix []byte, left int, flags string)
		rec = func(prefix []byte, left int, flags string) {
			l := string(prefix)
			op := parseOp(flags, l)
			emit(op, strings.Contains(l, ":") && strings.Contains(l, "|"), fmt.Sprintf("len%d_%s", len(prefix), flags))
			if left == 0 {
				return
			}
			for _, b := range alpha {
				rec(append(prefix, b), left-1, flags)
			}
		}
		rec(nil, L, "1111")
		rec(nil, 3, "0000")
		c.Exhaustive = true
	}
	register(c)
}
