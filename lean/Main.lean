import SE.Driver.Escape
import SE.Driver.Line
import SE.Driver.Mapper
import SE.Driver.Pipe
import SE.Driver.Queue
import SE.Driver.Relay
import SE.Driver.Listener
/-
sedriver: the line-protocol front end of the executable models. One operation per input
line, one result line per operation. It executes the very definitions the theorems in
SE/Props are about. Core Lean only (no Mathlib), so it links as a `lean_exe`.
-/
open SE SE.Driver

def step (line : String) : String :=
  match line.splitOn " " with
  | [] => "bad-op"
  | cmd :: args =>
    match cmd with
    | "escape" => escapeCmd args
    | "parse" => parseCmd args
    | "mapper" => mapperCmd args
    | "mapperrace" => mapperraceCmd args
    | "namerune" => nameruneCmd args
    | "pipe" => pipeCmd args
    | "hl" => hlCmd args
    | "queue" => queueCmd args
    | "relay" => relayCmd args
    | "frame" => frameCmd args
    | "udpq" => udpqCmd args
    | "udpl" => udplCmd args
    | "tcpconc" => tcpconcCmd args
    | "framerelay" => framerelayCmd args
    | "binframe" => binframeCmd args
    | "qjudge" => qjudgeCmd args
    | "queueblk" => queueblkCmd args
    | _ => "bad-op"

partial def loop (h : IO.FS.Stream) (out : IO.FS.Stream) : IO Unit := do
  let line ← h.getLine
  if line.isEmpty then return ()
  let line := (line.dropEndWhile (· == '\n')).toString
  out.putStrLn (step line)
  loop h out

def main : IO Unit := do
  let out ← IO.getStdout
  loop (← IO.getStdin) out
  out.flush
