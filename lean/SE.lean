-- Root of the SE library: importing everything makes `lake build` check every model, specification,
-- proof and property module (the driver `sedriver` is a separate target).
import SE.Util
import SE.Props.C04
import SE.Props.C05
import SE.Props.C06
import SE.Props.C07
import SE.Props.C08
import SE.Props.C09
import SE.Props.C10
import SE.Props.C11
import SE.Props.C12
import SE.Props.C13
import SE.Props.C14
import SE.Props.C15
import SE.Props.C16
import SE.Props.C17
import SE.Props.C18
import SE.Props.C20
import SE.Gen.TieLine
import SE.Gen.TieMapper
import SE.Gen.TieRegistry
import SE.Gen.TieRelay
import SE.Gen.TieSync
import SE.Proofs.QueueDriver
import SE.Model.Exporter
import SE.Driver.Pipe
import SE.Audit
