-- This module serves as the root of the `SE` library.
-- Import modules here that should be built as part of the library.
import SE.Basic
