/-
Shared helpers for the statsd_exporter models. Core Lean only.
Go strings are arbitrary byte sequences, so every string in the models is `Bytes`.
-/
namespace SE

abbrev Bytes := List UInt8

def hexDigit (n : Nat) : Char :=
  if n < 10 then Char.ofNat (48 + n) else Char.ofNat (87 + n)

def hexVal (c : Char) : Option Nat :=
  if '0' ≤ c ∧ c ≤ '9' then some (c.toNat - 48)
  else if 'a' ≤ c ∧ c ≤ 'f' then some (c.toNat - 87)
  else if 'A' ≤ c ∧ c ≤ 'F' then some (c.toNat - 55)
  else none

def toHex (bs : Bytes) : String :=
  String.ofList (bs.flatMap fun b => [hexDigit (b.toNat / 16), hexDigit (b.toNat % 16)])

/-- `-` stands for the empty string so that every field of the line protocol is non-empty -/
def encHex (bs : Bytes) : String := if bs.isEmpty then "-" else toHex bs

def fromHexChars : List Char → Option Bytes
  | [] => some []
  | [_] => none
  | a :: b :: rest => do
    let x ← hexVal a
    let y ← hexVal b
    let r ← fromHexChars rest
    pure (UInt8.ofNat (x * 16 + y) :: r)

def decHex (s : String) : Option Bytes :=
  if s == "-" then some [] else fromHexChars s.toList

/-- bytes of an ASCII literal (every use in the models is an ASCII literal; for ASCII this is `s.toUTF8.toList`,
    but unlike that it reduces in the kernel, so facts about literals can be closed by `decide`) -/
def strBytes (s : String) : Bytes := s.toList.map fun c => UInt8.ofNat c.toNat

/-- for diagnostics only -/
def bytesToString (bs : Bytes) : String :=
  String.ofList (bs.map fun b => if 32 ≤ b.toNat ∧ b.toNat < 127 then Char.ofNat b.toNat else '?')

def parseHex64 (s : String) : Option UInt64 :=
  s.toList.foldlM (fun (acc : UInt64) c => (hexVal c).map fun v => acc * 16 + UInt64.ofNat v) 0

def hex64 (x : UInt64) : String :=
  String.ofList ((List.range 16).map fun i => hexDigit ((x >>> (UInt64.ofNat (60 - 4 * i))).toNat % 16))

end SE
