import SE.Proofs.GlobTemplate
import SE.Props.C04
/-
C11 — Capture references in names and labels expand as documented.

Specification. `expandSpec caps` (SE/Spec/Mapping.lean) is the template syntax Go documents for
`regexp.Expand`, with captures numbered from 1 and no named groups: a reference is `$name` or `${name}`
where `name` is the longest run of letters, digits and `_` (in Go's, i.e. Unicode's, sense: the
rune-wise `extract`, modelled by `rxExtractU`/`nameRune`); `$$` is a literal `$`; a purely numeric name
`n ≥ 1` (decimal, no leading zero) is replaced by the n-th capture, empty when out of range; every other
name by the empty string; a `$` that starts no reference and every other byte are copied. The result is
an `Option`: `none` = a reference name contains a rune outside the modelled Unicode fragment (lead bytes
0xCA..0xF4), where nothing is specified.

Models. Two implementations are compared with it: Go's own `regexp.Expand` (`rxExpand`, used for regex
rules) and the glob rules' `NewTemplateFormatter`/`Format` (`compileTemplate`/`Formatter.format`,
SE/Model/Template.lean): `%` is escaped, ONE left-to-right pass replaces `$$` by `$`, a usable reference
by `%s` (recording its index) and any other well-formed reference by nothing, and `Sprintf` puts the
captures back; a template in which the pass saw nothing is returned as it is. `Format` answers `none`
exactly when the template is flagged `unmodelled`.

Proved — for ALL templates, capture counts and captures, no guard:
  * `glob_format_eq_spec`: formatter = specification (equality of `Option`s: both are `none` exactly
    when a reference name has an unmodelled rune), provided the captures beyond the rule's capture count
    are empty; unconditionally the formatter is the specification on the first `n` captures
    (`glob_format_eq_spec_take`); the hypothesis cannot be dropped (`captures_beyond_count_matter`);
    `glob_format_holds` is the statement `glob_format_statement` that used to be refuted here;
  * `format_total`: `Format` never leaves the modelled `Sprintf` fragment;
  * `regex_expand_eq_spec`: `regexp.Expand` = specification up to the two things the specification leaves
    out on purpose, group 0 and named groups (`dollar_zero_is_outside`, `named_group_is_outside`);
  * `glob_regex_agree`: a glob rule and its regex translation expand every template identically;
  * `lookupGlob_expands`, `glob_lookup_expands`: the same on the level of the mapper's glob lookup.

History: the five repairs of `NewTemplateFormatter` / the FSM found with this property, each recorded by
a `decide`d theorem showing formatter = specification = the expected bytes:
  * adjacent references (4d631d3): the name class of the formatter's reference regex contained `$`, so
    `$1$2` was one unknown name — `adjacent_refs_expand`;
  * a literal `%` in a template with a reference (b74fba2): the template itself was the `Sprintf` format;
    `%` is now escaped — `percent_literal_repaired`;
  * a reference text that is a prefix of another one (b74fba2): the references were substituted one
    `strings.ReplaceAll` at a time, `$1` also hit the head of `$11`; now one pass — `ref_prefix_repaired`;
  * a name component that is literally `*` was not captured (0275669; that is the captures, not the
    expansion: SE/Props/C04.lean and C12.lean, `star_component_captured`);
  * the reference syntax (a7bcc3e): the formatter had its own regex `\$\{?([a-zA-Z0-9_]+)\}?`, which
    differs from `regexp.Expand` in the corners `$$`, `$$1`, `${1`, `$1}`, `$01` and, against the regex
    side, `$1é`; it now uses `regexp.Expand`'s syntax — `reference_syntax_repaired`,
    `unmodelled_is_flagged`. Until then C11 was proved only under a decidable guard `SafeTemplate`, with
    counterexample theorems for the corners and `glob_format_statement_false`; guard and counterexamples
    are gone.
-/
namespace SE.Props.C11
open SE
variable {V : Type}

/-! ### glob side -/

/-- **C11, glob side, unconditionally**: for every template, capture count `n` and capture list, `Format`
    gives the documented expansion with the first `n` captures (in the real code the captures array has
    one slot per name component, of which a rule with `n` wildcards fills the first `n`). -/
theorem glob_format_eq_spec_take (tmpl : Bytes) (n : Nat) (caps : List Bytes) :
    (compileTemplate tmpl n).format caps = expandSpec (caps.take n) tmpl.length tmpl :=
  compileTemplate_format_take tmpl n caps

/-- **C11, glob side**: for every template `tmpl`, every capture count `n` and all captures `caps` that
    are empty beyond position `n`, the formatter's result is the documented expansion — as `Option`s:
    both sides are `none` exactly when a reference name contains an unmodelled rune. The hypothesis is
    the weakest one that does not look at the template: `compileTemplate` drops references `$k` with
    `k > n`, the specification reads `caps.getD (k-1) []` (`captures_beyond_count_matter`). It holds when
    `caps.length ≤ n` (`glob_format_eq_spec_le`), in particular for the captures of a glob match
    (`glob_lookup_expands`), and for Go's captures array, whose slots beyond the `n`-th stay `""`. -/
theorem glob_format_eq_spec (tmpl : Bytes) (n : Nat) (caps : List Bytes)
    (hcaps : ∀ i, n ≤ i → caps.getD i [] = []) :
    (compileTemplate tmpl n).format caps = expandSpec caps tmpl.length tmpl := by
  apply compileTemplate_format
  intro i
  by_cases h : i < n
  · simp only [h, if_true]
  · simp only [h, if_false]; exact hcaps i (by omega)

theorem glob_format_eq_spec_le (tmpl : Bytes) (n : Nat) (caps : List Bytes) (hn : caps.length ≤ n) :
    (compileTemplate tmpl n).format caps = expandSpec caps tmpl.length tmpl := by
  apply glob_format_eq_spec
  intro i hi
  rw [List.getD_eq_getElem?_getD, List.getElem?_eq_none (by omega)]
  rfl

/-- one capture per wildcard -/
theorem glob_format_eq_spec_eq (tmpl : Bytes) (n : Nat) (caps : List Bytes) (hn : caps.length = n) :
    (compileTemplate tmpl n).format caps = expandSpec caps tmpl.length tmpl :=
  glob_format_eq_spec_le tmpl n caps (by omega)

/-- The hypothesis of `glob_format_eq_spec` is needed: a rule compiled for one capture that is handed two
    ignores the second, `$2` ↦ `` where the specification (which does not know `n`) says `b`. With the
    first `n` captures (`glob_format_eq_spec_take`) both say ``. -/
theorem captures_beyond_count_matter :
    (compileTemplate [36, 50] 1).format [[97], [98]] = some [] ∧
    expandSpec [[97], [98]] 2 [36, 50] = some [98] ∧
    expandSpec ([[97], [98]].take 1) 2 [36, 50] = some [] := by decide

/-- The full-strength claim: for a glob rule with `caps.length` wildcards, the formatter's output is the
    documented expansion. (Refuted in this file until the repair a7bcc3e; the right-hand side was
    `some (expandSpec …)` while the specification was total.) -/
def glob_format_statement : Prop :=
  ∀ (tmpl : Bytes) (caps : List Bytes),
    (compileTemplate tmpl caps.length).format caps = expandSpec caps tmpl.length tmpl

/-- … and it holds. -/
theorem glob_format_holds : glob_format_statement :=
  fun tmpl caps => glob_format_eq_spec_eq tmpl caps.length caps rfl

/-- **`Format` is total on modelled templates.** For every template, capture count and capture list the
    result is `none` only when the template is flagged `unmodelled` (a reference name with a rune outside
    `nameRune`'s fragment): the format string consists of `%%`, `%s` and non-`%` bytes only, the modelled
    fragment of `fmt.Sprintf` is never left. -/
theorem format_total (tmpl : Bytes) (n : Nat) (caps : List Bytes) :
    ((compileTemplate tmpl n).format caps).isSome = true ↔ (compileTemplate tmpl n).unmodelled = false :=
  compileTemplate_format_isSome tmpl n caps

/-- the flag is the specification's `none` (for any captures) -/
theorem unmodelled_iff_spec_none (tmpl : Bytes) (n : Nat) (caps : List Bytes) :
    (compileTemplate tmpl n).unmodelled = true ↔ expandSpec (caps.take n) tmpl.length tmpl = none := by
  rw [← glob_format_eq_spec_take, ← Option.not_isSome_iff_eq_none, format_total]
  simp

/-- A template without `$` is returned verbatim, whatever else it contains (`%` …) and whatever the
    captures are, and that is the documented expansion. -/
theorem no_dollar_identity (tmpl : Bytes) (n : Nat) (caps : List Bytes) (h : cDollar ∉ tmpl) :
    (compileTemplate tmpl n).format caps = some tmpl ∧ expandSpec caps tmpl.length tmpl = some tmpl :=
  ⟨by rw [glob_format_eq_spec_take]; exact expandSpec_no_dollar _ _ _ h, expandSpec_no_dollar _ _ _ h⟩

/-! ### the repairs, on the former counterexamples -/

/-- Repair 4d631d3 (`template_adjacent_refs`): `$1$2` with captures `a`, `b` gives `ab`, the documented
    expansion (before: `1$2` was read as one non-numeric name, result ``). -/
theorem adjacent_refs_expand :
    (compileTemplate [36, 49, 36, 50] 2).format [[97], [98]] = some [97, 98] ∧
    expandSpec [[97], [98]] 4 [36, 49, 36, 50] = some [97, 98] := by decide

/-- Repair b74fba2 (`template_has_percent`): `100%-$1` and `50%s-$1` with one capture `foo` give
    `100%-foo` and `50%s-foo`, the documented expansion (before: the template with `%s` put in was the
    `Sprintf` format; real outputs `100%s%!(EXTRA string=foo)` and `50foo-%!s(MISSING)`). -/
theorem percent_literal_repaired :
    ((compileTemplate [49, 48, 48, 37, 45, 36, 49] 1).format [[102, 111, 111]]
        = some [49, 48, 48, 37, 45, 102, 111, 111] ∧
      expandSpec [[102, 111, 111]] 7 [49, 48, 48, 37, 45, 36, 49] = some [49, 48, 48, 37, 45, 102, 111, 111]) ∧
    ((compileTemplate [53, 48, 37, 115, 45, 36, 49] 1).format [[102, 111, 111]]
        = some [53, 48, 37, 115, 45, 102, 111, 111] ∧
      expandSpec [[102, 111, 111]] 7 [53, 48, 37, 115, 45, 36, 49] = some [53, 48, 37, 115, 45, 102, 111, 111]) := by
  decide

/-- Repair b74fba2 (`template_ref_prefix_of_ref`): `$1-$11`. With one capture `foo` the result is `foo-`
    (`$11` is out of range; before, `ReplaceAll("$1", "%s")` also hit the head of `$11`:
    `foo-%!s(MISSING)1`); with eleven captures `c1` … `c11` it is `c1-c11`. Both as documented. -/
theorem ref_prefix_repaired :
    ((compileTemplate [36, 49, 45, 36, 49, 49] 1).format [[102, 111, 111]] = some [102, 111, 111, 45] ∧
      expandSpec [[102, 111, 111]] 6 [36, 49, 45, 36, 49, 49] = some [102, 111, 111, 45]) ∧
    ((compileTemplate [36, 49, 45, 36, 49, 49] 11).format
        [[99, 49], [99, 50], [99, 51], [99, 52], [99, 53], [99, 54], [99, 55], [99, 56], [99, 57],
         [99, 49, 48], [99, 49, 49]] = some [99, 49, 45, 99, 49, 49] ∧
      expandSpec
        [[99, 49], [99, 50], [99, 51], [99, 52], [99, 53], [99, 54], [99, 55], [99, 56], [99, 57],
         [99, 49, 48], [99, 49, 49]] 6 [36, 49, 45, 36, 49, 49] = some [99, 49, 45, 99, 49, 49]) := by
  decide

/-- Repair a7bcc3e (`template_dollar_escape`, `template_brace_mismatch`, `template_leading_zero_ref`,
    `template_unicode_letter_after_ref`): the six corners in which the formatter's own reference syntax
    differed from `regexp.Expand`'s, with one capture `f`. Formatter, specification and (with the regex
    match `[whole, f]`) `regexp.Expand` now all give
    `$$` ↦ `$` (was `$$`), `$$1` ↦ `$1` (was `$f`), `${1` ↦ `${1` (was `f`), `$1}` ↦ `f}` (was `f`),
    `$01` ↦ `` (was `f`), `$1é` ↦ `` (the name is `1é`; the formatter gave `fé`). -/
theorem reference_syntax_repaired :
    let m : RxMatch := [([], some [119]), ([], some [102])]
    ((compileTemplate [36, 36] 1).format [[102]] = some [36] ∧
      expandSpec [[102]] 2 [36, 36] = some [36] ∧ rxExpand m 2 [36, 36] = some [36]) ∧
    ((compileTemplate [36, 36, 49] 1).format [[102]] = some [36, 49] ∧
      expandSpec [[102]] 3 [36, 36, 49] = some [36, 49] ∧ rxExpand m 3 [36, 36, 49] = some [36, 49]) ∧
    ((compileTemplate [36, 123, 49] 1).format [[102]] = some [36, 123, 49] ∧
      expandSpec [[102]] 3 [36, 123, 49] = some [36, 123, 49] ∧ rxExpand m 3 [36, 123, 49] = some [36, 123, 49]) ∧
    ((compileTemplate [36, 49, 125] 1).format [[102]] = some [102, 125] ∧
      expandSpec [[102]] 3 [36, 49, 125] = some [102, 125] ∧ rxExpand m 3 [36, 49, 125] = some [102, 125]) ∧
    ((compileTemplate [36, 48, 49] 1).format [[102]] = some [] ∧
      expandSpec [[102]] 3 [36, 48, 49] = some [] ∧ rxExpand m 3 [36, 48, 49] = some []) ∧
    ((compileTemplate [36, 49, 0xC3, 0xA9] 1).format [[102]] = some [] ∧
      expandSpec [[102]] 4 [36, 49, 0xC3, 0xA9] = some [] ∧ rxExpand m 4 [36, 49, 0xC3, 0xA9] = some []) := by
  decide

/-- Outside the modelled Unicode fragment nothing is claimed, by anybody: `$1α` (`α` = CE B1, lead byte
    0xCE) is flagged by the formatter model, and formatter, specification and `regexp.Expand` answer
    `none`. An invalid byte (0xFF) ends the name like any non-letter: `$1\xff` ↦ `f\xff`. -/
theorem unmodelled_is_flagged :
    (compileTemplate [36, 49, 0xCE, 0xB1] 1).unmodelled = true ∧
    (compileTemplate [36, 49, 0xCE, 0xB1] 1).format [[102]] = none ∧
    expandSpec [[102]] 4 [36, 49, 0xCE, 0xB1] = none ∧
    rxExpand [([], some [119]), ([], some [102])] 4 [36, 49, 0xCE, 0xB1] = none ∧
    (compileTemplate [36, 49, 0xFF] 1).format [[102]] = some [102, 0xFF] ∧
    expandSpec [[102]] 3 [36, 49, 0xFF] = some [102, 0xFF] := by decide

/-! ### regex side -/

/-- **`regexp.Expand` = specification**, for every match `m` and every template `t`, provided every
    reference name the scan meets (`refNames`, rune-aware) is "good" for `m`: a numeric name is not `0`,
    a non-numeric name is not the name of a participating group of `m` — group 0 and named groups are
    what the specification leaves out. Captures are numbered from group 1; a group that did not
    participate counts as empty. Equality of `Option`s: `none` on both sides exactly when a name has an
    unmodelled rune. -/
theorem regex_expand_eq_spec (m : RxMatch) (t : Bytes)
    (h : ∀ name ∈ refNames t.length t, refGood m name) :
    rxExpand m t.length t = expandSpec (capsOf m) t.length t :=
  rxExpand_eq_expandSpec m t.length t h

/-- The usual case, and the one the regex translation of a glob rule produces: all groups of the regex
    are unnamed; the template does not mention `$0`. -/
theorem regex_expand_eq_spec_unnamed (m : RxMatch) (t : Bytes)
    (hun : ∀ g ∈ m, g.1 = [])
    (h0 : ∀ name ∈ refNames t.length t, rxNum name ≠ some 0) :
    rxExpand m t.length t = expandSpec (capsOf m) t.length t :=
  regex_expand_eq_spec m t (refGood_of_unnamed m _ _ hun h0)

/-- Group 0 is outside C11 (captures are numbered from 1): for `$0` the regex side puts the whole match,
    specification and glob formatter nothing (the formatter reads "capture 0" as out of range). -/
theorem dollar_zero_is_outside :
    rxExpand [([], some [119]), ([], some [102])] 2 [36, 48] = some [119] ∧
    expandSpec [[102]] 2 [36, 48] = some [] ∧
    (compileTemplate [36, 48] 1).format [[102]] = some [] ∧
    refNames 2 [36, 48] = [[48]] ∧ rxNum [48] = some 0 := by decide

/-- Named groups are outside C11 (a glob rule has none): `$foo` with a group named `foo`. -/
theorem named_group_is_outside :
    rxExpand [([], some [119]), ([102, 111, 111], some [120])] 4 [36, 102, 111, 111] = some [120] ∧
    expandSpec [[120]] 4 [36, 102, 111, 111] = some [] ∧
    refNames 4 [36, 102, 111, 111] = [[102, 111, 111]] := by decide

/-- a template without `$` is copied by `regexp.Expand` whatever bytes it contains, and that is the
    documented expansion -/
theorem regex_no_dollar_identity (m : RxMatch) (t : Bytes) (caps : List Bytes) (h : cDollar ∉ t) :
    rxExpand m t.length t = some t ∧ expandSpec caps t.length t = some t :=
  ⟨rxExpand_no_dollar m _ _ h, expandSpec_no_dollar caps _ _ h⟩

/-! ### glob and regex rules agree -/

/-- **A glob rule and its regex translation expand every template identically.** `m` is the match of
    the translated regex: unnamed groups, group 0 the whole match, groups 1.. the captures (`capsOf m`;
    a group that did not participate — impossible for the translation's `([^.]*)` groups — counts as
    empty), none beyond the glob rule's capture count `n`; the template does not mention `$0`
    (`dollar_zero_is_outside`). Equality of `Option`s. -/
theorem glob_regex_agree (tmpl : Bytes) (m : RxMatch) (n : Nat)
    (hun : ∀ g ∈ m, g.1 = [])
    (hcaps : ∀ i, n ≤ i → (capsOf m).getD i [] = [])
    (h0 : ∀ name ∈ refNames tmpl.length tmpl, rxNum name ≠ some 0) :
    (compileTemplate tmpl n).format (capsOf m) = rxExpand m tmpl.length tmpl := by
  rw [glob_format_eq_spec tmpl n (capsOf m) hcaps, regex_expand_eq_spec_unnamed m tmpl hun h0]

/-- … in the shape the translation guarantees: a glob pattern with `n` wildcards becomes a regex with
    `n` groups, `m` has `n + 1` entries (`≤` suffices). -/
theorem glob_regex_agree_len (tmpl : Bytes) (m : RxMatch) (n : Nat)
    (hun : ∀ g ∈ m, g.1 = [])
    (hlen : m.length ≤ n + 1)
    (h0 : ∀ name ∈ refNames tmpl.length tmpl, rxNum name ≠ some 0) :
    (compileTemplate tmpl n).format (capsOf m) = rxExpand m tmpl.length tmpl := by
  apply glob_regex_agree tmpl m n hun _ h0
  intro i hi
  have := capsOf_length m
  rw [List.getD_eq_getElem?_getD, List.getElem?_eq_none (by omega)]
  rfl

/-- both sides are the specification -/
theorem glob_regex_agree_spec (tmpl : Bytes) (m : RxMatch) (n : Nat)
    (hun : ∀ g ∈ m, g.1 = [])
    (hlen : m.length ≤ n + 1)
    (h0 : ∀ name ∈ refNames tmpl.length tmpl, rxNum name ≠ some 0) :
    (compileTemplate tmpl n).format (capsOf m) = expandSpec (capsOf m) tmpl.length tmpl ∧
    rxExpand m tmpl.length tmpl = expandSpec (capsOf m) tmpl.length tmpl :=
  ⟨by rw [glob_regex_agree_len tmpl m n hun hlen h0]; exact regex_expand_eq_spec_unnamed m tmpl hun h0,
   regex_expand_eq_spec_unnamed m tmpl hun h0⟩

/-! ### on the level of the mapper's glob lookup -/

/-- the captures of a pattern are at most its wildcards -/
theorem capturesOf_length_le : ∀ (pat name : Pat), (capturesOf pat name).length ≤ countStars pat := by
  intro pat
  induction pat with
  | nil => intro name; simp [capturesOf]
  | cons p ps ih =>
    intro name
    cases name with
    | nil => simp [capturesOf]
    | cons c cs =>
      have := ih cs
      unfold countStars at this ⊢
      by_cases hp : (p == starB) = true
      · simp only [capturesOf, List.filter_cons, hp, if_true, List.length_cons]; omega
      · simp only [capturesOf, List.filter_cons, hp]; exact this

/-- **`lookupGlob` expands as documented** (either mode, every configuration): the name and the label
    values of the mapping returned are the documented expansions of the winning rule's templates with
    the first `captureCount` captures the FSM reports. -/
theorem lookupGlob_expands (cfg : Config V) (name : Bytes) (ty : Nat) (m : Mapped)
    (hm : lookupGlob cfg name ty = some m) :
    ∃ f i r, globLookup (toGRules cfg) cfg.orderingDisabled (splitOn 46 name) ty = some f ∧
      (globRules cfg)[f.rule]? = some (i, r) ∧
      m = { ruleIdx := i,
            name := expandSpec (f.caps.take r.captureCount) r.name.length r.name,
            labels := r.labels.map fun (k, t) => (k, expandSpec (f.caps.take r.captureCount) t.length t) } := by
  unfold lookupGlob at hm
  split at hm
  · cases hm
  · rename_i f hf
    split at hm
    · cases hm
    · rename_i i r hr
      refine ⟨f, i, r, hf, hr, ?_⟩
      simp only [Option.some.injEq] at hm
      rw [← hm]
      simp only [glob_format_eq_spec_take]

/-- **C11 for glob rules, end to end** (ordered mode): the mapping returned for a name is the first
    matching glob rule `r`, and its name and label values are the documented expansions of `r`'s
    templates with the name components under the `*`s of `r`'s pattern — for every configuration whose
    rules have at least as many capture slots as wildcards (`load` sets `captureCount := countStars pat`). -/
theorem glob_lookup_expands (cfg : Config V) (hord : cfg.orderingDisabled = false)
    (hcc : ∀ r ∈ cfg.rules, countStars r.pat ≤ r.captureCount)
    (name : Bytes) (ty : Nat) (m : Mapped) (hm : lookupGlob cfg name ty = some m) :
    ∃ i r, firstGlob cfg name ty = some i ∧ cfg.rules[i]? = some r ∧
      ruleMatchesGlob r (splitOn 46 name) ty = true ∧
      m = { ruleIdx := i,
            name := expandSpec (capturesOf r.pat (splitOn 46 name)) r.name.length r.name,
            labels := r.labels.map fun (k, t) =>
              (k, expandSpec (capturesOf r.pat (splitOn 46 name)) t.length t) } := by
  obtain ⟨i, r, h1, h2, h3, h4⟩ := SE.Props.C04.glob_captures cfg hord name ty m hm
  refine ⟨i, r, h1, h2, h3, ?_⟩
  have hle : (capturesOf r.pat (splitOn 46 name)).length ≤ r.captureCount :=
    Nat.le_trans (capturesOf_length_le _ _) (hcc r (List.mem_of_getElem? h2))
  rw [h4]
  simp only [glob_format_eq_spec_le _ _ _ hle]

/-! ### non-vacuity: what the two sides are on real templates -/

-- "x_$1$2.${3}$1" with a, b, c ↦ "x_ab.ca": several, adjacent, braced and repeated references
example : (compileTemplate [120, 95, 36, 49, 36, 50, 46, 36, 123, 51, 125, 36, 49] 3).format [[97], [98], [99]]
    = some [120, 95, 97, 98, 46, 99, 97] ∧
    expandSpec [[97], [98], [99]] 13 [120, 95, 36, 49, 36, 50, 46, 36, 123, 51, 125, 36, 49]
    = some [120, 95, 97, 98, 46, 99, 97] := by decide
-- "x_$1$2_${3}$1" ↦ "x_aca": the second reference is `$2_` (longest name), which names no capture
example : (compileTemplate [120, 95, 36, 49, 36, 50, 95, 36, 123, 51, 125, 36, 49] 3).format [[97], [98], [99]]
    = some [120, 95, 97, 99, 97] ∧
    expandSpec [[97], [98], [99]] 13 [120, 95, 36, 49, 36, 50, 95, 36, 123, 51, 125, 36, 49]
    = some [120, 95, 97, 99, 97] := by decide
-- "$1-$5-$foo-${ab}-$0|" with two captures a, b ↦ "a----|": out-of-range, named and `$0` references
-- expand to nothing on both sides
example : (compileTemplate [36, 49, 45, 36, 53, 45, 36, 102, 111, 111, 45, 36, 123, 97, 98, 125, 45, 36, 48, 124] 2).format
      [[97], [98]] = some [97, 45, 45, 45, 45, 124] ∧
    expandSpec [[97], [98]] 20 [36, 49, 45, 36, 53, 45, 36, 102, 111, 111, 45, 36, 123, 97, 98, 125, 45, 36, 48, 124]
    = some [97, 45, 45, 45, 45, 124] := by decide
-- "%d$2%%$1" with a, b ↦ "%db%%a" (nothing in the literals is interpreted by `Sprintf`)
example : (compileTemplate [37, 100, 36, 50, 37, 37, 36, 49] 2).format [[97], [98]] = some [37, 100, 98, 37, 37, 97] ∧
    expandSpec [[97], [98]] 8 [37, 100, 36, 50, 37, 37, 36, 49] = some [37, 100, 98, 37, 37, 97] := by decide
-- a template whose references are all unusable still goes through `Sprintf`, which un-escapes `%%`:
-- "100%$5" and "100%$foo" with two captures ↦ "100%"; the reference-free "100%" is returned as it is
example : (compileTemplate [49, 48, 48, 37, 36, 53] 2).format [[97], [98]] = some [49, 48, 48, 37] ∧
    expandSpec [[97], [98]] 6 [49, 48, 48, 37, 36, 53] = some [49, 48, 48, 37] ∧
    (compileTemplate [49, 48, 48, 37, 36, 102, 111, 111] 2).format [[97], [98]] = some [49, 48, 48, 37] ∧
    expandSpec [[97], [98]] 8 [49, 48, 48, 37, 36, 102, 111, 111] = some [49, 48, 48, 37] ∧
    (compileTemplate [49, 48, 48, 37] 2).format [[97], [98]] = some [49, 48, 48, 37] ∧
    (compileTemplate [49, 48, 48, 37] 2).literal = true := by decide
-- a lone `$`, `$-`, `${}` are copied: "a$-${}$" ↦ itself
example : (compileTemplate [97, 36, 45, 36, 123, 125, 36] 1).format [[102]] = some [97, 36, 45, 36, 123, 125, 36] ∧
    expandSpec [[102]] 7 [97, 36, 45, 36, 123, 125, 36] = some [97, 36, 45, 36, 123, 125, 36] := by decide
-- non-ASCII text: "é$1-x" ↦ "éf-x", "${1}é" ↦ "fé" (braces end the name), all three sides
example : (compileTemplate [0xC3, 0xA9, 36, 49, 45, 120] 1).format [[102]] = some [0xC3, 0xA9, 102, 45, 120] ∧
    expandSpec [[102]] 6 [0xC3, 0xA9, 36, 49, 45, 120] = some [0xC3, 0xA9, 102, 45, 120] ∧
    rxExpand [([], some [119]), ([], some [102])] 6 [0xC3, 0xA9, 36, 49, 45, 120]
      = some [0xC3, 0xA9, 102, 45, 120] ∧
    (compileTemplate [36, 123, 49, 125, 0xC3, 0xA9] 1).format [[102]] = some [102, 0xC3, 0xA9] ∧
    expandSpec [[102]] 6 [36, 123, 49, 125, 0xC3, 0xA9] = some [102, 0xC3, 0xA9] ∧
    rxExpand [([], some [119]), ([], some [102])] 6 [36, 123, 49, 125, 0xC3, 0xA9]
      = some [102, 0xC3, 0xA9] := by decide
-- regex side: "$1-${2}!" with group 2 not participating ↦ "x-!"; the names the scan meets
example : rxExpand [([], some [119]), ([], some [120]), ([], none)] 8 [36, 49, 45, 36, 123, 50, 125, 33]
    = some [120, 45, 33] ∧
    expandSpec (capsOf [([], some [119]), ([], some [120]), ([], none)]) 8 [36, 49, 45, 36, 123, 50, 125, 33]
    = some [120, 45, 33] := by decide
example : refNames 9 [36, 49, 45, 36, 123, 49, 50, 125, 36] = [[49], [49, 50]] ∧          -- "$1-${12}$"
          refNames 4 [36, 49, 0xC3, 0xA9] = [[49, 0xC3, 0xA9]] := by decide              -- "$1é": the name is `1é`
-- a non-ASCII *group name* is looked up byte-wise: "${é}" with a group named `é`
example : rxExpand [([], some [119]), ([0xC3, 0xA9], some [102])] 5 [36, 123, 0xC3, 0xA9, 125] = some [102] := by
  decide
-- the hypotheses of `glob_regex_agree_len` are satisfiable: a match with two unnamed groups, "$1.$2-$3"
example : let m : RxMatch := [([], some [97, 46, 98]), ([], some [97]), ([], some [98])]
    (∀ g ∈ m, g.1 = []) ∧ m.length ≤ 2 + 1 ∧
    (∀ name ∈ refNames 8 [36, 49, 46, 36, 50, 45, 36, 51], rxNum name ≠ some 0) ∧
    (compileTemplate [36, 49, 46, 36, 50, 45, 36, 51] 2).format (capsOf m) = some [97, 46, 98, 45] ∧
    rxExpand m 8 [36, 49, 46, 36, 50, 45, 36, 51] = some [97, 46, 98, 45] := by decide

end SE.Props.C11
