import SE.Proofs.GlobTemplate
/-
C11 — Capture references in names and labels expand as documented.

`expandSpec caps` (SE/Spec/Mapping.lean) is the documented syntax: `$n` / `${n}` with the longest
name, numbered from 1, `$$` ↦ `$`, everything else copied. Two implementations are compared with
it: Go's `regexp.Expand` (`rxExpand`, used for regex rules) and the glob rules' own
`NewTemplateFormatter`/`Format` (`compileTemplate`/`Formatter.format`).

* regex side: equal to the specification (`regex_expand_eq_spec`) up to the two things the
  specification leaves out on purpose — `$0` and named groups — and up to one genuine divergence:
  Go's `extract` scans a reference name rune by rune (`unicode.IsLetter`/`IsDigit`/`_`), the
  documented syntax and the glob formatter byte by byte over `[A-Za-z0-9_]`. In `$1é` the regex side
  reads the name `1é` (no number, no group: empty), the other two read `$1` followed by `é`
  (`unicode_letter_after_ref_counterexample`). The theorem therefore carries the decidable guard
  `refsAsciiFollowed` (no reference name and no lone `$` is directly followed by a byte ≥ 0x80);
  `rxExpand` answers `none` where a name rune is outside the modelled fragment of `nameRune`.
* glob side: the reference regex has been repaired (`\$\{?([a-zA-Z0-9_]+)\}?`: the name class no
  longer contains `$`), so adjacent references expand (`adjacent_refs_expand`). The full-strength
  statement is still FALSE (two remaining defects, one counterexample each, plus the further
  divergences); it is proved under the decidable guard `SafeTemplate` (SE/Spec/TemplateRefs.lean),
  which now accepts adjacent references, and for all templates without `$$` in which the
  formatter's regex finds no reference.
The captures themselves (C11's `captures_correct`, and the literal-`*` defect) are not part of this
file; here `caps` is whatever the matcher hands to the formatter.
-/
namespace SE.Props.C11
open SE

/-! ### glob side -/

/-- The full-strength claim: for a glob rule with `caps.length` wildcards, the formatter's output
    is the documented expansion. It does NOT hold, also after the repair of the reference regex —
    see below. -/
def glob_format_statement : Prop :=
  ∀ (tmpl : Bytes) (caps : List Bytes),
    (compileTemplate tmpl caps.length).format caps = some (expandSpec caps tmpl.length tmpl)

/-- Repaired defect `template_adjacent_refs`: `$1$2` with captures `a`,`b` gives `ab` (before the
    repair the name class of the formatter's regex contained `$`, `1$2` was read as one non-numeric
    name and the result was the empty string). The general statement is `glob_format_eq_spec_partial`
    with the weakened guard; see the non-vacuity examples at the end. -/
theorem adjacent_refs_expand :
    (compileTemplate [36, 49, 36, 50] 2).format [[97], [98]] = some [97, 98] := by decide

/-- … which is the documented expansion -/
theorem adjacent_refs_agree :
    (compileTemplate [36, 49, 36, 50] 2).format [[97], [98]] = some [97, 98] ∧
    expandSpec [[97], [98]] 4 [36, 49, 36, 50] = [97, 98] := by decide

/-- Defect `template_ref_prefix_of_ref`: `$1-$11` with one capture `foo`: the textual
    `ReplaceAll("$1", "%s")` also hits the head of `$11`, giving `foo-%!s(MISSING)1`;
    documented: `foo-`. -/
theorem ref_prefix_counterexample :
    (compileTemplate [36, 49, 45, 36, 49, 49] 1).format [[102, 111, 111]]
      = some ([102, 111, 111, 45] ++ missingStr ++ [49]) ∧
    expandSpec [[102, 111, 111]] 6 [36, 49, 45, 36, 49, 49] = [102, 111, 111, 45] := by
  with_unfolding_all decide

/-- Defect `template_has_percent`: `100%-$1`: the template is used as a printf format, `%-` is not a
    verb the model covers (`none`; the real output is `100%s%!(EXTRA string=foo)`);
    documented: `100%-foo`. -/
theorem percent_counterexample :
    (compileTemplate [49, 48, 48, 37, 45, 36, 49] 1).format [[102, 111, 111]] = none ∧
    expandSpec [[102, 111, 111]] 7 [49, 48, 48, 37, 45, 36, 49] = [49, 48, 48, 37, 45, 102, 111, 111] := by
  decide

/-- Further divergences from the documented (`regexp.Expand`) syntax, found while choosing the guard
    (model-level; each is excluded by `SafeTemplate`). All four survive the repair of the reference
    regex, the first with a different value:
    `$$` is not an escape (since the repair the first `$` starts no reference, nor does the second:
    both are copied, `$$`; before the repair the whole `$$` was a reference named `$` and dropped);
    `$01` is read by `strconv.Atoi` as capture 1, while `regexp.Expand` rejects leading zeros;
    an unclosed `${1` is accepted; a stray `}` after a bare `$1` is swallowed. -/
theorem further_divergences :
    ((compileTemplate [36, 36] 0).format [] = some [36, 36] ∧ expandSpec [] 2 [36, 36] = [36]) ∧
    ((compileTemplate [36, 48, 49] 1).format [[102]] = some [102] ∧ expandSpec [[102]] 3 [36, 48, 49] = []) ∧
    ((compileTemplate [36, 123, 49] 1).format [[102]] = some [102] ∧
        expandSpec [[102]] 3 [36, 123, 49] = [36, 123, 49]) ∧
    ((compileTemplate [36, 49, 125] 1).format [[102]] = some [102] ∧
        expandSpec [[102]] 3 [36, 49, 125] = [102, 125]) := by decide

/-- A divergence the repair makes reachable inside a template with a reference: `$$1` with one
    capture `f` gives `$f` (the first `$` is copied, `$1` is a reference), documented: `$1`
    (`$$` is the escape). Before the repair `$$1` was one reference named `$1` and gave ``. -/
theorem dollar_escape_counterexample :
    (compileTemplate [36, 36, 49] 1).format [[102]] = some [36, 102] ∧
    expandSpec [[102]] 3 [36, 36, 49] = [36, 49] := by decide

/-- Divergence `template_unicode_letter_after_ref`: `$1é` (`é` = C3 A9, a Unicode letter) with one
    capture `f`. The glob formatter's regex and the documented syntax take the ASCII name `1` and copy
    `é`: `fé`. Go's `regexp.Expand`, used for regex rules, scans the name rune by rune: the name is
    `1é`, neither a number nor a group name, and the reference expands to nothing. (Here glob side and
    specification agree; it is the regex side that differs from both.) -/
theorem unicode_letter_after_ref_counterexample :
    (compileTemplate [36, 49, 0xC3, 0xA9] 1).format [[102]] = some [102, 0xC3, 0xA9] ∧
    expandSpec [[102]] 4 [36, 49, 0xC3, 0xA9] = [102, 0xC3, 0xA9] ∧
    rxExpand [([], some [102]), ([], some [102])] 4 [36, 49, 0xC3, 0xA9] = some [] := by decide

/-- Hence the unguarded statement is false (also after the repair): refuted by the prefix defect
    `$1-$11` — and equally by `100%-$1`, `$$`, `$01`, `${1`, `$1}`, see `glob_format_statement_false'`. -/
theorem glob_format_statement_false : ¬ glob_format_statement := by
  intro h
  have h1 := h [36, 49, 45, 36, 49, 49] [[102, 111, 111]]
  rw [show ([[102, 111, 111]] : List Bytes).length = 1 from rfl, ref_prefix_counterexample.1,
    show ([36, 49, 45, 36, 49, 49] : Bytes).length = 6 from rfl, ref_prefix_counterexample.2] at h1
  revert h1
  with_unfolding_all decide

/-- the same refutation from the `%` defect alone (the two defects are independent) -/
theorem glob_format_statement_false' : ¬ glob_format_statement := by
  intro h
  have h1 := h [49, 48, 48, 37, 45, 36, 49] [[102, 111, 111]]
  rw [show ([[102, 111, 111]] : List Bytes).length = 1 from rfl, percent_counterexample.1] at h1
  cases h1

/-- Templates in which the formatter's regex `\$\{?([a-zA-Z0-9_]+)\}?` finds nothing are returned
    verbatim — whatever else they contain (`%`, a trailing `$`, `$-`, `${}`, `$$` …) and whatever the
    captures are — and, if the template contains no `$$`, that is also what the documented syntax
    gives. (The hypothesis `hasDollarDollar tmpl = false` is new and needed since the repair: `$$`
    is no longer a "reference", see `further_divergences`.) -/
theorem no_ref_identity (tmpl : Bytes) (n : Nat) (caps : List Bytes) (h : findRefs tmpl.length tmpl = [])
    (hdd : hasDollarDollar tmpl = false) :
    (compileTemplate tmpl n).format caps = some tmpl ∧ expandSpec caps tmpl.length tmpl = tmpl :=
  ⟨compile_no_refs tmpl n caps h, findRefs_nil_expandSpec caps _ _ h hdd⟩

/-- the first half needs no hypothesis about `$$` -/
theorem no_ref_verbatim (tmpl : Bytes) (n : Nat) (caps : List Bytes) (h : findRefs tmpl.length tmpl = []) :
    (compileTemplate tmpl n).format caps = some tmpl := compile_no_refs tmpl n caps h

/-- in particular every template without a `$` -/
theorem no_dollar_identity (tmpl : Bytes) (n : Nat) (caps : List Bytes) (h : cDollar ∉ tmpl) :
    (compileTemplate tmpl n).format caps = some (expandSpec caps tmpl.length tmpl) := by
  obtain ⟨h1, h2⟩ := no_ref_identity tmpl n caps (findRefs_no_dollar _ _ h) (hasDollarDollar_no_dollar _ h)
  rw [h1, h2]

/-- **Partial C11, segment form.** For every list of literal pieces and numeric references that
    satisfies `SafeSegs` — any number of references, repeated and non-numeric ones allowed — and for a rule
    with `n` wildcards handing over at most `n` captures, the (repaired) formatter outputs exactly
    the documented expansion (never `none`). References larger than `n`, and `$0`, expand to
    nothing on both sides. -/
theorem glob_format_eq_spec_segs (segs : List Seg) (caps : List Bytes) (n : Nat)
    (hs : SafeSegs segs = true) (hc : caps.length ≤ n) :
    (compileTemplate (flatSegs segs) n).format caps =
      some (expandSpec caps (flatSegs segs).length (flatSegs segs)) :=
  glob_format_segs segs caps n hs hc

/-- **Partial C11** under the decidable guard `SafeTemplate tmpl`: the template reads as literals
    without `$` and `%` and references `$name`/`${name}` (`name` ∈ `[A-Za-z0-9_]+`, either a decimal
    number of ≤ 8 digits without leading zero or not purely numeric); a bare `$name` is followed by
    the end or an ASCII byte outside `[a-zA-Z0-9_}]` (so `$`, i.e. the next reference, may follow
    directly; the restriction to ASCII is not needed for this theorem, it is what
    `glob_regex_agree_partial` needs); no reference text is a proper prefix of another. -/
theorem glob_format_eq_spec_partial (tmpl : Bytes) (caps : List Bytes) (n : Nat)
    (hs : SafeTemplate tmpl = true) (hc : caps.length ≤ n) :
    (compileTemplate tmpl n).format caps = some (expandSpec caps tmpl.length tmpl) := by
  unfold SafeTemplate at hs
  simp only [Bool.and_eq_true, beq_iff_eq] at hs
  obtain ⟨hflat, hsafe⟩ := hs
  have := glob_format_segs _ caps n hsafe hc
  rw [hflat] at this
  exact this

/-! ### regex side -/

/-- **`regexp.Expand` = specification**, for every match `m` and every template `t` in which no
    reference name and no lone `$` is directly followed by a byte ≥ 0x80 (`refsAsciiFollowed`, a
    `Bool`; literal text may contain non-ASCII bytes elsewhere), provided every reference name the
    scan meets is "good": numeric names are not `0`, non-numeric names are not the name of a
    participating group of `m`. Captures are numbered from group 1; a group that did not participate
    counts as empty (no participation hypothesis is needed). In particular the template is inside
    the modelled fragment (`some`). -/
theorem regex_expand_eq_spec (m : RxMatch) (t : Bytes)
    (h : ∀ name ∈ refNames t.length t, refGood m name)
    (ha : refsAsciiFollowed t.length t = true) :
    rxExpand m t.length t = some (expandSpec (capsOf m) t.length t) :=
  rxExpand_eq_expandSpec m t.length t h ha

/-- Without `refsAsciiFollowed` the statement is false: `$1é`. -/
theorem regex_expand_unguarded_false :
    ¬ ∀ (m : RxMatch) (t : Bytes), (∀ name ∈ refNames t.length t, refGood m name) →
        rxExpand m t.length t = some (expandSpec (capsOf m) t.length t) := by
  intro h
  have hr : refNames 4 [36, 49, 0xC3, 0xA9] = [[49]] := by decide
  have h1 := h [([], some [102]), ([], some [102])] [36, 49, 0xC3, 0xA9] (by
    intro name hn
    rw [show ([36, 49, 0xC3, 0xA9] : Bytes).length = 4 from rfl, hr, List.mem_singleton] at hn
    subst hn
    show (1 : Nat) ≠ 0
    decide)
  rw [show ([36, 49, 0xC3, 0xA9] : Bytes).length = 4 from rfl,
    unicode_letter_after_ref_counterexample.2.2] at h1
  revert h1
  decide

/-- The usual case: all groups of the regex are unnamed and the template does not mention `$0`. -/
theorem regex_expand_eq_spec_unnamed (m : RxMatch) (t : Bytes)
    (hun : ∀ g ∈ m, g.1 = [])
    (h0 : ∀ name ∈ refNames t.length t, rxNum name ≠ some 0)
    (ha : refsAsciiFollowed t.length t = true) :
    rxExpand m t.length t = some (expandSpec ((m.drop 1).map (·.2.getD [])) t.length t) := by
  apply regex_expand_eq_spec _ _ _ ha
  intro name hn
  unfold refGood
  cases hk : rxNum name with
  | some k => simp only; intro e; exact h0 name hn (by rw [hk, e])
  | none =>
    simp only
    rw [List.find?_eq_none]
    intro g hg hp
    simp only [Bool.and_eq_true, beq_iff_eq] at hp
    have := mem_refNames_ne_nil _ _ _ hn
    rw [← hp.1, hun g hg] at this
    exact this rfl

/-- a template without `$` is copied by `regexp.Expand` whatever bytes it contains, and that is the
    documented expansion -/
theorem regex_no_dollar_identity (m : RxMatch) (t : Bytes) (caps : List Bytes) (h : cDollar ∉ t) :
    rxExpand m t.length t = some t ∧ expandSpec caps t.length t = t :=
  ⟨rxExpand_no_dollar m _ _ h,
   findRefs_nil_expandSpec caps _ _ (findRefs_no_dollar _ _ h) (hasDollarDollar_no_dollar _ h)⟩

/-- a safe template satisfies the regex-side guard (this is what the clause "ASCII after a bare
    reference name" of `SafeTemplate` is for) -/
theorem safe_refsAsciiFollowed (tmpl : Bytes) (hs : SafeTemplate tmpl = true) :
    refsAsciiFollowed tmpl.length tmpl = true := by
  unfold SafeTemplate at hs
  simp only [Bool.and_eq_true, beq_iff_eq] at hs
  obtain ⟨hflat, hsafe⟩ := hs
  unfold SafeSegs at hsafe
  simp only [Bool.and_eq_true] at hsafe
  have := refsAsciiFollowed_flat _ _ (List.all_eq_true.mp hsafe.1.1) hsafe.1.2 (Nat.le_refl _)
  rw [hflat] at this
  exact this

/-- **Glob and regex rules agree** on safe templates: if a regex rule with unnamed groups captures
    what the glob rule captures (`caps` = groups 1.. of `m`; this is the translated-regex contract,
    a hypothesis here) and the template does not mention `$0`, both rules produce the same text
    (and both are inside their modelled fragments). -/
theorem glob_regex_agree_partial (tmpl : Bytes) (m : RxMatch) (n : Nat)
    (hs : SafeTemplate tmpl = true) (hc : (capsOf m).length ≤ n)
    (hun : ∀ g ∈ m, g.1 = [])
    (h0 : ∀ name ∈ refNames tmpl.length tmpl, rxNum name ≠ some 0) :
    (compileTemplate tmpl n).format (capsOf m) = rxExpand m tmpl.length tmpl ∧
    (rxExpand m tmpl.length tmpl).isSome = true := by
  rw [glob_format_eq_spec_partial tmpl (capsOf m) n hs hc,
    regex_expand_eq_spec_unnamed m tmpl hun h0 (safe_refsAsciiFollowed tmpl hs)]
  exact ⟨rfl, rfl⟩

/- Non-vacuity: the guard accepts real templates with several, adjacent-to-literal, adjacent-to-each-other
   and repeated references, rejects the two remaining defective ones (and `$$`, `$1}`), and the theorem's
   two sides are what one expects. -/
example : SafeTemplate (strBytes "a_$1.b${2}$3-c") = true := by with_unfolding_all decide
example : SafeTemplate (strBytes "${1}${2}") = true ∧ SafeTemplate (strBytes "$1.$1-${10}") = true := by
  with_unfolding_all decide
example : SafeTemplate (strBytes "foo_$1_bar.${2}") = true ∧ SafeTemplate (strBytes "$foo") = true := by
  with_unfolding_all decide
example : SafeTemplate (strBytes "100%-$1") = false ∧ SafeTemplate (strBytes "$1-$11") = false ∧
          SafeTemplate (strBytes "$$") = false ∧ SafeTemplate (strBytes "$$1") = false ∧
          SafeTemplate (strBytes "$1}") = false ∧ SafeTemplate (strBytes "$01") = false ∧
          SafeTemplate (strBytes "${1") = false := by with_unfolding_all decide
-- adjacent references are accepted since the repair (bare–bare, bare–braced, braced–bare):
example : SafeTemplate (strBytes "$1$2") = true ∧ SafeTemplate (strBytes "x_$1$2_${3}$1") = true := by
  with_unfolding_all decide
example : SafeTemplate (strBytes "x_$1$2.${3}$1") = true ∧ SafeTemplate (strBytes "$1${2}$3$foo$1") = true := by
  with_unfolding_all decide
-- "x_$1$2.${3}$1" with a, b, c ↦ "x_ab.ca"
example : (compileTemplate [120, 95, 36, 49, 36, 50, 46, 36, 123, 51, 125, 36, 49] 3).format [[97], [98], [99]]
    = some [120, 95, 97, 98, 46, 99, 97] := by decide
-- "x_$1$2_${3}$1" ↦ "x_aca" on both sides: the second reference is `$2_` (longest name), which names no capture
example : (compileTemplate [120, 95, 36, 49, 36, 50, 95, 36, 123, 51, 125, 36, 49] 3).format [[97], [98], [99]]
    = some [120, 95, 97, 99, 97] ∧
    expandSpec [[97], [98], [99]] 13 [120, 95, 36, 49, 36, 50, 95, 36, 123, 51, 125, 36, 49] = [120, 95, 97, 99, 97] := by
  decide
example : (compileTemplate [97, 36, 49, 46, 36, 123, 50, 125, 36, 49] 2).format [[120], [121, 122]]
    = some [97, 120, 46, 121, 122, 120] := by decide                    -- "a$1.${2}$1" ↦ "ax.yzx"
example : rxExpand [([], some [119]), ([], some [120]), ([], none)] 8 [36, 49, 45, 36, 123, 50, 125, 33]
    = some [120, 45, 33] := by decide                                   -- "$1-${2}!" ↦ "x-!"
example : refNames 9 [36, 49, 45, 36, 123, 49, 50, 125, 36] = [[49], [49, 50]] := by decide


/- Non-ASCII bytes: a non-ASCII literal that does not directly follow a bare reference name is accepted
   by the strengthened guard (`é$1-x`, `${1}é`, `$1-é`), directly after a bare name it is not (`$1é`);
   likewise for the regex-side guard, which also rejects `${1é}` and `$é`. -/
example : SafeTemplate [0xC3, 0xA9, 36, 49, 45, 120] = true ∧               -- "é$1-x"
          SafeTemplate [36, 123, 49, 125, 0xC3, 0xA9] = true ∧              -- "${1}é"
          SafeTemplate [36, 49, 45, 0xC3, 0xA9] = true ∧                    -- "$1-é"
          SafeTemplate [36, 49, 0xC3, 0xA9] = false := by                   -- "$1é"
  with_unfolding_all decide
example : refsAsciiFollowed 6 [0xC3, 0xA9, 36, 49, 45, 120] = true ∧        -- "é$1-x"
          refsAsciiFollowed 6 [36, 123, 49, 125, 0xC3, 0xA9] = true ∧       -- "${1}é"
          refsAsciiFollowed 4 [36, 49, 0xC3, 0xA9] = false ∧                -- "$1é"
          refsAsciiFollowed 7 [36, 123, 49, 0xC3, 0xA9, 125, 45] = false ∧  -- "${1é}-"
          refsAsciiFollowed 3 [36, 0xC3, 0xA9] = false := by decide         -- "$é"
-- "é$1-x" and "${1}é" with capture `f`: all three sides agree
example : (compileTemplate [0xC3, 0xA9, 36, 49, 45, 120] 1).format [[102]] = some [0xC3, 0xA9, 102, 45, 120] ∧
          expandSpec [[102]] 6 [0xC3, 0xA9, 36, 49, 45, 120] = [0xC3, 0xA9, 102, 45, 120] ∧
          rxExpand [([], some [119]), ([], some [102])] 6 [0xC3, 0xA9, 36, 49, 45, 120]
            = some [0xC3, 0xA9, 102, 45, 120] := by decide
example : (compileTemplate [36, 123, 49, 125, 0xC3, 0xA9] 1).format [[102]] = some [102, 0xC3, 0xA9] ∧
          rxExpand [([], some [119]), ([], some [102])] 6 [36, 123, 49, 125, 0xC3, 0xA9]
            = some [102, 0xC3, 0xA9] := by decide
-- the same divergence inside braces: "${1é}" is the (empty) reference `1é` for `regexp.Expand`, malformed
-- (copied) for the documented syntax; "$é" likewise
example : rxExpand [([], some [119]), ([], some [102])] 6 [36, 123, 49, 0xC3, 0xA9, 125] = some [] ∧
          expandSpec [[102]] 6 [36, 123, 49, 0xC3, 0xA9, 125] = [36, 123, 49, 0xC3, 0xA9, 125] ∧
          rxExpand [([], some [119])] 3 [36, 0xC3, 0xA9] = some [] ∧
          expandSpec [] 3 [36, 0xC3, 0xA9] = [36, 0xC3, 0xA9] := by decide
-- a non-ASCII *group name* is looked up byte-wise: "${é}" with a group named `é`
example : rxExpand [([], some [119]), ([0xC3, 0xA9], some [102])] 5 [36, 123, 0xC3, 0xA9, 125] = some [102] := by
  decide
-- outside the modelled fragment of `nameRune` (lead byte 0xCE: "$1α"): `none`, never a guess;
-- an invalid byte (0xFF) ends the name like any non-letter
example : rxExpand [([], some [119]), ([], some [102])] 4 [36, 49, 0xCE, 0xB1] = none ∧
          rxExpand [([], some [119]), ([], some [102])] 3 [36, 49, 0xFF] = some [102, 0xFF] := by decide

end SE.Props.C11
