import SE.Proofs.GlobTemplate
/-
C11 — Capture references in names and labels expand as documented.

`expandSpec caps` (SE/Spec/Mapping.lean) is the documented syntax: `$n` / `${n}` with the longest
name, numbered from 1, `$$` ↦ `$`, everything else copied. Two implementations are compared with
it: Go's `regexp.Expand` (`rxExpand`, used for regex rules) and the glob rules' own
`NewTemplateFormatter`/`Format` (`compileTemplate`/`Formatter.format`).

* regex side: equal to the specification (`regex_expand_eq_spec`) up to the two things the
  specification leaves out on purpose — `$0` and named groups — and up to one genuine divergence:
  Go's `extract` scans a reference name rune by rune (`unicode.IsLetter`/`IsDigit`/`_`), the
  documented syntax and the glob formatter byte by byte over `[A-Za-z0-9_]`. In `$1é` the regex side
  reads the name `1é` (no number, no group: empty), the other two read `$1` followed by `é`
  (`unicode_letter_after_ref_counterexample`). The theorem therefore carries the decidable guard
  `refsAsciiFollowed` (no reference name and no lone `$` is directly followed by a byte ≥ 0x80);
  `rxExpand` answers `none` where a name rune is outside the modelled fragment of `nameRune`.
* glob side: all three defects of `NewTemplateFormatter` found with this property are repaired:
    - adjacent references (4d631d3): the reference regex is `\$\{?([a-zA-Z0-9_]+)\}?`, the name class no
      longer contains `$` (`adjacent_refs_expand`);
    - a literal `%` in a template that has a reference (b74fba2): `%` is escaped to `%%` before the
      `Sprintf` format string is built (`percent_literal_repaired`);
    - a reference text that is a prefix of another one (b74fba2): all references are substituted in ONE
      left-to-right pass instead of one `strings.ReplaceAll` per reference (`ref_prefix_repaired`).
  Proved now: the formatter equals the specification under the decidable guard `SafeTemplate`
  (SE/Spec/TemplateRefs.lean; `glob_format_eq_spec_partial`, `glob_regex_agree_partial`), which since
  b74fba2 no longer restricts `%` in literals nor how reference texts relate to each other; for all
  templates without `$$` in which the formatter's regex finds no reference (`no_ref_identity`); and —
  for EVERY template, no guard — that `Format` stays inside the modelled `Sprintf` fragment
  (`format_total`: since `%` is escaped the result is never "unmodelled").
  The full-strength statement is still FALSE (`glob_format_statement_false`): what remains are the
  corners in which the formatter's reference syntax differs from the documented one — `$$` is no
  escape, `$01` is read as capture 1, an unclosed `${1` is accepted, a stray `}` after `$1` is
  swallowed (`further_divergences`, `dollar_escape_counterexample`) — and `$1é`, where it is the
  regex side that differs (`unicode_letter_after_ref_counterexample`). Each is excluded by the guard.
The captures themselves (C11's `captures_correct`, and the literal-`*` defect) are not part of this
file; here `caps` is whatever the matcher hands to the formatter.
-/
namespace SE.Props.C11
open SE

/-! ### glob side -/

/-- The full-strength claim: for a glob rule with `caps.length` wildcards, the formatter's output
    is the documented expansion. It does NOT hold, also after the repair of the reference regex —
    see below. -/
def glob_format_statement : Prop :=
  ∀ (tmpl : Bytes) (caps : List Bytes),
    (compileTemplate tmpl caps.length).format caps = some (expandSpec caps tmpl.length tmpl)

/-- Repaired defect `template_adjacent_refs`: `$1$2` with captures `a`,`b` gives `ab` (before the
    repair the name class of the formatter's regex contained `$`, `1$2` was read as one non-numeric
    name and the result was the empty string). The general statement is `glob_format_eq_spec_partial`
    with the weakened guard; see the non-vacuity examples at the end. -/
theorem adjacent_refs_expand :
    (compileTemplate [36, 49, 36, 50] 2).format [[97], [98]] = some [97, 98] := by decide

/-- … which is the documented expansion -/
theorem adjacent_refs_agree :
    (compileTemplate [36, 49, 36, 50] 2).format [[97], [98]] = some [97, 98] ∧
    expandSpec [[97], [98]] 4 [36, 49, 36, 50] = [97, 98] := by decide

/-- Repaired defect `template_has_percent` (b74fba2): a literal `%` in a template that also has a
    reference. `100%-$1` and `50%s-$1` with one capture `foo` give `100%-foo` and `50%s-foo`, which is
    the documented expansion. (Before the repair the template itself, with `%s` put in, was the
    `Sprintf` format: `100%-%s` is outside the model — `none`; the real output was
    `100%s%!(EXTRA string=foo)` — and `50%s-%s` gave `50foo-%!s(MISSING)`.) The general statement is
    `glob_format_eq_spec_partial`, whose guard no longer mentions `%`. -/
theorem percent_literal_repaired :
    ((compileTemplate [49, 48, 48, 37, 45, 36, 49] 1).format [[102, 111, 111]]
        = some [49, 48, 48, 37, 45, 102, 111, 111] ∧
      expandSpec [[102, 111, 111]] 7 [49, 48, 48, 37, 45, 36, 49] = [49, 48, 48, 37, 45, 102, 111, 111]) ∧
    ((compileTemplate [53, 48, 37, 115, 45, 36, 49] 1).format [[102, 111, 111]]
        = some [53, 48, 37, 115, 45, 102, 111, 111] ∧
      expandSpec [[102, 111, 111]] 7 [53, 48, 37, 115, 45, 36, 49] = [53, 48, 37, 115, 45, 102, 111, 111]) := by
  decide

/-- Repaired defect `template_ref_prefix_of_ref` (b74fba2): `$1-$11`. With one capture `foo` the result
    is `foo-` (`$11` is out of range and expands to nothing; before the repair the textual
    `ReplaceAll("$1", "%s")` also hit the head of `$11`, giving `foo-%!s(MISSING)1`); with eleven
    captures `c1` … `c11` it is `c1-c11`. Both are the documented expansion. The general statement is
    `glob_format_eq_spec_partial`, whose guard no longer asks the reference texts to be prefix-free. -/
theorem ref_prefix_repaired :
    ((compileTemplate [36, 49, 45, 36, 49, 49] 1).format [[102, 111, 111]] = some [102, 111, 111, 45] ∧
      expandSpec [[102, 111, 111]] 6 [36, 49, 45, 36, 49, 49] = [102, 111, 111, 45]) ∧
    ((compileTemplate [36, 49, 45, 36, 49, 49] 11).format
        [[99, 49], [99, 50], [99, 51], [99, 52], [99, 53], [99, 54], [99, 55], [99, 56], [99, 57],
         [99, 49, 48], [99, 49, 49]] = some [99, 49, 45, 99, 49, 49] ∧
      expandSpec
        [[99, 49], [99, 50], [99, 51], [99, 52], [99, 53], [99, 54], [99, 55], [99, 56], [99, 57],
         [99, 49, 48], [99, 49, 49]] 6 [36, 49, 45, 36, 49, 49] = [99, 49, 45, 99, 49, 49]) := by
  decide

/-- A template whose references are all unusable still goes through `Sprintf` (without arguments),
    which un-escapes the `%%` again: `100%$5` with two captures and `100%$foo` give `100%`, as
    documented — and so does the reference-free `100%`, which is returned as it is, unescaped. -/
theorem unusable_refs_unescape :
    (compileTemplate [49, 48, 48, 37, 36, 53] 2).format [[97], [98]] = some [49, 48, 48, 37] ∧
    expandSpec [[97], [98]] 6 [49, 48, 48, 37, 36, 53] = [49, 48, 48, 37] ∧
    (compileTemplate [49, 48, 48, 37, 36, 102, 111, 111] 2).format [[97], [98]] = some [49, 48, 48, 37] ∧
    expandSpec [[97], [98]] 8 [49, 48, 48, 37, 36, 102, 111, 111] = [49, 48, 48, 37] ∧
    (compileTemplate [49, 48, 48, 37] 2).format [[97], [98]] = some [49, 48, 48, 37] := by decide

/-- The remaining divergences from the documented (`regexp.Expand`) syntax, found while choosing the
    guard (model-level; each is excluded by `SafeTemplate`). All four survive both repairs (4d631d3 of
    the reference regex — the first with a different value — and b74fba2, which does not touch the
    reference syntax):
    `$$` is not an escape (since the repair the first `$` starts no reference, nor does the second:
    both are copied, `$$`; before the repair the whole `$$` was a reference named `$` and dropped);
    `$01` is read by `strconv.Atoi` as capture 1, while `regexp.Expand` rejects leading zeros;
    an unclosed `${1` is accepted; a stray `}` after a bare `$1` is swallowed. -/
theorem further_divergences :
    ((compileTemplate [36, 36] 0).format [] = some [36, 36] ∧ expandSpec [] 2 [36, 36] = [36]) ∧
    ((compileTemplate [36, 48, 49] 1).format [[102]] = some [102] ∧ expandSpec [[102]] 3 [36, 48, 49] = []) ∧
    ((compileTemplate [36, 123, 49] 1).format [[102]] = some [102] ∧
        expandSpec [[102]] 3 [36, 123, 49] = [36, 123, 49]) ∧
    ((compileTemplate [36, 49, 125] 1).format [[102]] = some [102] ∧
        expandSpec [[102]] 3 [36, 49, 125] = [102, 125]) := by decide

/-- A divergence the repair makes reachable inside a template with a reference: `$$1` with one
    capture `f` gives `$f` (the first `$` is copied, `$1` is a reference), documented: `$1`
    (`$$` is the escape). Before the repair `$$1` was one reference named `$1` and gave ``. -/
theorem dollar_escape_counterexample :
    (compileTemplate [36, 36, 49] 1).format [[102]] = some [36, 102] ∧
    expandSpec [[102]] 3 [36, 36, 49] = [36, 49] := by decide

/-- Divergence `template_unicode_letter_after_ref`: `$1é` (`é` = C3 A9, a Unicode letter) with one
    capture `f`. The glob formatter's regex and the documented syntax take the ASCII name `1` and copy
    `é`: `fé`. Go's `regexp.Expand`, used for regex rules, scans the name rune by rune: the name is
    `1é`, neither a number nor a group name, and the reference expands to nothing. (Here glob side and
    specification agree; it is the regex side that differs from both.) -/
theorem unicode_letter_after_ref_counterexample :
    (compileTemplate [36, 49, 0xC3, 0xA9] 1).format [[102]] = some [102, 0xC3, 0xA9] ∧
    expandSpec [[102]] 4 [36, 49, 0xC3, 0xA9] = [102, 0xC3, 0xA9] ∧
    rxExpand [([], some [102]), ([], some [102])] 4 [36, 49, 0xC3, 0xA9] = some [] := by decide

/-- Hence the unguarded statement is false, also after all three repairs: refuted by `$$`, which the
    documented syntax reads as an escaped `$` and the formatter copies — and equally by `$01`, `${1`,
    `$1}`, `$$1`, see `glob_format_statement_false'`. (Not any more by `100%-$1` or `$1-$11`:
    `percent_literal_repaired`, `ref_prefix_repaired`.) -/
theorem glob_format_statement_false : ¬ glob_format_statement := by
  intro h
  have h1 := h [36, 36] []
  rw [show ([] : List Bytes).length = 0 from rfl, further_divergences.1.1,
    show ([36, 36] : Bytes).length = 2 from rfl, further_divergences.1.2] at h1
  revert h1
  decide

/-- the same refutation from another remaining corner alone, the leading zero `$01` (the corners are
    independent) -/
theorem glob_format_statement_false' : ¬ glob_format_statement := by
  intro h
  have h1 := h [36, 48, 49] [[102]]
  rw [show ([[102]] : List Bytes).length = 1 from rfl, further_divergences.2.1.1,
    show ([36, 48, 49] : Bytes).length = 3 from rfl, further_divergences.2.1.2] at h1
  revert h1
  decide

/-- **`Format` is total.** For every template, every capture count and every capture list — no guard —
    the formatter's result is inside the modelled fragment of `fmt.Sprintf` (`%s`, `%%`): since b74fba2
    every `%` of the template is escaped, and the single substitution pass only copies bytes and
    replaces references (which contain no `%`) by `%s` or by nothing, so the format string consists of
    `%%`, `%s` and non-`%` bytes only. (Before the repair `100%-$1` gave `none`, "unmodelled".) -/
theorem format_total (tmpl : Bytes) (n : Nat) (caps : List Bytes) :
    ((compileTemplate tmpl n).format caps).isSome = true :=
  compileTemplate_format_isSome tmpl n caps

/-- `%`-escaping does not touch the references: the formatter's regex finds the same (match, name)
    pairs in the escaped template as in the original one (the escaping only doubles `%`, which occurs
    neither in `$`, `{`, `}` nor in a name). -/
theorem escape_preserves_refs (tmpl : Bytes) :
    findRefs (escapePct tmpl).length (escapePct tmpl) = findRefs tmpl.length tmpl :=
  findRefs_escapePct_self tmpl

/-- Templates in which the formatter's regex `\$\{?([a-zA-Z0-9_]+)\}?` finds nothing are returned
    verbatim — whatever else they contain (`%`, a trailing `$`, `$-`, `${}`, `$$` …) and whatever the
    captures are — and, if the template contains no `$$`, that is also what the documented syntax
    gives. (The hypothesis `hasDollarDollar tmpl = false` is new and needed since the repair: `$$`
    is no longer a "reference", see `further_divergences`.) -/
theorem no_ref_identity (tmpl : Bytes) (n : Nat) (caps : List Bytes) (h : findRefs tmpl.length tmpl = [])
    (hdd : hasDollarDollar tmpl = false) :
    (compileTemplate tmpl n).format caps = some tmpl ∧ expandSpec caps tmpl.length tmpl = tmpl :=
  ⟨compile_no_refs tmpl n caps h, findRefs_nil_expandSpec caps _ _ h hdd⟩

/-- the first half needs no hypothesis about `$$` -/
theorem no_ref_verbatim (tmpl : Bytes) (n : Nat) (caps : List Bytes) (h : findRefs tmpl.length tmpl = []) :
    (compileTemplate tmpl n).format caps = some tmpl := compile_no_refs tmpl n caps h

/-- in particular every template without a `$` -/
theorem no_dollar_identity (tmpl : Bytes) (n : Nat) (caps : List Bytes) (h : cDollar ∉ tmpl) :
    (compileTemplate tmpl n).format caps = some (expandSpec caps tmpl.length tmpl) := by
  obtain ⟨h1, h2⟩ := no_ref_identity tmpl n caps (findRefs_no_dollar _ _ h) (hasDollarDollar_no_dollar _ h)
  rw [h1, h2]

/-- **Partial C11, segment form.** For every list of literal pieces and numeric references that
    satisfies `SafeSegs` — any number of references, repeated and non-numeric ones allowed — and for a rule
    with `n` wildcards handing over at most `n` captures, the (repaired) formatter outputs exactly
    the documented expansion (never `none`). References larger than `n`, and `$0`, expand to
    nothing on both sides. -/
theorem glob_format_eq_spec_segs (segs : List Seg) (caps : List Bytes) (n : Nat)
    (hs : SafeSegs segs = true) (hc : caps.length ≤ n) :
    (compileTemplate (flatSegs segs) n).format caps =
      some (expandSpec caps (flatSegs segs).length (flatSegs segs)) :=
  glob_format_segs segs caps n hs hc

/-- **Partial C11** under the decidable guard `SafeTemplate tmpl`: the template reads as literals
    without `$` (`%` and every other byte allowed) and references `$name`/`${name}` (`name` ∈
    `[A-Za-z0-9_]+`, either a decimal number of ≤ 8 digits without leading zero or not purely
    numeric); a bare `$name` is followed by the end or an ASCII byte outside `[a-zA-Z0-9_}]` (so `$`,
    i.e. the next reference, may follow directly; the restriction to ASCII is not needed for this
    theorem, it is what `glob_regex_agree_partial` needs). Since the repair b74fba2 nothing is asked
    about `%` or about reference texts being prefixes of each other. The result is `some …` also when
    the template has references none of which is usable (`$5` with two captures, `$foo`): then
    `Format` runs `Sprintf` without arguments, which un-escapes the literals (`unusable_refs_unescape`). -/
theorem glob_format_eq_spec_partial (tmpl : Bytes) (caps : List Bytes) (n : Nat)
    (hs : SafeTemplate tmpl = true) (hc : caps.length ≤ n) :
    (compileTemplate tmpl n).format caps = some (expandSpec caps tmpl.length tmpl) := by
  unfold SafeTemplate at hs
  simp only [Bool.and_eq_true, beq_iff_eq] at hs
  obtain ⟨hflat, hsafe⟩ := hs
  have := glob_format_segs _ caps n hsafe hc
  rw [hflat] at this
  exact this

/-! ### regex side -/

/-- **`regexp.Expand` = specification**, for every match `m` and every template `t` in which no
    reference name and no lone `$` is directly followed by a byte ≥ 0x80 (`refsAsciiFollowed`, a
    `Bool`; literal text may contain non-ASCII bytes elsewhere), provided every reference name the
    scan meets is "good": numeric names are not `0`, non-numeric names are not the name of a
    participating group of `m`. Captures are numbered from group 1; a group that did not participate
    counts as empty (no participation hypothesis is needed). In particular the template is inside
    the modelled fragment (`some`). -/
theorem regex_expand_eq_spec (m : RxMatch) (t : Bytes)
    (h : ∀ name ∈ refNames t.length t, refGood m name)
    (ha : refsAsciiFollowed t.length t = true) :
    rxExpand m t.length t = some (expandSpec (capsOf m) t.length t) :=
  rxExpand_eq_expandSpec m t.length t h ha

/-- Without `refsAsciiFollowed` the statement is false: `$1é`. -/
theorem regex_expand_unguarded_false :
    ¬ ∀ (m : RxMatch) (t : Bytes), (∀ name ∈ refNames t.length t, refGood m name) →
        rxExpand m t.length t = some (expandSpec (capsOf m) t.length t) := by
  intro h
  have hr : refNames 4 [36, 49, 0xC3, 0xA9] = [[49]] := by decide
  have h1 := h [([], some [102]), ([], some [102])] [36, 49, 0xC3, 0xA9] (by
    intro name hn
    rw [show ([36, 49, 0xC3, 0xA9] : Bytes).length = 4 from rfl, hr, List.mem_singleton] at hn
    subst hn
    show (1 : Nat) ≠ 0
    decide)
  rw [show ([36, 49, 0xC3, 0xA9] : Bytes).length = 4 from rfl,
    unicode_letter_after_ref_counterexample.2.2] at h1
  revert h1
  decide

/-- The usual case: all groups of the regex are unnamed and the template does not mention `$0`. -/
theorem regex_expand_eq_spec_unnamed (m : RxMatch) (t : Bytes)
    (hun : ∀ g ∈ m, g.1 = [])
    (h0 : ∀ name ∈ refNames t.length t, rxNum name ≠ some 0)
    (ha : refsAsciiFollowed t.length t = true) :
    rxExpand m t.length t = some (expandSpec ((m.drop 1).map (·.2.getD [])) t.length t) := by
  apply regex_expand_eq_spec _ _ _ ha
  intro name hn
  unfold refGood
  cases hk : rxNum name with
  | some k => simp only; intro e; exact h0 name hn (by rw [hk, e])
  | none =>
    simp only
    rw [List.find?_eq_none]
    intro g hg hp
    simp only [Bool.and_eq_true, beq_iff_eq] at hp
    have := mem_refNames_ne_nil _ _ _ hn
    rw [← hp.1, hun g hg] at this
    exact this rfl

/-- a template without `$` is copied by `regexp.Expand` whatever bytes it contains, and that is the
    documented expansion -/
theorem regex_no_dollar_identity (m : RxMatch) (t : Bytes) (caps : List Bytes) (h : cDollar ∉ t) :
    rxExpand m t.length t = some t ∧ expandSpec caps t.length t = t :=
  ⟨rxExpand_no_dollar m _ _ h,
   findRefs_nil_expandSpec caps _ _ (findRefs_no_dollar _ _ h) (hasDollarDollar_no_dollar _ h)⟩

/-- a safe template satisfies the regex-side guard (this is what the clause "ASCII after a bare
    reference name" of `SafeTemplate` is for) -/
theorem safe_refsAsciiFollowed (tmpl : Bytes) (hs : SafeTemplate tmpl = true) :
    refsAsciiFollowed tmpl.length tmpl = true := by
  unfold SafeTemplate at hs
  simp only [Bool.and_eq_true, beq_iff_eq] at hs
  obtain ⟨hflat, hsafe⟩ := hs
  unfold SafeSegs at hsafe
  simp only [Bool.and_eq_true] at hsafe
  have := refsAsciiFollowed_flat _ _ (List.all_eq_true.mp hsafe.1) hsafe.2 (Nat.le_refl _)
  rw [hflat] at this
  exact this

/-- **Glob and regex rules agree** on safe templates: if a regex rule with unnamed groups captures
    what the glob rule captures (`caps` = groups 1.. of `m`; this is the translated-regex contract,
    a hypothesis here) and the template does not mention `$0`, both rules produce the same text
    (and both are inside their modelled fragments). -/
theorem glob_regex_agree_partial (tmpl : Bytes) (m : RxMatch) (n : Nat)
    (hs : SafeTemplate tmpl = true) (hc : (capsOf m).length ≤ n)
    (hun : ∀ g ∈ m, g.1 = [])
    (h0 : ∀ name ∈ refNames tmpl.length tmpl, rxNum name ≠ some 0) :
    (compileTemplate tmpl n).format (capsOf m) = rxExpand m tmpl.length tmpl ∧
    (rxExpand m tmpl.length tmpl).isSome = true := by
  rw [glob_format_eq_spec_partial tmpl (capsOf m) n hs hc,
    regex_expand_eq_spec_unnamed m tmpl hun h0 (safe_refsAsciiFollowed tmpl hs)]
  exact ⟨rfl, rfl⟩

/- Non-vacuity: the guard accepts real templates with several, adjacent-to-literal, adjacent-to-each-other
   and repeated references, since b74fba2 also literal `%` and reference texts that are prefixes of each other,
   rejects the remaining syntax corners (`$$`, `$01`, `${1`, `$1}`, `$1é`), and the theorem's two sides are what
   one expects. -/
example : SafeTemplate (strBytes "a_$1.b${2}$3-c") = true := by with_unfolding_all decide
example : SafeTemplate (strBytes "${1}${2}") = true ∧ SafeTemplate (strBytes "$1.$1-${10}") = true := by
  with_unfolding_all decide
example : SafeTemplate (strBytes "foo_$1_bar.${2}") = true ∧ SafeTemplate (strBytes "$foo") = true := by
  with_unfolding_all decide
-- accepted since the repair b74fba2 (the weaker guard): literal `%`, `$1` next to `$11`
example : SafeTemplate (strBytes "100%-$1") = true ∧ SafeTemplate (strBytes "$1-$11") = true ∧
          SafeTemplate (strBytes "%d$2%%$1") = true ∧ SafeTemplate (strBytes "50%s-$1") = true ∧
          SafeTemplate (strBytes "100%$5") = true := by with_unfolding_all decide
-- still rejected: the remaining syntax corners
example : SafeTemplate (strBytes "$$") = false ∧ SafeTemplate (strBytes "$$1") = false ∧
          SafeTemplate (strBytes "$1}") = false ∧ SafeTemplate (strBytes "$01") = false ∧
          SafeTemplate (strBytes "${1") = false ∧ SafeTemplate [36, 49, 0xC3, 0xA9] = false := by
  with_unfolding_all decide
-- "%d$2%%$1" with a, b ↦ "%db%%a" on both sides (nothing in the literals is interpreted by `Sprintf`)
example : (compileTemplate [37, 100, 36, 50, 37, 37, 36, 49] 2).format [[97], [98]] = some [37, 100, 98, 37, 37, 97] ∧
    expandSpec [[97], [98]] 8 [37, 100, 36, 50, 37, 37, 36, 49] = [37, 100, 98, 37, 37, 97] := by decide
-- adjacent references are accepted since the repair (bare–bare, bare–braced, braced–bare):
example : SafeTemplate (strBytes "$1$2") = true ∧ SafeTemplate (strBytes "x_$1$2_${3}$1") = true := by
  with_unfolding_all decide
example : SafeTemplate (strBytes "x_$1$2.${3}$1") = true ∧ SafeTemplate (strBytes "$1${2}$3$foo$1") = true := by
  with_unfolding_all decide
-- "x_$1$2.${3}$1" with a, b, c ↦ "x_ab.ca"
example : (compileTemplate [120, 95, 36, 49, 36, 50, 46, 36, 123, 51, 125, 36, 49] 3).format [[97], [98], [99]]
    = some [120, 95, 97, 98, 46, 99, 97] := by decide
-- "x_$1$2_${3}$1" ↦ "x_aca" on both sides: the second reference is `$2_` (longest name), which names no capture
example : (compileTemplate [120, 95, 36, 49, 36, 50, 95, 36, 123, 51, 125, 36, 49] 3).format [[97], [98], [99]]
    = some [120, 95, 97, 99, 97] ∧
    expandSpec [[97], [98], [99]] 13 [120, 95, 36, 49, 36, 50, 95, 36, 123, 51, 125, 36, 49] = [120, 95, 97, 99, 97] := by
  decide
example : (compileTemplate [97, 36, 49, 46, 36, 123, 50, 125, 36, 49] 2).format [[120], [121, 122]]
    = some [97, 120, 46, 121, 122, 120] := by decide                    -- "a$1.${2}$1" ↦ "ax.yzx"
example : rxExpand [([], some [119]), ([], some [120]), ([], none)] 8 [36, 49, 45, 36, 123, 50, 125, 33]
    = some [120, 45, 33] := by decide                                   -- "$1-${2}!" ↦ "x-!"
example : refNames 9 [36, 49, 45, 36, 123, 49, 50, 125, 36] = [[49], [49, 50]] := by decide


/- Non-ASCII bytes: a non-ASCII literal that does not directly follow a bare reference name is accepted
   by the strengthened guard (`é$1-x`, `${1}é`, `$1-é`), directly after a bare name it is not (`$1é`);
   likewise for the regex-side guard, which also rejects `${1é}` and `$é`. -/
example : SafeTemplate [0xC3, 0xA9, 36, 49, 45, 120] = true ∧               -- "é$1-x"
          SafeTemplate [36, 123, 49, 125, 0xC3, 0xA9] = true ∧              -- "${1}é"
          SafeTemplate [36, 49, 45, 0xC3, 0xA9] = true ∧                    -- "$1-é"
          SafeTemplate [36, 49, 0xC3, 0xA9] = false := by                   -- "$1é"
  with_unfolding_all decide
example : refsAsciiFollowed 6 [0xC3, 0xA9, 36, 49, 45, 120] = true ∧        -- "é$1-x"
          refsAsciiFollowed 6 [36, 123, 49, 125, 0xC3, 0xA9] = true ∧       -- "${1}é"
          refsAsciiFollowed 4 [36, 49, 0xC3, 0xA9] = false ∧                -- "$1é"
          refsAsciiFollowed 7 [36, 123, 49, 0xC3, 0xA9, 125, 45] = false ∧  -- "${1é}-"
          refsAsciiFollowed 3 [36, 0xC3, 0xA9] = false := by decide         -- "$é"
-- "é$1-x" and "${1}é" with capture `f`: all three sides agree
example : (compileTemplate [0xC3, 0xA9, 36, 49, 45, 120] 1).format [[102]] = some [0xC3, 0xA9, 102, 45, 120] ∧
          expandSpec [[102]] 6 [0xC3, 0xA9, 36, 49, 45, 120] = [0xC3, 0xA9, 102, 45, 120] ∧
          rxExpand [([], some [119]), ([], some [102])] 6 [0xC3, 0xA9, 36, 49, 45, 120]
            = some [0xC3, 0xA9, 102, 45, 120] := by decide
example : (compileTemplate [36, 123, 49, 125, 0xC3, 0xA9] 1).format [[102]] = some [102, 0xC3, 0xA9] ∧
          rxExpand [([], some [119]), ([], some [102])] 6 [36, 123, 49, 125, 0xC3, 0xA9]
            = some [102, 0xC3, 0xA9] := by decide
-- the same divergence inside braces: "${1é}" is the (empty) reference `1é` for `regexp.Expand`, malformed
-- (copied) for the documented syntax; "$é" likewise
example : rxExpand [([], some [119]), ([], some [102])] 6 [36, 123, 49, 0xC3, 0xA9, 125] = some [] ∧
          expandSpec [[102]] 6 [36, 123, 49, 0xC3, 0xA9, 125] = [36, 123, 49, 0xC3, 0xA9, 125] ∧
          rxExpand [([], some [119])] 3 [36, 0xC3, 0xA9] = some [] ∧
          expandSpec [] 3 [36, 0xC3, 0xA9] = [36, 0xC3, 0xA9] := by decide
-- a non-ASCII *group name* is looked up byte-wise: "${é}" with a group named `é`
example : rxExpand [([], some [119]), ([0xC3, 0xA9], some [102])] 5 [36, 123, 0xC3, 0xA9, 125] = some [102] := by
  decide
-- outside the modelled fragment of `nameRune` (lead byte 0xCE: "$1α"): `none`, never a guess;
-- an invalid byte (0xFF) ends the name like any non-letter
example : rxExpand [([], some [119]), ([], some [102])] 4 [36, 49, 0xCE, 0xB1] = none ∧
          rxExpand [([], some [119]), ([], some [102])] 3 [36, 49, 0xFF] = some [102, 0xFF] := by decide

end SE.Props.C11
