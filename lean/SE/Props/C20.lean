import SE.Model.Sync
/-
C20 — The concurrent pipeline is free of data races.

The obligation that is re-checked on every run: the lock/ownership discipline holds on the access
table that /verif/extract regenerates from the current source (`SE.Gen.accessTable`), with no
exceptions. Together with `SE.Props.C20.discipline_no_race` (generic: a state in which two goroutines
are simultaneously at conflicting accesses is unreachable under the discipline) this gives race
freedom of the modelled accesses. The race detector runs of the check are the *search* for a concrete
racing pair, never the proof.
-/
namespace SE.Props.C20
open SE SE.Gen

/-- every lock operation in the extracted methods is a top-level statement of its function: the
    extractor's lock-region recognition applies everywhere (nothing was guessed) -/
theorem locking_is_regular : Gen.irregularLocking = [] := by decide

/-- no location of the extracted table has an unprotected conflicting pair of accesses -/
theorem no_racy_location : racyLocations Gen.accessTable = [] := by decide +kernel

/-- the discipline holds on the current source, with no exception -/
theorem discipline_holds : Discipline Gen.accessTable [] := by
  intro l hl
  rw [no_racy_location] at hl
  cases hl

/-- non-vacuity: the table contains conflicting accesses that the discipline has to (and does) order -/
theorem table_is_nontrivial :
    (accRows Gen.accessTable).length ≥ 30 ∧
    ((accRows Gen.accessTable).any fun a => (accRows Gen.accessTable).any fun b => conflicting a b) = true := by
  decide +kernel

/-- the discipline is not satisfied by every table: the repaired LRU defect (Get under the read lock while
    groupcache's Get reorders its list) violates it -/
theorem lru_rlock_violates :
    racyLocations [⟨"lruCache", "Get", "lruCache.cache.Get()", false, [("lock", false)]⟩] = ["lru.Cache"] := by decide +kernel

/-- … and so does the repaired `Defaults` defect (read with no lock by the exporter while reload writes it) -/
theorem defaults_unlocked_violates :
    racyLocations [⟨"Exporter", "handleEvent", "Exporter.Mapper.Defaults", false, []⟩,
                   ⟨"MetricMapper", "InitFromYAMLString", "MetricMapper.Defaults", true, [("mutex", true)]⟩] = ["MetricMapper.Defaults"] := by
  decide +kernel

end SE.Props.C20
