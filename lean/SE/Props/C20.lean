import SE.Model.Sync
import SE.Proofs.Sync
/-
C20 — The concurrent pipeline is free of data races.

The obligation that is re-checked on every run: the lock/ownership discipline holds on the access
table that /verif/extract regenerates from the current source (`SE.Gen.accessTable`), with no
exceptions. Together with `SE.Props.C20.discipline_no_race` (generic: a state in which two goroutines
are simultaneously at conflicting accesses is unreachable under the discipline) this gives race
freedom of the modelled accesses. The race detector runs of the check are the *search* for a concrete
racing pair, never the proof.
-/
namespace SE.Props.C20
open SE SE.Gen

/-- every lock operation in the extracted methods is a top-level statement of its function: the
    extractor's lock-region recognition applies everywhere (nothing was guessed) -/
theorem locking_is_regular : Gen.irregularLocking = [] := by decide

/-- the concurrently used packages recycle no memory through a `sync.Pool`: ownership of pooled objects changes hands
    without any access the table could see (seeded change W20), so a pool puts the code outside the abstraction this
    theorem family speaks about -/
theorem no_object_pools : Gen.syncPools = [] := by decide

/-- the concurrently used packages keep no package-level mutable state (a package variable holding a channel, a map or
    a made container, or one that a function assigns to): such state is shared by every goroutine that enters the package
    and has no receiver field the table could attribute it to (seeded change X18: a channel-based free list of datagram
    buffers, through which a buffer had two owners). Like a pool it puts the code outside the abstraction. -/
theorem no_package_level_state : Gen.packageLevelState = [] := by decide

/-- no location of the extracted table has an unprotected conflicting pair of accesses -/
theorem no_racy_location : racyLocations Gen.accessTable = [] := by decide +kernel

/-- the discipline holds on the current source, with no exception -/
theorem discipline_holds : Discipline Gen.accessTable [] := by
  intro l hl
  rw [no_racy_location] at hl
  cases hl

/-- non-vacuity: the table contains conflicting accesses that the discipline has to (and does) order -/
theorem table_is_nontrivial :
    (accRows Gen.accessTable).length ≥ 30 ∧
    ((accRows Gen.accessTable).any fun a => (accRows Gen.accessTable).any fun b => conflicting a b) = true := by
  decide +kernel

/-- the discipline is not satisfied by every table: the repaired LRU defect (Get under the read lock while
    groupcache's Get reorders its list) violates it -/
theorem lru_rlock_violates :
    racyLocations [⟨"lruCache", "Get", "lruCache.cache.Get()", false, [("lock", false)]⟩] = ["lru.Cache"] := by decide +kernel

/-- … and so does the repaired `Defaults` defect (read with no lock by the exporter while reload writes it) -/
theorem defaults_unlocked_violates :
    racyLocations [⟨"Exporter", "handleEvent", "Exporter.Mapper.Defaults", false, []⟩,
                   ⟨"MetricMapper", "InitFromYAMLString", "MetricMapper.Defaults", true, [("mutex", true)]⟩] = ["MetricMapper.Defaults"] := by
  decide +kernel

/-! ### what the discipline means (semantics and proofs: SE/Proofs/Sync.lean) -/
open SE.Sync

/-- mutual exclusion of the lock table in every reachable state of the thread/lock semantics: a lock
    held exclusively by one goroutine is held by no other goroutine in any mode -/
theorem lock_table_mutex {st : State} (h : Reachable st) : LockInv st := lockInv_reachable h

/-- **the discipline excludes data races** (generic in the table): if no pair of `rows` violates the
    discipline, then in every reachable state whose goroutines perform only accesses of `rows`, holding
    at each access the locks (in the modes) and running in the role its row claims, there are no two
    distinct goroutines simultaneously about to access the same location, one of them writing -/
theorem discipline_no_race {rows : List Acc} (hv : violations rows = []) {st : State}
    (hreach : Reachable st) (hrows : ProgIn rows st) (hheld : AccessHeld st) : ¬ RaceState st :=
  SE.Sync.discipline_no_race hv hreach hrows hheld

/-- the table regenerated from the current source has no violating pair -/
theorem no_violation : violations (accRows Gen.accessTable) = [] :=
  violations_nil_of_racyLocations_nil no_racy_location

/-- **race freedom of the current source's access table**: goroutines that perform the extracted
    accesses under the extracted locks never reach a state in which two of them are simultaneously at
    conflicting accesses -/
theorem current_source_race_free {st : State} (hreach : Reachable st)
    (hrows : ProgIn (accRows Gen.accessTable) st) (hheld : AccessHeld st) : ¬ RaceState st :=
  SE.Sync.discipline_no_race no_violation hreach hrows hheld

/-- the same with `AccessHeld` discharged: for goroutines whose programs are sequences of single-lock
    regions / bare accesses over rows of the current table (each region's rows claiming at most the
    region's lock, and the goroutine's role), no schedule from the initial state reaches a race -/
theorem current_source_regions_race_free {s0 st : State} (hinit : Initial s0)
    (hsys : SegSystem (accRows Gen.accessTable) s0) (hreach : Reach s0 st) : ¬ RaceState st :=
  segSystem_no_race no_violation hinit hsys hreach

/-- non-vacuity of the semantics: a disciplined writer/reader system reaches a state with the writer at
    its access and the readers blocked; an undisciplined one reaches a race state -/
theorem semantics_is_nontrivial :
    (Reachable Example.sysW ∧ stepAt Example.sysW 1 = none) ∧
    (∃ st, Reachable st ∧ AccessHeld st ∧ RaceState st) :=
  ⟨⟨Example.writer_in_readers_blocked.1, Example.writer_in_readers_blocked.2.2.2.1⟩,
   Example.bad_race_reachable⟩

end SE.Props.C20
