import SE.Proofs.Reload
/-
C14 — Configuration reload is all-or-nothing, also under concurrent lookups.

Sequential part: a failing load leaves the mapper untouched; after a successful load the mapper
answers every lookup exactly like a mapper newly built from the new configuration — although the
code leaves `m.FSM` and `m.doRegex` stale when the new configuration has no glob rule.

Concurrent part, over the atomic-step abstraction (`GetMapping` runs under the read lock, the swap
under the write lock — the lock-region table is checked separately, DESIGN.md C14 tie (b); RWMutex
semantics is trusted): every execution of reader threads and a reloader is an interleaving
(`Interleaving`) of their operations, i.e. some `List (Op V)`. The theorems below hold for *every*
operation list, hence for every interleaving: each lookup is answered from exactly one
configuration — the last one successfully loaded before it in the trace.
Not covered here: liveness ("no lookup is disabled forever").
-/
namespace SE.Props.C14
open SE
variable {V : Type}

/-- A failing load changes nothing: not the mapper object, not the cache. -/
theorem reload_error_keeps (m : CachedMapper V) (e : LoadErr) : m.reload (.error e) = m := rfl

/-- … so every later lookup (and reload) is answered as if the failing load had not happened. -/
theorem reload_error_invisible (rx : Rx) (m : CachedMapper V) (e : LoadErr) (ops : List (Op V)) :
    runCached rx m (.reload (.error e) :: ops) = runCached rx m ops := rfl

/-- the same on the cache-less mapper object, anywhere in a history -/
theorem reload_error_invisible_plain (rx : Rx) (st : MState V) (e : LoadErr) (pre post : List (Op V)) :
    runPlain rx st (pre ++ .reload (.error e) :: post) = runPlain rx st (pre ++ post) := by
  rw [runPlain_append, runPlain_append]; rfl

/-- All-or-nothing, from the raw configuration: whatever `InitFromYAMLString` is given, the cached
    mapper afterwards is either exactly the old one (load failed) or answers every history like a
    newly built mapper for the loaded configuration — there is no third outcome. -/
theorem reload_all_or_nothing [NumOps V] (rx : Rx) (rxOk : Bytes → Bool) (defBuckets : List V) (defQuantiles : List (V × V))
    (raw : RawConfig V) (m : CachedMapper V) :
    (∃ e, load rxOk defBuckets defQuantiles raw = .error e ∧
        m.reload (load rxOk defBuckets defQuantiles raw) = m) ∨
    (∃ n, load rxOk defBuckets defQuantiles raw = .ok n ∧
        ∀ ops, runCached rx (m.reload (load rxOk defBuckets defQuantiles raw)) ops
                 = runPlain rx (MState.fresh n) ops) := by
  cases h : load rxOk defBuckets defQuantiles raw with
  | error e => exact Or.inl ⟨e, rfl, rfl⟩
  | ok n =>
    refine Or.inr ⟨n, rfl, fun ops => ?_⟩
    rw [runCached_eq_runPlain rx ops _ (cacheSound_of_empty rx _ rfl)]
    exact runPlain_congr rx ops _ _ (swap_lookup_eq_fresh m.st n rx)

/-- **Reload = fresh load.** After the assignments `InitFromYAMLString` makes under the write lock,
    the mapper object answers every lookup like a newly built mapper for `n`, whatever it was
    before. (After a regex-only reload `fsm` and `doRegex` are stale, but `doFSM = false` and they
    are not consulted; when `n` has glob rules both are refreshed.) -/
theorem reload_ok_eq_fresh (st : MState V) (n : Config V) (rx : Rx) (name : Bytes) (ty : Nat) :
    (st.swap n).lookup rx name ty = (MState.fresh n).lookup rx name ty :=
  swap_lookup_eq_fresh st n rx name ty

/-- A fresh mapper object answers exactly as the configuration-level `lookup` (SE/Model/Mapper.lean). -/
theorem fresh_lookup_eq (n : Config V) (rx : Rx) (name : Bytes) (ty : Nat) :
    (MState.fresh n).lookup rx name ty = lookup n rx name ty := by
  unfold MState.lookup MState.fresh lookup hasRegex; rfl

/-- Histories: after a successful reload the mapper answers every later history like a fresh one. -/
theorem reload_ok_history_eq_fresh (rx : Rx) (st : MState V) (n : Config V) (ops : List (Op V)) :
    runPlain rx (st.swap n) ops = runPlain rx (MState.fresh n) ops :=
  runPlain_congr rx ops _ _ (swap_lookup_eq_fresh st n rx)

/-- Cached version: after a successful reload a cached mapper (any cache kind, size, previous
    contents — sound or not) answers every later history like a newly built cached mapper for `n`
    with any other cache, and like a newly built cache-less one. -/
theorem reload_ok_cached_eq_fresh (rx : Rx) (m : CachedMapper V) (n : Config V) (kind size : Nat)
    (ops : List (Op V)) :
    runCached rx (m.reload (.ok n)) ops = runPlain rx (MState.fresh n) ops ∧
    runCached rx (m.reload (.ok n)) ops = runCached rx (CachedMapper.fresh n kind size) ops := by
  have h1 : runCached rx (m.reload (.ok n)) ops = runPlain rx (MState.fresh n) ops := by
    rw [runCached_eq_runPlain rx ops _ (cacheSound_of_empty rx _ rfl)]
    exact reload_ok_history_eq_fresh rx m.st n ops
  refine ⟨h1, ?_⟩
  rw [h1, runCached_eq_runPlain rx ops _ (cacheSound_of_empty rx _ rfl)]
  rfl

/-- **Each lookup is answered from exactly one configuration.** In any history (hence any
    interleaving of readers and reloader), the answer of a `get` is the answer of a newly built
    mapper for the last configuration successfully loaded before it (`expectedAfter`; the initial
    mapper if there was none). Failing loads and other lookups in between make no difference. -/
theorem lookup_answers_last_loaded (rx : Rx) (st : MState V) (pre post : List (Op V))
    (name : Bytes) (ty choice : Nat) :
    runPlain rx st (pre ++ .get name ty choice :: post) =
      runPlain rx st pre ++ expectedAfter rx st pre name ty :: runPlain rx (st.after pre) post :=
  runPlain_get_at rx st pre post name ty choice

/-- the same, read off by position: the answer with index "number of `get`s in `pre`" -/
theorem lookup_answer_at (rx : Rx) (st : MState V) (pre post : List (Op V)) (name : Bytes) (ty choice : Nat) :
    (runPlain rx st (pre ++ .get name ty choice :: post))[(runPlain rx st pre).length]? =
      some (expectedAfter rx st pre name ty) := by
  rw [lookup_answers_last_loaded]; simp

/-- … and with any mapping cache in front (sound at the start, e.g. empty). -/
theorem lookup_answer_at_cached (rx : Rx) (m : CachedMapper V) (hs : CacheSound rx m)
    (pre post : List (Op V)) (name : Bytes) (ty choice : Nat) :
    (runCached rx m (pre ++ .get name ty choice :: post))[(runCached rx m pre).length]? =
      some (expectedAfter rx m.st pre name ty) := by
  rw [runCached_eq_runPlain rx _ m hs, runCached_eq_runPlain rx _ m hs]
  exact lookup_answer_at rx m.st pre post name ty choice

/-- **Old or new, nothing in between.** If exactly one load succeeds in the whole trace (to `n`),
    then every lookup in the trace is answered either by the old mapper or by a newly built mapper
    for `n`: old iff the lookup comes before the successful reload in the trace. -/
theorem racing_lookup_old_or_new (rx : Rx) (st : MState V) (n : Config V) (trace pre post : List (Op V))
    (name : Bytes) (ty choice : Nat)
    (hone : okReloads trace = [n]) (hsplit : trace = pre ++ .get name ty choice :: post) :
    (okReloads pre = [] ∨ okReloads pre = [n]) ∧
    (runPlain rx st trace)[(runPlain rx st pre).length]? =
      some (if okReloads pre = [] then st.lookup rx name ty else (MState.fresh n).lookup rx name ty) := by
  subst hsplit
  rw [okReloads_append] at hone
  have hcases : okReloads pre = [] ∨ okReloads pre = [n] := by
    cases hp : okReloads pre with
    | nil => exact Or.inl rfl
    | cons x xs =>
      rw [hp] at hone
      simp only [List.cons_append, List.cons.injEq] at hone
      obtain ⟨rfl, h2⟩ := hone
      have : xs = [] := (List.append_eq_nil_iff.mp h2).1
      subst this; exact Or.inr rfl
  refine ⟨hcases, ?_⟩
  rw [lookup_answer_at]
  rcases hcases with h | h
  · simp [expectedAfter, lastOk, h]
  · simp [expectedAfter, lastOk, h]

/-- The interleaving form: reader threads and one reloader whose programs together contain exactly
    one successful load; whatever the schedule, every lookup is answered old or new as above. -/
theorem racing_lookup_old_or_new_interleaved (rx : Rx) (st : MState V) (n : Config V)
    (threads : List (List (Op V))) (trace pre post : List (Op V)) (name : Bytes) (ty choice : Nat)
    (hsched : Interleaving threads trace)
    (hone : (threads.map okReloads).flatten = [n])
    (hsplit : trace = pre ++ .get name ty choice :: post) :
    (runPlain rx st trace)[(runPlain rx st pre).length]? = some (st.lookup rx name ty) ∨
    (runPlain rx st trace)[(runPlain rx st pre).length]? = some ((MState.fresh n).lookup rx name ty) := by
  have hperm := interleaving_okReloads threads trace hsched
  rw [hone] at hperm
  have h1 : okReloads trace = [n] := List.perm_singleton.mp hperm
  have := (racing_lookup_old_or_new rx st n trace pre post name ty choice h1 hsplit).2
  by_cases h : okReloads pre = []
  · left; simpa [h] using this
  · right; simpa [h] using this

/-- Once a thread (indeed: anyone) has seen the new configuration, no later lookup sees the old one:
    a successful reload in `pre` stays in every longer prefix. -/
theorem new_then_never_old (pre mid : List (Op V)) (h : okReloads pre ≠ []) :
    okReloads (pre ++ mid) ≠ [] := by
  rw [okReloads_append]; intro h'; exact h (List.append_eq_nil_iff.mp h').1

/- Non-vacuity: the stale fields really occur. `cGlob` has one glob rule `a.*`, `cRegex` one regex
   rule; after `fresh cGlob` ⟶ `swap cRegex` the object still holds the old FSM and the old
   `doRegex = false`, although the new configuration has a regex rule — and still answers like
   `fresh cRegex` (by `reload_ok_eq_fresh`; here checked on a concrete lookup). -/
private def mkRule (mt : MatchTy) (pat : Pat) : Rule Nat :=
  { matchStr := [], name := [120], labels := [], honorLabels := false, observerType := .dflt,
    matchType := mt, help := [], action := .map, matchMetricType := none, ttl := 0, scale := none,
    buckets := [], hasHistOpts := false, quantiles := [], hasSummaryOpts := false, maxAge := 0,
    ageBuckets := 0, bufCap := 0, pat := pat, captureCount := countStars pat }
private def mkCfg (rules : List (Rule Nat)) (doFSM : Bool) : Config Nat :=
  { rules := rules, dObserverType := .dflt, dTtl := 0, dBuckets := [], dQuantiles := [], dMaxAge := 0,
    dAgeBuckets := 0, dBufCap := 0, orderingDisabled := false, doFSM := doFSM }
private def cGlob : Config Nat := mkCfg [mkRule .glob [[97], [42]]] true
private def cRegex : Config Nat := mkCfg [mkRule .regex []] false
private def rxAll : Rx := fun _ _ => some [([], some [])]

example : ((MState.fresh cGlob).swap cRegex).fsm.rules.length = 1 ∧      -- stale FSM (built from cGlob)
          ((MState.fresh cGlob).swap cRegex).doRegex = false ∧           -- stale doRegex
          hasRegex cRegex = true := by decide
example : ((MState.fresh cGlob).swap cRegex).lookup rxAll [97, 46, 98] 0 = some ⟨0, some [120], []⟩ ∧
          (MState.fresh cRegex).lookup rxAll [97, 46, 98] 0 = some ⟨0, some [120], []⟩ := by
  with_unfolding_all decide
-- an interleaving of a reader `[g1, g2]` and a reloader `[r]`: the schedule g1, r, g2
example (g1 g2 r : Op Nat) : Interleaving [[g1, g2], [r]] [g1, r, g2] :=
  .step [] g1 [g2] [[r]] _ (.step [[g2]] r [] [] _ (.step [] g2 [] [[]] _ (.done _ (by simp))))
example : okReloads [Op.get [97] 0 0, .reload (.error .badName), .reload (.ok cRegex), .get [97] 0 0]
            = [cRegex] := rfl

end SE.Props.C14
