import SE.Proofs.RegistryLabels
import SE.Proofs.Hash
import SE.Proofs.HashFnv
import SE.Spec.FloatLaws
/-
C05 — Labels come only from the event's own tags and its own rule.
The series an event is applied to is addressed by the sorted form of one label map: the line's tags
with the matched rule's (template-expanded) labels merged in — rule labels override tags unless the
rule says `honor_labels` and the tag exists — or the tags alone for an unmapped event. That map is a
function of the event's own tags and the mapper's answer for the event's own name; it does not depend
on the registry, the clock, the counters, or on any event processed before.

Vocabulary: `Labels` = association list (a Go `map[string]string`), `get?`/`has`/`set` its lookup, key
test and assignment; `keysOf L` = the keys in order. `evTarget p rx ev tags = some (c, pl)`: the event
reaches the registry with request `pl = (type, GetArgs, update)` (see SE/Props/C07.lean).
`Mapped` = the mapper's answer (rule index, expanded name, expanded labels); `mappedLabels m` = its
label list with the (modelled) template results filled in.
-/
namespace SE.Props.C05
open SE
variable {V : Type} [NumOps V]

/-- The label map the exporter is specified to use, given the mapper's answer, the rule and the tags. -/
def specLabels (found : Option Mapped) (rule : Option (Rule V)) (tags : Labels) : Labels :=
  match found, rule with
  | some m, some r => mergeLabels tags (mappedLabels m) r.honorLabels
  | _, _ => tags

/-- **The merge, key by key.** For rule labels with pairwise distinct keys: a key that the line tagged
    keeps the tag's value if `honor_labels` is set; otherwise the rule's value wins if the rule has the
    key; otherwise the tag's value (or absence) stands. -/
theorem mergeLabels_spec (tags : Labels) (rl : List (Bytes × Bytes)) (honor : Bool) (k : Bytes)
    (hd : (keysOf rl).Nodup) :
    (mergeLabels tags rl honor).get? k =
      if honor = true ∧ tags.has k = true then tags.get? k else
      match Labels.get? rl k with
      | some v => some v
      | none => tags.get? k := by
  rw [mergeLabels_get?, lastGet_eq_get? rl hd]
  by_cases h1 : honor = true ∧ tags.has k = true
  · have h2 : (honor && tags.has k) = true := by simpa using h1
    rw [if_pos h2, if_pos h1]
  · have h2 : ¬ (honor && tags.has k) = true := by simpa using h1
    rw [if_neg h2, if_neg h1]
    cases Labels.get? rl k <;> rfl

/-- Without the distinctness assumption the last rule label with that key wins (`lastGet`). -/
theorem mergeLabels_spec_general (tags : Labels) (rl : List (Bytes × Bytes)) (honor : Bool) (k : Bytes) :
    (mergeLabels tags rl honor).get? k =
      if honor = true ∧ tags.has k = true then tags.get? k else
      match lastGet rl k with
      | some v => some v
      | none => tags.get? k := by
  rw [mergeLabels_get?]
  by_cases h1 : honor = true ∧ tags.has k = true
  · have h2 : (honor && tags.has k) = true := by simpa using h1
    rw [if_pos h2, if_pos h1]
  · have h2 : ¬ (honor && tags.has k) = true := by simpa using h1
    rw [if_neg h2, if_neg h1]
    cases lastGet rl k <;> rfl

/-- **Nothing else gets in**: every (key, value) pair of the merged map is a pair of the tags or a pair of
    the rule's labels. -/
theorem merged_pairs_origin (tags : Labels) (rl : List (Bytes × Bytes)) (honor : Bool) (x : Bytes × Bytes)
    (h : x ∈ mergeLabels tags rl honor) : x ∈ tags ∨ x ∈ rl :=
  mem_mergeLabels_aux tags honor x rl tags (by rw [← mergeLabels_eq_foldl]; exact h)

/-- The merge keeps keys pairwise distinct (it is a map). -/
theorem merged_keys_distinct (tags : Labels) (rl : List (Bytes × Bytes)) (honor : Bool)
    (ht : (keysOf tags).Nodup) : (keysOf (mergeLabels tags rl honor)).Nodup := by
  rw [mergeLabels_eq_foldl]; exact nodup_keys_mergeLabels_aux tags honor rl tags ht

/-- Sorting (`sort.Strings(labelNames)`) only reorders: same pairs, and — for a map — same lookups. -/
theorem sorted_same_pairs (l : Labels) :
    l.sorted.Perm l ∧ (∀ x, x ∈ l.sorted ↔ x ∈ l) ∧
    ((keysOf l).Nodup → ∀ k, l.sorted.get? k = l.get? k) :=
  ⟨sorted_perm l, mem_sorted l, get?_sorted l⟩

/-- **The series an applied event touches is addressed by exactly the specified labels.**
    When `handleEvent` applies an event, the registry request it made carries
    `labels = (specLabels found rule tags).sorted` where `found` is the mapper's answer for this event's
    name and kind and `rule` the rule it points to; the series with that name and those labels exists
    afterwards, and no series with another name or other labels is touched. -/
theorem series_labels_eq_spec (p p' : Pipe V) (rx : Rx) (ev : Ev V) (tags : Labels)
    (h : handleEvent p rx ev tags = some (.ok p')) (ha : p'.counts.applied = p.counts.applied + 1) :
    ∃ c pl, evTarget p rx ev tags = some (c, pl) ∧
      pl.2.1.labels =
        (specLabels (p.mapper.lookup rx ev.name (kindIdx ev.kind))
          ((p.mapper.lookup rx ev.name (kindIdx ev.kind)).bind fun m => p.mapper.cfg.rules[m.ruleIdx]?) tags).sorted ∧
      (∃ s, p'.reg.series? pl.2.1.name pl.2.1.labels = some s ∧ s.labels = pl.2.1.labels) ∧
      (∀ name labels, ¬(name = pl.2.1.name ∧ labels = pl.2.1.labels) →
        p'.reg.series? name labels = p.reg.series? name labels) := by
  obtain ⟨c, pl, reg, ht, hg, e⟩ := handleEvent_applied h ha
  subst e
  obtain ⟨s, _, hs, _, _, hl⟩ := applied_addressed (c := c) (evTarget_keeps ht) hg
  exact ⟨c, pl, ht, (evTarget_args ht).1, ⟨_, hs, hl⟩,
    fun name labels hne => applied_series_frame (evTarget_keeps ht) hg name labels hne⟩

/-- For an unmapped event the labels are the tags, sorted. -/
theorem unmapped_labels_are_tags (p : Pipe V) (rx : Rx) (ev : Ev V) (tags : Labels) (c : Counts) (pl : Plan V)
    (ht : evTarget p rx ev tags = some (c, pl)) (hn : p.mapper.lookup rx ev.name (kindIdx ev.kind) = none) :
    pl.2.1.labels = tags.sorted := by
  rw [(evTarget_args ht).1]
  unfold evLabels evFound
  rw [hn]

/-- For a mapped event, label by label (tags a map, rule labels with distinct keys): the value the
    addressed series carries for key `k` is the tag's if `honor_labels` and the line tagged `k`;
    else the rule's expanded label `k` if the rule has one; else the tag's (or none). -/
theorem mapped_label_values (p : Pipe V) (rx : Rx) (ev : Ev V) (tags : Labels) (c : Counts) (pl : Plan V)
    (m : Mapped) (rule : Rule V)
    (ht : evTarget p rx ev tags = some (c, pl))
    (hf : p.mapper.lookup rx ev.name (kindIdx ev.kind) = some m) (hr : p.mapper.cfg.rules[m.ruleIdx]? = some rule)
    (htags : (keysOf tags).Nodup) (hrl : (keysOf (mappedLabels m)).Nodup) (k : Bytes) :
    pl.2.1.labels.get? k =
      if rule.honorLabels = true ∧ tags.has k = true then tags.get? k else
      match Labels.get? (mappedLabels m) k with
      | some v => some v
      | none => tags.get? k := by
  have hl : evLabels p rx ev tags = mergeLabels tags (mappedLabels m) rule.honorLabels := by
    unfold evLabels evRule evFound
    rw [hf]
    simp only [Option.bind_some, hr]
  rw [(evTarget_args ht).1, hl, get?_sorted _ (merged_keys_distinct tags _ _ htags)]
  exact mergeLabels_spec tags _ _ k hrl

/-- **Frame / no leak.** The registry request of an event — metric type, name, labels, help, ttl, options,
    update — is a function of the mapper, the regex oracle, the event and its line's tags only: two
    pipeline states with the same mapper (any registries, clocks, counters) produce the same request. -/
theorem labels_frame (p q : Pipe V) (hm : p.mapper = q.mapper) (rx : Rx) (ev : Ev V) (tags : Labels) :
    (evTarget p rx ev tags).map (·.2) = (evTarget q rx ev tags).map (·.2) :=
  evTarget_congr p q hm rx ev tags

/-- In particular processing event A first does not change the labels (or anything else of the request)
    used for event B: B gets the same request as if it had been processed alone. -/
theorem no_leak_between_events (p pA : Pipe V) (rx : Rx) (evA evB : Ev V) (tagsA tagsB : Labels)
    (hA : handleEvent p rx evA tagsA = some (.ok pA)) :
    (evTarget pA rx evB tagsB).map (·.2) = (evTarget p rx evB tagsB).map (·.2) :=
  evTarget_congr pA p (handleEvent_keeps hA).1 rx evB tagsB

/-- … and across a whole line: after any prefix of the line's events the request for the next event is
    the one it would get alone. -/
theorem no_leak_within_line (rx : Rx) (tags : Labels) (evs : List (Ev V)) :
    ∀ (p p' : Pipe V), handleEvents p rx tags evs = some (.ok p') → ∀ (evB : Ev V) (tagsB : Labels),
      (evTarget p' rx evB tagsB).map (·.2) = (evTarget p rx evB tagsB).map (·.2) := by
  induction evs with
  | nil =>
    intro p p' h evB tagsB
    simp only [handleEvents] at h
    injection h with h; injection h with h; subst h; rfl
  | cons e es ih =>
    intro p p' h evB tagsB
    simp only [handleEvents] at h
    split at h
    · cases h
    · cases h
    · rename_i p1 h1
      rw [ih p1 p' h evB tagsB]
      exact evTarget_congr p1 p (handleEvent_keeps h1).1 rx evB tagsB

/-! ### Non-vacuity -/

-- tags {a=1, b=2}, rule labels {b=9, c=3}
private def tags0 : Labels := [([97], [49]), ([98], [50])]
private def rl0 : List (Bytes × Bytes) := [([98], [57]), ([99], [51])]

-- without honor_labels the rule overrides b and adds c
example : mergeLabels tags0 rl0 false = [([97], [49]), ([98], [57]), ([99], [51])] := by decide
-- with honor_labels the tagged b survives, c is still added
example : mergeLabels tags0 rl0 true = [([97], [49]), ([98], [50]), ([99], [51])] := by decide
example : (mergeLabels [([99], [49]), ([97], [50])] [] false).sorted = [([97], [50]), ([99], [49])] := by decide

/-! ### The registry's label-hash inputs are injective

`Registry.HashLabels` (SE/Model/Hash.lean) feeds FNV-64a with `namesHashInput l` (every sorted label
name followed by the separator byte 0xFF) for the vector, and with `valuesHashInput l` (the same,
then 0xFF, then every value in name order followed by 0xFF) for the series. The models identify
vectors by the sorted label names and series by the sorted label list; that is sound iff these byte
strings determine them. They do, for labels without the byte 0xFF (`NoSep`: every label the line parser
produces, because lines are valid UTF-8 and 0xFF occurs in no UTF-8 sequence). Non-emptiness of the
label names is NOT needed: the boundary between names and values in the values input is fixed by
there being as many values as names. What remains assumed is that FNV-64a itself does not collide. -/

/-- equal names-hash inputs ⇒ the same sorted label names -/
theorem names_hash_input_injective (a b : Labels) (ha : NoSep a) (hb : NoSep b) :
    namesHashInput a = namesHashInput b → a.sorted.map (·.1) = b.sorted.map (·.1) :=
  namesHashInput_inj a b (fun kv h => (ha kv h).1) (fun kv h => (hb kv h).1)

/-- equal values-hash inputs ⇒ the same sorted label list (names and values) -/
theorem values_hash_input_injective (a b : Labels) (ha : NoSep a) (hb : NoSep b) :
    valuesHashInput a = valuesHashInput b → a.sorted = b.sorted :=
  valuesHashInput_inj a b ha hb

/-- the converses hold without any hypothesis … -/
theorem names_hash_input_congr (a b : Labels) :
    a.sorted.map (·.1) = b.sorted.map (·.1) → namesHashInput a = namesHashInput b :=
  namesHashInput_congr a b

theorem values_hash_input_congr (a b : Labels) :
    a.sorted = b.sorted → valuesHashInput a = valuesHashInput b :=
  valuesHashInput_congr a b

/-- … so the names hash input identifies exactly the sorted label names, -/
theorem names_hash_input_iff (a b : Labels) (ha : NoSep a) (hb : NoSep b) :
    namesHashInput a = namesHashInput b ↔ a.sorted.map (·.1) = b.sorted.map (·.1) :=
  ⟨names_hash_input_injective a b ha hb, names_hash_input_congr a b⟩

/-- and the values hash input exactly the sorted label list. -/
theorem values_hash_input_iff (a b : Labels) (ha : NoSep a) (hb : NoSep b) :
    valuesHashInput a = valuesHashInput b ↔ a.sorted = b.sorted :=
  ⟨values_hash_input_injective a b ha hb, values_hash_input_congr a b⟩


/-! ### The hash function itself (FNV-64a, `hash/fnv`)

The registry keys vectors by `namesHash` and series by `valuesHash` (SE/Model/Hash.lean; both are compared
bit for bit with `Registry.HashLabels` by the `hashlabels` stream). A 64-bit hash cannot be injective, so
"two label sets never share a series" is not a theorem; what is: the hashes are functions of the sorted
label list (no dependence on map order, on the registry or on earlier calls - the hasher is reset); the
values hash continues the names hash; every FNV step is a bijection of the state, so a common suffix
neither creates nor hides a collision; and inputs that differ in exactly one byte never collide - in
particular two label sets with the same names that differ in one byte of one value are always kept apart. -/

/-- the two hashes are FNV-64a of the two modelled inputs (the hasher is not reset between them) -/
theorem hashes_are_fnv_of_inputs (l : Labels) :
    namesHash l = fnv64a (namesHashInput l) ∧ valuesHash l = fnv64a (valuesHashInput l) :=
  ⟨namesHash_eq l, valuesHash_eq l⟩

/-- label maps with the same sorted form (the same Go map, whatever its iteration order) get the same hashes -/
theorem hashes_depend_on_sorted_form_only (a b : Labels) (h : a.sorted = b.sorted) :
    namesHash a = namesHash b ∧ valuesHash a = valuesHash b := by
  rw [namesHash_eq, namesHash_eq, valuesHash_eq, valuesHash_eq,
    values_hash_input_congr a b h, names_hash_input_congr a b (by rw [h])]
  exact ⟨rfl, rfl⟩

/-- one FNV step is injective in the state (a bijection of the 2^64 states: `fnv_step_invertible`) … -/
theorem fnv_step_state_injective (h1 h2 : BitVec 64) (c : UInt8) : fnvStep h1 c = fnvStep h2 c → h1 = h2 :=
  fnvStep_state_inj
theorem fnv_step_invertible (h : BitVec 64) (c : UInt8) : fnvStep (fnvUnstep h c) c = h := fnvStep_unstep h c
/-- … and in the byte -/
theorem fnv_step_byte_injective (h : BitVec 64) (a b : UInt8) : fnvStep h a = fnvStep h b → a = b :=
  fnvStep_byte_inj

/-- a common suffix neither creates nor hides a collision -/
theorem fnv_suffix_cancel (x y s : Bytes) : fnv64a (x ++ s) = fnv64a (y ++ s) ↔ fnv64a x = fnv64a y :=
  fnv64a_suffix_cancel x y s

/-- inputs that differ in exactly one byte never collide -/
theorem fnv_one_byte_never_collides (p s : Bytes) (a b : UInt8) (hab : a ≠ b) :
    fnv64a (p ++ a :: s) ≠ fnv64a (p ++ b :: s) := fnv64a_one_byte p s hab

/-- hence: two hash inputs that differ in exactly one byte address different series -/
theorem values_hash_one_byte_apart (l1 l2 : Labels) (p s : Bytes) (a b : UInt8) (hab : a ≠ b)
    (h1 : valuesHashInput l1 = p ++ a :: s) (h2 : valuesHashInput l2 = p ++ b :: s) :
    valuesHash l1 ≠ valuesHash l2 := by
  rw [valuesHash_eq, valuesHash_eq, h1, h2]; exact fnv64a_one_byte p s hab

/-- instance: one label, values differing in one byte (`{k="…x…"}` vs `{k="…y…"}`) -/
theorem single_label_one_byte_apart (k pre suf : Bytes) (x y : UInt8) (hxy : x ≠ y) :
    valuesHash [(k, pre ++ x :: suf)] ≠ valuesHash [(k, pre ++ y :: suf)] := by
  apply values_hash_one_byte_apart _ _ (k ++ [sepByte] ++ [sepByte] ++ pre) (suf ++ [sepByte]) x y hxy <;>
    simp [valuesHashInput, nameBuf, valueBuf, Labels.sorted, insertSorted]

/-- same names ⇒ same vector key; and the values hash is the names hash continued over `ValueBuf` -/
theorem values_hash_continues_names_hash (l : Labels) : valuesHash l = fnvFrom (namesHash l) (valueBuf l) := rfl

/-- label sets with the same names share a series iff their `ValueBuf`s collide from the SAME state:
    a collision is a property of the values alone given the names hash -/
theorem same_names_collision_iff (a b : Labels) (h : namesHash a = namesHash b) :
    valuesHash a = valuesHash b ↔ fnvFrom (namesHash a) (valueBuf a) = fnvFrom (namesHash a) (valueBuf b) := by
  rw [values_hash_continues_names_hash, values_hash_continues_names_hash, h]

/-- the vector key depends on the label NAMES only -/
theorem names_hash_depends_on_names_only (a b : Labels) (h : a.sorted.map (·.1) = b.sorted.map (·.1)) :
    namesHash a = namesHash b := by
  rw [namesHash_eq, namesHash_eq, names_hash_input_congr a b h]

/-- **What "hash collisions are assumed away" means, as a hypothesis**: the registry model identifies a series by its
    sorted label list; the code identifies it by `valuesHash`. For separator-free label sets the two coincide on every
    pair of label sets whose hash inputs do not collide under FNV-64a (`hinj`, the only assumption - an equation between
    two concrete 64-bit values, false for at most a 2^-64 fraction of pairs and refutable by evaluation for any given
    pair): the same series iff the same labels. -/
theorem same_series_iff_same_labels (a b : Labels) (ha : NoSep a) (hb : NoSep b)
    (hinj : fnv64a (valuesHashInput a) = fnv64a (valuesHashInput b) → valuesHashInput a = valuesHashInput b) :
    valuesHash a = valuesHash b ↔ a.sorted = b.sorted := by
  rw [valuesHash_eq, valuesHash_eq]
  constructor
  · intro h; exact values_hash_input_injective a b ha hb (hinj h)
  · intro h; rw [values_hash_input_congr a b h]

/-- the same for vectors: the same vector key iff the same label names, unless the two name inputs collide -/
theorem same_vector_iff_same_names (a b : Labels) (ha : NoSep a) (hb : NoSep b)
    (hinj : fnv64a (namesHashInput a) = fnv64a (namesHashInput b) → namesHashInput a = namesHashInput b) :
    namesHash a = namesHash b ↔ a.sorted.map (·.1) = b.sorted.map (·.1) := by
  rw [namesHash_eq, namesHash_eq]
  constructor
  · intro h; exact names_hash_input_injective a b ha hb (hinj h)
  · intro h; rw [names_hash_input_congr a b h]

-- known answers of FNV-64a (the published test vectors of hash/fnv: "", "a", "ab", "abc")
example : fnv64a [] = 0xcbf29ce484222325#64 ∧ fnv64a [97] = 0xaf63dc4c8601ec8c#64 ∧
    fnv64a [97, 98] = 0x089c4407b545986a#64 ∧ fnv64a [97, 98, 99] = 0xe71fa2190541574b#64 := by decide
-- {a="1"}: names hash of `a FF`, values hash of `a FF FF 1 FF`
example : namesHash [([97], [49])] = fnv64a [97, 255] ∧ valuesHash [([97], [49])] = fnv64a [97, 255, 255, 49, 255] := by
  decide

/-- the generic core: the separator encoding is injective on separator-free pieces -/
theorem sep_encoding_injective {α : Type} (sep : α) (xs ys : List (List α)) :
    xs.flatMap (· ++ [sep]) = ys.flatMap (· ++ [sep]) →
    (∀ x ∈ xs, sep ∉ x) → (∀ y ∈ ys, sep ∉ y) → xs = ys :=
  flatMap_sep_injective sep xs ys

/- Non-vacuity, and the hypotheses are needed. -/

-- {b="2", a="1"}: names input `a FF b FF`, values input `a FF b FF FF 1 FF 2 FF`
example : namesHashInput [([98], [50]), ([97], [49])] = [97, 255, 98, 255] ∧
    valuesHashInput [([98], [50]), ([97], [49])] = [97, 255, 98, 255, 255, 49, 255, 50, 255] ∧
    NoSep [([98], [50]), ([97], [49])] := by decide

-- WITHOUT `NoSep` injectivity fails: a value containing 0xFF shifts the boundary between two values
-- ({a="1\xFF2", b="3"} and {a="1", b="2\xFF3"} have the same values input) …
example :
    valuesHashInput [([97], [49, 255, 50]), ([98], [51])] = valuesHashInput [([97], [49]), ([98], [50, 255, 51])] ∧
    Labels.sorted [([97], [49, 255, 50]), ([98], [51])] ≠ Labels.sorted [([97], [49]), ([98], [50, 255, 51])] ∧
    ¬ NoSep [([97], [49, 255, 50]), ([98], [51])] := by decide

-- … and a name containing 0xFF makes one name look like two
example :
    namesHashInput [([97, 255, 98], [49])] = namesHashInput [([97], [49]), ([98], [50])] ∧
    (Labels.sorted [([97, 255, 98], [49])]).map (·.1) ≠ (Labels.sorted [([97], [49]), ([98], [50])]).map (·.1) := by
  decide

/- The seeded defect `separator written as a rune`: if the separator is written as the two bytes
   C3 BF (the UTF-8 encoding of U+00FF) instead of the single byte FF, `NoSep` for that separator is
   no longer implied by UTF-8 validity — `ÿ` is a legal character in a tag value — and injectivity
   breaks for legal input: {a="xÿy", b="z"} and {a="x", b="yÿz"} get the same values hash, i.e. two
   different series are merged into one. -/
private def valuesInputWith (sep : Bytes) (l : Labels) : Bytes :=
  l.sorted.flatMap (fun kv => kv.1 ++ sep) ++ sep ++ l.sorted.flatMap (fun kv => kv.2 ++ sep)

example (l : Labels) : valuesInputWith [sepByte] l = valuesHashInput l := by
  simp [valuesInputWith, valuesHashInput, nameBuf, valueBuf]

example :
    valuesInputWith [0xC3, 0xBF] [([97], [120, 0xC3, 0xBF, 121]), ([98], [122])]
      = valuesInputWith [0xC3, 0xBF] [([97], [120]), ([98], [121, 0xC3, 0xBF, 122])] ∧
    NoSep [([97], [120, 0xC3, 0xBF, 121]), ([98], [122])] ∧ NoSep [([97], [120]), ([98], [121, 0xC3, 0xBF, 122])] ∧
    Labels.sorted [([97], [120, 0xC3, 0xBF, 121]), ([98], [122])]
      ≠ Labels.sorted [([97], [120]), ([98], [121, 0xC3, 0xBF, 122])] := by decide

end SE.Props.C05
