import SE.Proofs.RegistryPipe
import SE.Spec.FloatLaws
/-
C08 — A conflicting event is dropped alone and harms nothing else.
When the registry refuses an event (`getOrCreate` answers `.ok (.error _)`: a type conflict, a
companion-name conflict or a reserved label name) the exporter state is unchanged except for its own
counters, so every other series keeps its type and value and every later event is processed exactly as
if the refused one had never been sent. The last part of the file characterises *which* requests are
refused as conflicts (`conflict_iff_spec`) and shows by a concrete run that this check is weaker than
"the scrape stays healthy": `gather_ok_preserved_counterexample`.

Vocabulary: see SE/Props/C07.lean. `evTarget p rx ev tags = some (c, pl)` means: the event reaches the
registry with the request `pl = (metric type, GetArgs, update function)`; `c` are the counters after
the mapping stage (`mapped` or `unmapped` already incremented).
`Pipe.plus p d` adds the offsets `d` to the counters of `p` and changes nothing else; `shiftRes d`
does the same to the result of a step (SE/Proofs/RegistryPipe.lean).
-/
namespace SE.Props.C08
open SE
variable {V : Type} [NumOps V]

/-- (F1) A refusing or panicking `getOrCreate` returns no registry at all — by the shape of its result. -/
theorem rejected_returns_no_registry (r : Reg V) (ty : MType) (a : GetArgs V) (now : Int) :
    (∀ e, r.getOrCreate ty a now = .ok (.error e) → ∀ r', r.getOrCreate ty a now ≠ .ok (.ok r')) ∧
    (∀ pn, r.getOrCreate ty a now = .error pn → ∀ r', r.getOrCreate ty a now ≠ .ok (.ok r')) :=
  getOrCreate_no_reg_on_error

/-- **A conflicting event is dropped alone.** If the registry refuses the event's request, `handleEvent`
    returns the input state with `conflicts` incremented (and the `mapped`/`unmapped` counter of the
    mapping stage): registry, clock and mapper are unchanged; nothing is counted as applied, as an error
    or as dropped-by-rule. -/
theorem conflict_dropped_alone (p : Pipe V) (rx : Rx) (ev : Ev V) (tags : Labels) (c : Counts) (pl : Plan V) (e : RegErr)
    (ht : evTarget p rx ev tags = some (c, pl))
    (hc : p.reg.getOrCreate pl.1 pl.2.1 p.now = .ok (.error e)) :
    ∃ p', handleEvent p rx ev tags = some (.ok p') ∧
      p'.reg = p.reg ∧ p'.now = p.now ∧ p'.mapper = p.mapper ∧
      p'.counts.conflicts = p.counts.conflicts + 1 ∧ p'.counts.applied = p.counts.applied ∧
      p'.counts.errors = p.counts.errors ∧ p'.counts.dropped = p.counts.dropped ∧
      p'.counts.mapped + p'.counts.unmapped = p.counts.mapped + p.counts.unmapped + 1 := by
  refine ⟨rejectedPipe p c, ?_, rfl, rfl, rfl, ?_⟩
  · rw [handleEvent_of_target ht]
    rcases finishPlan_cases p c pl with ⟨pn, hg, _⟩ | ⟨e', _, h1⟩ | ⟨reg, hg, _⟩
    · rw [hc] at hg; cases hg
    · exact h1
    · rw [hc] at hg; injection hg with hg; cases hg
  · obtain ⟨h1, h2, h3, h4, h5⟩ := evTarget_counts ht
    simp only [rejectedPipe]
    exact ⟨by rw [h2], h1, h3, h4, h5⟩

/-- Conversely, the only way `conflicts` moves is a refused request, and then the registry is untouched. -/
theorem conflict_counted_only_on_refusal (p p' : Pipe V) (rx : Rx) (ev : Ev V) (tags : Labels)
    (h : handleEvent p rx ev tags = some (.ok p')) (hcnt : p'.counts.conflicts ≠ p.counts.conflicts) :
    p'.reg = p.reg ∧ p'.counts.conflicts = p.counts.conflicts + 1 ∧
    ∃ c pl e, evTarget p rx ev tags = some (c, pl) ∧ p.reg.getOrCreate pl.1 pl.2.1 p.now = .ok (.error e) := by
  cases ht : evTarget p rx ev tags with
  | none =>
    rcases handleEvent_no_target ht with h0 | ⟨c', h1, _, h3⟩
    · rw [h0] at h; cases h
    · rw [h1] at h; injection h with h; injection h with h; subst h
      exact absurd h3 hcnt
  | some cp =>
    obtain ⟨c, pl⟩ := cp
    have hc := (evTarget_counts ht).2.1
    rw [handleEvent_of_target ht] at h
    rcases finishPlan_cases p c pl with ⟨pn, _, h1⟩ | ⟨e, hg, h1⟩ | ⟨reg, hg, h1⟩
    · rw [h1] at h; injection h with h; cases h
    · rw [h1] at h; injection h with h; injection h with h; subst h
      exact ⟨rfl, by simp only [rejectedPipe]; rw [hc], c, pl, e, rfl, hg⟩
    · rw [h1] at h; injection h with h; injection h with h; subst h
      exact absurd hc hcnt

/-- A panic inside client_golang (constructor checks at child creation) ends the step with that panic:
    there is no successor state. -/
theorem panic_yields_no_state (p : Pipe V) (rx : Rx) (ev : Ev V) (tags : Labels) (c : Counts) (pl : Plan V) (pn : Panic)
    (ht : evTarget p rx ev tags = some (c, pl)) (hc : p.reg.getOrCreate pl.1 pl.2.1 p.now = .error pn) :
    handleEvent p rx ev tags = some (.error pn) := by
  rw [handleEvent_of_target ht]
  rcases finishPlan_cases p c pl with ⟨pn', hg, h1⟩ | ⟨e', hg, _⟩ | ⟨reg, hg, _⟩
  · rw [hc] at hg; injection hg with hg; subst hg; exact h1
  · rw [hc] at hg; cases hg
  · rw [hc] at hg; cases hg

/-- **All others keep type and value.** Whatever `handleEvent` does (apply, refuse, drop, reject), in the
    resulting registry
    * every metric name registered before has the type it had before,
    * every vector (help text, buckets, summary options) registered before is unchanged,
    * every (name, labels) other than the one series the event addresses resolves to the very same series
      record as before (same ttl, last, value, counts, buckets) — in particular nothing is created or
      removed elsewhere. -/
theorem others_keep_type_and_value (p p' : Pipe V) (rx : Rx) (ev : Ev V) (tags : Labels)
    (h : handleEvent p rx ev tags = some (.ok p')) :
    (∀ name t, p.reg.type? name = some t → p'.reg.type? name = some t) ∧
    (∀ name names v, p.reg.vec? name names = some v → p'.reg.vec? name names = some v) ∧
    (∀ name labels,
      (∀ c pl, evTarget p rx ev tags = some (c, pl) → ¬(name = pl.2.1.name ∧ labels = pl.2.1.labels)) →
      p'.reg.series? name labels = p.reg.series? name labels) := by
  by_cases ha : p'.counts.applied = p.counts.applied + 1
  · obtain ⟨c, pl, reg, ht, hg, e⟩ := handleEvent_applied h ha
    subst e
    exact ⟨fun name t => applied_type_keep hg name t, fun name names v => applied_vec_keep hg name names v,
      fun name labels hne => applied_series_frame (evTarget_keeps ht) hg name labels (hne c pl ht)⟩
  · have := handleEvent_not_applied h ha
    rw [this]
    exact ⟨fun _ _ h => h, fun _ _ _ h => h, fun _ _ _ => rfl⟩

/-- At the level of the metric list: either the registry is returned as it was, or every metric with a
    name other than the addressed one — its type, its vectors, all its series, its position relative to
    the others — is literally the same, and so are the pre-registered families. -/
theorem other_metrics_untouched (p p' : Pipe V) (rx : Rx) (ev : Ev V) (tags : Labels)
    (h : handleEvent p rx ev tags = some (.ok p')) :
    p'.reg = p.reg ∨
    ∃ c pl, evTarget p rx ev tags = some (c, pl) ∧ p'.reg.pre = p.reg.pre ∧
      p'.reg.metrics.filter (·.name != pl.2.1.name) = p.reg.metrics.filter (·.name != pl.2.1.name) := by
  by_cases ha : p'.counts.applied = p.counts.applied + 1
  · obtain ⟨c, pl, reg, ht, hg, e⟩ := handleEvent_applied h ha
    subst e
    have h1 := getOrCreate_others hg
    have h2 := updateSeries_others reg pl.2.1.name pl.2.1.labels pl.2.2
    exact Or.inr ⟨c, pl, ht, by simp only [appliedPipe]; rw [h2.2, h1.2],
      by simp only [appliedPipe]; rw [h2.1, h1.1]⟩
  · exact Or.inl (handleEvent_not_applied h ha)

/-- The same in the membership reading, on a well-formed registry: the series of the registry other than
    the addressed one are exactly the same before and after. -/
theorem others_keep_membership (p p' : Pipe V) (rx : Rx) (ev : Ev V) (tags : Labels) (hw : RegWF p.reg)
    (h : handleEvent p rx ev tags = some (.ok p')) (name : Bytes) (s : Series V)
    (hne : ∀ c pl, evTarget p rx ev tags = some (c, pl) → ¬(name = pl.2.1.name ∧ s.labels = pl.2.1.labels)) :
    p'.reg.HasSeries name s ↔ p.reg.HasSeries name s := by
  rw [hw.hasSeries_iff, (RegWF_handleEvent hw h).hasSeries_iff,
    (others_keep_type_and_value p p' rx ev tags h).2.2 name s.labels hne]

/-- The type of the addressed metric after an applied event is the requested type — and if the name was
    registered before, that is the type it already had (previous theorem): no event changes a type. -/
theorem applied_type (p p' : Pipe V) (rx : Rx) (ev : Ev V) (tags : Labels)
    (h : handleEvent p rx ev tags = some (.ok p')) (ha : p'.counts.applied = p.counts.applied + 1) :
    ∃ c pl, evTarget p rx ev tags = some (c, pl) ∧ p'.reg.type? pl.2.1.name = some pl.1 := by
  obtain ⟨c, pl, reg, ht, hg, e⟩ := handleEvent_applied h ha
  subst e
  exact ⟨c, pl, ht, by rw [applied_type? hg, if_pos rfl]⟩

/-- **Later samples still apply.** After a refused event the state is the input state plus a constant
    offset `d` on the exporter's counters (`conflicts` +1, `mapped` or `unmapped` +1). Every later event —
    and every later sequence of events — is then processed exactly as from the state before the refused
    event: same registry, same clock, same mapper, same panics, the counters differing by `d`. -/
theorem later_samples_still_apply (p : Pipe V) (rx : Rx) (ev : Ev V) (tags : Labels) (c : Counts) (pl : Plan V) (e : RegErr)
    (ht : evTarget p rx ev tags = some (c, pl))
    (hc : p.reg.getOrCreate pl.1 pl.2.1 p.now = .ok (.error e)) :
    ∃ d : Counts, d.conflicts = 1 ∧ d.applied = 0 ∧ d.errors = [] ∧ d.dropped = 0 ∧ d.mapped + d.unmapped = 1 ∧
      handleEvent p rx ev tags = some (.ok (p.plus d)) ∧
      (∀ ev2 tags2, handleEvent (p.plus d) rx ev2 tags2 = shiftRes d (handleEvent p rx ev2 tags2)) ∧
      (∀ tags2 evs, handleEvents (p.plus d) rx tags2 evs = shiftRes d (handleEvents p rx tags2 evs)) := by
  have hstep : handleEvent p rx ev tags = some (.ok (rejectedPipe p c)) := by
    rw [handleEvent_of_target ht]
    rcases finishPlan_cases p c pl with ⟨pn, hg, _⟩ | ⟨e', _, h1⟩ | ⟨reg, hg, _⟩
    · rw [hc] at hg; cases hg
    · exact h1
    · rw [hc] at hg; injection hg with hg; cases hg
  obtain ⟨_, _, nm, hn, _⟩ := evTarget_spec ht
  rcases (evNamed_counts hn).2 with hcm | hcu
  · refine ⟨{ conflicts := 1, mapped := 1 }, rfl, rfl, rfl, rfl, rfl, ?_,
      fun ev2 tags2 => handleEvent_plus p _ rx ev2 tags2, fun tags2 evs => handleEvents_plus _ rx tags2 evs p⟩
    rw [hstep, hcm]; rfl
  · refine ⟨{ conflicts := 1, unmapped := 1 }, rfl, rfl, rfl, rfl, rfl, ?_,
      fun ev2 tags2 => handleEvent_plus p _ rx ev2 tags2, fun tags2 evs => handleEvents_plus _ rx tags2 evs p⟩
    rw [hstep, hcu]; rfl

/-- More generally the exporter's counters never influence a step: offsetting them offsets the result. -/
theorem counters_do_not_influence (p : Pipe V) (d : Counts) (rx : Rx) (ev : Ev V) (tags : Labels) :
    handleEvent (p.plus d) rx ev tags = shiftRes d (handleEvent p rx ev tags) :=
  handleEvent_plus p d rx ev tags

/-! ### Which requests are refused as conflicts -/

/-- The conflict checks of `pkg/registry`, spelled out. A request for (`ty`, `a.name`, `a.labels`) is a
    conflict iff it is not answered from the map (same name, same type, same label set already there) and
    * the name is registered with another type, or
    * [counter, gauge] the name ends in `_bucket`/`_count`/`_sum` and what precedes that suffix is
      registered with a type other than counter (sic: `checkHistogramNameCollision` hard-codes counter), or
    * [histogram] `name_sum`, `name_count` or `name_bucket` is registered with a type other than histogram, or
    * [summary] `name_sum` or `name_count` is registered with a type other than summary. -/
def conflictsSpec (r : Reg V) (ty : MType) (a : GetArgs V) : Prop :=
  ¬(r.type? a.name = some ty ∧ (r.series? a.name a.labels).isSome = true) ∧
  ((∃ t, r.type? a.name = some t ∧ t ≠ ty) ∨
   ((ty = .counter ∨ ty = .gauge) ∧ ∃ suf, suf ∈ [sfxBucket, sfxCount, sfxSum] ∧ ∃ base, a.name = base ++ suf ∧
      ∃ t, r.type? base = some t ∧ t ≠ .counter) ∨
   (ty = .histogram ∧ ∃ suf, suf ∈ [sfxSum, sfxCount, sfxBucket] ∧ ∃ t, r.type? (a.name ++ suf) = some t ∧ t ≠ .histogram) ∨
   (ty = .summary ∧ ∃ suf, suf ∈ [sfxSum, sfxCount] ∧ ∃ t, r.type? (a.name ++ suf) = some t ∧ t ≠ .summary))

/-- `getOrCreate` answers "conflict" exactly on `conflictsSpec`. -/
theorem conflict_iff_spec (r : Reg V) (ty : MType) (a : GetArgs V) (now : Int) :
    r.getOrCreate ty a now = .ok (.error .conflict) ↔ conflictsSpec r ty a := by
  rw [getOrCreate_conflict_iff]
  unfold conflictsSpec
  have hhit : r.isHit ty a = false ↔ ¬(r.type? a.name = some ty ∧ (r.series? a.name a.labels).isSome = true) := by
    rw [← isHit_iff]; simp
  rw [hhit, conflicts_iff]
  apply and_congr_right
  intro _
  apply or_congr_right
  cases ty with
  | counter =>
    simp only [Reg.companion, histNameCollision_iff, true_and, reduceCtorEq, false_and, or_false]
  | gauge =>
    simp only [Reg.companion, histNameCollision_iff, or_true, true_and, reduceCtorEq, false_and, or_false]
  | histogram =>
    simp only [Reg.companion, Bool.or_eq_true, conflicts_iff, reduceCtorEq, or_self, false_and, true_and, false_or,
      or_false, List.mem_cons, List.not_mem_nil]
    constructor
    · rintro ((h | h) | h)
      · exact ⟨_, Or.inl rfl, h⟩
      · exact ⟨_, Or.inr (Or.inl rfl), h⟩
      · exact ⟨_, Or.inr (Or.inr rfl), h⟩
    · rintro ⟨suf, (rfl | rfl | rfl), h⟩
      · exact Or.inl (Or.inl h)
      · exact Or.inl (Or.inr h)
      · exact Or.inr h
  | summary =>
    simp only [Reg.companion, Bool.or_eq_true, conflicts_iff, reduceCtorEq, or_self, false_and, true_and, false_or,
      List.mem_cons, List.not_mem_nil, or_false]
    constructor
    · rintro (h | h)
      · exact ⟨_, Or.inl rfl, h⟩
      · exact ⟨_, Or.inr rfl, h⟩
    · rintro ⟨suf, (rfl | rfl), h⟩
      · exact Or.inl h
      · exact Or.inr h

/-! ### The stronger reading fails on the current code

"Accepted events never make the scrape fail" is *not* what the conflict check guarantees: the check for
summaries (and histograms) looks for `name_sum`/`name_count` registered with *another type*, so a summary
`x` followed by a summary `x_sum` passes both checks, while `Gather` then rejects the pair
(`checkSuffixCollisions`: family `x_sum` collides with the `_sum` series of summary `x`). -/

section counterexample
attribute [local instance] toyNumOps

private def args (name : Bytes) : GetArgs Int := { name := name, labels := [], help := [104], ttl := 0 }
private def nameX : Bytes := [120]
private def nameXsum : Bytes := [120, 95, 115, 117, 109]   -- "x_sum"

/-- registry after `GetSummary("x")`, then after `GetSummary("x_sum")` -/
private def step (r : Reg Int) (name : Bytes) : Option (Reg Int) :=
  match r.getOrCreate .summary (args name) 0 with
  | .ok (.ok r') => some r'
  | _ => none

/-- the unguarded claim: a request that the registry accepts keeps `Gather` healthy -/
def gather_ok_preserved_statement : Prop :=
  ∀ (V : Type) [NumOps V] (r r' : Reg V) (ty : MType) (a : GetArgs V) (now : Int),
    RegWF r → r.gatherOk = true → r.getOrCreate ty a now = .ok (.ok r') → r'.gatherOk = true

/-- summary `x` and then summary `x_sum` are both accepted (no conflict is reported), the registry is
    healthy after the first and `Gather` fails after the second. -/
theorem gather_ok_preserved_counterexample :
    ∃ r1 r2 : Reg Int, step {} nameX = some r1 ∧ step r1 nameXsum = some r2 ∧
      r1.gatherOk = true ∧ r2.gatherOk = false := by
  have some_getD : ∀ (o : Option (Reg Int)), o.isSome = true → o = some (o.getD {}) := by
    intro o h; cases o with
    | none => cases h
    | some x => rfl
  refine ⟨(step {} nameX).getD {}, (step ((step {} nameX).getD {}) nameXsum).getD {}, ?_, ?_, ?_, ?_⟩
  · exact some_getD _ (by with_unfolding_all decide)
  · exact some_getD _ (by with_unfolding_all decide)
  · with_unfolding_all decide
  · with_unfolding_all decide

/-- hence the unguarded claim is false -/
theorem gather_ok_preserved_statement_false : ¬ gather_ok_preserved_statement := by
  intro h
  obtain ⟨r1, r2, h1, h2, hg1, hg2⟩ := gather_ok_preserved_counterexample
  have hs1 : (({} : Reg Int).getOrCreate .summary (args nameX) 0) = .ok (.ok r1) := by
    unfold step at h1
    split at h1
    · rename_i r' heq; injection h1 with h1; rw [heq, h1]
    · cases h1
  have hs2 : (r1.getOrCreate .summary (args nameXsum) 0) = .ok (.ok r2) := by
    unfold step at h2
    split at h2
    · rename_i r' heq; injection h2 with h2; rw [heq, h2]
    · cases h2
  have hw1 : RegWF r1 := RegWF_getOrCreate (RegWF_empty []) hs1
  have := h Int r1 r2 .summary (args nameXsum) 0 hw1 hg1 hs2
  rw [hg2] at this; cases this

/-! The same through the whole exporter: configuration without rules, observers default to summaries;
    the lines `x:1|ms` and `x_sum:1|ms`. -/

private def cfg0 : Config Int :=
  { rules := [], dObserverType := .summary, dTtl := 0, dBuckets := [], dQuantiles := [], dMaxAge := 0,
    dAgeBuckets := 0, dBufCap := 0, orderingDisabled := false, doFSM := false }
private def p0 : Pipe Int := { mapper := MState.fresh cfg0 }
private def noRx : Rx := fun _ _ => none
private def evObs (name : Bytes) : Ev Int := { kind := .observer, name := name, value := 1, relative := false }

/-- (applied, conflicts, gatherOk) after the events -/
private def outcome (evs : List (Ev Int)) : Option (Nat × Nat × Bool) :=
  match handleEvents p0 noRx [] evs with
  | some (.ok p) => some (p.counts.applied, p.counts.conflicts, p.reg.gatherOk)
  | _ => none

/-- both events are applied, no conflict is counted, and the scrape fails after the second -/
theorem gather_ok_preserved_counterexample_exporter :
    outcome [evObs nameX] = some (1, 0, true) ∧ outcome [evObs nameX, evObs nameXsum] = some (2, 0, false) := by
  constructor <;> with_unfolding_all decide

end counterexample

end SE.Props.C08
