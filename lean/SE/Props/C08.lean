import SE.Proofs.RegistryPipe
import SE.Proofs.SuffixFree
import SE.Proofs.HelpUniform
import SE.Proofs.AvoidsPre
import SE.Spec.FloatLaws
/-
C08 — A conflicting event is dropped alone and harms nothing else.
When the registry refuses an event (`getOrCreate` answers `.ok (.error _)`: a type conflict, a
companion-name conflict or a reserved label name) the exporter state is unchanged except for its own
counters, so every other series keeps its type and value and every later event is processed exactly as
if the refused one had never been sent. The last part of the file characterises *which* requests are
refused as conflicts (`conflict_iff_spec`), proves what the (repaired) companion-name checks buy — over
every history the statsd families never collide by suffix: `suffixFree_getOrCreate`, `suffix_free_history`,
`suffixFree_no_statsd_collision` — and what the (repaired) help bookkeeping of the registry buys — all vectors
of one metric name carry the help string of the first one: `helpUniform_getOrCreate`, `help_uniform_history`,
`helpUniform_help_consistent`. Together: on a well-formed, suffix-free, help-uniform registry without
pre-registered families (every registry a history reaches from the empty one is such) "accepted" does imply
"the scrape stays healthy" — `gather_ok_preserved`, `gather_ok_preserved_step`, `gather_ok_preserved_history`.
With pre-registered families the same holds as long as the statsd metric names stay clear of them (`AvoidsPre`,
SE/Spec/Registry.lean: not the name of a pre-registered family, no `_sum/_count/_bucket` companion relation with one
in either direction) and the pre-registered families scrape fine by themselves: `gather_ok_of_invariants_pre`,
`gather_ok_preserved_pre`, `gather_ok_preserved_pre_step`, `gather_ok_preserved_pre_history`.
The unguarded claim `gather_ok_preserved_statement` (any well-formed registry that scrapes fine) is still false:
the exporter's checks do not see the pre-registered families (`gather_ok_preserved_counterexample`, the open
finding SE.Props.C03.preregistered_name_collision), and an arbitrary — unreachable — registry need not be
help-uniform (`gather_ok_preserved_needs_help_uniform`).

Vocabulary: see SE/Props/C07.lean. `evTarget p rx ev tags = some (c, pl)` means: the event reaches the
registry with the request `pl = (metric type, GetArgs, update function)`; `c` are the counters after
the mapping stage (`mapped` or `unmapped` already incremented).
`Pipe.plus p d` adds the offsets `d` to the counters of `p` and changes nothing else; `shiftRes d`
does the same to the result of a step (SE/Proofs/RegistryPipe.lean).
-/
namespace SE.Props.C08
open SE
variable {V : Type} [NumOps V]

/-- (F1) A refusing or panicking `getOrCreate` returns no registry at all — by the shape of its result. -/
theorem rejected_returns_no_registry (r : Reg V) (ty : MType) (a : GetArgs V) (now : Int) :
    (∀ e, r.getOrCreate ty a now = .ok (.error e) → ∀ r', r.getOrCreate ty a now ≠ .ok (.ok r')) ∧
    (∀ pn, r.getOrCreate ty a now = .error pn → ∀ r', r.getOrCreate ty a now ≠ .ok (.ok r')) :=
  getOrCreate_no_reg_on_error

/-- **A conflicting event is dropped alone.** If the registry refuses the event's request, `handleEvent`
    returns the input state with `conflicts` incremented (and the `mapped`/`unmapped` counter of the
    mapping stage): registry, clock and mapper are unchanged; nothing is counted as applied, as an error
    or as dropped-by-rule. -/
theorem conflict_dropped_alone (p : Pipe V) (rx : Rx) (ev : Ev V) (tags : Labels) (c : Counts) (pl : Plan V) (e : RegErr)
    (ht : evTarget p rx ev tags = some (c, pl))
    (hc : p.reg.getOrCreate pl.1 pl.2.1 p.now = .ok (.error e)) :
    ∃ p', handleEvent p rx ev tags = some (.ok p') ∧
      p'.reg = p.reg ∧ p'.now = p.now ∧ p'.mapper = p.mapper ∧
      p'.counts.conflicts = p.counts.conflicts + 1 ∧ p'.counts.applied = p.counts.applied ∧
      p'.counts.errors = p.counts.errors ∧ p'.counts.dropped = p.counts.dropped ∧
      p'.counts.mapped + p'.counts.unmapped = p.counts.mapped + p.counts.unmapped + 1 := by
  refine ⟨rejectedPipe p c, ?_, rfl, rfl, rfl, ?_⟩
  · rw [handleEvent_of_target ht]
    rcases finishPlan_cases p c pl with ⟨pn, hg, _⟩ | ⟨e', _, h1⟩ | ⟨reg, hg, _⟩
    · rw [hc] at hg; cases hg
    · exact h1
    · rw [hc] at hg; injection hg with hg; cases hg
  · obtain ⟨h1, h2, h3, h4, h5⟩ := evTarget_counts ht
    simp only [rejectedPipe]
    exact ⟨by rw [h2], h1, h3, h4, h5⟩

/-- Conversely, the only way `conflicts` moves is a refused request, and then the registry is untouched. -/
theorem conflict_counted_only_on_refusal (p p' : Pipe V) (rx : Rx) (ev : Ev V) (tags : Labels)
    (h : handleEvent p rx ev tags = some (.ok p')) (hcnt : p'.counts.conflicts ≠ p.counts.conflicts) :
    p'.reg = p.reg ∧ p'.counts.conflicts = p.counts.conflicts + 1 ∧
    ∃ c pl e, evTarget p rx ev tags = some (c, pl) ∧ p.reg.getOrCreate pl.1 pl.2.1 p.now = .ok (.error e) := by
  cases ht : evTarget p rx ev tags with
  | none =>
    rcases handleEvent_no_target ht with h0 | ⟨c', h1, _, h3⟩
    · rw [h0] at h; cases h
    · rw [h1] at h; injection h with h; injection h with h; subst h
      exact absurd h3 hcnt
  | some cp =>
    obtain ⟨c, pl⟩ := cp
    have hc := (evTarget_counts ht).2.1
    rw [handleEvent_of_target ht] at h
    rcases finishPlan_cases p c pl with ⟨pn, _, h1⟩ | ⟨e, hg, h1⟩ | ⟨reg, hg, h1⟩
    · rw [h1] at h; injection h with h; cases h
    · rw [h1] at h; injection h with h; injection h with h; subst h
      exact ⟨rfl, by simp only [rejectedPipe]; rw [hc], c, pl, e, rfl, hg⟩
    · rw [h1] at h; injection h with h; injection h with h; subst h
      exact absurd hc hcnt

/-- A panic inside client_golang (constructor checks at child creation) ends the step with that panic:
    there is no successor state. -/
theorem panic_yields_no_state (p : Pipe V) (rx : Rx) (ev : Ev V) (tags : Labels) (c : Counts) (pl : Plan V) (pn : Panic)
    (ht : evTarget p rx ev tags = some (c, pl)) (hc : p.reg.getOrCreate pl.1 pl.2.1 p.now = .error pn) :
    handleEvent p rx ev tags = some (.error pn) := by
  rw [handleEvent_of_target ht]
  rcases finishPlan_cases p c pl with ⟨pn', hg, h1⟩ | ⟨e', hg, _⟩ | ⟨reg, hg, _⟩
  · rw [hc] at hg; injection hg with hg; subst hg; exact h1
  · rw [hc] at hg; cases hg
  · rw [hc] at hg; cases hg

/-- **All others keep type and value.** Whatever `handleEvent` does (apply, refuse, drop, reject), in the
    resulting registry
    * every metric name registered before has the type it had before,
    * every vector (help text, buckets, summary options) registered before is unchanged,
    * every (name, labels) other than the one series the event addresses resolves to the very same series
      record as before (same ttl, last, value, counts, buckets) — in particular nothing is created or
      removed elsewhere. -/
theorem others_keep_type_and_value (p p' : Pipe V) (rx : Rx) (ev : Ev V) (tags : Labels)
    (h : handleEvent p rx ev tags = some (.ok p')) :
    (∀ name t, p.reg.type? name = some t → p'.reg.type? name = some t) ∧
    (∀ name names v, p.reg.vec? name names = some v → p'.reg.vec? name names = some v) ∧
    (∀ name labels,
      (∀ c pl, evTarget p rx ev tags = some (c, pl) → ¬(name = pl.2.1.name ∧ labels = pl.2.1.labels)) →
      p'.reg.series? name labels = p.reg.series? name labels) := by
  by_cases ha : p'.counts.applied = p.counts.applied + 1
  · obtain ⟨c, pl, reg, ht, hg, e⟩ := handleEvent_applied h ha
    subst e
    exact ⟨fun name t => applied_type_keep hg name t, fun name names v => applied_vec_keep hg name names v,
      fun name labels hne => applied_series_frame (evTarget_keeps ht) hg name labels (hne c pl ht)⟩
  · have := handleEvent_not_applied h ha
    rw [this]
    exact ⟨fun _ _ h => h, fun _ _ _ h => h, fun _ _ _ => rfl⟩

/-- At the level of the metric list: either the registry is returned as it was, or every metric with a
    name other than the addressed one — its type, its vectors, all its series, its position relative to
    the others — is literally the same, and so are the pre-registered families. -/
theorem other_metrics_untouched (p p' : Pipe V) (rx : Rx) (ev : Ev V) (tags : Labels)
    (h : handleEvent p rx ev tags = some (.ok p')) :
    p'.reg = p.reg ∨
    ∃ c pl, evTarget p rx ev tags = some (c, pl) ∧ p'.reg.pre = p.reg.pre ∧
      p'.reg.metrics.filter (·.name != pl.2.1.name) = p.reg.metrics.filter (·.name != pl.2.1.name) := by
  by_cases ha : p'.counts.applied = p.counts.applied + 1
  · obtain ⟨c, pl, reg, ht, hg, e⟩ := handleEvent_applied h ha
    subst e
    have h1 := getOrCreate_others hg
    have h2 := updateSeries_others reg pl.2.1.name pl.2.1.labels pl.2.2
    exact Or.inr ⟨c, pl, ht, by simp only [appliedPipe]; rw [h2.2, h1.2],
      by simp only [appliedPipe]; rw [h2.1, h1.1]⟩
  · exact Or.inl (handleEvent_not_applied h ha)

/-- The same in the membership reading, on a well-formed registry: the series of the registry other than
    the addressed one are exactly the same before and after. -/
theorem others_keep_membership (p p' : Pipe V) (rx : Rx) (ev : Ev V) (tags : Labels) (hw : RegWF p.reg)
    (h : handleEvent p rx ev tags = some (.ok p')) (name : Bytes) (s : Series V)
    (hne : ∀ c pl, evTarget p rx ev tags = some (c, pl) → ¬(name = pl.2.1.name ∧ s.labels = pl.2.1.labels)) :
    p'.reg.HasSeries name s ↔ p.reg.HasSeries name s := by
  rw [hw.hasSeries_iff, (RegWF_handleEvent hw h).hasSeries_iff,
    (others_keep_type_and_value p p' rx ev tags h).2.2 name s.labels hne]

/-- The type of the addressed metric after an applied event is the requested type — and if the name was
    registered before, that is the type it already had (previous theorem): no event changes a type. -/
theorem applied_type (p p' : Pipe V) (rx : Rx) (ev : Ev V) (tags : Labels)
    (h : handleEvent p rx ev tags = some (.ok p')) (ha : p'.counts.applied = p.counts.applied + 1) :
    ∃ c pl, evTarget p rx ev tags = some (c, pl) ∧ p'.reg.type? pl.2.1.name = some pl.1 := by
  obtain ⟨c, pl, reg, ht, hg, e⟩ := handleEvent_applied h ha
  subst e
  exact ⟨c, pl, ht, by rw [applied_type? hg, if_pos rfl]⟩

/-- **Later samples still apply.** After a refused event the state is the input state plus a constant
    offset `d` on the exporter's counters (`conflicts` +1, `mapped` or `unmapped` +1). Every later event —
    and every later sequence of events — is then processed exactly as from the state before the refused
    event: same registry, same clock, same mapper, same panics, the counters differing by `d`. -/
theorem later_samples_still_apply (p : Pipe V) (rx : Rx) (ev : Ev V) (tags : Labels) (c : Counts) (pl : Plan V) (e : RegErr)
    (ht : evTarget p rx ev tags = some (c, pl))
    (hc : p.reg.getOrCreate pl.1 pl.2.1 p.now = .ok (.error e)) :
    ∃ d : Counts, d.conflicts = 1 ∧ d.applied = 0 ∧ d.errors = [] ∧ d.dropped = 0 ∧ d.mapped + d.unmapped = 1 ∧
      handleEvent p rx ev tags = some (.ok (p.plus d)) ∧
      (∀ ev2 tags2, handleEvent (p.plus d) rx ev2 tags2 = shiftRes d (handleEvent p rx ev2 tags2)) ∧
      (∀ tags2 evs, handleEvents (p.plus d) rx tags2 evs = shiftRes d (handleEvents p rx tags2 evs)) := by
  have hstep : handleEvent p rx ev tags = some (.ok (rejectedPipe p c)) := by
    rw [handleEvent_of_target ht]
    rcases finishPlan_cases p c pl with ⟨pn, hg, _⟩ | ⟨e', _, h1⟩ | ⟨reg, hg, _⟩
    · rw [hc] at hg; cases hg
    · exact h1
    · rw [hc] at hg; injection hg with hg; cases hg
  obtain ⟨_, _, nm, hn, _⟩ := evTarget_spec ht
  rcases (evNamed_counts hn).2 with hcm | hcu
  · refine ⟨{ conflicts := 1, mapped := 1 }, rfl, rfl, rfl, rfl, rfl, ?_,
      fun ev2 tags2 => handleEvent_plus p _ rx ev2 tags2, fun tags2 evs => handleEvents_plus _ rx tags2 evs p⟩
    rw [hstep, hcm]; rfl
  · refine ⟨{ conflicts := 1, unmapped := 1 }, rfl, rfl, rfl, rfl, rfl, ?_,
      fun ev2 tags2 => handleEvent_plus p _ rx ev2 tags2, fun tags2 evs => handleEvents_plus _ rx tags2 evs p⟩
    rw [hstep, hcu]; rfl

/-- More generally the exporter's counters never influence a step: offsetting them offsets the result. -/
theorem counters_do_not_influence (p : Pipe V) (d : Counts) (rx : Rx) (ev : Ev V) (tags : Labels) :
    handleEvent (p.plus d) rx ev tags = shiftRes d (handleEvent p rx ev tags) :=
  handleEvent_plus p d rx ev tags

/-! ### Which requests are refused as conflicts -/

/-- The conflict checks of `pkg/registry`, spelled out. A request for (`ty`, `a.name`, `a.labels`) is a
    conflict iff it is not answered from the map (same name, same type, same label set already there) and
    * the name is registered with another type, or
    * [all four types] the name ends in `_bucket`/`_count`/`_sum` and what precedes that suffix is registered
      with a type other than counter (sic: `checkHistogramNameCollision` hard-codes counter; a registered
      counter exposes no companion series, so nothing is lost), or
    * [histogram] `name_sum`, `name_count` or `name_bucket` is registered — with whatever type, or
    * [summary] `name_sum` or `name_count` is registered — with whatever type. -/
def conflictsSpec (r : Reg V) (ty : MType) (a : GetArgs V) : Prop :=
  ¬(r.type? a.name = some ty ∧ (r.series? a.name a.labels).isSome = true) ∧
  ((∃ t, r.type? a.name = some t ∧ t ≠ ty) ∨
   (∃ suf, suf ∈ [sfxBucket, sfxCount, sfxSum] ∧ ∃ base, a.name = base ++ suf ∧
      ∃ t, r.type? base = some t ∧ t ≠ .counter) ∨
   (ty = .histogram ∧ ∃ suf, suf ∈ [sfxSum, sfxCount, sfxBucket] ∧ ∃ t, r.type? (a.name ++ suf) = some t) ∨
   (ty = .summary ∧ ∃ suf, suf ∈ [sfxSum, sfxCount] ∧ ∃ t, r.type? (a.name ++ suf) = some t))

/-- `getOrCreate` answers "conflict" exactly on `conflictsSpec`. -/
theorem conflict_iff_spec (r : Reg V) (ty : MType) (a : GetArgs V) (now : Int) :
    r.getOrCreate ty a now = .ok (.error .conflict) ↔ conflictsSpec r ty a := by
  rw [getOrCreate_conflict_iff]
  unfold conflictsSpec
  have hhit : r.isHit ty a = false ↔ ¬(r.type? a.name = some ty ∧ (r.series? a.name a.labels).isSome = true) := by
    rw [← isHit_iff]; simp
  rw [hhit, conflicts_iff, companion_iff, histNameCollision_iff]

/-! ### What the companion-name checks buy: the statsd families never collide by suffix

`SuffixFree r` (SE/Spec/Registry.lean): no registered metric is named like a companion series (`_sum`,
`_count`, for histograms also `_bucket`) of a registered histogram or summary. It holds of the empty
registry and is preserved by every operation that returns a registry, hence by every history; and it is
exactly what `checkSuffixCollisions` needs of the statsd families. No bound on sizes or lengths anywhere. -/

/-- The empty registry (whatever is pre-registered). -/
theorem suffixFree_empty (pre : List (Bytes × MType × Bytes)) : SuffixFree ({ metrics := [], pre := pre } : Reg V) :=
  SuffixFree_empty pre

/-- **Every `getOrCreate` that returns a registry preserves `SuffixFree`** — the hit path (nothing is
    registered) and the creation path: the new name's own companion names are free (`checkObserverNameCollision`
    looks for them with *any* type), and the new name is not a companion name of a registered observer
    (`checkHistogramNameCollision`: the base would be registered with a type other than counter). -/
theorem suffixFree_getOrCreate (r r' : Reg V) (ty : MType) (a : GetArgs V) (now : Int) :
    RegWF r → SuffixFree r → r.getOrCreate ty a now = .ok (.ok r') → SuffixFree r' :=
  fun hw hs hg => SuffixFree_getOrCreate hw hs hg

/-- The value update that follows an accepted request changes no name and no type. -/
theorem suffixFree_updateSeries (r : Reg V) (name : Bytes) (labels : Labels) (f : VecM V → Series V → Series V) :
    SuffixFree r → SuffixFree (updateSeries r name labels f) :=
  fun hs => SuffixFree_updateSeries hs name labels f

/-- The TTL sweep removes series only, never a metric entry: the (name, type) pairs are the same list … -/
theorem sweep_keeps_metric_entries (r : Reg V) (now : Int) :
    (r.sweep now).metrics.map (fun m => (m.name, m.ty)) = r.metrics.map (fun m => (m.name, m.ty)) :=
  sweep_names_types r now

/-- … so `SuffixFree` is preserved (it is even the same statement before and after). -/
theorem suffixFree_sweep (r : Reg V) (now : Int) : SuffixFree r → SuffixFree (r.sweep now) :=
  fun hs => SuffixFree_sweep hs now

theorem suffixFree_sweep_iff (r : Reg V) (now : Int) : SuffixFree (r.sweep now) ↔ SuffixFree r :=
  SuffixFree_sweep_iff r now

/-- One event, whatever `handleEvent` does with it. -/
theorem suffixFree_handleEvent (p p' : Pipe V) (rx : Rx) (ev : Ev V) (tags : Labels) (hw : RegWF p.reg)
    (hs : SuffixFree p.reg) (h : handleEvent p rx ev tags = some (.ok p')) : SuffixFree p'.reg :=
  SuffixFree_handleEvent hw hs h

/-- All events of one line. -/
theorem suffixFree_handleEvents (p p' : Pipe V) (rx : Rx) (tags : Labels) (evs : List (Ev V)) (hw : RegWF p.reg)
    (hs : SuffixFree p.reg) (h : handleEvents p rx tags evs = some (.ok p')) : SuffixFree p'.reg :=
  (SuffixFree_handleEvents evs hw hs h).2

/-- Every history (event batches, sweeps, clock changes, reloads, in any order) from a well-formed,
    suffix-free registry. -/
theorem suffix_free_history_from (rx : Rx) (p p' : Pipe V) (ops : List (PipeOp V)) (hw : RegWF p.reg)
    (hs : SuffixFree p.reg) (h : runOps rx p ops = some (.ok p')) : SuffixFree p'.reg :=
  (SuffixFree_runOps rx ops hw hs h).2

/-- **After every history that starts without statsd metrics, the registry is suffix-free.** -/
theorem suffix_free_history (rx : Rx) (p p' : Pipe V) (ops : List (PipeOp V)) :
    p.reg.metrics = [] → runOps rx p ops = some (.ok p') → SuffixFree p'.reg :=
  fun h0 h => (SuffixFree_runOps rx ops (wf_suffixFree_of_no_metrics h0).1 (wf_suffixFree_of_no_metrics h0).2 h).2

/-- **The link to `Gather`**: in a suffix-free registry `checkSuffixCollisions` finds nothing among the live
    statsd families (this list is the statsd part of the `fams` of `Reg.gatherOk`). -/
theorem suffixFree_no_statsd_collision (r : Reg V) :
    SuffixFree r → suffixCollision ((r.metrics.filter (!·.series.isEmpty)).map fun m => (m.name, m.ty)) = false :=
  suffixCollision_live_of_suffixFree

/-- Without pre-registered families that is the whole third conjunct of `Reg.gatherOk` (the families of
    `Reg.pre` are outside the exporter's conflict checks: SE.Props.C03.preregistered_name_collision) … -/
theorem suffixFree_no_collision_without_pre (r : Reg V) (hs : SuffixFree r) (hpre : r.pre = []) :
    (!suffixCollision ((r.metrics.filter (!·.series.isEmpty)).map (fun m => (m.name, m.ty)) ++
        r.pre.map (fun p => (p.1, p.2.1)))) = true := by
  have := suffixCollision_liveFams_of_suffixFree hs hpre
  unfold liveFams at this
  rw [this]; rfl

/-- … and the second conjunct is vacuous: `Gather` succeeds iff every live family has one help string. -/
theorem gather_ok_iff_help_consistent (r : Reg V) (hs : SuffixFree r) (hpre : r.pre = []) :
    r.gatherOk = (r.metrics.filter (!·.series.isEmpty)).all helpConsistent :=
  gatherOk_of_suffixFree hs hpre

/-! ### What the help bookkeeping buys: one help string per family

`HelpUniform r` (SE/Spec/Registry.lean): all vectors of one metric entry carry the same help string. The registry
remembers, per metric name, the help string of the first vector it created for that name and creates every later
vector of the name with it (`helpFor`; `Reg.firstHelp?`), whatever help the request carries — a second mapping
rule for the same name, or a reloaded configuration, cannot introduce a second help string. It holds of the empty
registry and is preserved by every operation that returns a registry, hence by every history; and it is exactly
what the first check of `Gather` needs. -/

/-- The empty registry (whatever is pre-registered). -/
theorem helpUniform_empty (pre : List (Bytes × MType × Bytes)) : HelpUniform ({ metrics := [], pre := pre } : Reg V) :=
  HelpUniform_empty pre

/-- **Every `getOrCreate` that returns a registry preserves `HelpUniform`** — the hit path (no vector is
    touched) and the creation path: an existing vector is reused as it is, a new one gets the help string of the
    entry's first vector (which by uniformity is that of all its vectors), or the request's if it is the first. -/
theorem helpUniform_getOrCreate (r r' : Reg V) (ty : MType) (a : GetArgs V) (now : Int) :
    RegWF r → HelpUniform r → r.getOrCreate ty a now = .ok (.ok r') → HelpUniform r' :=
  fun hw hh hg => HelpUniform_getOrCreate hw hh hg

/-- In a help-uniform registry the help string a new vector gets is the help string of every vector of the name. -/
theorem helpUniform_first_help (r : Reg V) (hh : HelpUniform r) (name : Bytes) (names : List Bytes) (v : VecM V) :
    r.vec? name names = some v → r.firstHelp? name = some v.help :=
  fun hv => firstHelp?_of_vec? hh hv

/-- The value update that follows an accepted request touches no vector. -/
theorem helpUniform_updateSeries (r : Reg V) (name : Bytes) (labels : Labels) (f : VecM V → Series V → Series V) :
    HelpUniform r → HelpUniform (updateSeries r name labels f) :=
  fun hh => HelpUniform_updateSeries hh name labels f

/-- The TTL sweep removes series only, never a vector. -/
theorem helpUniform_sweep (r : Reg V) (now : Int) : HelpUniform r → HelpUniform (r.sweep now) :=
  fun hh => HelpUniform_sweep hh now

theorem helpUniform_sweep_iff (r : Reg V) (now : Int) : HelpUniform (r.sweep now) ↔ HelpUniform r :=
  HelpUniform_sweep_iff r now

/-- One event, whatever `handleEvent` does with it. -/
theorem helpUniform_handleEvent (p p' : Pipe V) (rx : Rx) (ev : Ev V) (tags : Labels) (hw : RegWF p.reg)
    (hh : HelpUniform p.reg) (h : handleEvent p rx ev tags = some (.ok p')) : HelpUniform p'.reg :=
  HelpUniform_handleEvent hw hh h

/-- All events of one line. -/
theorem helpUniform_handleEvents (p p' : Pipe V) (rx : Rx) (tags : Labels) (evs : List (Ev V)) (hw : RegWF p.reg)
    (hh : HelpUniform p.reg) (h : handleEvents p rx tags evs = some (.ok p')) : HelpUniform p'.reg :=
  (HelpUniform_handleEvents evs hw hh h).2

/-- Every history (event batches, sweeps, clock changes, reloads, in any order) from a well-formed,
    help-uniform registry. -/
theorem help_uniform_history_from (rx : Rx) (p p' : Pipe V) (ops : List (PipeOp V)) (hw : RegWF p.reg)
    (hh : HelpUniform p.reg) (h : runOps rx p ops = some (.ok p')) : HelpUniform p'.reg :=
  (HelpUniform_runOps rx ops hw hh h).2

/-- **After every history that starts without statsd metrics, the registry is help-uniform.** -/
theorem help_uniform_history (rx : Rx) (p p' : Pipe V) (ops : List (PipeOp V)) :
    p.reg.metrics = [] → runOps rx p ops = some (.ok p') → HelpUniform p'.reg :=
  fun h0 h => (HelpUniform_runOps rx ops (wf_helpUniform_of_no_metrics h0).1 (wf_helpUniform_of_no_metrics h0).2 h).2

/-- **The link to `Gather`**: in a help-uniform registry every family — live or not — has one help string; in
    particular the first conjunct of `Reg.gatherOk` holds. -/
theorem helpUniform_help_consistent (r : Reg V) (hh : HelpUniform r) :
    (∀ m, m ∈ r.metrics → helpConsistent m = true) ∧
    (r.metrics.filter (!·.series.isEmpty)).all helpConsistent = true :=
  ⟨helpConsistent_of_helpUniform hh, live_helpConsistent_of_helpUniform hh⟩

/-! ### Accepted ⇒ the scrape stays healthy — on the registries the exporter reaches -/

/-- suffix-free, help-uniform, nothing pre-registered: `Gather` succeeds -/
theorem gather_ok_of_invariants (r : Reg V) (hs : SuffixFree r) (hh : HelpUniform r) (hpre : r.pre = []) :
    r.gatherOk = true :=
  gatherOk_of_suffixFree_helpUniform hs hh hpre

/-- **A request that the registry accepts keeps `Gather` healthy** — on a well-formed, suffix-free, help-uniform
    registry without pre-registered families. (These hold of every registry a history reaches from the empty one:
    `suffix_free_history`, `help_uniform_history`; the registry need not even be assumed to scrape fine — it does.) -/
theorem gather_ok_preserved (r r' : Reg V) (ty : MType) (a : GetArgs V) (now : Int) :
    RegWF r → SuffixFree r → HelpUniform r → r.pre = [] → r.getOrCreate ty a now = .ok (.ok r') → r'.gatherOk = true :=
  fun hw hs hh hpre hg =>
    gatherOk_of_suffixFree_helpUniform (SuffixFree_getOrCreate hw hs hg) (HelpUniform_getOrCreate hw hh hg)
      (by rw [(getOrCreate_others hg).2, hpre])

/-- … through a whole pipeline step: whatever `handleEvent` does with the event (apply, refuse, drop, reject) -/
theorem gather_ok_preserved_step (p p' : Pipe V) (rx : Rx) (ev : Ev V) (tags : Labels) (hw : RegWF p.reg)
    (hs : SuffixFree p.reg) (hh : HelpUniform p.reg) (hpre : p.reg.pre = [])
    (h : handleEvent p rx ev tags = some (.ok p')) : p'.reg.gatherOk = true :=
  gatherOk_of_suffixFree_helpUniform (SuffixFree_handleEvent hw hs h) (HelpUniform_handleEvent hw hh h)
    (by rw [pre_handleEvent h, hpre])

/-- … and through every history (event batches, sweeps, clock changes, reloads, in any order) -/
theorem gather_ok_preserved_history (rx : Rx) (p p' : Pipe V) (ops : List (PipeOp V)) (hw : RegWF p.reg)
    (hs : SuffixFree p.reg) (hh : HelpUniform p.reg) (hpre : p.reg.pre = [])
    (h : runOps rx p ops = some (.ok p')) : p'.reg.gatherOk = true :=
  gatherOk_of_suffixFree_helpUniform (SuffixFree_runOps rx ops hw hs h).2 (HelpUniform_runOps rx ops hw hh h).2
    (by rw [pre_runOps rx ops h, hpre])

/-! ### … and next to pre-registered families, as long as the metric names stay clear of them -/

/-- `getOrCreate` never touches the pre-registered families -/
theorem getOrCreate_keeps_pre (r r' : Reg V) (ty : MType) (a : GetArgs V) (now : Int) :
    r.getOrCreate ty a now = .ok (.ok r') → r'.pre = r.pre :=
  fun hg => (getOrCreate_others hg).2

/-- suffix-free, help-uniform, the pre-registered families consistent among themselves, and every statsd metric
    that has a series clear of them (`AvoidsPre`): `Gather` succeeds -/
theorem gather_ok_of_invariants_pre (r : Reg V) (hs : SuffixFree r) (hh : HelpUniform r)
    (hp : ({ metrics := [], pre := r.pre } : Reg V).gatherOk = true)
    (hav : ∀ m ∈ r.metrics, m.series.isEmpty = false → AvoidsPre r.pre m.name m.ty = true) : r.gatherOk = true :=
  gatherOk_of_invariants_pre hs hh hp hav

/-- **A request that the registry accepts keeps `Gather` healthy — also next to pre-registered families**, provided
    these scrape fine by themselves and every metric of the resulting registry (the requested one included) stays
    clear of them: `gather_ok_preserved` without `r.pre = []`. The exporter's own checks never look at `Reg.pre`;
    `AvoidsPre` is exactly what they would have to look at. -/
theorem gather_ok_preserved_pre (r r' : Reg V) (ty : MType) (a : GetArgs V) (now : Int) :
    RegWF r → SuffixFree r → HelpUniform r → ({ metrics := [], pre := r.pre } : Reg V).gatherOk = true →
    (∀ m ∈ r'.metrics, AvoidsPre r'.pre m.name m.ty = true) → r.getOrCreate ty a now = .ok (.ok r') →
    r'.gatherOk = true :=
  fun hw hs hh hp hav hg =>
    gatherOk_of_invariants_pre_all (SuffixFree_getOrCreate hw hs hg) (HelpUniform_getOrCreate hw hh hg)
      (by rw [(getOrCreate_others hg).2]; exact hp) hav

/-- … it is enough that the metrics that have a series stay clear of them -/
theorem gather_ok_preserved_pre_live (r r' : Reg V) (ty : MType) (a : GetArgs V) (now : Int) :
    RegWF r → SuffixFree r → HelpUniform r → ({ metrics := [], pre := r.pre } : Reg V).gatherOk = true →
    (∀ m ∈ r'.metrics, m.series.isEmpty = false → AvoidsPre r'.pre m.name m.ty = true) →
    r.getOrCreate ty a now = .ok (.ok r') → r'.gatherOk = true :=
  fun hw hs hh hp hav hg =>
    gatherOk_of_invariants_pre (SuffixFree_getOrCreate hw hs hg) (HelpUniform_getOrCreate hw hh hg)
      (by rw [(getOrCreate_others hg).2]; exact hp) hav

/-- … through a whole pipeline step -/
theorem gather_ok_preserved_pre_step (p p' : Pipe V) (rx : Rx) (ev : Ev V) (tags : Labels) (hw : RegWF p.reg)
    (hs : SuffixFree p.reg) (hh : HelpUniform p.reg)
    (hp : ({ metrics := [], pre := p.reg.pre } : Reg V).gatherOk = true)
    (hav : ∀ m ∈ p'.reg.metrics, m.series.isEmpty = false → AvoidsPre p'.reg.pre m.name m.ty = true)
    (h : handleEvent p rx ev tags = some (.ok p')) : p'.reg.gatherOk = true :=
  gatherOk_of_invariants_pre (SuffixFree_handleEvent hw hs h) (HelpUniform_handleEvent hw hh h)
    (by rw [pre_handleEvent h]; exact hp) hav

/-- … and through every history (event batches, sweeps, clock changes, reloads, in any order) -/
theorem gather_ok_preserved_pre_history (rx : Rx) (p p' : Pipe V) (ops : List (PipeOp V)) (hw : RegWF p.reg)
    (hs : SuffixFree p.reg) (hh : HelpUniform p.reg)
    (hp : ({ metrics := [], pre := p.reg.pre } : Reg V).gatherOk = true)
    (hav : ∀ m ∈ p'.reg.metrics, m.series.isEmpty = false → AvoidsPre p'.reg.pre m.name m.ty = true)
    (h : runOps rx p ops = some (.ok p')) : p'.reg.gatherOk = true :=
  gatherOk_of_invariants_pre (SuffixFree_runOps rx ops hw hs h).2 (HelpUniform_runOps rx ops hw hh h).2
    (by rw [pre_runOps rx ops h]; exact hp) hav

/-! ### The unguarded reading still fails: pre-registered families, and registries no history reaches

"Accepted requests never make the scrape fail" for *any* well-formed registry that scrapes fine
(`gather_ok_preserved_statement`) is still false, for two reasons that have nothing to do with each other:
* the conflict checks only look at the exporter's own maps, not at the families other collectors registered
  before (`Reg.pre`): the empty registry next to a pre-registered counter `x` with another help string accepts
  the statsd counter `x`, and `Gather` rejects the family — the smallest refutation, and a reachable one (the open
  finding SE.Props.C03.preregistered_name_collision);
* the statement quantifies over arbitrary registries, not over reachable ones: a registry whose metric `x` has
  two vectors with different help strings, only one of them with a live child, is well-formed, suffix-free and
  scrapes fine; a request for a series of the other vector is accepted and `Gather` fails. No history from the
  empty registry produces such a registry any more (`help_uniform_history`).
The former witness — `x` requested without labels and help "h", then with the label `k` and help "g" — is
repaired: the second vector is created with the help "h" and `Gather` succeeds (`second_help_ignored`). -/

section counterexample
attribute [local instance] toyNumOps

private def args (name : Bytes) (labels : Labels) (help : Bytes) : GetArgs Int :=
  { name := name, labels := labels, help := help, ttl := 0 }
private def nameX : Bytes := [120]
private def nameXsum : Bytes := [120, 95, 115, 117, 109]   -- "x_sum"
private def nameYsum : Bytes := [121, 95, 115, 117, 109]   -- "y_sum"
private def helpH : Bytes := [104]   -- "h"
private def helpG : Bytes := [103]   -- "g"
private def labelsKV : Labels := [([107], [118])]   -- k="v"

/-- the registry after an accepted request (`none`: refused or panicked) -/
private def step (r : Reg Int) (ty : MType) (a : GetArgs Int) : Option (Reg Int) :=
  match r.getOrCreate ty a 0 with
  | .ok (.ok r') => some r'
  | _ => none

private theorem step_spec {r r' : Reg Int} {ty : MType} {a : GetArgs Int} (h : step r ty a = some r') :
    r.getOrCreate ty a 0 = .ok (.ok r') := by
  unfold step at h
  split at h
  · rename_i r1 heq; injection h with h; rw [heq, h]
  · cases h

/-- the registry's answer when it refuses the request -/
private def refusal (r : Reg Int) (ty : MType) (a : GetArgs Int) : Option RegErr :=
  match r.getOrCreate ty a 0 with
  | .ok (.error e) => some e
  | _ => none

private theorem refusal_spec {r : Reg Int} {ty : MType} {a : GetArgs Int} {e : RegErr} (h : refusal r ty a = some e) :
    r.getOrCreate ty a 0 = .ok (.error e) := by
  unfold refusal at h
  split at h
  · rename_i e1 heq; injection h with h; rw [heq, h]
  · cases h

private theorem some_getD (o : Option (Reg Int)) (h : o.isSome = true) : o = some (o.getD {}) := by
  cases o with
  | none => cases h
  | some x => rfl

/-- the unguarded claim: a request that the registry accepts keeps `Gather` healthy -/
def gather_ok_preserved_statement : Prop :=
  ∀ (V : Type) [NumOps V] (r r' : Reg V) (ty : MType) (a : GetArgs V) (now : Int),
    RegWF r → r.gatherOk = true → r.getOrCreate ty a now = .ok (.ok r') → r'.gatherOk = true

/-- the empty registry next to a pre-registered counter `x` whose help string is "g" -/
private def regPre : Reg Int := { metrics := [], pre := [(nameX, .counter, helpG)] }

/-- **the smallest refutation**: the registry without statsd metrics next to a pre-registered counter `x` (help
    "g") is well-formed, suffix-free, help-uniform and scrapes fine; the statsd counter `x` with help "h" is
    accepted — `MetricConflicts` does not see the pre-registered family — and `Gather` fails afterwards. -/
theorem gather_ok_preserved_counterexample :
    ∃ r2 : Reg Int, step regPre .counter (args nameX [] helpH) = some r2 ∧
      RegWF regPre ∧ SuffixFree regPre ∧ HelpUniform regPre ∧ regPre.gatherOk = true ∧ r2.gatherOk = false := by
  refine ⟨(step regPre .counter (args nameX [] helpH)).getD {}, ?_, RegWF_empty _, SuffixFree_empty _,
    HelpUniform_empty _, ?_, ?_⟩
  · exact some_getD _ (by with_unfolding_all decide)
  · with_unfolding_all decide
  · with_unfolding_all decide

/-- hence the unguarded claim is false -/
theorem gather_ok_preserved_statement_false : ¬ gather_ok_preserved_statement := by
  intro h
  obtain ⟨r2, h2, hw, _, _, hg1, hg2⟩ := gather_ok_preserved_counterexample
  have := h Int regPre r2 .counter (args nameX [] helpH) 0 hw hg1 (step_spec h2)
  rw [hg2] at this; cases this

/-- what the refutation lacks of the hypotheses of `gather_ok_preserved_pre`: the requested counter `x` does not
    stay clear of the pre-registered families (it has the name of one) -/
theorem gather_ok_preserved_counterexample_violates_avoidsPre :
    AvoidsPre regPre.pre nameX .counter = false := by with_unfolding_all decide

/-- a registry no history reaches: the counter `x` with a vector without labels (help "h", one live child) and a
    vector for the label `k` (help "g", no child) -/
private def regTwoHelps : Reg Int :=
  { metrics := [{ name := nameX, ty := .counter,
                  vecs := [{ names := [], help := helpH, bounds := [] }, { names := [[107]], help := helpG, bounds := [] }],
                  series := [{ labels := [], ttl := 0, last := 0, f := 0, n := 0, bk := [] }] }] }

private theorem regTwoHelps_wf : RegWF regTwoHelps := by
  refine ⟨by simp [regTwoHelps], ?_, ?_⟩
  · intro m hm
    simp only [regTwoHelps, List.mem_singleton] at hm
    subst hm; simp
  · intro m hm s hs
    simp only [regTwoHelps, List.mem_singleton] at hm
    subst hm
    simp only [List.mem_singleton] at hs
    subst hs
    exact ⟨{ names := [], help := helpH, bounds := [] }, by simp, rfl⟩

/-- **`HelpUniform` cannot be dropped from `gather_ok_preserved`** (second, independent refutation of the unguarded
    claim, nothing pre-registered): `regTwoHelps` is well-formed, suffix-free, not help-uniform, and scrapes fine
    (only one of its two vectors has a child); the request for `x{k="v"}` is accepted — the vector exists and is
    reused with its help "g" — and `Gather` fails afterwards. -/
theorem gather_ok_preserved_needs_help_uniform :
    ∃ r2 : Reg Int, step regTwoHelps .counter (args nameX labelsKV helpH) = some r2 ∧
      RegWF regTwoHelps ∧ SuffixFree regTwoHelps ∧ ¬ HelpUniform regTwoHelps ∧ regTwoHelps.pre = [] ∧
      regTwoHelps.gatherOk = true ∧ r2.gatherOk = false := by
  refine ⟨(step regTwoHelps .counter (args nameX labelsKV helpH)).getD {}, ?_, regTwoHelps_wf, ?_, ?_, rfl, ?_, ?_⟩
  · exact some_getD _ (by with_unfolding_all decide)
  · unfold SuffixFree; with_unfolding_all decide
  · intro hh
    have := hh _ (List.mem_singleton.mpr rfl) { names := [], help := helpH, bounds := [] } (by simp)
      { names := [[107]], help := helpG, bounds := [] } (by simp)
    revert this
    with_unfolding_all decide
  · with_unfolding_all decide
  · with_unfolding_all decide

/-- **the former witness, repaired**: summary `x{}` with help "h" and then summary `x{k="v"}` with help "g" are both
    accepted as before; the second vector is created with the help string of the first, "h", and `Gather` succeeds
    after the first and after the second request (it used to fail after the second). -/
theorem second_help_ignored :
    ∃ r1 r2 : Reg Int, step {} .summary (args nameX [] helpH) = some r1 ∧
      step r1 .summary (args nameX labelsKV helpG) = some r2 ∧
      r1.gatherOk = true ∧ r2.gatherOk = true ∧
      r2.metrics.map (fun m => (m.name, m.vecs.map fun v => (v.names, v.help))) =
        [(nameX, [([], helpH), ([[107]], helpH)])] := by
  refine ⟨(step {} .summary (args nameX [] helpH)).getD {},
    (step ((step {} .summary (args nameX [] helpH)).getD {}) .summary (args nameX labelsKV helpG)).getD {}, ?_, ?_, ?_, ?_, ?_⟩
  · exact some_getD _ (by with_unfolding_all decide)
  · exact some_getD _ (by with_unfolding_all decide)
  · with_unfolding_all decide
  · with_unfolding_all decide
  · with_unfolding_all decide

/-- the same conclusion without evaluating the scrape: `gather_ok_preserved` applies to both requests -/
example : ∀ r1 r2 : Reg Int, step {} .summary (args nameX [] helpH) = some r1 →
    step r1 .summary (args nameX labelsKV helpG) = some r2 → SuffixFree r2 ∧ HelpUniform r2 ∧ r2.gatherOk = true := by
  intro r1 r2 h1 h2
  have hs1 := step_spec h1
  have hs2 := step_spec h2
  have hw1 : RegWF r1 := RegWF_getOrCreate (RegWF_empty []) hs1
  have hf1 : SuffixFree r1 := suffixFree_getOrCreate _ r1 _ _ 0 (RegWF_empty []) (suffixFree_empty []) hs1
  have hh1 : HelpUniform r1 := helpUniform_getOrCreate _ r1 _ _ 0 (RegWF_empty []) (helpUniform_empty []) hs1
  have hp1 : r1.pre = [] := (getOrCreate_others hs1).2
  exact ⟨suffixFree_getOrCreate r1 r2 _ _ 0 hw1 hf1 hs2, helpUniform_getOrCreate r1 r2 _ _ 0 hw1 hh1 hs2,
    gather_ok_preserved r1 r2 _ _ 0 hw1 hf1 hh1 hp1 hs2⟩

/-! The former witness — summary `x`, then summary `x_sum`: both were accepted and `Gather` failed with a
    suffix collision — is now refused, in either order. -/

example : ∃ r1 : Reg Int, step {} .summary (args nameX [] helpH) = some r1 ∧
    r1.getOrCreate .summary (args nameXsum [] helpH) 0 = .ok (.error .conflict) := by
  refine ⟨(step {} .summary (args nameX [] helpH)).getD {}, some_getD _ (by with_unfolding_all decide), refusal_spec ?_⟩
  with_unfolding_all decide

example : ∃ r1 : Reg Int, step {} .summary (args nameXsum [] helpH) = some r1 ∧
    r1.getOrCreate .summary (args nameX [] helpH) 0 = .ok (.error .conflict) := by
  refine ⟨(step {} .summary (args nameXsum [] helpH)).getD {}, some_getD _ (by with_unfolding_all decide), refusal_spec ?_⟩
  with_unfolding_all decide

/-- non-vacuity of `SuffixFree`: histogram `x`, then counter `y_sum` — both accepted; the registry reached
    holds both metrics, is suffix-free and scrapes fine -/
example : ∃ r1 r2 : Reg Int, step {} .histogram (args nameX [] helpH) = some r1 ∧
    step r1 .counter (args nameYsum [] helpH) = some r2 ∧
    r2.metrics.map (fun m => (m.name, m.ty)) = [(nameX, .histogram), (nameYsum, .counter)] ∧
    SuffixFree r2 ∧ r2.gatherOk = true := by
  refine ⟨(step {} .histogram (args nameX [] helpH)).getD {},
    (step ((step {} .histogram (args nameX [] helpH)).getD {}) .counter (args nameYsum [] helpH)).getD {}, ?_, ?_, ?_, ?_, ?_⟩
  · exact some_getD _ (by with_unfolding_all decide)
  · exact some_getD _ (by with_unfolding_all decide)
  · with_unfolding_all decide
  · unfold SuffixFree; with_unfolding_all decide
  · with_unfolding_all decide

/-! The same through the whole exporter: configuration without rules, observers default to summaries;
    the lines `x:1|ms` and `x_sum:1|ms`. -/

private def cfg0 : Config Int :=
  { rules := [], dObserverType := .summary, dTtl := 0, dBuckets := [], dQuantiles := [], dMaxAge := 0,
    dAgeBuckets := 0, dBufCap := 0, orderingDisabled := false, doFSM := false }
private def p0 : Pipe Int := { mapper := MState.fresh cfg0 }
private def noRx : Rx := fun _ _ => none
private def evObs (name : Bytes) : Ev Int := { kind := .observer, name := name, value := 1, relative := false }

/-- (applied, conflicts, gatherOk) after the events -/
private def outcome (evs : List (Ev Int)) : Option (Nat × Nat × Bool) :=
  match handleEvents p0 noRx [] evs with
  | some (.ok p) => some (p.counts.applied, p.counts.conflicts, p.reg.gatherOk)
  | _ => none

/-- the timer `x` is applied; the timer `x_sum` that follows is now counted as a conflict and dropped alone
    (before the repair: both applied, `(2, 0, false)`), the scrape stays fine, and `x` keeps receiving samples;
    the same with the two names in the other order -/
theorem companion_claims_now_conflict :
    outcome [evObs nameX] = some (1, 0, true) ∧ outcome [evObs nameX, evObs nameXsum] = some (1, 1, true) ∧
    outcome [evObs nameX, evObs nameXsum, evObs nameX] = some (2, 1, true) ∧
    outcome [evObs nameXsum, evObs nameX] = some (1, 1, true) := by
  refine ⟨?_, ?_, ?_, ?_⟩ <;> with_unfolding_all decide

end counterexample

end SE.Props.C08
