import SE.Proofs.Relay
/-
C17 — The relay forwards every line once, intact, in packets within the limit.
With relaying enabled, every non-empty received line that fits the configured packet length is
forwarded to the target exactly once, byte-for-byte and newline-terminated, in arrival order; no
forwarded datagram exceeds the packet length or splits a line; buffered lines are sent at the
latest on the next one-second tick; over-long lines are counted and skipped. A failing send to the
target never blocks or stops metric ingestion.

Model (SE/Model/Relay.lean): `relayStep s label` is one atomic action of pkg/relay/relay.go:
`.line l` = a listener goroutine's `RelayLine(l)` (not enabled while the 100-slot channel is full
and `l` would be enqueued), `.deq ok` = the sender goroutine's `case b := <-r.bufferChannel`,
`.tick ok` = its `case <-relayInterval.C`; `ok` is the outcome of the UDP send that step may make
(an oracle: `true` = the socket accepted the datagram, `false` = `WriteToUDP` returned an error).
`relayRun s sched` runs a *schedule*, a list of labels chosen by Go's runtime and by `select`.
Every theorem below quantifies over every packet length `n`, EVERY schedule `sched` for which the
run from the initial state `relayInit n` is defined (`relayRun (relayInit n) sched = some s`: every
step of it was enabled) — i.e. over every reachable state — and every send-outcome oracle.
(Go computes `packetLength-1` in `uint`; for `packetLength = 0` that wraps around, the model's
`Nat` subtraction does not: the model corresponds to the code for `n ≥ 1`. No theorem needs the
hypothesis, for `n = 0` the model simply accepts no line.)

Vocabulary (SE/Spec/Relay.lean): `linesOf sched` = the lines handed to `RelayLine`, in arrival
order; `lineFits n l` = `l` is non-empty and `len(l) ≤ n-1`; `lineLong n l` = non-empty and
`len(l) > n-1`; `terminate l` = `l` with a newline appended unless it already ends in one;
`acceptedOf n sched` = for the `.line l` labels in order, `relayAccept n l` when `some` (the lines
the relay enqueued, in their forwarded form); `longOf n sched` = number of over-long lines;
`AllOk sched` = every send of the schedule succeeds. State: `s.sent` = the datagrams the socket
accepted, in order; `s.lost` = the datagrams whose send failed; `s.buffer` = the sender's buffer;
`s.chan` = the channel, oldest first.
-/
namespace SE.Props.C17
open SE

/-- What is forwarded, byte for byte: the lines the relay enqueues are exactly the non-empty lines
    of at most `n-1` bytes, in arrival order, each unchanged except that a newline is appended when
    the line does not already end in one; each enqueued line is non-empty, ends in a newline and
    has at most `n` bytes. -/
theorem accepted_lines_intact (n : Nat) (sched : List RelayLabel) :
    acceptedOf n sched = ((linesOf sched).filter (lineFits n)).map terminate ∧
    (∀ l, terminate l = l ∨ (terminate l = l ++ [newline] ∧ l.getLast? ≠ some newline)) ∧
    ∀ b, b ∈ acceptedOf n sched → b ≠ [] ∧ b.getLast? = some newline ∧ b.length ≤ n := by
  refine ⟨acceptedOf_eq n sched, ?_, ?_⟩
  · intro l
    unfold terminate
    split
    · exact Or.inl rfl
    · rename_i h
      exact Or.inr ⟨rfl, by simpa using h⟩
  · intro b hb
    have := acceptedOf_good hb
    exact ⟨this.ne, this.nl, this.le⟩

/-- Conservation of lines (the key invariant; any send outcomes). In every reachable state the
    accepted lines, in arrival order, are partitioned into consecutive blocks: first the blocks
    `blocks` that were handed to the socket as one datagram each (tagged with the outcome of that
    send), then the lines `pending` in the sender's buffer, then the channel. `sent` is exactly the
    datagrams of the blocks whose send succeeded, `lost` those whose send failed, both in order. So
    no line is duplicated, reordered, split over two datagrams or dropped anywhere else than in a
    datagram whose send failed; every datagram is non-empty. -/
theorem conservation (n : Nat) (sched : List RelayLabel) (s : RelaySt)
    (h : relayRun (relayInit n) sched = some s) :
    ∃ (blocks : List (List Bytes × Bool)) (pending : List Bytes),
      acceptedOf n sched = (blocks.map (·.1)).flatten ++ pending ++ s.chan ∧
      s.buffer = pending.flatten ∧
      s.sent = (blocks.filter (·.2)).map (·.1.flatten) ∧
      s.lost = (blocks.filter (!·.2)).map (·.1.flatten) ∧
      ∀ g, g ∈ blocks → g.1.flatten ≠ [] := by
  obtain ⟨blocks, pending, hs⟩ := (RelayInv.reachable n sched s h).shape
  exact ⟨blocks, pending, hs.cons, hs.buf, hs.sent, hs.lost, hs.ne⟩

/-- Exactly once, in order (all sends succeed). In every state reachable by a schedule without
    failed sends, nothing is lost, and the accepted lines in arrival order are exactly: the lines
    of the forwarded datagrams (`sent = blocks.map flatten`, in order), then the lines in the
    buffer, then the channel. So every accepted line is forwarded at most once, none is skipped or
    overtaken, and what is not yet forwarded is still waiting in the buffer or the channel. -/
theorem exactly_once_in_order (n : Nat) (sched : List RelayLabel) (s : RelaySt)
    (h : relayRun (relayInit n) sched = some s) (hok : AllOk sched) :
    s.lost = [] ∧
    ∃ (blocks : List (List Bytes)) (pending : List Bytes),
      acceptedOf n sched = blocks.flatten ++ pending ++ s.chan ∧
      s.sent = blocks.map List.flatten ∧ s.buffer = pending.flatten := by
  have hinv := RelayInv.reachable n sched s h
  have hl := hinv.lostOk hok
  obtain ⟨blocks, pending, hs⟩ := hinv.shape
  exact ⟨hl, blocks.map (·.1), pending, hs.cons, hs.sent_of_lost_nil hl, hs.buf⟩

/-- The same on the byte level: without failed sends, the concatenation of the forwarded datagrams,
    followed by the buffer and the channel contents, is byte for byte the concatenation of the
    accepted lines in arrival order. -/
theorem datagrams_concat (n : Nat) (sched : List RelayLabel) (s : RelaySt)
    (h : relayRun (relayInit n) sched = some s) (hok : AllOk sched) :
    s.sent.flatten ++ s.buffer ++ s.chan.flatten = (acceptedOf n sched).flatten := by
  obtain ⟨_, blocks, pending, hc, hs, hb⟩ := exactly_once_in_order n sched s h hok
  rw [hc, hs, hb]
  simp [List.flatten_append, List.flatten_flatten]

/-- Completeness at quiescence: without failed sends, once the channel and the buffer are empty
    (e.g. after the sender has drained the channel and the next tick has fired, see
    `can_always_drain`), the forwarded datagrams are exactly the accepted lines, each once, in
    arrival order. -/
theorem all_forwarded_at_quiescence (n : Nat) (sched : List RelayLabel) (s : RelaySt)
    (h : relayRun (relayInit n) sched = some s) (hok : AllOk sched)
    (hc : s.chan = []) (hb : s.buffer = []) :
    s.sent.flatten = (acceptedOf n sched).flatten := by
  have := datagrams_concat n sched s h hok
  rw [hc, hb] at this
  simpa using this

/-- Datagrams within the limit: in every reachable state every datagram handed to the socket
    (accepted or failed) has at most `n` bytes, and so have the buffer and every queued line. -/
theorem datagram_le_packetLength (n : Nat) (sched : List RelayLabel) (s : RelaySt)
    (h : relayRun (relayInit n) sched = some s) :
    (∀ d, d ∈ s.sent ++ s.lost → d.length ≤ n) ∧ s.buffer.length ≤ n ∧
      ∀ b, b ∈ s.chan → b.length ≤ n := by
  have hb := (RelayInv.reachable n sched s h).bound
  refine ⟨?_, hb.bufLe, fun b hbm => (hb.chanGood b hbm).le⟩
  intro d hd
  rcases List.mem_append.1 hd with hd | hd
  · exact hb.sentLe d hd
  · exact hb.lostLe d hd

/-- No datagram splits a line: in every reachable state every datagram handed to the socket is
    non-empty and is the concatenation of a contiguous block of whole accepted lines
    (`accepted = before ++ block ++ after`), and the buffer is the concatenation of the contiguous
    block of accepted lines that sits directly in front of the channel contents. -/
theorem datagram_is_whole_lines (n : Nat) (sched : List RelayLabel) (s : RelaySt)
    (h : relayRun (relayInit n) sched = some s) :
    (∀ d, d ∈ s.sent ++ s.lost → d ≠ [] ∧ ∃ before block after,
        acceptedOf n sched = before ++ block ++ after ∧ d = block.flatten) ∧
    ∃ before block, acceptedOf n sched = before ++ block ++ s.chan ∧ s.buffer = block.flatten := by
  obtain ⟨blocks, pending, hs⟩ := (RelayInv.reachable n sched s h).shape
  refine ⟨?_, ⟨_, pending, hs.cons, hs.buf⟩⟩
  intro d hd
  obtain ⟨g, hg, rfl⟩ := hs.mem_dgram hd
  refine ⟨hs.ne g hg, ?_⟩
  obtain ⟨b1, b2, hsplit⟩ := List.append_of_mem hg
  refine ⟨(b1.map (·.1)).flatten, g.1, (b2.map (·.1)).flatten ++ pending ++ s.chan, ?_, rfl⟩
  rw [hs.cons, hsplit]
  simp

/-- The channel never holds more than its 100 slots, and every queued line is well-formed. -/
theorem chan_bounded (n : Nat) (sched : List RelayLabel) (s : RelaySt)
    (h : relayRun (relayInit n) sched = some s) :
    s.chan.length ≤ 100 ∧ ∀ b, b ∈ s.chan → b ≠ [] ∧ b.getLast? = some newline :=
  have hb := (RelayInv.reachable n sched s h).bound
  ⟨hb.chanCap, fun b hbm => ⟨(hb.chanGood b hbm).ne, (hb.chanGood b hbm).nl⟩⟩

/-- A tick flushes the buffer (any state, either send outcome): a tick is always enabled; after it
    the buffer is empty and the channel untouched; a non-empty buffer has been handed to the socket
    as one datagram — it is the new last element of `sent` (send succeeded) or of `lost` (send
    failed) and is counted; an empty buffer sends nothing and counts nothing. So a line that the
    sender has taken from the channel is sent at the latest on the next tick. -/
theorem tick_flushes_buffer (s : RelaySt) (ok : Bool) :
    ∃ s', relayStep s (.tick ok) = some s' ∧ s'.buffer = [] ∧ s'.chan = s.chan ∧
      (s.buffer = [] → s'.sent = s.sent ∧ s'.lost = s.lost ∧ s'.packets = s.packets) ∧
      (s.buffer ≠ [] → ok = true →
        s'.sent = s.sent ++ [s.buffer] ∧ s'.lost = s.lost ∧ s'.packets = s.packets + 1) ∧
      (s.buffer ≠ [] → ok = false →
        s'.sent = s.sent ∧ s'.lost = s.lost ++ [s.buffer] ∧ s'.packets = s.packets + 1) := by
  refine ⟨_, relayStep_tick s ok, rfl, ?_⟩
  rcases sendPacket_cases s ok with ⟨hb, he⟩ | ⟨hb, ho, he⟩ | ⟨hb, ho, he⟩
  · rw [he]; simp [hb]
  · rw [he]; simp [hb, ho]
  · rw [he]; simp [hb, ho]

/-- … on the level of whole runs: right after a tick of a run without failed sends, the buffer is
    empty and every accepted line that is no longer in the channel has been forwarded — the
    forwarded datagrams followed by the channel contents are the accepted lines, byte for byte. -/
theorem tick_forwards_everything_dequeued (n : Nat) (sched : List RelayLabel) (s : RelaySt)
    (h : relayRun (relayInit n) (sched ++ [.tick true]) = some s) (hok : AllOk sched) :
    s.buffer = [] ∧ s.sent.flatten ++ s.chan.flatten = (acceptedOf n sched).flatten := by
  have hok' : AllOk (sched ++ [.tick true]) := by
    intro lab hl
    rcases List.mem_append.1 hl with hl | hl
    · exact hok lab hl
    · rw [List.mem_singleton.1 hl]; rfl
  have hcat := datagrams_concat n _ s h hok'
  have hbuf : s.buffer = [] := by
    rw [relayRun_append] at h
    cases h0 : relayRun (relayInit n) sched with
    | none => rw [h0] at h; cases h
    | some s0 =>
      rw [h0, Option.bind_some] at h
      simp only [relayRun, relayStep_tick, Option.bind_some, Option.some.injEq] at h
      rw [← h]
  rw [hbuf, acceptedOf_snoc] at hcat
  exact ⟨hbuf, by simpa [acceptedBy] using hcat⟩

/-- The sender can always catch up: from any state, for any send outcomes (`oks`, `ok`), taking
    every queued line from the channel and then one tick is enabled step by step and leaves the
    channel and the buffer empty — every line that was queued has been handed to the socket. -/
theorem can_always_drain (s : RelaySt) (oks : List Bool) (ok : Bool) (hlen : oks.length = s.chan.length) :
    ∃ s', relayRun s (oks.map .deq ++ [.tick ok]) = some s' ∧ s'.chan = [] ∧ s'.buffer = [] :=
  relay_drain oks ok s hlen.symm

/-- Over-long lines are counted and skipped, accepted lines are counted: in every reachable state
    `longLines` is the number of over-long lines received and `relayed` the number of lines
    enqueued. -/
theorem long_lines_counted_and_skipped (n : Nat) (sched : List RelayLabel) (s : RelaySt)
    (h : relayRun (relayInit n) sched = some s) :
    s.longLines = longOf n sched ∧ s.relayed = (acceptedOf n sched).length :=
  have hc := (RelayInv.reachable n sched s h).count
  ⟨hc.long, hc.relayed⟩

/-- … and a line that is not enqueued (empty or over-long) is always enabled and changes nothing
    in the state except the over-long counter, which goes up by one iff the line is non-empty. -/
theorem skipped_line_changes_nothing_else (s : RelaySt) (l : Bytes) (hskip : relayAccept s.pktLen l = none) :
    relayStep s (.line l) =
      some { s with longLines := s.longLines + (if l.isEmpty then 0 else 1) } := by
  have hen := relayStep_line_enabled s l (Or.inr hskip)
  cases h1 : relayStep s (.line l) with
  | none => rw [h1] at hen; cases hen
  | some s' =>
    obtain ⟨he, _⟩ := relayStep_line_inv h1
    rw [he]
    simp only [acceptedBy, hskip, Option.toList_none, List.append_nil, List.length_nil, Nat.add_zero]
    have hlong : lineLong s.pktLen l = !l.isEmpty := by
      rw [relayAccept_eq] at hskip
      unfold lineFits at hskip
      unfold lineLong
      cases hemp : l.isEmpty
      · simp only [hemp, Bool.not_false, Bool.true_and] at hskip ⊢
        by_cases hle : l.length ≤ s.pktLen - 1
        · simp [hle] at hskip
        · simp; omega
      · simp
    rw [hlong]
    cases l.isEmpty <;> simp

/-- The packet counter counts every datagram handed to the socket, failed sends included (the Go
    code increments it after `WriteToUDP` whatever the result). -/
theorem packets_counted (n : Nat) (sched : List RelayLabel) (s : RelaySt)
    (h : relayRun (relayInit n) sched = some s) :
    s.packets = s.sent.length + s.lost.length :=
  (RelayInv.reachable n sched s h).bound.pkts

/-- A failing send never blocks or stops ingestion. In EVERY reachable state, whatever the outcomes
    of the past sends were: the sender's tick case is enabled for both send outcomes; if the
    channel is non-empty its receive case is enabled for both send outcomes (so the sender
    goroutine is never stuck and never gone); `RelayLine(l)` is enabled whenever the channel has a
    free slot or `l` is not enqueued at all; and for every line `l`, `RelayLine(l)` is enabled now
    or after one receive of the sender, whatever the outcome of the send in that step
    (`pre` has at most one step). -/
theorem send_failure_never_blocks_ingest (n : Nat) (sched : List RelayLabel) (s : RelaySt)
    (h : relayRun (relayInit n) sched = some s) :
    (∀ ok, (relayStep s (.tick ok)).isSome = true) ∧
    (s.chan ≠ [] → ∀ ok, (relayStep s (.deq ok)).isSome = true) ∧
    (∀ l, s.chan.length < 100 ∨ relayAccept n l = none → (relayStep s (.line l)).isSome = true) ∧
    (∀ l ok, (relayRun s [.line l]).isSome = true ∨ (relayRun s [.deq ok, .line l]).isSome = true) ∧
    (∀ l, ∃ pre, pre.length ≤ 1 ∧ (relayRun s (pre ++ [.line l])).isSome = true) := by
  have hb := (RelayInv.reachable n sched s h).bound
  have hline : ∀ (t : RelaySt) l, t.chan.length < relayChanCap → (relayRun t [.line l]).isSome = true := by
    intro t l hlt
    have hen := relayStep_line_enabled t l (Or.inl hlt)
    cases h1 : relayStep t (.line l) with
    | none => rw [h1] at hen; cases hen
    | some t' => simp [relayRun, h1]
  have h4 : ∀ l ok, (relayRun s [.line l]).isSome = true ∨ (relayRun s [.deq ok, .line l]).isSome = true := by
    intro l ok
    by_cases hlt : s.chan.length < relayChanCap
    · exact Or.inl (hline s l hlt)
    · right
      have hne : s.chan ≠ [] := by
        intro e; rw [e] at hlt; exact hlt (by decide)
      have hen := relayStep_deq_enabled s ok hne
      cases h1 : relayStep s (.deq ok) with
      | none => rw [h1] at hen; cases hen
      | some s1 =>
        obtain ⟨b, hbch⟩ := relayStep_deq_chan h1
        have hcap := hb.chanCap
        rw [hbch, List.length_cons] at hcap
        have := hline s1 l (by omega)
        simpa [relayRun, h1] using this
  refine ⟨fun ok => rfl, fun hne ok => relayStep_deq_enabled s ok hne, ?_, h4, ?_⟩
  · intro l hl
    rw [← hb.pkt] at hl
    exact relayStep_line_enabled s l hl
  · intro l
    rcases h4 l true with h1 | h1
    · exact ⟨[], by simp, h1⟩
    · exact ⟨[.deq true], by simp, h1⟩

/-! ### Contrast: the original sender returned on the first failed send

Before the repair, `relayOutput` executed `return` when `sendPacket` failed (in both `select`
cases), i.e. the sender goroutine ended. Variant model: the relay state plus a flag `dead`; the
sender's steps are those of the repaired model while it is alive, a failed send (`lost` grows) sets
`dead`, and a dead sender has no enabled step. `RelayLine` is unchanged. -/

structure OldSt where
  st : RelaySt
  dead : Bool := false

def relayStepOld (z : OldSt) : RelayLabel → Option OldSt
  | .line l => (relayStep z.st (.line l)).map fun s' => { z with st := s' }
  | lab =>
    if z.dead then none
    else (relayStep z.st lab).map fun s' => ⟨s', s'.lost.length != z.st.lost.length⟩

def relayRunOld (z : OldSt) : List RelayLabel → Option OldSt
  | [] => some z
  | l :: ls => (relayStepOld z l).bind (relayRunOld · ls)

/-- The repaired defect: in the original code, once the sender is dead and the channel is full,
    every continuation leaves the sender dead and the channel full, the sender's steps are never
    enabled again, and no line that would be enqueued is ever accepted again — `RelayLine` blocks
    its listener goroutine forever. (`send_failure_never_blocks_ingest` shows that the repaired
    code has no such state.) -/
theorem old_sender_death_blocks_ingest_forever (z : OldSt) (hd : z.dead = true)
    (hfull : z.st.chan.length = 100) (cont : List RelayLabel) (z' : OldSt)
    (h : relayRunOld z cont = some z') :
    z'.dead = true ∧ z'.st.chan = z.st.chan ∧ z'.st.pktLen = z.st.pktLen ∧
    (∀ ok, relayStepOld z' (.deq ok) = none) ∧ (∀ ok, relayStepOld z' (.tick ok) = none) ∧
    ∀ l, relayAccept z.st.pktLen l ≠ none → relayStepOld z' (.line l) = none := by
  induction cont generalizing z with
  | nil =>
    simp only [relayRunOld, Option.some.injEq] at h
    subst h
    refine ⟨hd, rfl, rfl, fun ok => by simp [relayStepOld, hd], fun ok => by simp [relayStepOld, hd], ?_⟩
    intro l hl
    simp only [relayStepOld, Option.map_eq_none_iff]
    cases h1 : relayStep z.st (.line l) with
    | none => rfl
    | some s' =>
      obtain ⟨_, hen⟩ := relayStep_line_inv h1
      rcases hen with hen | hen
      · rw [hfull] at hen; exact absurd hen (by decide)
      · exact absurd hen hl
  | cons lab rest ih =>
    simp only [relayRunOld] at h
    cases h1 : relayStepOld z lab with
    | none => rw [h1] at h; cases h
    | some z1 =>
      rw [h1, Option.bind_some] at h
      cases lab with
      | line l =>
        simp only [relayStepOld, Option.map_eq_some_iff] at h1
        obtain ⟨s1, hs1, rfl⟩ := h1
        obtain ⟨rfl, hen⟩ := relayStep_line_inv hs1
        have hnone : relayAccept z.st.pktLen l = none := by
          rcases hen with hen | hen
          · rw [hfull] at hen; exact absurd hen (by decide)
          · exact hen
        have := ih _ (by exact hd) (by simp [acceptedBy, hnone, hfull]) h
        simpa [acceptedBy, hnone] using this
      | deq ok => simp [relayStepOld, hd] at h1
      | tick ok => simp [relayStepOld, hd] at h1

/-! ### Non-vacuity: concrete schedules, packet length 8 -/

/-- `"ab"`, `"cd\n"`, `"efg"` are accepted (3 + 3 + 4 bytes: the third does not fit into the first
    datagram), `"12345678"` is over-long, `""` is ignored; the tick flushes `"efg\n"` -/
def exSched : List RelayLabel :=
  [.line [97, 98], .line [99, 100, 10], .deq true, .deq true, .line [101, 102, 103], .deq true,
   .line [49, 50, 51, 52, 53, 54, 55, 56], .line [], .tick true]

example : (relayRun (relayInit 8) exSched).map (fun s => (s.sent, s.lost, s.buffer, s.chan)) =
    some ([[97, 98, 10, 99, 100, 10], [101, 102, 103, 10]], [], [], []) := by decide
example : (relayRun (relayInit 8) exSched).map (fun s => (s.packets, s.longLines, s.relayed)) =
    some (2, 1, 3) := by decide
example : acceptedOf 8 exSched = [[97, 98, 10], [99, 100, 10], [101, 102, 103, 10]] := by decide
example : longOf 8 exSched = 1 := by decide
example : AllOk exSched := by decide
-- the boundary: a line of `n - 1 = 7` bytes is accepted and fills a datagram of exactly 8 bytes
example : acceptedOf 8 [.line [49, 50, 51, 52, 53, 54, 55]] = [[49, 50, 51, 52, 53, 54, 55, 10]] := by decide

/-- the same lines, but the first datagram's send fails: it is lost (and counted), the relay goes on
    and forwards the next datagram -/
def exFail : List RelayLabel :=
  [.line [97, 98], .line [99, 100, 10], .deq true, .deq true, .line [101, 102, 103], .deq false,
   .tick true]

example : (relayRun (relayInit 8) exFail).map (fun s => (s.sent, s.lost, s.buffer, s.packets, s.relayed)) =
    some ([[101, 102, 103, 10]], [[97, 98, 10, 99, 100, 10]], [], 2, 3) := by decide
example : ¬ AllOk exFail := by decide

/-- the original code: one failed send (a tick with one buffered line), then 100 more lines fill the
    channel -/
def exOldDead : List RelayLabel :=
  [.line [97], .deq true, .tick false] ++ List.replicate 100 (.line [97])

-- … the sender is dead, the channel full, and neither the sender nor `RelayLine` can ever move
example : (relayRunOld ⟨relayInit 8, false⟩ exOldDead).map (fun z => (z.dead, z.st.chan.length)) =
    some (true, 100) := by decide
example : (relayRunOld ⟨relayInit 8, false⟩ (exOldDead ++ [.line [97]])).isSome = false := by decide
example : (relayRunOld ⟨relayInit 8, false⟩ (exOldDead ++ [.deq true])).isSome = false := by decide
example : (relayRunOld ⟨relayInit 8, false⟩ (exOldDead ++ [.tick true])).isSome = false := by decide
-- the repaired code, same history: the sender is alive, one receive later `RelayLine` proceeds
example : (relayRun (relayInit 8) (exOldDead ++ [.line [97]])).isSome = false := by decide
example : (relayRun (relayInit 8) (exOldDead ++ [.deq true, .line [97]])).isSome = true := by decide
example : (relayRun (relayInit 8) (exOldDead ++ [.deq false, .line [97]])).isSome = true := by decide

end SE.Props.C17
