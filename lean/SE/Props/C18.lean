import SE.Proofs.Listener
import SE.Props.C17
import SE.Model.System
/-
C18 — Listeners frame lines identically on every transport and account for all of them.
The same payload produces the same events whether it arrives as a UDP datagram, a Unixgram datagram
or a TCP stream: lines are split at newlines only (TCP also strips a carriage return and processes
an unterminated last line at clean end of stream), each line is parsed and relayed exactly once and
counted in the line counter, and a datagram's content is unaffected by datagrams received after it.
Every UDP datagram is either processed or counted as dropped when the packet queue is full, and an
over-long TCP line is counted and closes only that connection.

Model (SE/Model/Listener.lean, from pkg/listener/listener.go and Go's bufio):
 * `datagramLines p = splitOn lf p` — `strings.Split(packet, "\n")` of UDP and Unixgram `HandlePacket`;
 * `UdpQ` — the bounded UDP packet queue, `enqueue buf n` (copy `buf[:n]` or count a drop),
   `process` (handle the oldest packet); here driven by `runUdp s ops` over an ARBITRARY sequence
   `ops` of `UdpOp.enq buf n` / `UdpOp.proc` (a `proc` on an empty queue is a no-op: the goroutine
   would block), i.e. every interleaving of the reader and the processing goroutine;
 * `tcpLinesOfChunks chunks` — `HandleConn`: `bufio.Reader.ReadLine` with a 4096-byte buffer over a
   connection whose successive `Read`s deliver `chunks` (any segmentation: empty chunks, chunks
   larger than the buffer, ...); result `lines` (handed to the parser/relay, each counted in
   `lines_total`) and `tooLong` (`tcp_line_too_long_total` incremented, connection closed).
Specification (SE/Spec/Listener.lean): `tcpLinesOfStream stream` — framing as a function of the
byte stream alone.

Every theorem below holds for ALL payloads, chunkings, queue capacities and operation sequences
(no size bounds). Helper lemmas: SE/Proofs/Listener.lean, SE/Proofs/Bytes.lean.

Two precise points the informal statement glosses over (both are the behaviour of Go's
`bufio.Reader.ReadLine`, reproduced by model and specification, and confirmed on real sockets):
 * the carriage return is stripped only from lines that are terminated by `\n`; an unterminated
   last line ending in `\r` is handed on WITH the `\r` (`unterminated_tail_keeps_cr`);
 * an empty line is a line on every transport (counted, no event); a stream that ends with `\n`
   has no further (empty) line after it on TCP, while `strings.Split` yields a final empty piece on
   the datagram transports. Hence `tcp_eq_udp` compares the non-empty lines — the ones that are
   parsed and relayed.
-/
namespace SE.Props.C18
open SE

/-! ## 1. TCP: the segmentation of the stream is irrelevant -/

/-- MAIN THEOREM. For every list of chunks (what the successive `Read`s on the connection return —
    any sizes, including empty chunks and chunks larger than bufio's 4096-byte buffer), the
    chunk-level model of `HandleConn`/`bufio.Reader.ReadLine` hands on exactly the lines, and
    reports exactly the "line too long" outcome, that the stream-level specification assigns to
    the concatenation of the chunks. No hypotheses. In particular the fuel `chunks.length + 2`
    that the model gives each `ReadLine`, and the overall fuel of `tcpLinesOfChunks`, always
    suffice. -/
theorem tcp_segmentation_irrelevant (chunks : List Bytes) :
    (tcpLinesOfChunks chunks).lines = (tcpLinesOfStream chunks.flatten).lines ∧
    (tcpLinesOfChunks chunks).tooLong = (tcpLinesOfStream chunks.flatten).tooLong := by
  rw [tcpLinesOfChunks_eq]
  exact ⟨rfl, rfl⟩

/-- Two segmentations of the same byte stream give the same lines and the same outcome. -/
theorem tcp_depends_only_on_stream (chunks1 chunks2 : List Bytes)
    (h : chunks1.flatten = chunks2.flatten) :
    (tcpLinesOfChunks chunks1).lines = (tcpLinesOfChunks chunks2).lines ∧
    (tcpLinesOfChunks chunks1).tooLong = (tcpLinesOfChunks chunks2).tooLong := by
  rw [tcpLinesOfChunks_eq, tcpLinesOfChunks_eq, h]
  exact ⟨rfl, rfl⟩

/-- The step behind the main theorem, and the answer to the fuel question: in ANY reader state
    whose buffer holds at most 4096 bytes, one `ReadLine` with ANY fuel of at least
    `chunks.length + 1` does to the remaining stream (`s.rem` = buffered bytes followed by all bytes
    still to be read) exactly what one step of the specification does (`specRead`: a line and the
    rest of the stream / too long / end of stream), and leaves at most 4096 bytes buffered.
    (A `Read` that does not fit into the free space is split and then does not reduce the number of
    chunks — but the buffer is full afterwards, so the next iteration ends the call.) -/
theorem tcp_readline_step (s : RdSt) (fuel : Nat) (hb : s.buf.length ≤ bufSize)
    (hf : s.chunks.length + 1 ≤ fuel) :
    absRead (s.readLine fuel) = specRead s.rem ∧ (s.readLine fuel).2.buf.length ≤ bufSize := by
  apply readLine_spec fuel s hb
  unfold RdSt.need
  split <;> omega

/-! ## 2. TCP lines are the pieces between newlines -/

/-- Exact characterisation of the specification for EVERY stream, in terms of
    `strings.Split(stream, "\n")`: `tcpFrame` walks the pieces — a piece followed by a newline is a
    line with one trailing `\r` stripped, the last piece is the unterminated tail (a line, as it
    is, unless empty), and the first piece of 4096 bytes or more ends the connection as
    "too long". No hypotheses. -/
theorem tcp_frame_exact (stream : Bytes) :
    (tcpLinesOfStream stream).lines = (tcpFrame (splitOn lf stream)).1 ∧
    (tcpLinesOfStream stream).tooLong = (tcpFrame (splitOn lf stream)).2 :=
  tcpLinesOfStream_eq_frame stream

/-- Lines are split at newlines only. Hypothesis: every piece of the stream between newlines is
    shorter than 4096 bytes. Then the connection is not closed as "too long", and the lines are:
    every piece but the last with one trailing `\r` stripped, followed by the last piece (the
    unterminated tail) as it is, unless it is empty. -/
theorem tcp_lines_split_at_newline_only (stream : Bytes)
    (hshort : ∀ l ∈ splitOn lf stream, l.length < bufSize) :
    (tcpLinesOfStream stream).tooLong = false ∧
    (tcpLinesOfStream stream).lines =
      (splitOn lf stream).dropLast.map stripCR ++
        (match (splitOn lf stream).getLast? with
         | some t => if t.isEmpty then [] else [t]
         | none => []) := by
  obtain ⟨h1, h2⟩ := tcpLinesOfStream_eq_frame stream
  rw [h1, h2, tcpFrame_short _ hshort, tcpShortLines_eq]
  exact ⟨rfl, rfl⟩

/-- A stream that ends with a newline, `p ++ "\n"` (the normal case): the lines are exactly the
    pieces of `p`, each with one trailing `\r` stripped — no extra empty line for the final newline.
    Hypothesis: every piece of `p` is shorter than 4096 bytes. -/
theorem tcp_lines_terminated (p : Bytes) (hshort : ∀ l ∈ splitOn lf p, l.length < bufSize) :
    (tcpLinesOfStream (p ++ [lf])).tooLong = false ∧
    (tcpLinesOfStream (p ++ [lf])).lines = (splitOn lf p).map stripCR := by
  obtain ⟨h1, h2⟩ := tcpLinesOfStream_eq_frame (p ++ [lf])
  have hs : splitOn lf (p ++ [lf]) = splitOn lf p ++ [[]] := splitOn_append_sep lf p []
  have hshort' : ∀ l ∈ splitOn lf p ++ [[]], l.length < bufSize := by
    intro l hl
    rcases List.mem_append.mp hl with h | h
    · exact hshort l h
    · simp only [List.mem_singleton] at h; subst h; simp [bufSize]
  rw [h1, h2, hs, tcpFrame_short _ hshort', tcpShortLines_terminated]
  exact ⟨rfl, rfl⟩

/-- Without carriage returns the TCP lines are the datagram lines of the same payload, minus a
    final empty piece. Hypotheses: no `\r` in the payload; every line shorter than 4096 bytes. -/
theorem tcp_lines_no_cr (p : Bytes) (hcr : cr ∉ p)
    (hshort : ∀ l ∈ datagramLines p, l.length < bufSize) :
    (tcpLinesOfStream p).tooLong = false ∧
    (tcpLinesOfStream p).lines =
      if (datagramLines p).getLast? = some [] then (datagramLines p).dropLast else datagramLines p := by
  obtain ⟨h1, h2⟩ := tcpLinesOfStream_eq_frame p
  rw [h1, h2]
  unfold datagramLines at hshort ⊢
  rw [tcpFrame_short _ hshort,
    tcpShortLines_no_cr _ (fun q hq hc => hcr (mem_of_mem_splitOn hq hc))]
  exact ⟨rfl, rfl⟩

/-- The same payload gives the same lines to parse and relay on the stream transport and on the
    datagram transports: the NON-EMPTY lines coincide (the listeners relay and parse only lines with
    `len(line) > 0`; an empty line produces no event on any transport).
    Hypotheses: no `\r` in the payload; every line shorter than 4096 bytes. -/
theorem tcp_eq_udp (p : Bytes) (hcr : cr ∉ p) (hshort : ∀ l ∈ datagramLines p, l.length < bufSize) :
    (tcpLinesOfStream p).lines.filter (fun l => !l.isEmpty) =
      (datagramLines p).filter (fun l => !l.isEmpty) := by
  obtain ⟨h1, _⟩ := tcpLinesOfStream_eq_frame p
  rw [h1]
  unfold datagramLines at hshort ⊢
  rw [tcpFrame_short _ hshort]
  exact filter_tcpShortLines_no_cr _ (fun q hq hc => hcr (mem_of_mem_splitOn hq hc))

/-- … and end to end for the chunk model: however the kernel segments the payload, the TCP
    listener parses and relays the same non-empty lines as a datagram listener receiving the
    payload in one datagram. Same hypotheses. -/
theorem tcp_chunks_eq_udp (chunks : List Bytes) (hcr : cr ∉ chunks.flatten)
    (hshort : ∀ l ∈ datagramLines chunks.flatten, l.length < bufSize) :
    (tcpLinesOfChunks chunks).tooLong = false ∧
    (tcpLinesOfChunks chunks).lines.filter (fun l => !l.isEmpty) =
      (datagramLines chunks.flatten).filter (fun l => !l.isEmpty) := by
  rw [tcpLinesOfChunks_eq]
  exact ⟨(tcp_lines_no_cr _ hcr hshort).1, tcp_eq_udp _ hcr hshort⟩

/-- The carriage return is stripped from newline-terminated lines only: the unterminated last line
    `b\r` is handed on with its `\r` (as `bufio.Reader.ReadLine` does at EOF). -/
theorem unterminated_tail_keeps_cr :
    (tcpLinesOfStream [97, cr, lf, 98, cr]).lines = [[97], [98, cr]] := by decide

/-! ## 3. An over-long line ends the connection, and only then -/

/-- In terms of pieces: if the pieces of the stream are `pre ++ l :: post` with every piece of
    `pre` shorter than 4096 bytes and `l` of 4096 bytes or more, then the connection ends as
    "too long", the lines before `l` have all been handed on (each is newline-terminated, so each
    with one `\r` stripped), and nothing of `l` or after it is. -/
theorem tcp_long_line_stops_connection (stream : Bytes) (pre : List Bytes) (l : Bytes)
    (post : List Bytes) (hsplit : splitOn lf stream = pre ++ l :: post)
    (hshort : ∀ q ∈ pre, q.length < bufSize) (hlong : bufSize ≤ l.length) :
    (tcpLinesOfStream stream).tooLong = true ∧
    (tcpLinesOfStream stream).lines = pre.map stripCR := by
  obtain ⟨h1, h2⟩ := tcpLinesOfStream_eq_frame stream
  rw [h1, h2, hsplit, tcpFrame_long pre l post hshort hlong]
  exact ⟨rfl, rfl⟩

/-- In terms of the stream: let the stream be `a ++ b` where `a` is empty or ends with a newline
    (so a line starts at `b`), every line of `a` is shorter than 4096 bytes, and there is no
    newline among the next 4096 bytes (`b` has at least 4096 bytes and none of its first 4096 is
    `\n`). Then the connection ends as "too long" and it has handed on exactly the lines of `a`. -/
theorem tcp_long_line_stops_connection_stream (a b : Bytes)
    (ha : a = [] ∨ ∃ a', a = a' ++ [lf])
    (hshort : ∀ q ∈ splitOn lf a, q.length < bufSize)
    (hlen : bufSize ≤ b.length) (hnl : indexOf lf (b.take bufSize) = none) :
    (tcpLinesOfStream (a ++ b)).tooLong = true ∧
    (tcpLinesOfStream (a ++ b)).lines = (tcpLinesOfStream a).lines := by
  obtain ⟨l, post, hb⟩ := splitOn_exists lf b
  have hl := splitOn_head_long hnl hlen hb
  rcases ha with rfl | ⟨a', rfl⟩
  · have := tcp_long_line_stops_connection ([] ++ b) [] l post (by simpa using hb) (by simp) hl
    refine ⟨this.1, ?_⟩
    rw [this.2]
    decide
  · have hsa : splitOn lf (a' ++ [lf]) = splitOn lf a' ++ [[]] := splitOn_append_sep lf a' []
    have hshort' : ∀ q ∈ splitOn lf a', q.length < bufSize := by
      intro q hq
      exact hshort q (by rw [hsa]; exact List.mem_append_left _ hq)
    have hs : splitOn lf (a' ++ [lf] ++ b) = splitOn lf a' ++ l :: post := by
      rw [List.append_assoc, List.singleton_append, splitOn_append_sep, hb]
    have := tcp_long_line_stops_connection _ _ l post hs hshort' hl
    refine ⟨this.1, ?_⟩
    rw [this.2, (tcp_lines_terminated a' hshort').2]

/-- Conversely, "too long" happens only for a long line: if the outcome is "too long" then some
    piece of the stream has 4096 bytes or more. -/
theorem tcp_too_long_only_if_long_line (stream : Bytes) (h : (tcpLinesOfStream stream).tooLong = true) :
    ∃ l ∈ splitOn lf stream, bufSize ≤ l.length := by
  apply Classical.byContradiction
  intro hn
  have hshort : ∀ l ∈ splitOn lf stream, l.length < bufSize := by
    intro l hl
    rcases Nat.lt_or_ge l.length bufSize with h1 | h1
    · exact h1
    · exact absurd ⟨l, hl, h1⟩ hn
  rw [(tcp_lines_split_at_newline_only stream hshort).1] at h
  cases h

/-! ## 4. Each line exactly once -/

/-- Datagram transports (UDP, Unixgram): the lines are a function of the datagram's bytes alone
    (`datagramLines` has no other argument); re-joining them with newlines gives back the datagram —
    no byte is lost, duplicated or moved to another line — and no line contains a newline. -/
theorem each_line_once (p : Bytes) :
    joinWith lf (datagramLines p) = p ∧ ∀ l ∈ datagramLines p, lf ∉ l :=
  ⟨joinWith_splitOn lf p, fun _ hl => not_mem_of_mem_splitOn hl⟩

/-- … and the lines are the only such decomposition: any list of newline-free lines that re-joins
    to the datagram is `datagramLines` of it. -/
theorem datagram_lines_unique (p : Bytes) (ls : List Bytes) (hne : ls ≠ [])
    (hnl : ∀ l ∈ ls, lf ∉ l) (hjoin : joinWith lf ls = p) : datagramLines p = ls := by
  rw [← hjoin]
  exact splitOn_joinWith hne hnl

/-- TCP, payload `p` sent with a final newline, without `\r`, every line shorter than 4096 bytes:
    the connection hands on exactly the datagram lines of `p`, so re-joining them gives back `p`. -/
theorem each_line_once_tcp (p : Bytes) (hcr : cr ∉ p)
    (hshort : ∀ l ∈ datagramLines p, l.length < bufSize) :
    (tcpLinesOfStream (p ++ [lf])).lines = datagramLines p ∧
    joinWith lf (tcpLinesOfStream (p ++ [lf])).lines = p := by
  have h : (tcpLinesOfStream (p ++ [lf])).lines = datagramLines p := by
    rw [(tcp_lines_terminated p hshort).2]
    unfold datagramLines
    have : ∀ q ∈ splitOn lf p, stripCR q = q :=
      fun q hq => stripCR_of_not_mem (fun hc => hcr (mem_of_mem_splitOn hq hc))
    rw [List.map_congr_left this, List.map_id']
  exact ⟨h, by rw [h]; exact joinWith_splitOn lf p⟩

/-! ## 4b. … and relayed exactly once -/

/-- Listener and relay composed. Let the relay (packet length `n`) be fed by listeners that handle the datagrams
    `dgrams` (in the order in which their `RelayLine` calls reach the relay; `hcalls`: the `.line` labels of the
    schedule are exactly `relayCallsOf` of the datagrams' lines), under ANY schedule of the sender goroutine's steps in
    between, all sends succeeding. Once channel and buffer are empty (at the latest after the next tick,
    `SE.Props.C17.tick_forwards_everything_dequeued`), the bytes received by the target are exactly the non-empty lines
    of the datagrams that fit, in order, each exactly once and followed by one newline. -/
theorem datagram_lines_relayed_once (n : Nat) (dgrams : List Bytes) (sched : List RelayLabel) (s : RelaySt)
    (hcalls : linesOf sched = relayCallsOf (dgrams.flatMap datagramLines))
    (h : relayRun (relayInit n) sched = some s) (hok : AllOk sched) (hc : s.chan = []) (hb : s.buffer = []) :
    s.sent.flatten =
      (((dgrams.flatMap datagramLines).filter (lineFits n)).map (· ++ [lf])).flatten := by
  rw [SE.Props.C17.all_forwarded_at_quiescence n sched s h hok hc hb,
    (SE.Props.C17.accepted_lines_intact n sched).1, hcalls]
  unfold relayCallsOf
  rw [List.filter_filter]
  have hf : ∀ l : Bytes, (lineFits n l && !l.isEmpty) = lineFits n l := by
    intro l; unfold lineFits; cases l.isEmpty <;> simp
  simp only [hf]
  congr 1
  apply List.map_congr_left
  intro l hl
  have hmem : l ∈ dgrams.flatMap datagramLines := (List.mem_filter.mp hl).1
  obtain ⟨p, _, hlp⟩ := List.mem_flatMap.mp hmem
  have hnl : lf ∉ l := (each_line_once p).2 l hlp
  unfold terminate
  have : l.getLast? ≠ some newline := by
    intro hlast
    exact hnl (List.mem_of_getLast? hlast)
  rw [if_neg (by simpa using this)]
  rfl

/-- the same for a TCP connection: the `RelayLine` calls are `relayCallsOf` of the connection's lines -/
theorem tcp_lines_relayed_once (n : Nat) (stream : Bytes) (sched : List RelayLabel) (s : RelaySt)
    (hcalls : linesOf sched = relayCallsOf (tcpLinesOfStream stream).lines)
    (h : relayRun (relayInit n) sched = some s) (hok : AllOk sched) (hc : s.chan = []) (hb : s.buffer = []) :
    s.sent.flatten = (((tcpLinesOfStream stream).lines.filter (lineFits n)).map terminate).flatten := by
  rw [SE.Props.C17.all_forwarded_at_quiescence n sched s h hok hc hb,
    (SE.Props.C17.accepted_lines_intact n sched).1, hcalls]
  unfold relayCallsOf
  rw [List.filter_filter]
  have hf : ∀ l : Bytes, (lineFits n l && !l.isEmpty) = lineFits n l := by
    intro l; unfold lineFits; cases l.isEmpty <;> simp
  simp only [hf]

/-- non-vacuity: a schedule that satisfies the hypotheses for the datagram "ab\n\ncd" and packet length 8 -/
example : ∃ sched s, linesOf sched = relayCallsOf ([[97, 98, 10, 10, 99, 100]].flatMap datagramLines) ∧
    relayRun (relayInit 8) sched = some s ∧ AllOk sched ∧ s.chan = [] ∧ s.buffer = [] ∧
    s.sent = [[97, 98, 10, 99, 100, 10]] :=
  ⟨[.line [97, 98], .line [99, 100], .deq true, .deq true, .tick true], _, by decide, rfl, by decide, rfl, rfl, rfl⟩

/-! ## 4c. The same payload produces the same exporter state on every transport -/

section endToEnd
variable {V : Type} [NumOps V]

/-- an empty line produces no event: the exporter state is untouched -/
theorem empty_line_is_noop (fl : ParserFlags) (pf : Pf V) (rx : Rx) (p : Pipe V) (rest : List (PipeOp V)) :
    runOps rx p (lineOp fl pf [] :: rest) = runOps rx p rest := by
  simp [lineOp, lineToEvents, runOps, handleEvents]

/-- … hence only the non-empty lines of a payload matter -/
theorem only_nonempty_lines_matter (fl : ParserFlags) (pf : Pf V) (rx : Rx) (ls : List Bytes) (p : Pipe V)
    (rest : List (PipeOp V)) :
    runOps rx p (ls.map (lineOp fl pf) ++ rest) =
      runOps rx p ((ls.filter fun l => !l.isEmpty).map (lineOp fl pf) ++ rest) := by
  induction ls generalizing p with
  | nil => rfl
  | cons l ls ih =>
    cases l with
    | nil =>
      simp only [List.map_cons, List.cons_append, List.filter_cons, List.isEmpty_nil, Bool.not_true,
        Bool.false_eq_true, if_false]
      rw [empty_line_is_noop]; exact ih p
    | cons b bs =>
      simp only [List.map_cons, List.cons_append, List.filter_cons, List.isEmpty_cons, Bool.not_false, if_true]
      cases hop : lineOp fl pf (b :: bs) with
      | line tags evs =>
        simp only [runOps]
        cases handleEvents p rx tags evs with
        | none => rfl
        | some r =>
          cases r with
          | error e => rfl
          | ok p' => exact ih p'
      | sweep => simp [lineOp] at hop
      | advance n => simp [lineOp] at hop
      | reload m => simp [lineOp] at hop

/-- **Transport independence, end to end.** A payload without `\r` whose lines are shorter than 4096 bytes leaves the
    exporter (mapper, registry, internal counters of the pipeline model) in the same state — including the same panic or
    "outside the model" outcome — whether it arrives as one UDP/Unixgram datagram or as the byte stream of a TCP
    connection, for every parser configuration, number parser, regex oracle, starting state and continuation `rest`. -/
theorem transport_independent (fl : ParserFlags) (pf : Pf V) (rx : Rx) (p : Pipe V) (payload : Bytes)
    (hcr : cr ∉ payload) (hshort : ∀ l ∈ datagramLines payload, l.length < bufSize) (rest : List (PipeOp V)) :
    runOps rx p (tcpOps fl pf payload ++ rest) = runOps rx p (datagramOps fl pf payload ++ rest) := by
  unfold tcpOps datagramOps
  rw [only_nonempty_lines_matter, only_nonempty_lines_matter fl pf rx (datagramLines payload), tcp_eq_udp payload hcr hshort]

/-- **Packing is irrelevant.** Sending two payloads in one datagram, separated by a newline, is the same as sending them
    in two datagrams one after the other (so a client may batch lines into datagrams in any way). -/
theorem datagram_packing_irrelevant (fl : ParserFlags) (pf : Pf V) (d1 d2 : Bytes) :
    datagramOps fl pf (d1 ++ lf :: d2) = datagramOps fl pf d1 ++ datagramOps fl pf d2 := by
  unfold datagramOps datagramLines
  rw [splitOn_append_sep, List.map_append]

/-- the exporter state after a sequence of datagrams is the state after the sequence of their lines -/
theorem datagrams_are_their_lines (fl : ParserFlags) (pf : Pf V) (ds : List Bytes) :
    ds.flatMap (datagramOps fl pf) = (ds.flatMap datagramLines).map (lineOp fl pf) := by
  induction ds with
  | nil => rfl
  | cons d ds ih => simp only [List.flatMap_cons, List.map_append, ih]; rfl

/-- non-vacuity: the payload "a:1|c\n\nb:2|g" (with an empty line in the middle) meets the hypotheses of
    `transport_independent`, and its TCP and datagram line lists really differ in shape only by what the theorem ignores -/
example : cr ∉ ([97, 58, 49, 124, 99, 10, 10, 98, 58, 50, 124, 103] : Bytes) ∧
    (∀ l ∈ datagramLines [97, 58, 49, 124, 99, 10, 10, 98, 58, 50, 124, 103], l.length < bufSize) ∧
    (datagramLines [97, 58, 49, 124, 99, 10, 10, 98, 58, 50, 124, 103]).length = 3 := by decide

end endToEnd

/-! ## 5. The UDP packet queue -/

/-- Accounting. After ANY sequence of operations from the empty queue of capacity `c`:
    `udp_packets_total` is the number of `EnqueueUdpPacket` calls, and every one of those datagrams
    is exactly one of: processed (`successfulProcs` = the processing steps that took a packet off
    the queue), counted in `udp_packet_drops_total`, or still waiting in the queue; the queue never
    holds more than `c` packets. -/
theorem udp_accounting (c : Nat) (ops : List UdpOp) :
    let s := runUdp { cap := c } ops
    s.packets = numEnq ops ∧
    numEnq ops = successfulProcs { cap := c } ops + s.drops + s.queue.length ∧
    s.queue.length ≤ c ∧ s.cap = c := by
  intro s
  have h := udp_reachable c ops
  have he := udpAcctFrom_enqs c ops {}
  have hp := successfulProcs_eq ops (UdpRel.init c)
  have he' : (udpAcct c ops).enqs = numEnq ops := by simpa [udpAcct] using he
  have hp' : (udpAcct c ops).processed = successfulProcs { cap := c } ops := by simpa [udpAcct] using hp
  have hq : s.queue.length = (udpAcct c ops).accepted.length - (udpAcct c ops).processed := by
    rw [h.queue, List.length_drop]
  have hle := h.le
  have ht := h.total
  have hd : s.drops = (udpAcct c ops).dropped := h.drops
  refine ⟨by rw [← he']; exact h.packets, ?_, h.room, h.cap⟩
  omega

/-- Isolation, explicit formula. After any operation sequence, with `a = udpAcct c ops` (computed
    from the operation sequence and the capacity alone): the lines handed on are the concatenation,
    in arrival order, of `datagramLines` of the first `a.processed` accepted packets; the queue
    holds the remaining accepted packets; and every accepted packet is the copy `buf.take n` made
    by one of the `enq buf n` operations (in order, as a subsequence of all enqueued copies). Each
    handled line group is therefore a function of its OWN datagram's bytes at enqueue time — the
    later contents of the shared read buffer, and later datagrams, do not enter. -/
theorem udp_packet_isolated (c : Nat) (ops : List UdpOp) :
    let s := runUdp { cap := c } ops
    let a := udpAcct c ops
    s.handled = ((a.accepted.take a.processed).map datagramLines).flatten ∧
    s.queue = a.accepted.drop a.processed ∧
    a.accepted.Sublist (ops.filterMap UdpOp.payload) ∧
    a.processed = successfulProcs { cap := c } ops := by
  intro s a
  have h := udp_reachable c ops
  obtain ⟨t, ht, hsub⟩ := udpAcctFrom_accepted_sublist c ops {}
  have hp := successfulProcs_eq ops (UdpRel.init c)
  refine ⟨h.handled, h.queue, ?_, by simpa [a, udpAcct] using hp⟩
  have : a.accepted = t := by simpa [a, udpAcct] using ht
  rw [this]; exact hsub

/-- Isolation, two runs. Let two operation sequences share the prefix `pre` and continue with
    `post` resp. `post'` of the same shape (the same kinds of operations in the same order; the
    later `enq`s may carry ANY other buffers and lengths). Then the packets accepted during `pre`
    are the first accepted packets of both runs, unchanged; both runs accept, drop and process the
    same number of packets; and the line groups handed on for the packets accepted during `pre`
    (`groups.take k`) are identical in both runs. -/
theorem udp_later_datagrams_irrelevant (c : Nat) (pre post post' : List UdpOp)
    (hshape : SameShape post post') :
    let a0 := udpAcct c pre
    let a := udpAcct c (pre ++ post)
    let a' := udpAcct c (pre ++ post')
    a.accepted.take a0.accepted.length = a0.accepted ∧
    a'.accepted.take a0.accepted.length = a0.accepted ∧
    a.accepted.length = a'.accepted.length ∧ a.processed = a'.processed ∧ a.dropped = a'.dropped ∧
    a.groups.take a0.accepted.length = a'.groups.take a0.accepted.length ∧
    (runUdp { cap := c } (pre ++ post)).handled = a.groups.flatten ∧
    (runUdp { cap := c } (pre ++ post')).handled = a'.groups.flatten := by
  intro a0 a a'
  have e1 : a = udpAcctFrom c a0 post := udpAcctFrom_append c {} pre post
  have e2 : a' = udpAcctFrom c a0 post' := udpAcctFrom_append c {} pre post'
  obtain ⟨u, u', h1, h2, h3, h4, h5⟩ :=
    udpAcctFrom_shape c a0.accepted hshape a0 a0 [] [] (by simp) (by simp) rfl rfl rfl
  rw [← e1] at h1 h4 h5
  rw [← e2] at h2 h4 h5
  have t1 : a.accepted.take a0.accepted.length = a0.accepted := by rw [h1]; simp
  have t2 : a'.accepted.take a0.accepted.length = a0.accepted := by rw [h2]; simp
  refine ⟨t1, t2, by rw [h1, h2, List.length_append, List.length_append, h3], h4, h5, ?_,
    (udp_reachable c _).handled, (udp_reachable c _).handled⟩
  simp only [UdpAcct.groups, ← List.map_take, List.take_take]
  rw [← h4]
  have m1 : min a0.accepted.length a.processed = min (min a0.accepted.length a.processed) a0.accepted.length := by
    omega
  rw [m1, ← List.take_take, t1, ← List.take_take (l := a'.accepted), t2]

/-- A datagram is dropped iff the queue is full. In every reachable state `s` (any operation
    sequence from the empty queue of capacity `c`), `EnqueueUdpPacket(buf, n)` always counts the
    packet, and: the drop counter moves iff the queue holds `c` packets; if it does, queue and
    handled lines are unchanged; if it does not, the copy `buf.take n` is appended to the queue and
    no drop is counted. -/
theorem udp_drop_iff_full (c : Nat) (ops : List UdpOp) (buf : Bytes) (n : Nat) :
    let s := runUdp { cap := c } ops
    let s' := s.enqueue buf n
    s'.packets = s.packets + 1 ∧
    (s'.drops = s.drops + 1 ↔ s.queue.length = c) ∧
    (s.queue.length = c → s'.queue = s.queue ∧ s'.handled = s.handled ∧ s'.drops = s.drops + 1) ∧
    (s.queue.length < c → s'.queue = s.queue ++ [buf.take n] ∧ s'.handled = s.handled ∧
      s'.drops = s.drops) := by
  intro s s'
  have h := udp_reachable c ops
  have hcap : s.cap = c := h.cap
  have hroom : s.queue.length ≤ c := h.room
  by_cases hc : s.queue.length < c
  · have e : s' = { s with packets := s.packets + 1, queue := s.queue ++ [buf.take n] } := by
      simp [s', UdpQ.enqueue, hcap, hc]
    rw [e]
    refine ⟨rfl, ⟨fun h1 => ?_, fun h1 => ?_⟩, fun h1 => ?_, fun _ => ⟨rfl, rfl, rfl⟩⟩
    · dsimp only at h1; omega
    · omega
    · omega
  · have e : s' = { s with packets := s.packets + 1, drops := s.drops + 1 } := by
      simp [s', UdpQ.enqueue, hcap, hc]
    rw [e]
    exact ⟨rfl, ⟨fun _ => by omega, fun _ => rfl⟩, fun _ => ⟨rfl, rfl, rfl⟩, fun h1 => absurd h1 hc⟩

/-! ## The `Listen` loop with a held processing goroutine is the packet queue with one more slot

The `udpl` stream drives the real `Listen` loop on a socket while a gated parser holds the processing goroutine, and
compares it with `UdpQ` of capacity `cap + 1`. That choice of model is justified here: the two-stage model `UdpL` (one
packet in flight + a channel of `cap`) refines `UdpQ (cap + 1)` step by step, so every `UdpQ` theorem above (accounting,
drop iff full, a datagram's lines are those of its own bytes) speaks about the loop with its consumer behind as well. -/

inductive UdpLOp
  | recv (buf : Bytes) (n : Nat)
  | release
  deriving Repr

def stepUdpL (s : UdpL) : UdpLOp → UdpL
  | .recv buf n => s.recv buf n
  | .release => s.release.getD s

def UdpLOp.toQ : UdpLOp → UdpOp
  | .recv buf n => .enq buf n
  | .release => .proc

theorem udpl_recv_refines (s : UdpL) (h : s.Inv) (buf : Bytes) (n : Nat) :
    (s.recv buf n).abs = s.abs.enqueue buf n ∧ (s.recv buf n).Inv := by
  unfold UdpL.Inv at h
  cases hi : s.inflight with
  | none =>
    have hq := h hi
    constructor
    · simp [UdpL.recv, UdpL.abs, UdpQ.enqueue, hi, hq]
    · intro h2
      simp [UdpL.recv, hi, hq] at h2
  | some p =>
    by_cases hc : s.queue.length < s.cap
    · constructor
      · simp [UdpL.recv, UdpL.abs, UdpQ.enqueue, hi, hc]
      · intro h2; simp [UdpL.recv, hi, hc] at h2
    · constructor
      · have hc' : ¬ (s.queue.length + 1 < s.cap + 1) := by omega
        simp [UdpL.recv, UdpL.abs, UdpQ.enqueue, hi, hc, hc']
      · intro h2; simp [UdpL.recv, hi, hc] at h2

theorem udpl_release_refines (s : UdpL) (h : s.Inv) :
    (s.release.map UdpL.abs) = s.abs.process ∧ (∀ s', s.release = some s' → s'.Inv) := by
  unfold UdpL.Inv at h
  cases hi : s.inflight with
  | none =>
    have hq := h hi
    constructor
    · simp [UdpL.release, UdpL.abs, UdpQ.process, hi, hq]
    · intro s' e; simp [UdpL.release, hi] at e
  | some p =>
    cases hq : s.queue with
    | nil =>
      constructor
      · simp [UdpL.release, UdpL.abs, UdpQ.process, hi, hq]
      · intro s' e
        simp [UdpL.release, hi, hq] at e
        subst e
        intro _; rfl
    | cons q rest =>
      constructor
      · simp [UdpL.release, UdpL.abs, UdpQ.process, hi, hq]
      · intro s' e
        simp [UdpL.release, hi, hq] at e
        subst e
        intro h2; simp at h2

theorem udpl_step_refines (s : UdpL) (h : s.Inv) (op : UdpLOp) :
    (stepUdpL s op).abs = stepUdp s.abs op.toQ ∧ (stepUdpL s op).Inv := by
  cases op with
  | recv buf n => exact udpl_recv_refines s h buf n
  | release =>
    obtain ⟨h1, h2⟩ := udpl_release_refines s h
    cases hr : s.release with
    | none =>
      rw [hr] at h1
      simp only [stepUdpL, UdpLOp.toQ, stepUdp, hr, Option.getD_none]
      rw [← h1]
      exact ⟨rfl, h⟩
    | some s' =>
      rw [hr] at h1
      simp only [stepUdpL, UdpLOp.toQ, stepUdp, hr, Option.getD_some]
      rw [← h1]
      exact ⟨rfl, h2 s' hr⟩

/-- **The `Listen` loop with its consumer held back behaves as the packet queue with `cap + 1` slots**, for every
    sequence of arrivals and releases: same counters, same pending packets in the same order, same lines handed on. -/
theorem udpl_refines_queue (c : Nat) (ops : List UdpLOp) :
    (ops.foldl stepUdpL { cap := c }).abs = runUdp { cap := c + 1 } (ops.map UdpLOp.toQ) ∧
    (ops.foldl stepUdpL { cap := c }).Inv := by
  have gen : ∀ (ops : List UdpLOp) (s : UdpL), s.Inv →
      (ops.foldl stepUdpL s).abs = runUdp s.abs (ops.map UdpLOp.toQ) ∧ (ops.foldl stepUdpL s).Inv := by
    intro ops
    induction ops with
    | nil => intro s h; exact ⟨rfl, h⟩
    | cons op ops ih =>
      intro s h
      obtain ⟨e, h'⟩ := udpl_step_refines s h op
      obtain ⟨e2, h2⟩ := ih (stepUdpL s op) h'
      refine ⟨?_, h2⟩
      simp only [List.foldl_cons, List.map_cons, runUdp] at e2 ⊢
      rw [e2, e]
  exact gen ops { cap := c } (fun _ => rfl)

/-- hence a datagram is dropped by the loop iff one packet is in flight and `cap` are waiting -/
theorem udpl_drop_iff_full (c : Nat) (ops : List UdpLOp) (buf : Bytes) (n : Nat) :
    let s := ops.foldl stepUdpL { cap := c }
    ((s.recv buf n).drops = s.drops + 1 ↔ s.inflight.toList.length + s.queue.length = c + 1) := by
  intro s
  obtain ⟨e, hinv⟩ := udpl_refines_queue c ops
  have h1 := (udp_drop_iff_full (c + 1) (ops.map UdpLOp.toQ) buf n).2.1
  rw [← e] at h1
  have h2 := (udpl_recv_refines s hinv buf n).1
  have h3 : (s.recv buf n).drops = (s.abs.enqueue buf n).drops := by rw [← h2]; rfl
  rw [h3]
  simpa [UdpL.abs] using h1

-- non-vacuity: capacity 1; d1 goes in flight, d2 waits, d3 is dropped, a release hands d1 on and takes d2
example :
    let s := [UdpLOp.recv [100, 49] 2, .recv [100, 50] 2, .recv [100, 51] 2, .release].foldl stepUdpL { cap := 1 }
    s.inflight = some [100, 50] ∧ s.queue = [] ∧ s.packets = 3 ∧ s.drops = 1 ∧ s.handled = [[100, 49]] := by decide

/-! ## Non-vacuity -/

/-- the payload `a\r\nbb\n\nc`: a CRLF line, an LF line, an empty line, an unterminated tail -/
def exPayload : Bytes := [97, cr, lf, 98, 98, lf, lf, 99]

example : (tcpLinesOfStream exPayload).lines = [[97], [98, 98], [], [99]] := by decide
example : (tcpLinesOfStream exPayload).tooLong = false := by decide
-- three segmentations of it: one chunk; byte by byte with empty reads in between; split inside CRLF
example : (tcpLinesOfChunks [exPayload]).lines = [[97], [98, 98], [], [99]] := by decide
example : (tcpLinesOfChunks [[97], [], [cr], [lf], [], [98], [98], [lf], [lf], [99], []]).lines =
    [[97], [98, 98], [], [99]] := by decide
example : (tcpLinesOfChunks [[97, cr], [lf, 98, 98, lf, lf, 99]]).lines = [[97], [98, 98], [], [99]] := by
  decide
-- the datagram transports keep the `\r` and see the same pieces
example : datagramLines exPayload = [[97, cr], [98, 98], [], [99]] := by decide
-- without `\r` and with a final newline: TCP lines = datagram lines minus the final empty piece
example : (tcpLinesOfStream [97, lf, 98, lf]).lines = [[97], [98]] := by decide
example : datagramLines [97, lf, 98, lf] = [[97], [98], []] := by decide

/-! A line of exactly 4096 bytes before its newline is too long, one of 4095 bytes is not — in
every segmentation (kernel-evaluated on the chunk model itself). -/

def x4096 : Bytes := List.replicate 4096 120
def x4095 : Bytes := List.replicate 4095 120

/-- both components of an outcome at once (so that the kernel evaluates the run only once) -/
def outcomeIs (o : TcpOut) (ls : List Bytes) (b : Bool) : Bool := o.tooLong == b && o.lines == ls

-- `a\r\n`, then 4096 `x`, then `\nb\n`, cut inside the CRLF, with an empty read, the long line
-- spread over a chunk larger than the buffer, the newline in its own chunk: `a` is handed on, then
-- the connection ends as too long
set_option maxRecDepth 100000 in
example : outcomeIs (tcpLinesOfChunks [[97, cr], [], [lf] ++ x4096, [lf], [98, lf]]) [[97]] true = true := by
  decide +kernel
-- 4095 bytes and the newline fit: nothing is too long, the tail `b` is a line at EOF
set_option maxRecDepth 100000 in
example : outcomeIs (tcpLinesOfChunks [[97, cr, lf] ++ x4095, [lf, 98]]) [[97], x4095, [98]] false = true := by
  decide +kernel
-- … but 4095 bytes followed by CRLF do not: the `\n` is the 4097th byte of the line
set_option maxRecDepth 100000 in
example : (tcpLinesOfChunks [x4095 ++ [cr, lf]]).tooLong = true := by decide +kernel
-- the specification on the first stream, and the hypothesis of `tcp_long_line_stops_connection` for it
set_option maxRecDepth 100000 in
example : outcomeIs (tcpLinesOfStream ([97, cr, lf] ++ x4096 ++ [lf, 98, lf])) [[97]] true = true := by
  decide +kernel
set_option maxRecDepth 100000 in
example : splitOn lf ([97, cr, lf] ++ x4096 ++ [lf, 98, lf]) = [[97, cr]] ++ x4096 :: [[98], []] := by
  decide +kernel
-- a reader state with a chunk larger than the free space: the fill splits the chunk
example : (RdSt.fill { buf := [1, 2], chunks := [List.replicate 5000 7] }).map
    (fun s => (s.buf.length, s.chunks.map (·.length))) = some (4096, [906]) := by decide +kernel

/-! The UDP queue with capacity 1: the second datagram arrives while the first is still queued and
is dropped; the shared read buffer is overwritten in between, the queued copy is not. -/

def exOps : List UdpOp :=
  [.enq [97, lf, 98, 0, 0] 3,      -- datagram `a\nb` in a 5-byte read buffer: accepted (copy of 3 bytes)
   .enq [99, 99, 99, 0, 0] 3,      -- buffer overwritten by datagram `ccc`: queue full, dropped
   .proc,                          -- handles `a\nb`
   .proc,                          -- queue empty: nothing happens
   .enq [100, lf, 99, 0, 0] 2]     -- datagram `d\n`: accepted, still queued

example : (runUdp { cap := 1 } exOps).packets = 3 := by decide
example : (runUdp { cap := 1 } exOps).drops = 1 := by decide
example : (runUdp { cap := 1 } exOps).handled = [[97], [98]] := by decide
example : (runUdp { cap := 1 } exOps).queue = [[100, lf]] := by decide
example : successfulProcs { cap := 1 } exOps = 1 ∧ numEnq exOps = 3 := by decide
example : (udpAcct 1 exOps).accepted = [[97, lf, 98], [100, lf]] ∧ (udpAcct 1 exOps).processed = 1 ∧
    (udpAcct 1 exOps).dropped = 1 := by decide
-- capacity 0: everything is dropped, nothing is ever handled
example : (runUdp { cap := 0 } exOps).drops = 3 ∧ (runUdp { cap := 0 } exOps).handled = [] := by decide
example : SameShape [.enq [1] 1, .proc] [.enq [2, 3] 2, .proc] := .enq _ _ _ _ (.proc .nil)

end SE.Props.C18
