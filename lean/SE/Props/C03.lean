import SE.Proofs.SafetyGather
import SE.Proofs.SuffixFree
import SE.Proofs.HelpUniform
import SE.Proofs.AvoidsPre
import SE.Spec.FloatLaws
/-
C03 — Every scrape succeeds and is a consistent, parseable exposition (partial by necessity).

What holds of the registry after **every** history (event batches, sweeps, clock changes, reloads, in any
order, from any registry satisfying the invariant `ExpoInv`, e.g. the empty one):
* `metric_names_legal`: every metric name matches `[a-zA-Z_][a-zA-Z0-9_]*` (it is `specEscape` of a
  non-empty string: the mapped name, or the raw statsd name; empty names are refused by `handleEvent`);
* `label_names_not_reserved`: no label name starts with `__`, no histogram series has the label `le`, no
  summary series `quantile` (`checkLabelNames` inside `getOrCreate`);
* `no_duplicate_series`: no two series share metric name and label set.

What holds of `Reg.gatherOk` (the model of "`Registry.Gather` returns no error": one help string per
family, agreement with pre-registered families, no `_sum/_count/_bucket` suffix collision):
* `gather_ok_empty`; `sweep_preserves_gather_ok` (removing series cannot create a help mismatch or a suffix
  collision); `hit_preserves_gather_ok` (an event for an existing series);
  `create_in_live_vector_preserves_gather_ok` (a new series in a vector that already has a live child);
* `statsd_families_suffix_free`: over every history from a registry without statsd metrics the statsd
  families never collide by suffix (the repaired companion-name checks of `getOrCreate`, SE/Props/C08.lean);
  `scrape_fails_only_by_help`: if moreover nothing is pre-registered, the scrape succeeds iff every live
  family has one help string;
* `help_uniform_history`, `help_consistent_history`: over every history from a registry without statsd metrics
  all vectors of one metric name carry the same help string (the repaired registry remembers, per metric name,
  the help string of the first vector it created and uses it for every later vector: `helpFor`), so every
  family has one help string — whatever the mapping rules say, and across reloads;
* **`scrape_succeeds_without_preregistered`**: after EVERY history from an empty registry without
  pre-registered families the scrape succeeds. The history that used to break it (two rules giving one metric
  name two help strings) now scrapes fine, the second vector carrying the first rule's help:
  `help_mismatch_repaired`;
* with pre-registered families it is still **not** an invariant: `gather_ok_invariant_statement` is refuted
  by `preregistered_name_collision` (`gather_ok_not_invariant`) — the only open class; restricted to
  `p.reg.pre = []` the statement holds (`gather_ok_invariant_without_preregistered`). The two classes that
  used to be open besides it are closed: a summary `x` next to a summary `x_sum`
  (`observer_companion_now_refused`) and the help mismatch (`help_mismatch_repaired`);
* **`scrape_succeeds_if_names_avoid_preregistered`** says exactly when the pre-registered families matter: from
  a registry without statsd metrics whose pre-registered families scrape fine by themselves, after EVERY history
  the scrape succeeds provided every statsd metric `AvoidsPre` (SE/Spec/Registry.lean) the pre-registered
  families — its name is not that of a pre-registered family, no pre-registered family is named like one of its
  `_sum/_count/_bucket` companion series, and it is not named like a companion series of a pre-registered summary
  or histogram (`scrape_succeeds_if_live_names_avoid_preregistered`: it is enough to ask this of the metrics that
  have a series). So the open finding is precisely: the scrape fails ONLY IF a client-chosen (mapped, escaped) metric
  name coincides with, or is a companion of, a family another collector exposes — or the other way round. Both
  kinds of clause are needed (`avoidsPre_violated_by_name_collision`, `preregistered_suffix_collision`,
  `preregistered_suffix_collision'`; in general the suffix clauses are necessary for a healthy scrape,
  `scrape_ok_only_if_clear_of_companions`), and the hypotheses are satisfiable (`avoiding_names_scrape_fine`).

Not covered (outside the models): the text encoder itself (escaping of help and label values, float
formatting), and label-name *syntax* for tag keys (they are `specEscape`d in the line parser; see C15).
-/
set_option linter.unusedSectionVars false
namespace SE.Props.C03
open SE
variable {V : Type} [NumOps V]

/-! ## invariants over histories -/

/-- The invariant holds of the empty registry (whatever is pre-registered). -/
theorem expo_inv_empty (pre : List (Bytes × MType × Bytes)) : ExpoInv ({ metrics := [], pre := pre } : Reg V) :=
  ExpoInv_empty pre

/-- It is preserved by every operation of the exporter goroutine, hence by every history. -/
theorem expo_inv_history (rx : Rx) (p p' : Pipe V) (ops : List (PipeOp V)) (hi : ExpoInv p.reg)
    (h : runOps rx p ops = some (.ok p')) : ExpoInv p'.reg :=
  ExpoInv_runOps rx ops hi h

/-- **Metric names are legal.** After every history, every metric name in the registry matches
    `[a-zA-Z_][a-zA-Z0-9_]*`. -/
theorem metric_names_legal (rx : Rx) (p p' : Pipe V) (ops : List (PipeOp V)) (hi : ExpoInv p.reg)
    (h : runOps rx p ops = some (.ok p')) : ∀ m, m ∈ p'.reg.metrics → legalName m.name = true :=
  (ExpoInv_runOps rx ops hi h).names

/-- … in particular every family a scrape collects has a legal name. -/
theorem family_names_legal (rx : Rx) (p p' : Pipe V) (ops : List (PipeOp V)) (hi : ExpoInv p.reg)
    (h : runOps rx p ops = some (.ok p')) : ∀ f, f ∈ p'.reg.families → legalName f.name = true := by
  intro f hf
  simp only [Reg.families, List.mem_filterMap] at hf
  obtain ⟨m, hm, e⟩ := hf
  split at e
  · cases e
  · injection e with e
    rw [← e]
    exact metric_names_legal rx p p' ops hi h m hm

/-- One step: the name an applied event registers is the escape of a non-empty string, hence legal. -/
theorem registered_name_legal (p : Pipe V) (rx : Rx) (ev : Ev V) (tags : Labels) (c : Counts) (pl : Plan V)
    (h : evTarget p rx ev tags = some (c, pl)) : legalName pl.2.1.name = true :=
  evTarget_name_legal h

/-- **Label names are not reserved.** After every history, for every series of every metric: no label name
    starts with `__`; a histogram series has no label `le`; a summary series has no label `quantile`. -/
theorem label_names_not_reserved (rx : Rx) (p p' : Pipe V) (ops : List (PipeOp V)) (hi : ExpoInv p.reg)
    (h : runOps rx p ops = some (.ok p')) :
    ∀ m, m ∈ p'.reg.metrics → ∀ s, s ∈ m.series → ∀ k, k ∈ s.labels.map (·.1) →
      reservedPrefix.isPrefixOf k = false ∧
      (m.ty = .histogram → k ≠ strBytes "le") ∧ (m.ty = .summary → k ≠ strBytes "quantile") := by
  intro m hm s hs k hk
  have := (labelNamesBad_false_iff _ _).mp ((ExpoInv_runOps rx ops hi h).labels m hm s hs) k hk
  refine ⟨this.1, fun ht => ?_, fun ht => ?_⟩
  · rw [ht] at this; exact this.2 (by decide)
  · rw [ht] at this; exact this.2 (by decide)

theorem nodup_series_keys (ms : List (MetricM V)) (h1 : (ms.map (·.name)).Nodup)
    (h2 : ∀ m, m ∈ ms → (m.series.map (·.labels)).Nodup) :
    (ms.flatMap fun m => m.series.map fun s => (m.name, s.labels)).Nodup := by
  induction ms with
  | nil => exact List.nodup_nil
  | cons m t ih =>
    rw [List.map_cons, List.nodup_cons] at h1
    rw [List.flatMap_cons, List.nodup_append]
    refine ⟨?_, ih h1.2 (fun m' hm' => h2 m' (List.mem_cons_of_mem _ hm')), ?_⟩
    · have := h2 m (List.mem_cons_self ..)
      have e : (m.series.map fun s => (m.name, s.labels)) = (m.series.map (·.labels)).map fun L => (m.name, L) := by
        rw [List.map_map]; rfl
      rw [e]
      exact List.Pairwise.map _ (fun a b hab heq => hab (by injection heq)) this
    · intro a ha b hb heq
      simp only [List.mem_map] at ha
      obtain ⟨s, _, e⟩ := ha
      simp only [List.mem_flatMap, List.mem_map] at hb
      obtain ⟨m', hm', s', _, e'⟩ := hb
      apply h1.1
      rw [List.mem_map]
      refine ⟨m', hm', ?_⟩
      have : a.1 = b.1 := by rw [heq]
      rw [← e, ← e'] at this
      exact this.symm

/-- **No duplicate series.** After every history the (metric name, label set) keys of all series of the
    registry are pairwise distinct: the exposition never contains the same sample twice. -/
theorem no_duplicate_series (rx : Rx) (p p' : Pipe V) (ops : List (PipeOp V)) (hi : ExpoInv p.reg)
    (h : runOps rx p ops = some (.ok p')) :
    (p'.reg.metrics.flatMap fun m => m.series.map fun s => (m.name, s.labels)).Nodup := by
  have hw := (ExpoInv_runOps rx ops hi h).wf
  exact nodup_series_keys _ hw.names_nodup hw.labels_nodup

/-- the same for any well-formed registry -/
theorem no_duplicate_series_wf (r : Reg V) (hw : RegWF r) :
    (r.metrics.flatMap fun m => m.series.map fun s => (m.name, s.labels)).Nodup :=
  nodup_series_keys _ hw.names_nodup hw.labels_nodup

/-! ## `gatherOk`: what preserves it -/

/-- The empty registry scrapes fine. -/
theorem gather_ok_empty : ({} : Reg V).gatherOk = true := gatherOk_empty

/-- Fewer series cannot create a help mismatch … -/
theorem help_consistent_antitone (m m' : MetricM V) (hv : m'.vecs = m.vecs)
    (hs : ∀ s, s ∈ m'.series → s ∈ m.series) (h : helpConsistent m = true) : helpConsistent m' = true := by
  rw [helpConsistent_eq] at h ⊢
  refine allSame_mono ?_ h
  intro x hx
  simp only [helpList, List.mem_filterMap] at hx ⊢
  obtain ⟨s, hs', hx⟩ := hx
  exact ⟨s, hs s hs', by rw [← hv]; exact hx⟩

/-- … and fewer families cannot create a suffix collision. -/
theorem suffix_collision_monotone (fams fams' : List (Bytes × MType)) (hsub : ∀ x, x ∈ fams' → x ∈ fams)
    (h : suffixCollision fams = false) : suffixCollision fams' = false := by
  cases hc : suffixCollision fams' with
  | false => rfl
  | true => rw [suffixCollision_mono hsub hc] at h; cases h

/-- **The stale-series sweep preserves a healthy scrape.** -/
theorem sweep_preserves_gather_ok (r : Reg V) (now : Int) (h : r.gatherOk = true) : (r.sweep now).gatherOk = true :=
  gatherOk_sweep now h

/-- **The hit path preserves a healthy scrape**: an event for a series that already exists (same name, type
    and label set) — refresh of clock/ttl by `getOrCreate`, then the value update. -/
theorem hit_preserves_gather_ok (r r' : Reg V) (ty : MType) (a : GetArgs V) (now : Int)
    (f : VecM V → Series V → Series V) (hf : ∀ v s, (f v s).labels = s.labels)
    (hg : r.getOrCreate ty a now = .ok (.ok r')) (hh : r.isHit ty a = true) (h : r.gatherOk = true) :
    (updateSeries r' a.name a.labels f).gatherOk = true :=
  gatherOk_updateSeries _ _ _ hf (gatherOk_getOrCreate_hit hg hh h)

/-- **Creating a series in an existing vector that has a live child preserves a healthy scrape**: if the
    registry is well-formed and some live series `s0` of the addressed metric has the same label *names* as
    the request, the new series joins `s0`'s vector and inherits its help string. -/
theorem create_in_live_vector_preserves_gather_ok (r r' : Reg V) (hw : RegWF r) (ty : MType) (a : GetArgs V) (now : Int)
    (f : VecM V → Series V → Series V) (hf : ∀ v s, (f v s).labels = s.labels)
    (hg : r.getOrCreate ty a now = .ok (.ok r'))
    (hlive : ∃ m0 s0, m0 ∈ r.metrics ∧ m0.name = a.name ∧ s0 ∈ m0.series ∧ s0.labels.map (·.1) = a.labels.map (·.1))
    (h : r.gatherOk = true) : (updateSeries r' a.name a.labels f).gatherOk = true :=
  gatherOk_updateSeries _ _ _ hf (gatherOk_getOrCreate_live_vec hw hg hlive h)

/-- The same through `handleEvent`: any event, applied or not, whose addressed vector (if it reaches the
    registry at all) already has a live child keeps the scrape healthy. -/
theorem handle_event_preserves_gather_ok (p p' : Pipe V) (rx : Rx) (ev : Ev V) (tags : Labels) (hw : RegWF p.reg)
    (h : handleEvent p rx ev tags = some (.ok p'))
    (hlive : ∀ c pl, evTarget p rx ev tags = some (c, pl) →
      ∃ m0 s0, m0 ∈ p.reg.metrics ∧ m0.name = pl.2.1.name ∧ s0 ∈ m0.series ∧
        s0.labels.map (·.1) = pl.2.1.labels.map (·.1))
    (hg : p.reg.gatherOk = true) : p'.reg.gatherOk = true := by
  by_cases ha : p'.counts.applied = p.counts.applied + 1
  · obtain ⟨c, pl, reg, ht, hgc, e⟩ := handleEvent_applied h ha
    subst e
    simp only [appliedPipe]
    exact gatherOk_updateSeries _ _ _ (fun v s => (evTarget_keeps ht v s).1)
      (gatherOk_getOrCreate_live_vec hw hgc (hlive c pl ht) hg)
  · rw [handleEvent_not_applied h ha]; exact hg

/-! ## the statsd families never collide by suffix -/

/-- **No suffix collision among the statsd families.** After every history (event batches, sweeps, clock
    changes, reloads, in any order) that starts without statsd metrics — whatever is pre-registered —
    `checkSuffixCollisions` finds nothing among the statsd families that have a series: no family is named
    `x_sum`, `x_count` (or `x_bucket`) next to a summary (histogram) `x`. -/
theorem statsd_families_suffix_free (rx : Rx) (p p' : Pipe V) (ops : List (PipeOp V)) (h0 : p.reg.metrics = [])
    (h : runOps rx p ops = some (.ok p')) :
    suffixCollision ((p'.reg.metrics.filter (!·.series.isEmpty)).map fun m => (m.name, m.ty)) = false :=
  suffixCollision_live_of_suffixFree
    (SuffixFree_runOps rx ops (wf_suffixFree_of_no_metrics h0).1 (wf_suffixFree_of_no_metrics h0).2 h).2

/-- the same, read off the families the scrape collects -/
theorem collected_families_suffix_free (rx : Rx) (p p' : Pipe V) (ops : List (PipeOp V)) (h0 : p.reg.metrics = [])
    (h : runOps rx p ops = some (.ok p')) :
    suffixCollision (p'.reg.families.map fun f => (f.name, f.ty)) = false := by
  rw [families_names_types]; exact statsd_families_suffix_free rx p p' ops h0 h

/-- **From the empty registry the scrape can only fail by a help mismatch**: without pre-registered families,
    after every history, `Gather` succeeds iff every statsd family that has a series has one help string. -/
theorem scrape_fails_only_by_help (rx : Rx) (p p' : Pipe V) (ops : List (PipeOp V)) (h0 : p.reg.metrics = [])
    (hpre : p.reg.pre = []) (h : runOps rx p ops = some (.ok p')) :
    p'.reg.gatherOk = (p'.reg.metrics.filter (!·.series.isEmpty)).all helpConsistent :=
  gatherOk_of_suffixFree
    (SuffixFree_runOps rx ops (wf_suffixFree_of_no_metrics h0).1 (wf_suffixFree_of_no_metrics h0).2 h).2
    (by rw [pre_runOps rx ops h, hpre])

/-! ## one help string per family -/

/-- **All vectors of one metric name carry the same help string.** After every history (event batches, sweeps,
    clock changes, reloads of the mapping configuration, in any order) that starts without statsd metrics —
    whatever is pre-registered: the registry creates every later vector of a name with the help string of the
    name's first vector (`helpFor`), and never removes a vector. -/
theorem help_uniform_history (rx : Rx) (p p' : Pipe V) (ops : List (PipeOp V)) (h0 : p.reg.metrics = [])
    (h : runOps rx p ops = some (.ok p')) : HelpUniform p'.reg :=
  (HelpUniform_runOps rx ops (wf_helpUniform_of_no_metrics h0).1 (wf_helpUniform_of_no_metrics h0).2 h).2

/-- **Every family has one help string**: the first conjunct of `Reg.gatherOk`, after every history from a
    registry without statsd metrics. -/
theorem help_consistent_history (rx : Rx) (p p' : Pipe V) (ops : List (PipeOp V)) (h0 : p.reg.metrics = [])
    (h : runOps rx p ops = some (.ok p')) :
    (p'.reg.metrics.filter (!·.series.isEmpty)).all helpConsistent = true :=
  live_helpConsistent_of_helpUniform (help_uniform_history rx p p' ops h0 h)

/-- **The scrape succeeds after every history** from an empty registry without pre-registered families: no
    help mismatch (`help_consistent_history`), no suffix collision (`statsd_families_suffix_free`), nothing to
    agree with. No assumption on the configuration(s), the events, the clock or the order of operations. -/
theorem scrape_succeeds_without_preregistered (rx : Rx) (p p' : Pipe V) (ops : List (PipeOp V))
    (h0 : p.reg.metrics = []) (hpre : p.reg.pre = []) (h : runOps rx p ops = some (.ok p')) :
    p'.reg.gatherOk = true := by
  rw [scrape_fails_only_by_help rx p p' ops h0 hpre h]
  exact help_consistent_history rx p p' ops h0 h

/-! ## `gatherOk` is not an invariant when families are pre-registered -/

/-- (FALSE on the current code) from a registry without statsd metrics whose pre-registered families scrape
    fine, the scrape succeeds after every history -/
def gather_ok_invariant_statement : Prop :=
  ∀ (V : Type) [NumOps V] (rx : Rx) (p p' : Pipe V) (ops : List (PipeOp V)),
    p.reg.metrics = [] → p.reg.gatherOk = true → runOps rx p ops = some (.ok p') → p'.reg.gatherOk = true

/-- the positive counterpart: restricted to registries without pre-registered families the statement holds
    (the hypothesis `p.reg.gatherOk = true` is not even needed: `scrape_succeeds_without_preregistered`) -/
theorem gather_ok_invariant_without_preregistered :
    ∀ (V : Type) [NumOps V] (rx : Rx) (p p' : Pipe V) (ops : List (PipeOp V)),
      p.reg.metrics = [] → p.reg.pre = [] → p.reg.gatherOk = true → runOps rx p ops = some (.ok p') →
      p'.reg.gatherOk = true :=
  fun _ _ rx p p' ops h0 hpre _ h => scrape_succeeds_without_preregistered rx p p' ops h0 hpre h

/-! ## with pre-registered families -/

/-- a registry without statsd metrics is its pre-registered families and nothing else -/
theorem reg_eq_of_no_metrics {r : Reg V} (h : r.metrics = []) : r = { metrics := [], pre := r.pre } := by
  obtain ⟨ms, pre⟩ := r
  simp only at h
  subst h
  rfl

/-- **The scrape succeeds after every history in which the statsd metric names stay clear of the pre-registered
    families.** From a registry without statsd metrics whose pre-registered families (the exporter's own
    `statsd_exporter_*` metrics, `go_*`, `process_*`, …) scrape fine by themselves (`hp`), after every history (event
    batches, sweeps, clock changes, reloads, in any order): if every metric in the registry `AvoidsPre` the
    pre-registered families — they are the same before and after, `pre_runOps` — then `Gather` succeeds.

    This makes the open finding `preregistered_name_collision` precise: after any history the scrape fails ONLY IF
    some client-chosen (mapped, escaped) metric name coincides with, or is a `_sum`/`_count`/`_bucket` companion of,
    a family another collector exposes — or the other way round (a pre-registered family is named like a companion
    series of a statsd summary or histogram). Nothing else the clients, the mapping configuration(s), the clock or
    the order of operations do can break it. Both kinds of clause are needed: `avoidsPre_violated_by_name_collision`,
    `preregistered_suffix_collision`; and the hypotheses are satisfiable: `avoiding_names_scrape_fine`. -/
theorem scrape_succeeds_if_names_avoid_preregistered (rx : Rx) (p p' : Pipe V) (ops : List (PipeOp V))
    (h0 : p.reg.metrics = []) (hp : p.reg.gatherOk = true) (h : runOps rx p ops = some (.ok p'))
    (hav : ∀ m ∈ p'.reg.metrics, AvoidsPre p'.reg.pre m.name m.ty = true) : p'.reg.gatherOk = true := by
  refine gatherOk_of_invariants_pre_all
    (SuffixFree_runOps rx ops (wf_suffixFree_of_no_metrics h0).1 (wf_suffixFree_of_no_metrics h0).2 h).2
    (help_uniform_history rx p p' ops h0 h) ?_ hav
  rw [pre_runOps rx ops h, ← reg_eq_of_no_metrics h0]
  exact hp

/-- the same, asking only the metrics that have a series — the families `Gather` actually collects — to stay
    clear of the pre-registered families (a weaker hypothesis: a metric entry whose series were all swept away
    exposes nothing) -/
theorem scrape_succeeds_if_live_names_avoid_preregistered (rx : Rx) (p p' : Pipe V) (ops : List (PipeOp V))
    (h0 : p.reg.metrics = []) (hp : p.reg.gatherOk = true) (h : runOps rx p ops = some (.ok p'))
    (hav : ∀ m ∈ p'.reg.metrics, m.series.isEmpty = false → AvoidsPre p'.reg.pre m.name m.ty = true) :
    p'.reg.gatherOk = true := by
  refine gatherOk_of_invariants_pre
    (SuffixFree_runOps rx ops (wf_suffixFree_of_no_metrics h0).1 (wf_suffixFree_of_no_metrics h0).2 h).2
    (help_uniform_history rx p p' ops h0 h) ?_ hav
  rw [pre_runOps rx ops h, ← reg_eq_of_no_metrics h0]
  exact hp

/-- conversely, on any registry: if the scrape succeeds, every statsd family that has a series is clear of the
    companion names of every pre-registered family, and vice versa — the suffix clauses of `AvoidsPre` are
    necessary; the name clause is necessary up to agreement: a pre-registered family of the same name must have the
    same type (and help string) -/
theorem scrape_ok_only_if_clear_of_companions (r : Reg V) (h : r.gatherOk = true) :
    ∀ m ∈ r.metrics, m.series.isEmpty = false → ∀ q ∈ r.pre,
      q.1 ∉ companionNames m.name m.ty ∧ m.name ∉ companionNames q.1 q.2.1 ∧ (q.1 = m.name → q.2.1 = m.ty) :=
  fun _ hm he _ hq => clear_of_companions_of_gatherOk h hm he hq

section counterexamples
attribute [local instance] toyNumOps

private def noRx : Rx := fun _ _ => none
private def emptyCfg : Config Int :=
  { rules := [], dObserverType := .summary, dTtl := 0, dBuckets := [], dQuantiles := [], dMaxAge := 0,
    dAgeBuckets := 0, dBufCap := 0, orderingDisabled := false, doFSM := false }
/-- the loaded configuration (the examples check that it does load) -/
private def cfgOf (raw : RawConfig Int) : Config Int :=
  match load (fun _ => true) [1, 2] [] raw with
  | .ok c => c
  | .error _ => emptyCfg

/-- does the scrape succeed after the history? -/
private def scrapeAfter (p : Pipe Int) (ops : List (PipeOp Int)) : Option Bool :=
  match runOps noRx p ops with
  | some (.ok p') => some p'.reg.gatherOk
  | _ => none

private theorem scrapeAfter_spec {p : Pipe Int} {ops : List (PipeOp Int)} {b : Bool} (h : scrapeAfter p ops = some b) :
    ∃ p', runOps noRx p ops = some (.ok p') ∧ p'.reg.gatherOk = b := by
  unfold scrapeAfter at h
  split at h
  · rename_i p' hp
    injection h with h
    exact ⟨p', hp, h⟩
  · cases h

private def nameX : Bytes := [120]
private def nameXsum : Bytes := strBytes "x_sum"
private def ctr (name : Bytes) : Ev Int := { kind := .counter, name := name, value := 1, relative := false }
private def obs (name : Bytes) : Ev Int := { kind := .observer, name := name, value := 1, relative := false }

/-- two rules mapping `a` and `b` to the same metric `x` with different help strings -/
def rawTwoHelps : RawConfig Int :=
  { rules := [{ matchStr := [97], name := nameX, help := [49] }, { matchStr := [98], name := nameX, help := [50] }] }

example : (load (fun _ => true) [1, 2] [] rawTwoHelps).toBool = true := by with_unfolding_all decide

/-- (applied events, and per metric entry its name and the (label names, help) of its vectors) after the history;
    `(0, [])` if the history does not run to the end -/
private def vecsAfter (p : Pipe Int) (ops : List (PipeOp Int)) : Nat × List (Bytes × List (List Bytes × Bytes)) :=
  match runOps noRx p ops with
  | some (.ok p') => (p'.counts.applied, p'.reg.metrics.map fun m => (m.name, m.vecs.map fun v => (v.names, v.help)))
  | _ => (0, [])

/-- **help mismatch repaired** (this history used to break the scrape): `a:1|c` creates `x{}` (vector without
    labels, help "1", the first rule's); `b:1|c|#k:v` creates `x{k="v"}` in a second vector of the same family —
    the second rule says help "2", but the registry creates the vector with the help string of the family's
    first vector, "1". Both events are applied and the scrape succeeds after the first and after the second. -/
theorem help_mismatch_repaired :
    scrapeAfter { mapper := MState.fresh (cfgOf rawTwoHelps) } [.line [] [ctr [97]]] = some true ∧
    scrapeAfter { mapper := MState.fresh (cfgOf rawTwoHelps) }
      [.line [] [ctr [97]], .line [([107], [118])] [ctr [98]]] = some true ∧
    vecsAfter { mapper := MState.fresh (cfgOf rawTwoHelps) }
      [.line [] [ctr [97]], .line [([107], [118])] [ctr [98]]] = (2, [(nameX, [([], [49]), ([[107]], [49])])]) := by
  refine ⟨?_, ?_, ?_⟩ <;> with_unfolding_all decide

/-- **observer companion now refused** (this history used to break the scrape): without rules, observers
    being summaries: the timer `x` creates the summary family `x` (which exposes `x_sum`, `x_count`); the timer
    `x_sum` is now refused as a conflict — `getOrCreate` checks whether a companion name is registered at all,
    and whether the name is a companion name of a registered metric — and the scrape succeeds after both. -/
theorem observer_companion_now_refused :
    scrapeAfter { mapper := MState.fresh emptyCfg } [.line [] [obs nameX]] = some true ∧
    scrapeAfter { mapper := MState.fresh emptyCfg } [.line [] [obs nameX], .line [] [obs nameXsum]] = some true := by
  constructor <;> with_unfolding_all decide

/-- **pre-registered name collision**: a family `x` (counter, help "other") is exposed by a collector
    registered before (`Reg.pre`); the statsd counter `x` is accepted — `MetricConflicts` only looks at the
    exporter's own maps — and the scrape fails because the help strings differ. -/
theorem preregistered_name_collision :
    ({ metrics := [], pre := [(nameX, .counter, strBytes "other")] } : Reg Int).gatherOk = true ∧
    scrapeAfter { mapper := MState.fresh emptyCfg, reg := { metrics := [], pre := [(nameX, .counter, strBytes "other")] } }
      [.line [] [ctr nameX]] = some false := by
  constructor <;> with_unfolding_all decide

/-- **`gatherOk` is not an invariant of histories** — by the pre-registered name collision, the one class that
    is still open -/
theorem gather_ok_not_invariant : ¬ gather_ok_invariant_statement := by
  intro hst
  obtain ⟨p', hrun, hg⟩ := scrapeAfter_spec preregistered_name_collision.2
  have := hst Int noRx _ p' _ rfl preregistered_name_collision.1 hrun
  rw [hg] at this; cases this

/-- the refutation needs a pre-registered family and nothing else: no mapping rule at all. (The second refutation
    that used to stand here — two rules, nothing pre-registered — is gone: without pre-registered families the
    statement holds, `gather_ok_invariant_without_preregistered`.) -/
theorem gather_ok_not_invariant' :
    ∃ (p p' : Pipe Int) (ops : List (PipeOp Int)), p.reg.metrics = [] ∧ p.reg.gatherOk = true ∧
      runOps noRx p ops = some (.ok p') ∧ p'.reg.gatherOk = false ∧ p.reg.pre ≠ [] ∧ p.mapper.cfg.rules = [] := by
  obtain ⟨p', hrun, hg⟩ := scrapeAfter_spec preregistered_name_collision.2
  exact ⟨_, p', _, rfl, preregistered_name_collision.1, hrun, hg, by simp, rfl⟩

/-- … and no refutation without one exists -/
theorem no_refutation_without_preregistered :
    ¬ ∃ (p p' : Pipe Int) (ops : List (PipeOp Int)), p.reg.metrics = [] ∧ p.reg.gatherOk = true ∧
      runOps noRx p ops = some (.ok p') ∧ p'.reg.gatherOk = false ∧ p.reg.pre = [] := by
  rintro ⟨p, p', ops, h0, _, hrun, hg, hpre⟩
  rw [scrape_succeeds_without_preregistered noRx p p' ops h0 hpre hrun] at hg
  cases hg

/-! ### with pre-registered families: both kinds of clause of `AvoidsPre` are needed -/

/-- the open finding violates `AvoidsPre`: the statsd counter `x` of `preregistered_name_collision` has the name of
    the pre-registered family -/
theorem avoidsPre_violated_by_name_collision :
    AvoidsPre [(nameX, .counter, strBytes "other")] nameX .counter = false := by with_unfolding_all decide

/-- **pre-registered suffix collision**: a summary family `x` (it exposes `x_sum`, `x_count`) is exposed by a
    collector registered before; it scrapes fine by itself. The statsd counter `x_sum` is accepted — the companion
    checks of `getOrCreate` only look at the exporter's own maps — it violates `AvoidsPre` (by a suffix clause only:
    the names differ), and the scrape fails. So the suffix clauses of `AvoidsPre` are needed too. -/
theorem preregistered_suffix_collision :
    ({ metrics := [], pre := [(nameX, .summary, strBytes "other")] } : Reg Int).gatherOk = true ∧
    AvoidsPre [(nameX, .summary, strBytes "other")] nameXsum .counter = false ∧
    scrapeAfter { mapper := MState.fresh emptyCfg, reg := { metrics := [], pre := [(nameX, .summary, strBytes "other")] } }
      [.line [] [ctr nameXsum]] = some false := by
  refine ⟨?_, ?_, ?_⟩ <;> with_unfolding_all decide

/-- … and the other direction: a pre-registered counter `x_sum` next to the statsd summary `x` (a timer, observers
    being summaries) -/
theorem preregistered_suffix_collision' :
    ({ metrics := [], pre := [(nameXsum, .counter, strBytes "other")] } : Reg Int).gatherOk = true ∧
    AvoidsPre [(nameXsum, .counter, strBytes "other")] nameX .summary = false ∧
    scrapeAfter { mapper := MState.fresh emptyCfg, reg := { metrics := [], pre := [(nameXsum, .counter, strBytes "other")] } }
      [.line [] [obs nameX]] = some false := by
  refine ⟨?_, ?_, ?_⟩ <;> with_unfolding_all decide

/-! ### Non-vacuity of the positive facts -/

/-- pre-registered: the gauge `go_goroutines` and a summary `s` -/
private def preTwo : List (Bytes × MType × Bytes) :=
  [(strBytes "go_goroutines", .gauge, strBytes "h"), (strBytes "s", .summary, strBytes "h")]

/-- (does the scrape succeed, do all metric entries avoid the pre-registered families, the metric names) after the
    history -/
private def avoidAfter (p : Pipe Int) (ops : List (PipeOp Int)) : Option (Bool × Bool × List Bytes) :=
  match runOps noRx p ops with
  | some (.ok p') =>
    some (p'.reg.gatherOk, p'.reg.metrics.all (fun m => AvoidsPre p'.reg.pre m.name m.ty), p'.reg.metrics.map (·.name))
  | _ => none

private theorem avoidAfter_spec {p : Pipe Int} {ops : List (PipeOp Int)} {b : Bool} {ns : List Bytes}
    (h : avoidAfter p ops = some (b, true, ns)) :
    ∃ p', runOps noRx p ops = some (.ok p') ∧ p'.reg.gatherOk = b ∧ p'.reg.metrics.map (·.name) = ns ∧
      ∀ m ∈ p'.reg.metrics, AvoidsPre p'.reg.pre m.name m.ty = true := by
  unfold avoidAfter at h
  split at h
  · rename_i p' hp
    injection h with h
    simp only [Prod.mk.injEq] at h
    exact ⟨p', hp, h.1, h.2.2, List.all_eq_true.mp h.2.1⟩
  · cases h

/-- **names that avoid the pre-registered families scrape fine**: next to the pre-registered gauge `go_goroutines`
    and summary `s`, the statsd counters `x` and `s_total` (`s_total` is no companion name of a summary) are
    registered, both avoid the pre-registered families, and the scrape succeeds -/
theorem avoiding_names_scrape_fine :
    AvoidsPre preTwo nameX .counter = true ∧ AvoidsPre preTwo (strBytes "s_total") .counter = true ∧
    avoidAfter { mapper := MState.fresh emptyCfg, reg := { metrics := [], pre := preTwo } }
      [.line [] [ctr nameX], .line [] [ctr (strBytes "s_total")]] = some (true, true, [nameX, strBytes "s_total"]) := by
  refine ⟨?_, ?_, ?_⟩ <;> with_unfolding_all decide

/-- `scrape_succeeds_if_names_avoid_preregistered` is about something: all its hypotheses hold of that history — with
    pre-registered families, two statsd metrics — and it yields the healthy scrape -/
example : ∃ p', runOps noRx { mapper := MState.fresh emptyCfg, reg := { metrics := [], pre := preTwo } }
      [.line [] [ctr nameX], .line [] [ctr (strBytes "s_total")]] = some (.ok p') ∧
      p'.reg.metrics.map (·.name) = [nameX, strBytes "s_total"] ∧ p'.reg.pre = preTwo ∧ p'.reg.gatherOk = true := by
  obtain ⟨p', hrun, _, hn, hav⟩ := avoidAfter_spec avoiding_names_scrape_fine.2.2
  exact ⟨p', hrun, hn, pre_runOps noRx _ hrun,
    scrape_succeeds_if_names_avoid_preregistered noRx _ p' _ rfl (by with_unfolding_all decide) hrun hav⟩


/-- `scrape_succeeds_without_preregistered` is about something: its hypotheses hold of the two-help history, which
    runs to the end and leaves a live family with two vectors -/
example : ∃ p', runOps noRx { mapper := MState.fresh (cfgOf rawTwoHelps) }
      [.line [] [ctr [97]], .line [([107], [118])] [ctr [98]]] = some (.ok p') ∧ p'.reg.gatherOk = true := by
  obtain ⟨p', hrun, _⟩ := scrapeAfter_spec help_mismatch_repaired.2.1
  exact ⟨p', hrun, scrape_succeeds_without_preregistered noRx _ p' _ rfl rfl hrun⟩

/-- a history in which the scrape stays healthy: two series of one vector, a sweep, a hit -/
example : scrapeAfter { mapper := MState.fresh emptyCfg }
    [.line [([107], [118])] [ctr nameX], .line [([107], [119])] [ctr nameX], .sweep, .line [([107], [118])] [ctr nameX]]
    = some true := by with_unfolding_all decide

/-- the invariants are about something: after `1x:1|c` the registry holds the metric `_1x` -/
example : (match runOps noRx { mapper := MState.fresh emptyCfg } [.line [] [ctr [49, 120]]] with
    | some (.ok p') => p'.reg.metrics.map (·.name) | _ => []) = [[95, 49, 120]] := by with_unfolding_all decide

end counterexamples

end SE.Props.C03
