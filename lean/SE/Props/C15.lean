import SE.Proofs.Escape
/-
C15 — Name escaping always yields a legal, stable Prometheus name.
Every theorem quantifies over *all* byte strings (Go strings are byte strings, so this
includes invalid UTF-8). `escape` is the model of `mapper.EscapeMetricName`
(SE/Model/Escape.lean); `none` would be a run-time panic of the slice expression.
-/
namespace SE.Props.C15
open SE

/-- Escaping never fails (no slice-bounds panic), for every input. -/
theorem escape_total (inp : Bytes) : (escape inp).isSome = true := by
  simp [escape, escapeToks_eq_spec inp (tokens inp) (flat_tokens inp)]

/-- Refinement: the loop computes exactly the rune-by-rune specification. -/
theorem escape_eq_spec (inp : Bytes) : escape inp = some (specEscape inp) :=
  escapeToks_eq_spec inp (tokens inp) (flat_tokens inp)

/-- For every non-empty input the result matches `[a-zA-Z_][a-zA-Z0-9_]*`. -/
theorem escape_legal (inp : Bytes) (h : inp ≠ []) : ∃ out, escape inp = some out ∧ legalName out = true :=
  ⟨specEscape inp, escape_eq_spec inp, spec_legal_toks (tokens inp) (by rw [flat_tokens]; exact h)⟩

/-- The input's ASCII letters and digits survive, in order, and nothing else that is a letter or digit appears. -/
theorem escape_keeps_alnum (inp : Bytes) :
    ∃ out, escape inp = some out ∧ out.filter isAlnum = inp.filter isAlnum := by
  refine ⟨specEscape inp, escape_eq_spec inp, ?_⟩
  unfold specEscape specEscapeToks
  rw [flat_tokens]
  cases inp with
  | nil => simp [tokens, tokensFuel, specBody]
  | cons b0 rest =>
    simp only
    have hb := specBody_filter_alnum (tokens (b0 :: rest)) false (tokens_wf _ _)
    rw [flat_tokens] at hb
    have hus : isAlnum us = false := by decide
    by_cases hd : isDigit b0 = true <;> simp [hd, hb, hus]

/-- A leading underscore is gained exactly when the input starts with a digit; the remainder is the
    rune-wise image (`specBody`) of the input. -/
theorem escape_leading_underscore (b0 : UInt8) (rest : Bytes) :
    escape (b0 :: rest) =
      some ((if isDigit b0 then [us] else []) ++ specBody false (tokens (b0 :: rest))) := by
  rw [escape_eq_spec]
  unfold specEscape specEscapeToks
  rw [flat_tokens]

/-- Identity on names that are already legal. -/
theorem escape_id_on_legal (inp : Bytes) (h : legalName inp = true) : escape inp = some inp := by
  rw [escape_eq_spec, specEscape_legal_id inp h]

/-- Idempotent. -/
theorem escape_idempotent (inp out : Bytes) (h : escape inp = some out) : escape out = some out := by
  cases inp with
  | nil => simp [escape, escapeToks] at h; subst h; rfl
  | cons b rest =>
    obtain ⟨out', h', hl⟩ := escape_legal (b :: rest) (by simp)
    rw [h] at h'; cases h'
    exact escape_id_on_legal out hl

/- Non-vacuity / sanity: concrete inputs, including the two that panicked or lost data before the fix. -/
example : escape [0xff, 97, 45] = some [95, 97, 95] := by decide          -- "\xffa-" ↦ "_a_"
example : escape [0xff, 97, 98] = some [95, 97, 98] := by decide          -- "\xffab" ↦ "_ab"
example : escape [49, 97, 45, 45, 98, 46] = some [95, 49, 97, 95, 98, 95] := by decide  -- "1a--b." ↦ "_1a_b_"
example : legalName [95, 49, 97] = true ∧ escape [95, 49, 97] = some [95, 49, 97] := by decide

end SE.Props.C15
