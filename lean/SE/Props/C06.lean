import SE.Proofs.RegistryCounter
import SE.Spec.PipeHistory
/-
C06 — Exposed counters never decrease and never become NaN.
A counter series is the pair client_golang keeps: a float accumulator `f` (non-integral increments)
and a uint64 accumulator `n` (integral increments, added modulo 2^64); a scrape exposes
`exposed s = f + float64(n)`. All arithmetic facts are taken from the hypothesis `FloatLaws V`
(SE/Spec/FloatLaws.lean: IEEE-754 facts about `+`, `<=`, `float64(uint64)`), never from axioms.

Proved for every registry, event, label set and configuration:
* a negative or NaN counter sample is refused before it reaches the registry (`bad_increment_rejected`);
* in every reachable state every counter's float accumulator is neither NaN nor negative, hence the
  exposed value is neither NaN nor negative (`counter_inv`, `counter_inv_history`, `exposed_never_nan`);
* one applied counter event does not decrease the exposed value of its series **provided the uint64
  accumulator does not wrap** (`counter_mono_partial`), and leaves every other series alone.
Without that proviso the statement is false on the current code (`counter_mono_statement_false`,
`uint64_wrap_counterexample`): two increments of 2^63 bring the exposed value back to 0. This is the
known uint64 wrap of client_golang's `counter.Add`.

Vocabulary: see SE/Props/C07.lean; `evValue p rx ev` = the sample value after the rule's `scale`;
`PipeOp` / `runOps` (SE/Spec/PipeHistory.lean) = histories of the exporter goroutine: lines of events,
sweeps, clock changes, reloads.
-/
namespace SE.Props.C06
open SE NumOps
variable {V : Type} [NumOps V]

/-- **A bad increment is rejected.** If the (scaled) value of a counter event is negative or NaN, the
    step changes no series — the registry is returned as it was, nothing is counted as applied — and,
    unless the event was dropped by a `drop` rule or had no metric name, `illegalNegativeCounter` is
    appended to the error counter. -/
theorem bad_increment_rejected (p p' : Pipe V) (rx : Rx) (ev : Ev V) (tags : Labels) (hk : ev.kind = .counter)
    (hbad : ltZero (evValue p rx ev) = true ∨ isNaN (evValue p rx ev) = true)
    (h : handleEvent p rx ev tags = some (.ok p')) :
    p'.reg = p.reg ∧ p'.now = p.now ∧ p'.mapper = p.mapper ∧ p'.counts.applied = p.counts.applied ∧
    (evDropped p rx ev = false → (∃ x, evNamed p rx ev tags = some (.ok x)) →
      p'.counts.errors = p.counts.errors ++ [.illegalNegativeCounter]) := by
  have hb : evBadCounter p rx ev = true := by
    unfold evBadCounter
    rw [hk]
    rcases hbad with h1 | h1 <;> simp [h1]
  have ht : evTarget p rx ev tags = none := by
    unfold evTarget
    split
    · rfl
    · split
      · first | rfl | rw [if_pos hb]
      · rfl
  have hkeep := handleEvent_keeps h
  refine ⟨?_, hkeep.2, hkeep.1, ?_, ?_⟩
  · rcases handleEvent_no_target ht with h0 | ⟨c', h1, _⟩
    · rw [h0] at h; cases h
    · rw [h1] at h; injection h with h; injection h with h; subst h; rfl
  · rcases handleEvent_no_target ht with h0 | ⟨c', h1, h2, _⟩
    · rw [h0] at h; cases h
    · rw [h1] at h; injection h with h; injection h with h; subst h; exact h2
  · intro hd ⟨x, hx⟩
    obtain ⟨nm, l, c⟩ := x
    rw [handleEvent_eq, hd, hx] at h
    simp only [Bool.false_eq_true, if_false, hb, if_true] at h
    injection h with h; injection h with h; subst h
    rcases (evNamed_counts hx).2 with e | e <;> subst e <;> rfl

/-- The invariant: every series of every counter metric has a float accumulator that is neither NaN nor
    negative (`NonNeg x` = `isNaN x = false ∧ ltZero x = false`). -/
abbrev CounterOk (r : Reg V) : Prop := SE.CounterOk r

/-- **The invariant is inductive**: it holds for the empty registry and is preserved by every event (of any
    kind, with any outcome), by the sweep, and needs only the well-formedness of the registry (which is
    itself invariant, see `C07.wf_invariant`). -/
theorem counter_inv (laws : FloatLaws V) :
    (∀ pre, CounterOk ({ metrics := [], pre := pre } : Reg V)) ∧
    (∀ (p p' : Pipe V) rx ev tags, RegWF p.reg → CounterOk p.reg → handleEvent p rx ev tags = some (.ok p') →
      CounterOk p'.reg) ∧
    (∀ (r : Reg V) now, CounterOk r → CounterOk (r.sweep now)) :=
  ⟨CounterOk_empty, fun _ _ _ _ _ hw hok h => CounterOk_handleEvent laws hw hok h,
   fun _ now hok => CounterOk_sweep hok now⟩

/-- **Hence for every history**: starting from any well-formed state satisfying the invariant (e.g. the
    empty registry), after any sequence of lines, sweeps, clock changes and reloads the invariant holds. -/
theorem counter_inv_history (laws : FloatLaws V) (rx : Rx) (ops : List (PipeOp V)) :
    ∀ (p p' : Pipe V), RegWF p.reg → CounterOk p.reg → runOps rx p ops = some (.ok p') →
      RegWF p'.reg ∧ CounterOk p'.reg := by
  induction ops with
  | nil =>
    intro p p' hw hok h
    simp only [runOps] at h; injection h with h; injection h with h; subst h; exact ⟨hw, hok⟩
  | cons op rest ih =>
    intro p p' hw hok h
    cases op with
    | line tags evs =>
      simp only [runOps] at h
      cases h1 : handleEvents p rx tags evs with
      | none => rw [h1] at h; cases h
      | some x =>
        cases x with
        | error pn => rw [h1] at h; simp only at h; injection h with h; cases h
        | ok p1 =>
          rw [h1] at h
          obtain ⟨hw1, hok1⟩ := CounterOk_handleEvents laws evs hw hok h1
          exact ih p1 p' hw1 hok1 h
    | sweep =>
      simp only [runOps] at h
      exact ih { p with reg := p.reg.sweep p.now } p' (RegWF_sweep hw p.now) (CounterOk_sweep hok p.now) h
    | advance now =>
      simp only [runOps] at h
      exact ih { p with now := now } p' hw hok h
    | reload m =>
      simp only [runOps] at h
      exact ih { p with mapper := m } p' hw hok h

/-- from the empty registry -/
theorem counter_inv_from_empty (laws : FloatLaws V) (rx : Rx) (ops : List (PipeOp V)) (m : MState V) (now : Int)
    (p' : Pipe V) (h : runOps rx { mapper := m, reg := {}, now := now } ops = some (.ok p')) :
    RegWF p'.reg ∧ CounterOk p'.reg :=
  counter_inv_history laws rx ops _ p' (RegWF_empty []) (CounterOk_empty []) h

/-- **Exposed counters are never NaN (and never negative)**: under the invariant the exposed value
    `f + float64(n)` of every counter series is an ordinary non-negative number. -/
theorem exposed_never_nan (laws : FloatLaws V) (r : Reg V) (hok : CounterOk r) (m : MetricM V) (hm : m ∈ r.metrics)
    (hty : m.ty = .counter) (s : Series V) (hs : s ∈ m.series) :
    isNaN (exposed s) = false ∧ ltZero (exposed s) = false :=
  laws.add_ok _ _ (hok m hm hty s hs) (laws.ofNat_ok _)

/-- One increment, on the series itself: with a non-NaN, non-negative increment and no wrap of the
    integer accumulator the exposed value does not decrease. -/
theorem counterAdd_mono (laws : FloatLaws V) (s : Series V) (v : V) (hs : NonNeg s.f) (hv : NonNeg v)
    (hw : NoIntWrap s v) : le (exposed s) (exposed (counterAdd s v)) = true :=
  SE.counterAdd_mono laws s v hs hv hw

/-- **Counters never decrease — partial form.** For an applied counter event on a well-formed registry
    satisfying the invariant: if the addressed series existed with state `s0` and the increment does not
    wrap its integer accumulator (`NoIntWrap s0 v`: `s0.n + k < 2^64` when `v` is the integer `k`), then
    afterwards the series exists with a state `s1` whose exposed value is `≥` that of `s0`
    (in fact `s1` is `counterAdd` of `s0` with clock and ttl restarted). Every other series is unchanged. -/
theorem counter_mono_partial (laws : FloatLaws V) (p p' : Pipe V) (rx : Rx) (ev : Ev V) (tags : Labels)
    (hw : RegWF p.reg) (hok : CounterOk p.reg) (hk : ev.kind = .counter)
    (h : handleEvent p rx ev tags = some (.ok p')) (ha : p'.counts.applied = p.counts.applied + 1) :
    ∃ c pl, evTarget p rx ev tags = some (c, pl) ∧
      (∀ s0, p.reg.series? pl.2.1.name pl.2.1.labels = some s0 → NoIntWrap s0 (evValue p rx ev) →
        ∃ s1, p'.reg.series? pl.2.1.name pl.2.1.labels = some s1 ∧
          s1 = counterAdd { s0 with last := p.now, ttl := pl.2.1.ttl } (evValue p rx ev) ∧
          le (exposed s0) (exposed s1) = true) ∧
      (∀ name labels, ¬(name = pl.2.1.name ∧ labels = pl.2.1.labels) →
        p'.reg.series? name labels = p.reg.series? name labels) := by
  obtain ⟨c, pl, reg, ht, hg, e⟩ := handleEvent_applied h ha
  subst e
  obtain ⟨hv, hpl1, hupd⟩ := evTarget_counter_value ht hk
  refine ⟨c, pl, ht, ?_, fun name labels hne => applied_series_frame (evTarget_keeps ht) hg name labels hne⟩
  intro s0 hs0 hnw
  obtain ⟨v, _, hs1⟩ := applied_hit (c := c) hw (evTarget_keeps ht) hg s0 hs0
  rw [hupd] at hs1
  refine ⟨_, hs1, rfl, ?_⟩
  -- the old series is a counter series, so its float part is good
  have hs0ok : NonNeg s0.f := by
    obtain ⟨s2, _, _, _, _, hcase⟩ := getOrCreate_addressed hg
    rcases hcase with ⟨s0', hs0', hty0, _⟩ | ⟨hn, _, _⟩
    · rw [hs0] at hs0'; injection hs0' with e; subst e
      rw [hpl1] at hty0
      exact (counterOk_iff hw).mp hok _ _ s0 hty0 hs0
    · rw [hs0] at hn; cases hn
  exact SE.counterAdd_mono laws { s0 with last := p.now, ttl := pl.2.1.ttl } _ hs0ok hv hnw

/-- **Every counter, every step.** One step of any kind (counter, gauge, observer) and any outcome (applied,
    refused, dropped, rejected): every counter series that existed before still exists and its exposed
    value has not decreased — provided that, if the step is an increment of that very series, it does not
    wrap the integer accumulator. -/
theorem counter_step_mono (laws : FloatLaws V) (p p' : Pipe V) (rx : Rx) (ev : Ev V) (tags : Labels)
    (hw : RegWF p.reg) (hok : CounterOk p.reg) (h : handleEvent p rx ev tags = some (.ok p'))
    (name : Bytes) (labels : Labels) (s0 : Series V)
    (hty : p.reg.type? name = some .counter) (hs0 : p.reg.series? name labels = some s0)
    (hnw : ∀ c pl, evTarget p rx ev tags = some (c, pl) → name = pl.2.1.name → labels = pl.2.1.labels →
      NoIntWrap s0 (evValue p rx ev)) :
    ∃ s1, p'.reg.series? name labels = some s1 ∧ le (exposed s0) (exposed s1) = true :=
  SE.counter_step_mono laws hw hok h name labels s0 hty hs0 hnw

/-- **Every counter, every line.** Along all the events of a line (any mix of kinds and outcomes) an
    existing counter series never decreases, as long as none of its increments wraps (`NoWrapLine`:
    the `NoIntWrap` proviso at each intermediate state). Between lines only the sweep touches the
    registry; it removes a series (which is then recreated from zero, a counter reset in Prometheus'
    sense, see C07) or leaves it unchanged. -/
theorem counter_line_mono (laws : FloatLaws V) (rx : Rx) (tags : Labels) (name : Bytes) (labels : Labels)
    (evs : List (Ev V)) (p p' : Pipe V) (s0 : Series V) (hw : RegWF p.reg) (hok : CounterOk p.reg)
    (hty : p.reg.type? name = some .counter) (hs0 : p.reg.series? name labels = some s0)
    (h : handleEvents p rx tags evs = some (.ok p')) (hnw : NoWrapLine rx tags name labels p evs) :
    ∃ s1, p'.reg.series? name labels = some s1 ∧ le (exposed s0) (exposed s1) = true :=
  SE.counter_line_mono laws rx tags name labels evs p p' s0 hw hok hty hs0 h hnw

/-! ### The unguarded statement is false: the uint64 accumulator wraps -/

/-- the statement without the `NoIntWrap` proviso -/
def counter_mono_statement : Prop :=
  ∀ (V : Type) [NumOps V], FloatLaws V → ∀ (s : Series V) (v : V), NonNeg s.f → NonNeg v →
    le (exposed s) (exposed (counterAdd s v)) = true

section counterexample
attribute [local instance] toyNumOps

private def two63 : Int := 9223372036854775808

/-- On the toy value type (exact integers, faithful `toUInt64Exact`, `FloatLaws` proved): a counter at
    2^63 incremented by 2^63 is exposed as 0. -/
theorem counter_mono_statement_false : ¬ counter_mono_statement := by
  intro h
  have := h Int toy_floatLaws { labels := [], ttl := 0, last := 0, f := 0, n := 9223372036854775808, bk := [] }
    two63 ⟨rfl, by decide⟩ ⟨rfl, by decide⟩
  revert this
  decide

private def cfg0 : Config Int :=
  { rules := [], dObserverType := .summary, dTtl := 0, dBuckets := [], dQuantiles := [], dMaxAge := 0,
    dAgeBuckets := 0, dBufCap := 0, orderingDisabled := false, doFSM := false }
private def p0 : Pipe Int := { mapper := MState.fresh cfg0 }
private def noRx : Rx := fun _ _ => none
/-- `x:9223372036854775808|c` -/
private def evC : Ev Int := { kind := .counter, name := [120], value := two63, relative := false }

/-- exposed value of counter `x` (no labels) after the events, through the whole exporter -/
private def exposedAfter (evs : List (Ev Int)) : Option Int :=
  match handleEvents p0 noRx [] evs with
  | some (.ok p) => (p.reg.series? [120] []).map exposed
  | _ => none

/-- End to end, from the empty registry: after one event `x:2^63|c` the counter is exposed as 2^63, after
    the same event again as 0 — both events are applied, none is refused. -/
theorem uint64_wrap_counterexample :
    exposedAfter [evC] = some two63 ∧ exposedAfter [evC, evC] = some 0 ∧
    (match handleEvents p0 noRx [] [evC, evC] with
     | some (.ok p) => decide (p.counts.applied = 2 ∧ p.counts.errors = [] ∧ p.counts.conflicts = 0)
     | _ => false) = true := by
  refine ⟨?_, ?_, ?_⟩ <;> with_unfolding_all decide

/- Non-vacuity of the guarded statement on the same type: small increments do go up. -/
example : exposedAfter [{ evC with value := 3 }, { evC with value := 4 }] = some 7 := by with_unfolding_all decide
-- a negative increment is refused and leaves the series alone
example : exposedAfter [{ evC with value := 3 }, { evC with value := -1 }] = some 3 := by with_unfolding_all decide

end counterexample

end SE.Props.C06
