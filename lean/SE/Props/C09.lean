import SE.Proofs.LineTags
/-
C09 — The four tagging syntaxes are equivalent; disabled ones are inert.

`lineToEvents` is the model of `LineToEvents`, `parseNameAndTags` of `parseNameAndTags`
(SE/Model/Line.lean). Specification side (SE/Spec/Line.lean): a tag list is a list of
`TagEntry` (`kv k v`, rendered `k<sep>v`, possibly with empty key or value; `bare x`, rendered
without separator, `bare []` being the entirely empty tag); `renderEq`/`renderColon` join the
entries with `,`; `specTags ts` inserts `(escape k, v)` left to right for the well-formed
entries and counts one tag error for every other entry.

Domain guards used throughout (exactly these, nothing else):
* `NameOk n`   : `n ≠ []` and `n` free of `: # , [ ]`;
* `TagsOk ts`  : every key and every separator-less entry is free of `, : | [ ] # =`, every
                 value is free of `, : | [ ] #`; `ts` has at least one entry and its last entry
                 is not the entirely empty tag `bare []` (the parser does not treat an empty
                 piece after the last comma as a tag, so such lists render ambiguously);
* the sample `s`: stated per theorem.
All theorems hold for every value type `V` with `NumOps V` and every oracle `pf`.
-/
namespace SE.Props.C09
open SE
variable {V : Type} [NumOps V]

/-- Librato form: `parseNameAndTags` returns the bare name and exactly the specified labels and
    tag-error count. Guards: Librato flag on, `NameOk n`, `TagsOk ts`. -/
theorem librato_name_eq_spec (fl : ParserFlags) (hfl : fl.librato = true) {n : Bytes}
    {ts : List TagEntry} (hn : NameOk n) (ht : TagsOk ts) :
    parseNameAndTags fl (n ++ cHash :: renderEq ts) = (n, (specTags ts).1, (specTags ts).2) := by
  have hl : cLBr ∉ n ++ cHash :: renderEq ts := by
    simp only [List.mem_append, List.mem_cons, not_or]
    exact ⟨hn.lbr, by decide, renderEq_free ht (by simp [tagDelims]) (by decide) (by decide)⟩
  have hr : cRBr ∉ n ++ cHash :: renderEq ts := by
    simp only [List.mem_append, List.mem_cons, not_or]
    exact ⟨hn.rbr, by decide, renderEq_free ht (by simp [tagDelims]) (by decide) (by decide)⟩
  rw [parseNameAndTags_marker fl cHash _ (fun _ => hn.hash) (fun _ => hn.comma) (by simp [hfl])
    (fun _ => hl) (fun _ => hr), parseNameTags_render ht]

/-- InfluxDB form. Guards: InfluxDB flag on, `NameOk n`, `TagsOk ts`. -/
theorem influx_name_eq_spec (fl : ParserFlags) (hfl : fl.influxdb = true) {n : Bytes}
    {ts : List TagEntry} (hn : NameOk n) (ht : TagsOk ts) :
    parseNameAndTags fl (n ++ cComma :: renderEq ts) = (n, (specTags ts).1, (specTags ts).2) := by
  have hl : cLBr ∉ n ++ cComma :: renderEq ts := by
    simp only [List.mem_append, List.mem_cons, not_or]
    exact ⟨hn.lbr, by decide, renderEq_free ht (by simp [tagDelims]) (by decide) (by decide)⟩
  have hr : cRBr ∉ n ++ cComma :: renderEq ts := by
    simp only [List.mem_append, List.mem_cons, not_or]
    exact ⟨hn.rbr, by decide, renderEq_free ht (by simp [tagDelims]) (by decide) (by decide)⟩
  rw [parseNameAndTags_marker fl cComma _ (fun _ => hn.hash) (fun _ => hn.comma) (by simp [hfl])
    (fun _ => hl) (fun _ => hr), parseNameTags_render ht]

/-- SignalFX form, for every split `n = pre ++ post` of the name (`pre` or `post` may be
    empty). Guards: SignalFX flag on, `pre` and `post` free of `[` and `]` (implied by
    `NameOk (pre ++ post)`), `TagsOk ts`. -/
theorem signalfx_name_eq_spec (fl : ParserFlags) (hfl : fl.signalfx = true) {pre post : Bytes}
    {ts : List TagEntry} (hn : NameOk (pre ++ post)) (ht : TagsOk ts) :
    parseNameAndTags fl (pre ++ cLBr :: (renderEq ts ++ cRBr :: post)) =
      (pre ++ post, (specTags ts).1, (specTags ts).2) := by
  have hl : cLBr ∉ pre := fun h => hn.lbr (by simp [h])
  have hr : cRBr ∉ pre := fun h => hn.rbr (by simp [h])
  rw [parseNameAndTags_signalfx fl hfl post hl hr
    (renderEq_free ht (by simp [tagDelims]) (by decide) (by decide)), parseNameTags_render ht]

/-- An untagged name is returned as it is, for every flag combination. Guard: `NameOk n`. -/
theorem plain_name (fl : ParserFlags) {n : Bytes} (hn : NameOk n) :
    parseNameAndTags fl n = (n, [], 0) :=
  parseNameAndTags_plain fl (fun _ => hn.hash) (fun _ => hn.comma) (fun _ => hn.lbr) (fun _ => hn.rbr)

/-- The three name-side syntaxes are interchangeable: with the Librato, InfluxDB and SignalFX
    flags on, the lines `n#tags:rest`, `n,tags:rest` and `pre[tags]post:rest` (`n = pre ++ post`)
    produce the *same parser output* — events, label map, error reasons and all four counters —
    for every remainder `rest` whatsoever (any number of samples, well-formed or not).
    Guards: the three flags on (DogStatsD flag arbitrary), `NameOk (pre ++ post)`, `TagsOk ts`. -/
theorem name_side_forms_agree (fl : ParserFlags) (pf : Pf V)
    (h1 : fl.librato = true) (h2 : fl.influxdb = true) (h3 : fl.signalfx = true)
    {pre post : Bytes} {ts : List TagEntry} (hn : NameOk (pre ++ post)) (ht : TagsOk ts) (rest : Bytes) :
    lineToEvents fl pf true (influxLine (pre ++ post) ts rest) =
      lineToEvents fl pf true (libratoLine (pre ++ post) ts rest) ∧
    lineToEvents fl pf true (signalfxLine pre post ts rest) =
      lineToEvents fl pf true (libratoLine (pre ++ post) ts rest) := by
  have hne : ∀ (b : UInt8) (x : Bytes), pre ++ post ++ b :: x ≠ [] := by intro b x; simp
  have hc3 : cColon ∉ pre ++ cLBr :: (renderEq ts ++ cRBr :: post) := by
    have h1 := hn.colon
    have h2 := renderEq_free ht (c := cColon) (by simp [tagDelims]) (by decide) (by decide)
    simp only [List.mem_append, List.mem_cons, not_or] at h1 ⊢
    exact ⟨h1.1, by decide, h2, by decide, h1.2⟩
  simp only [influxLine, libratoLine, signalfxLine, mkLine]
  rw [lineToEvents_eq fl pf _ (hne _ _) (tagged_name_colon hn ht _ (by decide)),
    lineToEvents_eq fl pf _ (hne _ _) (tagged_name_colon hn ht _ (by decide)),
    lineToEvents_eq fl pf _ (by simp) hc3,
    influx_name_eq_spec fl h2 hn ht, librato_name_eq_spec fl h1 hn ht,
    signalfx_name_eq_spec fl h3 hn ht]
  exact ⟨rfl, rfl⟩

/-- Name-side tags versus the untagged line, for one sample `s`: the Librato line `n#tags:s`
    yields the same events (name, type, value), the same error reasons and the same sample count
    as the plain line `n:s`; its label map is `(specTags ts).1` (whenever `s` has at least the
    two `|`-fields needed to get past the `not_enough_parts` rejection — before that no label map
    is attached to anything), its tag-error count is `(specTags ts).2` (always: name-side tags are
    parsed before the sample is looked at), and `tagsReceived` moves iff the label map is
    non-empty and the sample passes the structural checks (`sampleAccepted`). The plain line has
    no labels, no tag errors and never moves `tagsReceived`.
    By `name_side_forms_agree` the same holds for the InfluxDB and SignalFX lines.
    Guards: Librato flag on, `NameOk n`, `TagsOk ts`, `s` free of `:` and not containing `|#`
    (in particular: every `s` free of `:` and `#`). -/
theorem librato_eq_plain_with_spec_labels (fl : ParserFlags) (pf : Pf V) (h1 : fl.librato = true)
    {n : Bytes} {ts : List TagEntry} (hn : NameOk n) (ht : TagsOk ts)
    (s : Bytes) (hc : cColon ∉ s) (hd : containsSub [cPipe, cHash] s = false) :
    let r := lineToEvents fl pf true (libratoLine n ts s)
    let p := lineToEvents fl pf true (mkLine n s)
    r.events = p.events ∧ r.errs = p.errs ∧ r.samples = p.samples ∧
    r.tagErrs = (specTags ts).2 ∧ p.tagErrs = 0 ∧ p.labels = [] ∧ p.tagsRecv = 0 ∧
    (cPipe ∈ s → r.labels = (specTags ts).1) ∧
    r.tagsRecv = (if (specTags ts).1.isEmpty || !sampleAccepted pf s then 0 else 1) := by
  intro r p
  have hr : r = afterName fl pf (n, (specTags ts).1, (specTags ts).2) s := by
    simp only [r, libratoLine, mkLine]
    rw [lineToEvents_eq fl pf _ (by simp) (tagged_name_colon hn ht _ (by decide)),
      librato_name_eq_spec fl h1 hn ht]
  have hp : p = afterName fl pf (n, [], 0) s := by
    simp only [p, mkLine]
    rw [lineToEvents_eq fl pf _ hn.ne hn.colon, plain_name fl hn]
  rw [hr, hp]
  exact afterName_relabel_single fl pf n _ _ s hc hd

/-- Disabled name-side syntaxes are inert (general form): if the name part `e0` contains no
    marker of an *enabled* syntax — no `#` when Librato is on, no `,` when InfluxDB is on, no
    `[`/`]` when SignalFX is on — then whatever other marker bytes it contains stay part of the
    name: `parseNameAndTags` returns `e0` itself with no labels and no tag errors; every event of
    the line `e0:s` carries the whole `e0` as its name, and the line has no labels, no tag errors
    and does not move `tagsReceived`.
    Guards: `e0` non-empty, free of `:`; the marker conditions above; `s` free of `:` and not
    containing `|#`. -/
theorem disabled_inert_name (fl : ParserFlags) (pf : Pf V) (e0 s : Bytes)
    (h0 : e0 ≠ []) (hc0 : cColon ∉ e0)
    (hlib : fl.librato = true → cHash ∉ e0) (hinf : fl.influxdb = true → cComma ∉ e0)
    (hsfx : fl.signalfx = true → cLBr ∉ e0 ∧ cRBr ∉ e0)
    (hc : cColon ∉ s) (hd : containsSub [cPipe, cHash] s = false) :
    parseNameAndTags fl e0 = (e0, [], 0) ∧
    (let r := lineToEvents fl pf true (mkLine e0 s)
     (∀ ev ∈ r.events, ev.name = e0) ∧ r.labels = [] ∧ r.tagErrs = 0 ∧ r.tagsRecv = 0) := by
  have hp : parseNameAndTags fl e0 = (e0, [], 0) :=
    parseNameAndTags_plain fl hlib hinf (fun h => (hsfx h).1) (fun h => (hsfx h).2)
  refine ⟨hp, ?_⟩
  intro r
  have hr : r = afterName fl pf (e0, [], 0) s := by
    simp only [r, mkLine]
    rw [lineToEvents_eq fl pf _ h0 hc0, hp]
  obtain ⟨_, _, _, _, a, b, c, _, _⟩ := afterName_relabel_single fl pf e0 [] 0 s hc hd
  rw [hr]
  exact ⟨afterName_event_names fl pf e0 [] 0 s, b, a, c⟩

/-- Librato disabled: in `n#x:s` the `#x` stays part of the metric name; no labels, no tag
    errors. Guards: Librato flag off; `n`, `x` free of `:`; if InfluxDB is on, `n` and `x` free
    of `,`; if SignalFX is on, `n` and `x` free of `[` and `]`; `s` free of `:`, without `|#`. -/
theorem disabled_inert_librato (fl : ParserFlags) (pf : Pf V) (hfl : fl.librato = false)
    (n x s : Bytes) (hcn : cColon ∉ n) (hcx : cColon ∉ x)
    (hinf : fl.influxdb = true → cComma ∉ n ∧ cComma ∉ x)
    (hsfx : fl.signalfx = true → (cLBr ∉ n ∧ cLBr ∉ x) ∧ (cRBr ∉ n ∧ cRBr ∉ x))
    (hc : cColon ∉ s) (hd : containsSub [cPipe, cHash] s = false) :
    parseNameAndTags fl (n ++ cHash :: x) = (n ++ cHash :: x, [], 0) ∧
    (let r := lineToEvents fl pf true (mkLine (n ++ cHash :: x) s)
     (∀ ev ∈ r.events, ev.name = n ++ cHash :: x) ∧ r.labels = [] ∧ r.tagErrs = 0 ∧ r.tagsRecv = 0) := by
  apply disabled_inert_name fl pf _ s (by simp) _ _ _ _ hc hd
  · simp only [List.mem_append, List.mem_cons, not_or]; exact ⟨hcn, by decide, hcx⟩
  · intro h; rw [hfl] at h; exact absurd h (by simp)
  · intro h; simp only [List.mem_append, List.mem_cons, not_or]
    exact ⟨(hinf h).1, by decide, (hinf h).2⟩
  · intro h; simp only [List.mem_append, List.mem_cons, not_or]
    exact ⟨⟨(hsfx h).1.1, by decide, (hsfx h).1.2⟩, ⟨(hsfx h).2.1, by decide, (hsfx h).2.2⟩⟩

/-- InfluxDB disabled: in `n,x:s` the `,x` stays part of the metric name. Guards: InfluxDB flag
    off; `n`, `x` free of `:`; if Librato is on, free of `#`; if SignalFX is on, free of `[`, `]`;
    `s` free of `:`, without `|#`. -/
theorem disabled_inert_influxdb (fl : ParserFlags) (pf : Pf V) (hfl : fl.influxdb = false)
    (n x s : Bytes) (hcn : cColon ∉ n) (hcx : cColon ∉ x)
    (hlib : fl.librato = true → cHash ∉ n ∧ cHash ∉ x)
    (hsfx : fl.signalfx = true → (cLBr ∉ n ∧ cLBr ∉ x) ∧ (cRBr ∉ n ∧ cRBr ∉ x))
    (hc : cColon ∉ s) (hd : containsSub [cPipe, cHash] s = false) :
    parseNameAndTags fl (n ++ cComma :: x) = (n ++ cComma :: x, [], 0) ∧
    (let r := lineToEvents fl pf true (mkLine (n ++ cComma :: x) s)
     (∀ ev ∈ r.events, ev.name = n ++ cComma :: x) ∧ r.labels = [] ∧ r.tagErrs = 0 ∧ r.tagsRecv = 0) := by
  apply disabled_inert_name fl pf _ s (by simp) _ _ _ _ hc hd
  · simp only [List.mem_append, List.mem_cons, not_or]; exact ⟨hcn, by decide, hcx⟩
  · intro h; simp only [List.mem_append, List.mem_cons, not_or]
    exact ⟨(hlib h).1, by decide, (hlib h).2⟩
  · intro h; rw [hfl] at h; exact absurd h (by simp)
  · intro h; simp only [List.mem_append, List.mem_cons, not_or]
    exact ⟨⟨(hsfx h).1.1, by decide, (hsfx h).1.2⟩, ⟨(hsfx h).2.1, by decide, (hsfx h).2.2⟩⟩

/-- SignalFX disabled: in `pre[x]post:s` the brackets and `x` stay part of the metric name.
    Guards: SignalFX flag off; `pre`, `x`, `post` free of `:`; if Librato is on, free of `#`; if
    InfluxDB is on, free of `,`; `s` free of `:`, without `|#`. -/
theorem disabled_inert_signalfx (fl : ParserFlags) (pf : Pf V) (hfl : fl.signalfx = false)
    (pre x post s : Bytes) (hcn : cColon ∉ pre) (hcx : cColon ∉ x) (hcp : cColon ∉ post)
    (hlib : fl.librato = true → cHash ∉ pre ∧ cHash ∉ x ∧ cHash ∉ post)
    (hinf : fl.influxdb = true → cComma ∉ pre ∧ cComma ∉ x ∧ cComma ∉ post)
    (hc : cColon ∉ s) (hd : containsSub [cPipe, cHash] s = false) :
    parseNameAndTags fl (pre ++ cLBr :: (x ++ cRBr :: post)) = (pre ++ cLBr :: (x ++ cRBr :: post), [], 0) ∧
    (let r := lineToEvents fl pf true (mkLine (pre ++ cLBr :: (x ++ cRBr :: post)) s)
     (∀ ev ∈ r.events, ev.name = pre ++ cLBr :: (x ++ cRBr :: post)) ∧
       r.labels = [] ∧ r.tagErrs = 0 ∧ r.tagsRecv = 0) := by
  apply disabled_inert_name fl pf _ s (by simp) _ _ _ _ hc hd
  · simp only [List.mem_append, List.mem_cons, not_or]
    exact ⟨hcn, by decide, hcx, by decide, hcp⟩
  · intro h; simp only [List.mem_append, List.mem_cons, not_or]
    exact ⟨(hlib h).1, by decide, (hlib h).2.1, by decide, (hlib h).2.2⟩
  · intro h; simp only [List.mem_append, List.mem_cons, not_or]
    exact ⟨(hinf h).1, by decide, (hinf h).2.1, by decide, (hinf h).2.2⟩
  · intro h; rw [hfl] at h; exact absurd h (by simp)

/-- DogStatsD disabled: nothing after the first colon contributes labels or tag errors — for
    every line whatsoever the tag-error count is the one of the name part and the label map is
    the one of the name part (or, when the line is rejected before the sample loop, empty with
    no events). Guards: DogStatsD flag off; name part `e0` non-empty and free of `:`. -/
theorem disabled_inert_dogstatsd (fl : ParserFlags) (pf : Pf V) (hfl : fl.dogstatsd = false)
    (e0 e1 : Bytes) (h0 : e0 ≠ []) (hc0 : cColon ∉ e0) :
    let r := lineToEvents fl pf true (mkLine e0 e1)
    r.tagErrs = (parseNameAndTags fl e0).2.2 ∧
    (r.labels = (parseNameAndTags fl e0).2.1 ∨ (r.labels = [] ∧ r.events = [])) := by
  intro r
  rcases hnt : parseNameAndTags fl e0 with ⟨m, L, E⟩
  have hr : r = afterName fl pf (m, L, E) e1 := by
    simp only [r, mkLine]
    rw [lineToEvents_eq fl pf _ h0 hc0, hnt]
  rw [hr]
  exact afterName_dog_off fl pf hfl m L E e1

/-- DogStatsD form versus the untagged line: `n:s|#k:v,…` yields the same events (name, type,
    value) as `n:s`; if `s` has at least two `|`-fields also the same error reasons and sample
    count; and when the sample is accepted (`sampleAccepted`: two to four `|`-fields, here two or
    three, value parses, no empty field) — i.e. when the parser gets as far as the tag section —
    its label map is `(specTags ts).1`, its tag-error count `(specTags ts).2`, and
    `tagsReceived` moves iff that map is non-empty. For a sample rejected earlier the section is
    never looked at (no labels, no tag errors) and both lines yield no event.
    Guards: DogStatsD flag on, `NameOk n`, `TagsOk ts`, `s` free of `:` and `#` with at most three
    `|`-fields (a fourth field plus the tag section would exceed the four-field limit, so such an
    `s` is accepted name-side but not in DogStatsD form). -/
theorem dogstatsd_eq_plain_with_spec_labels (fl : ParserFlags) (pf : Pf V) (hfl : fl.dogstatsd = true)
    {n : Bytes} {ts : List TagEntry} (hn : NameOk n) (ht : TagsOk ts)
    (s : Bytes) (hc : cColon ∉ s) (hh : cHash ∉ s) (hlen : (splitOn cPipe s).length ≤ 3) :
    let r := lineToEvents fl pf true (dogLine n ts s)
    let p := lineToEvents fl pf true (mkLine n s)
    r.events = p.events ∧ (cPipe ∈ s → r.errs = p.errs ∧ r.samples = p.samples) ∧
    (sampleAccepted pf s = true →
      r.labels = (specTags ts).1 ∧ r.tagErrs = (specTags ts).2 ∧
      r.tagsRecv = (if (specTags ts).1.isEmpty then 0 else 1)) ∧
    (sampleAccepted pf s = false → r.events = [] ∧ r.labels = [] ∧ r.tagErrs = 0 ∧ r.tagsRecv = 0) := by
  intro r p
  have hr : r = afterName fl pf (n, [], 0) (s ++ cPipe :: cHash :: renderColon ts) := by
    simp only [r, dogLine, mkLine]
    rw [lineToEvents_eq fl pf _ hn.ne hn.colon, plain_name fl hn]
  have hp : p = afterName fl pf (n, [], 0) s := by
    simp only [p, mkLine]
    rw [lineToEvents_eq fl pf _ hn.ne hn.colon, plain_name fl hn]
  have htp : cPipe ∉ renderColon ts :=
    render_join_free cColon ht (by simp [tagDelims]) (by decide) (by decide)
  obtain ⟨a1, a2, a3, a4⟩ := afterName_dog_vs_plain fl pf n s (renderColon ts) hc hh htp hlen
  rw [parseDogStatsDTags_render fl hfl ht] at a3
  rw [hr, hp]
  refine ⟨a1, a2, a3, fun hacc => ⟨?_, a4 hacc⟩⟩
  -- a sample that is not accepted yields no event on the plain line
  rw [a1]
  have hd : containsSub [cPipe, cHash] s = false := containsSub_of_not_mem_snd hh
  rw [afterName_single_events fl pf n [] 0 s hc hd]
  exact sOut_not_accepted fl pf n s hacc

/-- All four syntaxes agree (the C09 headline): with all four flags on, for every name
    `n = pre ++ post`, tag list `ts` and sample `s`, the Librato, InfluxDB, SignalFX and
    DogStatsD lines yield the same events; the three name-side lines have identical parser
    output; and when the sample is accepted the DogStatsD line also has the same label map
    (`specTags ts`), the same tag-error count, the same error reasons, sample count and
    `tagsReceived` as the name-side lines.
    Guards: all four flags on, `NameOk (pre ++ post)`, `TagsOk ts`, `s` free of `:` and `#` with
    at most three `|`-fields. -/
theorem four_forms_agree (fl : ParserFlags) (pf : Pf V)
    (h0 : fl.dogstatsd = true) (h1 : fl.librato = true) (h2 : fl.influxdb = true) (h3 : fl.signalfx = true)
    {pre post : Bytes} {ts : List TagEntry} (hn : NameOk (pre ++ post)) (ht : TagsOk ts)
    (s : Bytes) (hc : cColon ∉ s) (hh : cHash ∉ s) (hlen : (splitOn cPipe s).length ≤ 3) :
    let lib := lineToEvents fl pf true (libratoLine (pre ++ post) ts s)
    let inf := lineToEvents fl pf true (influxLine (pre ++ post) ts s)
    let sfx := lineToEvents fl pf true (signalfxLine pre post ts s)
    let dog := lineToEvents fl pf true (dogLine (pre ++ post) ts s)
    inf = lib ∧ sfx = lib ∧ dog.events = lib.events ∧
    (sampleAccepted pf s = true →
      dog.labels = lib.labels ∧ lib.labels = (specTags ts).1 ∧
      dog.tagErrs = lib.tagErrs ∧ lib.tagErrs = (specTags ts).2 ∧
      dog.errs = lib.errs ∧ dog.samples = lib.samples ∧ dog.tagsRecv = lib.tagsRecv) := by
  intro lib inf sfx dog
  obtain ⟨e1, e2⟩ := name_side_forms_agree fl pf h1 h2 h3 hn ht s
  have hd : containsSub [cPipe, cHash] s = false := containsSub_of_not_mem_snd hh
  obtain ⟨l1, l2, l3, l4, _, _, _, l8, l9⟩ := librato_eq_plain_with_spec_labels fl pf h1 hn ht s hc hd
  obtain ⟨d1, d2, d3, _⟩ := dogstatsd_eq_plain_with_spec_labels fl pf h0 hn ht s hc hh hlen
  refine ⟨e1, e2, d1.trans l1.symm, ?_⟩
  intro hacc
  have hp : cPipe ∈ s := by
    cases hm : decide (cPipe ∈ s) with
    | true => exact of_decide_eq_true hm
    | false =>
      rw [sampleAccepted_nopipe pf (of_decide_eq_false hm)] at hacc
      exact absurd hacc (by simp)
  obtain ⟨d4, d5, d6⟩ := d3 hacc
  obtain ⟨d7, d8⟩ := d2 hp
  refine ⟨d4.trans (l8 hp).symm, l8 hp, d5.trans l4.symm, l4, d7.trans l2.symm, d8.trans l3.symm, ?_⟩
  rw [d6, l9, hacc]; simp

/-- DogStatsD disabled: the `|#tags` section of `n:s|#tags` is ignored — same events as `n:s`
    (and, if `s` has at least two `|`-fields, same error reasons and sample count), no labels, no
    tag errors, `tagsReceived` untouched. `tags` is arbitrary (well-formed or not).
    Guards: DogStatsD flag off, `NameOk n`, `tags` free of `|`, `s` free of `:` and `#` with at
    most three `|`-fields. -/
theorem disabled_inert_dogstatsd_section (fl : ParserFlags) (pf : Pf V) (hfl : fl.dogstatsd = false)
    {n : Bytes} (hn : NameOk n) (s tags : Bytes) (ht : cPipe ∉ tags)
    (hc : cColon ∉ s) (hh : cHash ∉ s) (hlen : (splitOn cPipe s).length ≤ 3) :
    let r := lineToEvents fl pf true (mkLine n (s ++ cPipe :: cHash :: tags))
    let p := lineToEvents fl pf true (mkLine n s)
    r.events = p.events ∧ (cPipe ∈ s → r.errs = p.errs ∧ r.samples = p.samples) ∧
    r.labels = [] ∧ r.tagErrs = 0 ∧ r.tagsRecv = 0 := by
  intro r p
  have hr : r = afterName fl pf (n, [], 0) (s ++ cPipe :: cHash :: tags) := by
    simp only [r, mkLine]
    rw [lineToEvents_eq fl pf _ hn.ne hn.colon, plain_name fl hn]
  have hp : p = afterName fl pf (n, [], 0) s := by
    simp only [p, mkLine]
    rw [lineToEvents_eq fl pf _ hn.ne hn.colon, plain_name fl hn]
  obtain ⟨a1, a2, a3, a4⟩ := afterName_dog_vs_plain fl pf n s tags hc hh ht hlen
  have hoff : parseDogStatsDTags fl tags [] = ([], 0) := by simp [parseDogStatsDTags, hfl]
  rw [hoff] at a3
  rw [hr, hp]
  refine ⟨a1, a2, ?_⟩
  cases hacc : sampleAccepted pf s with
  | true => obtain ⟨b1, b2, b3⟩ := a3 hacc; exact ⟨b1, b2, by rw [b3]; rfl⟩
  | false => exact a4 hacc

/-- Mixed tagging styles are rejected as a whole: if name-side parsing produced at least one
    label and the part after the first colon contains `|#`, the line yields no events and
    exactly one `mixed_tagging_styles` error — independently of the DogStatsD flag (and of
    every other flag). Guards: name part `e0` non-empty and free of `:`. -/
theorem mixed_rejected (fl : ParserFlags) (pf : Pf V) (e0 e1 : Bytes)
    (h0 : e0 ≠ []) (hc0 : cColon ∉ e0)
    (hlab : (parseNameAndTags fl e0).2.1 ≠ [])
    (hdog : containsSub [cPipe, cHash] e1 = true) :
    let r := lineToEvents fl pf true (mkLine e0 e1)
    r.events = [] ∧ r.errs = [.mixedTaggingStyles] ∧ r.samples = 0 ∧ r.labels = [] := by
  intro r
  rcases hnt : parseNameAndTags fl e0 with ⟨m, L, E⟩
  rw [hnt] at hlab
  have : r = { errs := [.mixedTaggingStyles], tagErrs := E } := by
    simp only [r, mkLine]
    rw [lineToEvents_eq fl pf _ h0 hc0, hnt]
    exact afterName_mixed fl pf m L E e1 hdog hlab
  rw [this]; exact ⟨rfl, rfl, rfl, rfl⟩

/-! ### Non-vacuity: the hypotheses are satisfiable and the conclusions non-trivial
    (toy number type `intOps` = integers, toy oracle `toyPf` accepting "1", "2", "5";
    SE/Spec/Line.lean) -/
section Examples
local instance : NumOps Int := intOps
private def allOn : ParserFlags := ⟨true, true, true, true⟩
/-- tags `a=1`, ``, `=x`, `zz`, `b-c=2`, `a=3`: three well-formed entries (one key needs escaping,
    one key repeated) and three malformed ones -/
private def exTs : List TagEntry := [.kv [97] [49], .bare [], .kv [] [120], .bare [122, 122], .kv [98, 45, 99] [50], .kv [97] [51]]

example : NameOk [109, 46, 110] := ⟨by decide, by decide⟩
example : TagsOk exTs := ⟨by decide, ⟨exTs.dropLast, .kv [97] [51], by decide, by decide⟩⟩
example : renderEq exTs = [97, 61, 49, 44, 44, 61, 120, 44, 122, 122, 44, 98, 45, 99, 61, 50, 44, 97, 61, 51] := by decide
example : renderColon exTs = [97, 58, 49, 44, 44, 58, 120, 44, 122, 122, 44, 98, 45, 99, 58, 50, 44, 97, 58, 51] := by decide
example : specTags exTs = ([([97], [51]), ([98, 95, 99], [50])], 3) := by decide
-- the four renderings, name "m.n" split as "m." ++ "n", sample "2|c"
example : libratoLine [109, 46, 110] exTs [50, 124, 99] = [109, 46, 110, 35, 97, 61, 49, 44, 44, 61, 120, 44, 122, 122, 44, 98, 45, 99, 61, 50, 44, 97, 61, 51, 58, 50, 124, 99] := by decide
example : influxLine [109, 46, 110] exTs [50, 124, 99] = [109, 46, 110, 44, 97, 61, 49, 44, 44, 61, 120, 44, 122, 122, 44, 98, 45, 99, 61, 50, 44, 97, 61, 51, 58, 50, 124, 99] := by decide
example : signalfxLine [109, 46] [110] exTs [50, 124, 99] = [109, 46, 91, 97, 61, 49, 44, 44, 61, 120, 44, 122, 122, 44, 98, 45, 99, 61, 50, 44, 97, 61, 51, 93, 110, 58, 50, 124, 99] := by decide
example : dogLine [109, 46, 110] exTs [50, 124, 99] = [109, 46, 110, 58, 50, 124, 99, 124, 35, 97, 58, 49, 44, 44, 58, 120, 44, 122, 122, 44, 98, 45, 99, 58, 50, 44, 97, 58, 51] := by decide
example : sampleAccepted toyPf [50, 124, 99] = true := by decide
example : let r := lineToEvents allOn toyPf true [109, 46, 91, 97, 61, 49, 44, 44, 61, 120, 44, 122, 122, 44, 98, 45, 99, 61, 50, 44, 97, 61, 51, 93, 110, 58, 50, 124, 99]
    r.events.map (·.name) = [[109, 46, 110]] ∧ r.labels = (specTags exTs).1 ∧ r.tagErrs = 3 ∧ r.tagsRecv = 1 := by decide
example : let r := lineToEvents allOn toyPf true [109, 46, 110, 58, 50, 124, 99, 124, 35, 97, 58, 49, 44, 44, 58, 120, 44, 122, 122, 44, 98, 45, 99, 58, 50, 44, 97, 58, 51]
    r.events.map (·.name) = [[109, 46, 110]] ∧ r.labels = (specTags exTs).1 ∧ r.tagErrs = 3 ∧ r.tagsRecv = 1 := by decide
-- a sample rejected early: name-side tag errors are counted, the DogStatsD section is never looked at
example : (lineToEvents allOn toyPf true [109, 46, 110, 35, 97, 61, 49, 44, 44, 61, 120, 44, 122, 122, 44, 98, 45, 99, 61, 50, 44, 97, 61, 51, 58, 120, 124, 99]).tagErrs = 3 ∧
    (lineToEvents allOn toyPf true [109, 46, 110, 58, 120, 124, 99, 124, 35, 97, 58, 49, 44, 44, 58, 120, 44, 122, 122, 44, 98, 45, 99, 58, 50, 44, 97, 58, 51]).tagErrs = 0 := by decide
-- four fields: accepted name-side, one field too many in DogStatsD form (the `≤ 3 fields` guard)
example : (lineToEvents allOn toyPf true [109, 35, 97, 61, 49, 58, 49, 124, 99, 124, 64, 49, 124, 64, 49]).events.length = 1 ∧
    (lineToEvents allOn toyPf true [109, 58, 49, 124, 99, 124, 64, 49, 124, 64, 49, 124, 35, 97, 58, 49]).events.length = 0 := by decide
-- a trailing entirely-empty tag is not a tag at all (the `last ≠ bare []` guard): "m#a=1,:1|c"
example : (lineToEvents allOn toyPf true [109, 35, 97, 61, 49, 44, 58, 49, 124, 99]).tagErrs = 0 ∧
    (lineToEvents allOn toyPf true [109, 35, 44, 97, 61, 49, 58, 49, 124, 99]).tagErrs = 1 := by decide
-- Librato off: "#a=1" stays in the name
example : let r := lineToEvents ⟨true, true, false, true⟩ toyPf true [109, 35, 97, 61, 49, 58, 49, 124, 99]
    r.events.map (·.name) = [[109, 35, 97, 61, 49]] ∧ r.labels = [] := by decide
-- DogStatsD off: the section is ignored
example : let r := lineToEvents ⟨false, true, true, true⟩ toyPf true [109, 58, 49, 124, 99, 124, 35, 97, 58, 49]
    r.events.length = 1 ∧ r.labels = [] ∧ r.tagErrs = 0 := by decide
-- mixed styles, also with DogStatsD off
example : let r := lineToEvents ⟨false, true, true, true⟩ toyPf true [109, 35, 97, 61, 49, 58, 49, 124, 99, 124, 35, 98, 58, 50]
    r.events.length = 0 ∧ r.errs = [.mixedTaggingStyles] := by decide
example : (parseNameAndTags allOn [109, 35, 97, 61, 49]).2.1 ≠ [] ∧ containsSub [cPipe, cHash] [49, 124, 99, 124, 35, 98, 58, 50] = true := by decide
end Examples

end SE.Props.C09
