import SE.Proofs.ScrapeKinds
import SE.Proofs.ScrapeIdentity
import SE.Proofs.ScrapeLine
import SE.Props.C05
/-
C01 — StatsD lines aggregate to exactly the predicted Prometheus series.

For every mapping configuration and every sequence of events, the registry a scrape reads holds
exactly the series that the StatsD protocol and the mapping rules predict and no others: a counter
is the sum of its increments (each divided by its sample rate), a gauge is its last absolute value
plus the later signed deltas, and a timer/histogram/distribution holds one observation per sample,
repeated floor(1/rate) times (ms converted to seconds), all after the rule's scale factor. Each
series carries the mapped (escaped) name, the metric type, help text, histogram buckets and label set
that its matching rule and the defaults prescribe; events matched by a drop rule leave no series.

The statement is COMPOSITIONAL: the state of one series is the fold of ITS OWN applied updates,
independent of everything else that was processed in between (`series_is_fold_of_own_updates`),
and each update is what the protocol prescribes for the event (`own_updates_are_protocol`,
`counter_is_sum_of_increments`, `gauge_is_last_absolute_plus_deltas`,
`observer_counts_every_observation`). What the line parser hands to the exporter for one sample
is `line_multiplicity`. All theorems hold for every configuration, every regex oracle, every event /
line, every (well-formed) registry state, and every number type `V` with `NumOps V`: "sum" means the
left fold with `NumOps.add` in arrival order, exactly as the code accumulates — nothing is assumed
or proved about IEEE arithmetic.

Vocabulary (SE/Spec/Scrape.lean, SE/Proofs/RegistryPipe.lean):
* `runEvs rx p evs` — the history `evs : List (Ev V × Labels)` (events with the tags of their line)
  through `handleEvent`, one after the other, from the state `p`; `= some (.ok p')` means no panic and
  nothing outside the modelled fragment. There is NO sweep, clock change or reload inside a history
  (the histories of `handleEvents` and of line-only `runOps` are instances: `histories_are_instances`).
* `touchOf p rx ev tags : Option (Touch V)` — defined iff the event is applied in state `p`
  (`applied_iff_touch`): the series `(name, labels)` it addresses, the metric type it asks for, the update.
* `touches rx p evs` / `trace rx p evs` — the touches of the applied events of the history, in order
  (with the events). `ownUpds name labels ts` / `ownEvents name labels tr` — those addressing `(name, labels)`.
* `specSeries start vec us` — `us` folded over `start`, each update given the vector `vec`.
* `zeroSeries ty vec labels` — the series as created: value zero, count zero, bucket counts zero.
* `Series.sameValue` — equality of labels, `f`, `n`, `bk` (`last` / `ttl` are C07's business).
* `evValue p rx ev` — the sample value after the rule's `scale`; `evType`, `evUpd` — type and update the
  protocol prescribes; `evRawName`, `evLabels`, `evHelp`, `evBounds` — name (before escaping), label map,
  help and histogram bounds the matched rule / the defaults prescribe.

NOT covered here: the quantile values a summary exposes (quantile estimation is not modelled; only
`_sum` and `_count`), and the summary options (objectives, max age, age buckets) of a created vector (they
are in `evPlan`, not restated in `series_identity`); expiry of series (`Reg.sweep`, C07) — a history here contains no sweep, after a
sweep the theorems apply again from the swept state; conflicting events (C08: they are not applied,
hence have no touch and change no series); failures of `Gather` itself (C03). The order in which a
scrape lists families and series is not part of the statement.
-/
namespace SE.Props.C01
open SE NumOps
variable {V : Type} [NumOps V]

/-! ### The compositional theorem -/

/-- **The state of a series is the fold of its own updates.** Run any history from a well-formed state.
    A series `(name, labels)` that did not exist before and exists afterwards
    * was created by the first applied event addressing it (`t0`; there is at least one),
    * belongs to the vector `vec` = the vector `(name, label names)` of the final registry (the one `t0`
      created or found: vectors never change, `series_identity`),
    * and its value (`labels`, `f`, `n`, `bk`) is that of the zero series of `t0`'s type folded with the
      updates of exactly those applied events that address `(name, labels)`, in arrival order.
    Nothing else in the history — events for other series, rejected, dropped, erroneous events — matters. -/
theorem series_is_fold_of_own_updates (rx : Rx) (p p' : Pipe V) (evs : List (Ev V × Labels))
    (hw : RegWF p.reg) (hrun : runEvs rx p evs = some (.ok p'))
    (name : Bytes) (labels : Labels) (s : Series V)
    (hnew : p.reg.series? name labels = none) (hs : p'.reg.series? name labels = some s) :
    ∃ t0 ts vec, (touches rx p evs).filter (·.addresses name labels) = t0 :: ts ∧
      p'.reg.vec? name (labels.map (·.1)) = some vec ∧
      p'.reg.type? name = some t0.ty ∧
      s.sameValue (specSeries (zeroSeries t0.ty vec labels) vec (ownUpds name labels (touches rx p evs))) := by
  obtain ⟨t0, ts, vec, hf, hvec, hval⟩ := new_fold rx name labels evs p p' s hw hrun hnew hs
  refine ⟨t0, ts, vec, hf, hvec, ?_, hval⟩
  have hmem : t0 ∈ (touches rx p evs).filter (·.addresses name labels) := by rw [hf]; exact List.mem_cons_self
  obtain ⟨hm, ha⟩ := List.mem_filter.mp hmem
  have := (touched_exists rx evs p p' hrun t0 hm).2
  rw [((addresses_iff t0 name labels).mp ha).1] at this
  exact this

/-- **… and for a series that already exists** with state `s0` (in the vector `vec`): it still exists
    afterwards, and its value is `s0` folded with its own updates. -/
theorem existing_series_is_fold_of_own_updates (rx : Rx) (p p' : Pipe V) (evs : List (Ev V × Labels))
    (hw : RegWF p.reg) (hrun : runEvs rx p evs = some (.ok p'))
    (name : Bytes) (labels : Labels) (s0 : Series V) (hs0 : p.reg.series? name labels = some s0) :
    ∃ vec s, p.reg.vec? name (labels.map (·.1)) = some vec ∧ p'.reg.vec? name (labels.map (·.1)) = some vec ∧
      p'.reg.series? name labels = some s ∧
      s.sameValue (specSeries s0 vec (ownUpds name labels (touches rx p evs))) := by
  obtain ⟨vec, hvec⟩ := hw.vec?_of_series? hs0
  obtain ⟨s, hs, hval⟩ := existing_fold rx name labels vec evs p p' s0 hw hrun hs0 hvec
  exact ⟨vec, s, hvec, runEvs_vec_keep _ _ vec evs hrun hvec, hs, hval⟩

/-- **Each update is the protocol's.** The updates a series receives are, in order, `evUpd` of the applied
    events addressing it, and `evUpd` is: `counter.Add(value)` for a counter event, `Add(value)` /
    `Set(value)` for a signed / unsigned gauge sample, `Observe(value)` for a timer, histogram or
    distribution sample — with `value = evValue` = the event's value times the matched rule's `scale`, if any.
    The type each of these events asks for is `evType`: from the event kind and, for observers, the rule's
    observer type or the default. -/
theorem own_updates_are_protocol (rx : Rx) (p p' : Pipe V) (evs : List (Ev V × Labels))
    (hrun : runEvs rx p evs = some (.ok p')) (name : Bytes) (labels : Labels) :
    ownUpds name labels (touches rx p evs) = (ownEvents name labels (trace rx p evs)).map (evUpd p rx) ∧
    (∀ et ∈ trace rx p evs, et.2.ty = evType p rx et.1 ∧ et.2.upd = evUpd p rx et.1) ∧
    (∀ ev : Ev V,
      (ev.kind = .counter → evUpd p rx ev = fun _ s => counterAdd s (evValue p rx ev)) ∧
      (ev.kind = .gauge → evUpd p rx ev = fun _ s =>
        if ev.relative then { s with f := add s.f (evValue p rx ev) } else { s with f := evValue p rx ev }) ∧
      (ev.kind = .observer → evUpd p rx ev = fun v s =>
        observe v (evObsTy p rx ev == .histogram) s (evValue p rx ev)) ∧
      (∀ r, evRule p rx ev = some r → ∀ sc, r.scale = some sc → evValue p rx ev = mul ev.value sc) ∧
      (∀ r, evRule p rx ev = some r → r.scale = none → evValue p rx ev = ev.value) ∧
      (evRule p rx ev = none → evValue p rx ev = ev.value)) := by
  refine ⟨ownUpds_touches hrun name labels, trace_spec evs hrun, ?_⟩
  intro ev
  refine ⟨evUpd_counter, ?_, evUpd_observer, ?_, ?_, ?_⟩
  · intro h; rw [evUpd_gauge h]; rfl
  · intro r hr sc hsc; unfold evValue; rw [hr]; simp [hsc]
  · intro r hr hsc; unfold evValue; rw [hr]; simp [hsc]
  · intro hr; unfold evValue; rw [hr]; rfl

/-! ### "… exactly the series … and no others" -/

/-- **No other series.** Every series present after the history either was present before or is addressed
    by some applied event of the history. -/
theorem no_other_series (rx : Rx) (p p' : Pipe V) (evs : List (Ev V × Labels))
    (hrun : runEvs rx p evs = some (.ok p')) (name : Bytes) (labels : Labels) (s : Series V)
    (hs : p'.reg.series? name labels = some s) :
    (∃ s0, p.reg.series? name labels = some s0) ∨
    (∃ t ∈ touches rx p evs, t.name = name ∧ t.labels = labels) := by
  by_cases h : ∃ t ∈ touches rx p evs, t.name = name ∧ t.labels = labels
  · exact Or.inr h
  · left
    have hfr := untouched_frame rx name labels evs p p' hrun (by
      intro t ht
      cases ha : t.addresses name labels with
      | false => rfl
      | true => exact absurd ⟨t, ht, (addresses_iff t name labels).mp ha⟩ h)
    rw [hfr] at hs
    exact ⟨s, hs⟩

/-- … and a series no applied event addresses is literally unchanged (or still absent). -/
theorem untouched_series_unchanged (rx : Rx) (p p' : Pipe V) (evs : List (Ev V × Labels))
    (hrun : runEvs rx p evs = some (.ok p')) (name : Bytes) (labels : Labels)
    (hno : ∀ t ∈ touches rx p evs, ¬(t.name = name ∧ t.labels = labels)) :
    p'.reg.series? name labels = p.reg.series? name labels := by
  apply untouched_frame rx name labels evs p p' hrun
  intro t ht
  cases ha : t.addresses name labels with
  | false => rfl
  | true => exact absurd ((addresses_iff t name labels).mp ha) (hno t ht)

/-- **Every predicted series is there.** The series addressed by an applied event exists at the end of the
    history (nothing is removed inside a history), under a name registered with the type the event asked for;
    and every series that existed before still exists. -/
theorem every_touched_series_exposed (rx : Rx) (p p' : Pipe V) (evs : List (Ev V × Labels))
    (hrun : runEvs rx p evs = some (.ok p')) :
    (∀ t ∈ touches rx p evs, (∃ s, p'.reg.series? t.name t.labels = some s) ∧ p'.reg.type? t.name = some t.ty) ∧
    (∀ name labels s0, p.reg.series? name labels = some s0 → ∃ s, p'.reg.series? name labels = some s) := by
  constructor
  · intro t ht
    obtain ⟨h1, h2⟩ := touched_exists rx evs p p' hrun t ht
    exact ⟨Option.isSome_iff_exists.mp h1, h2⟩
  · intro name labels s0 hs0
    exact Option.isSome_iff_exists.mp (runEvs_series_stays name labels evs hrun (by rw [hs0]; rfl))

/-- **What a scrape collects is what the registry holds.** On a well-formed registry, `(labels, state)` is
    listed in the collected family `name` of type `ty` iff the registry holds that series under `name` and
    `name` is registered with type `ty`. (So all statements about `Reg.series?` above and below are statements
    about the scrape.) -/
theorem scrape_lists_registry (r : Reg V) (hw : RegWF r) (name : Bytes) (ty : MType) (labels : Labels) (s : Series V) :
    (∃ fam ∈ r.families, fam.name = name ∧ fam.ty = ty ∧ ∃ bs, (labels, s, bs) ∈ fam.series) ↔
      (r.series? name labels = some s ∧ r.type? name = some ty) :=
  families_series_iff hw name ty labels s

/-- … and next to each listed series the scrape shows the effective bounds of the series' vector (histogram
    buckets), and as the family's help text the help of the vector of the first listed series (all vectors of
    a family agree on the help when `Gather` succeeds: C03 / C08). -/
theorem scrape_bounds_and_help (r : Reg V) (hw : RegWF r) (fam : Family V) (hfam : fam ∈ r.families) :
    (∀ labels s bs, (labels, s, bs) ∈ fam.series →
      bs = ((r.vec? fam.name (labels.map (·.1))).map fun v => effBounds v.bounds).getD []) ∧
    (∀ labels s bs, fam.series.head? = some (labels, s, bs) →
      fam.help = ((r.vec? fam.name (labels.map (·.1))).map (·.help)).getD []) :=
  families_bounds_help hw fam hfam

/-- The invariant `RegWF` holds initially and along every history. -/
theorem wf_along_history (rx : Rx) (p p' : Pipe V) (evs : List (Ev V × Labels)) (hw : RegWF p.reg)
    (hrun : runEvs rx p evs = some (.ok p')) : RegWF p'.reg ∧ p'.mapper = p.mapper ∧ p'.now = p.now :=
  ⟨RegWF_runEvs evs hw hrun, runEvs_keeps evs hrun⟩

/-- The histories of the other properties are instances: the events of one line (`handleEvents`), and a
    `runOps` history made of lines only. -/
theorem histories_are_instances (rx : Rx) (p : Pipe V) :
    (∀ tags (evs : List (Ev V)), handleEvents p rx tags evs = runEvs rx p (evs.map fun e => (e, tags))) ∧
    (∀ ls : List (Labels × List (Ev V)),
      runOps rx p (ls.map fun l => PipeOp.line l.1 l.2) = runEvs rx p (lineEvs ls)) :=
  ⟨fun tags evs => handleEvents_eq_runEvs rx tags evs p, fun ls => runOps_lines_eq_runEvs rx ls p⟩

/-- **An event matched by a `drop` rule leaves no series**: the registry is returned as it was, the event
    has no touch, and `counts.dropped` goes up by one. -/
theorem drop_leaves_no_series (p : Pipe V) (rx : Rx) (ev : Ev V) (tags : Labels) (r : Rule V)
    (hr : evRule p rx ev = some r) (ha : r.action = .drop) :
    ∃ p', handleEvent p rx ev tags = some (.ok p') ∧ p'.reg = p.reg ∧
      p'.counts.dropped = p.counts.dropped + 1 ∧ p'.counts.applied = p.counts.applied ∧
      touchOf p rx ev tags = none :=
  ⟨_, (handleEvent_drop tags hr ha).1, rfl, rfl, rfl, (handleEvent_drop tags hr ha).2⟩

/-! ### Per kind -/

/-- the start of the fold: the zero series for a new series, the old state for an existing one -/
def startOf (ty : MType) (vec : VecM V) (labels : Labels) : Option (Series V) → Series V
  | none => zeroSeries ty vec labels
  | some s0 => s0

/-- both cases of the compositional theorem in one statement -/
theorem series_fold (rx : Rx) (p p' : Pipe V) (evs : List (Ev V × Labels))
    (hw : RegWF p.reg) (hrun : runEvs rx p evs = some (.ok p'))
    (name : Bytes) (labels : Labels) (s : Series V) (hs : p'.reg.series? name labels = some s) :
    ∃ ty vec, p'.reg.type? name = some ty ∧ p'.reg.vec? name (labels.map (·.1)) = some vec ∧
      s.sameValue (specSeries (startOf ty vec labels (p.reg.series? name labels)) vec
        (ownUpds name labels (touches rx p evs))) := by
  cases hs0 : p.reg.series? name labels with
  | none =>
    obtain ⟨t0, _, vec, _, hvec, hty, hval⟩ := series_is_fold_of_own_updates rx p p' evs hw hrun name labels s hs0 hs
    exact ⟨t0.ty, vec, hty, hvec, hval⟩
  | some s0 =>
    obtain ⟨vec, s', _, hvec, hs', hval⟩ :=
      existing_series_is_fold_of_own_updates rx p p' evs hw hrun name labels s0 hs0
    rw [hs] at hs'; injection hs' with hs'; subst hs'
    have hw' := RegWF_runEvs evs hw hrun
    cases hty : p'.reg.type? name with
    | none =>
      unfold Reg.series? at hs; unfold Reg.type? at hty
      cases hf : p'.reg.find name with
      | none => rw [hf] at hs; cases hs
      | some m => rw [hf] at hty; cases hty
    | some ty => exact ⟨ty, vec, rfl, hvec, hval⟩

/-- **A counter is the sum of its increments.** For a series of a metric registered as counter at the end
    of the history, let `vs` be the scaled values of the applied events addressing it, in order. They are all
    counter events with a value that is neither negative nor NaN, and the series state is `counter.Add`
    folded over `vs` from the start state (zero for a new series): the float accumulator `f` is the left sum
    of the non-integral increments, the uint64 accumulator `n` the sum of the integral ones modulo 2^64
    (client_golang keeps the two apart; the exposed value is `f + float64(n)`, see C06). If no increment
    takes the integer path, `f` is the plain left sum of all increments and `n` stays where it was.
    (The division by the sample rate happened in the line parser: `line_multiplicity`.) -/
theorem counter_is_sum_of_increments (rx : Rx) (p p' : Pipe V) (evs : List (Ev V × Labels))
    (hw : RegWF p.reg) (hrun : runEvs rx p evs = some (.ok p'))
    (name : Bytes) (labels : Labels) (s : Series V) (hs : p'.reg.series? name labels = some s)
    (hty : p'.reg.type? name = some .counter) :
    ∃ vec, p'.reg.vec? name (labels.map (·.1)) = some vec ∧
      let own := ownEvents name labels (trace rx p evs)
      let vs := own.map (evValue p rx)
      let start := startOf .counter vec labels (p.reg.series? name labels)
      (∀ ev ∈ own, ev.kind = .counter ∧ isNaN (evValue p rx ev) = false ∧ ltZero (evValue p rx ev) = false) ∧
      s.sameValue (counterFold start vs) ∧
      s.f = sumFrom start.f (vs.filter fun v => !intPath v) ∧
      s.n % two64 = (start.n + (vs.filterMap toUInt64Exact).sum) % two64 ∧
      (start.n < two64 → s.n = (start.n + (vs.filterMap toUInt64Exact).sum) % two64) ∧
      ((∀ v ∈ vs, toUInt64Exact v = none) → s.f = sumFrom start.f vs ∧ s.n = start.n) ∧
      s.bk = start.bk := by
  obtain ⟨ty, vec, hty', hvec, hval⟩ := series_fold rx p p' evs hw hrun name labels s hs
  rw [hty] at hty'; injection hty' with hty'; subst hty'
  rw [ownUpds_counter hrun hty] at hval
  refine ⟨vec, hvec, ?_, hval, ?_, ?_, ?_, ?_, ?_⟩
  · intro ev hev
    have hk := evType_counter (ownEvents_type hrun hty hev)
    obtain ⟨t, hm, _, _⟩ := mem_ownEvents hev
    refine ⟨hk, ?_⟩
    -- the event was applied, so it passed the negative / NaN check
    have hb := trace_not_bad evs hrun (ev, t) hm
    unfold evBadCounter at hb
    simp only [hk, beq_self_eq_true, Bool.true_and, Bool.or_eq_false_iff] at hb
    exact ⟨hb.2, hb.1⟩
  · rw [hval.2.1, counterFold_f]
  · rw [hval.2.2.1, counterFold_n_mod]
  · intro hlt; rw [hval.2.2.1, counterFold_n _ _ hlt]
  · intro hnone
    obtain ⟨h1, h2⟩ := counterFold_no_int _ (startOf MType.counter vec labels (p.reg.series? name labels)) hnone
    rw [hval.2.1, hval.2.2.1]; exact ⟨h1, h2⟩
  · rw [hval.2.2.2, (counterFold_rest _ _).1]

/-- **A gauge is its last absolute value plus the later signed deltas.** For a series of a metric
    registered as gauge at the end of the history, let `ops` be the (signed?, scaled value) pairs of the
    applied events addressing it, in order. They are all gauge events and the value `f` of the series is
    `gaugeSpec ops` of the start value (zero for a new series): a signed sample is added, an unsigned one
    replaces the value. Hence, whenever `ops = pre ++ (false, a) :: deltas` with all `deltas` signed, the
    value is `a` plus the deltas, added in order — whatever came before; with only signed samples it is the
    start value plus the deltas. -/
theorem gauge_is_last_absolute_plus_deltas (rx : Rx) (p p' : Pipe V) (evs : List (Ev V × Labels))
    (hw : RegWF p.reg) (hrun : runEvs rx p evs = some (.ok p'))
    (name : Bytes) (labels : Labels) (s : Series V) (hs : p'.reg.series? name labels = some s)
    (hty : p'.reg.type? name = some .gauge) :
    ∃ vec, p'.reg.vec? name (labels.map (·.1)) = some vec ∧
      let own := ownEvents name labels (trace rx p evs)
      let ops := own.map fun ev => (ev.relative, evValue p rx ev)
      let start := startOf .gauge vec labels (p.reg.series? name labels)
      (∀ ev ∈ own, ev.kind = .gauge) ∧
      s.f = gaugeSpec ops start.f ∧ s.n = start.n ∧ s.bk = start.bk ∧
      (∀ pre a deltas, ops = pre ++ (false, a) :: deltas → (∀ d ∈ deltas, d.1 = true) →
        s.f = sumFrom a (deltas.map (·.2))) ∧
      ((∀ d ∈ ops, d.1 = true) → s.f = sumFrom start.f (ops.map (·.2))) := by
  obtain ⟨ty, vec, hty', hvec, hval⟩ := series_fold rx p p' evs hw hrun name labels s hs
  rw [hty] at hty'; injection hty' with hty'; subst hty'
  rw [ownUpds_gauge hrun hty] at hval
  obtain ⟨g1, g2, g3, _⟩ := specSeries_gauge vec
    ((ownEvents name labels (trace rx p evs)).map fun ev => (ev.relative, evValue p rx ev))
    (startOf MType.gauge vec labels (p.reg.series? name labels))
  have hf := hval.2.1.trans g1
  refine ⟨vec, hvec, fun ev hev => evType_gauge (ownEvents_type hrun hty hev), hf, hval.2.2.1.trans g2,
    hval.2.2.2.trans g3, ?_, ?_⟩
  · intro pre a deltas hops hd
    rw [hf, hops, gaugeSpec_last_absolute pre deltas a _ hd]
  · intro hd
    rw [hf, gaugeSpec_relative _ hd]

/-- **An observer counts every observation.** For a series of a metric registered as histogram or summary
    at the end of the history, let `xs` be the scaled values of the applied events addressing it, in order
    (one event per repetition: a sample with rate `r` arrives as floor(1/r) events, `line_multiplicity`).
    They are all observer events and the series state is `Observe` folded over `xs`: `_count` goes up by the
    number of observations, `_sum` is the left sum of the observations; for a histogram bucket `i` goes up by
    the number of observations whose `bucketIndex` (w.r.t. the vector's effective bounds) is `i`, the number
    of buckets does not change, and for a new series (one bucket per bound plus `+Inf`) the bucket counts add
    up to the number of observations; for a summary the bucket list stays as it is (empty for a new one). -/
theorem observer_counts_every_observation (rx : Rx) (p p' : Pipe V) (evs : List (Ev V × Labels))
    (hw : RegWF p.reg) (hrun : runEvs rx p evs = some (.ok p'))
    (name : Bytes) (labels : Labels) (s : Series V) (hs : p'.reg.series? name labels = some s)
    (ty : MType) (hty : p'.reg.type? name = some ty) (hobs : ty = .histogram ∨ ty = .summary) :
    ∃ vec, p'.reg.vec? name (labels.map (·.1)) = some vec ∧
      let own := ownEvents name labels (trace rx p evs)
      let xs := own.map (evValue p rx)
      let start := startOf ty vec labels (p.reg.series? name labels)
      (∀ ev ∈ own, ev.kind = .observer) ∧
      s.sameValue (observeFold vec (ty == .histogram) start xs) ∧
      s.n = start.n + xs.length ∧
      s.f = sumFrom start.f xs ∧
      (ty = .summary → s.bk = start.bk) ∧
      (ty = .histogram →
        s.bk.length = start.bk.length ∧
        (∀ i, s.bk[i]? = (start.bk[i]?).map fun c => c + xs.countP fun x => bucketIndex (effBounds vec.bounds) x == i) ∧
        (p.reg.series? name labels = none →
          s.bk.length = (effBounds vec.bounds).length + 1 ∧ s.bk.sum = xs.length)) := by
  obtain ⟨ty', vec, hty', hvec, hval⟩ := series_fold rx p p' evs hw hrun name labels s hs
  rw [hty] at hty'; injection hty' with hty'; subst hty'
  rw [ownUpds_observer hrun hty hobs] at hval
  obtain ⟨o1, o2, o3, _⟩ := observeFold_spec vec (ty == .histogram)
    ((ownEvents name labels (trace rx p evs)).map (evValue p rx)) (startOf ty vec labels (p.reg.series? name labels))
  refine ⟨vec, hvec, ?_, hval, hval.2.2.1.trans o1, hval.2.1.trans o2, ?_, ?_⟩
  · intro ev hev
    exact (evType_observer (p := p) (rx := rx) (ev := ev) (by rw [ownEvents_type hrun hty hev]; exact hobs)).1
  · intro h; subst h
    rw [hval.2.2.2, o3]; rfl
  · intro h; subst h
    have hb : s.bk = (observeFold vec true (startOf MType.histogram vec labels (p.reg.series? name labels))
        ((ownEvents name labels (trace rx p evs)).map (evValue p rx))).bk := hval.2.2.2
    refine ⟨?_, ?_, ?_⟩
    · rw [hb, (observeFold_spec vec true _ _).2.2.1]; simp only [if_true]; exact bumpAll_length _ _
    · intro i; rw [hb]; exact observeFold_bucket vec _ _ i
    · intro hnone
      rw [hnone] at hb
      have hlen : (startOf MType.histogram vec labels none).bk.length = (effBounds vec.bounds).length + 1 := by
        simp [startOf, zeroSeries]
      obtain ⟨t1, t2⟩ := observeFold_bucket_total vec
        ((ownEvents name labels (trace rx p evs)).map (evValue p rx)) (startOf MType.histogram vec labels none) hlen
      rw [hb, t1, t2, hlen]
      refine ⟨rfl, ?_⟩
      simp [startOf, zeroSeries]

/-! ### What one sample of a line becomes -/

/-- **Multiplicity and unit conversion.** For a line `name:v|T|@r` (resp. `name:v|T`) whose name no enabled
    tagging style cuts, whose value `v` parses to `x`, and whose fields contain no `|` or `:`; let
    `rate = ParseFloat(r)`, read as 1 when it is 0 (`effRate`):
    * `T = ms`: `int(1/rate)` identical observer events (one without `@r`), each with value `x / 1000`;
    * `T = h`, `T = d`: `int(1/rate)` identical observer events with value `x`;
    * `T = c`: one counter event with value `x / rate` (`x` without `@r`);
    * `T = g`: one gauge event with value `x`, signed iff `v` starts with `+` or `-`; the rate is ignored.
    (`recipInt` is Go's `int(1 / ·)`; `.toNat` makes a negative count an empty loop, as the `for` loop does.) -/
theorem line_multiplicity (fl : ParserFlags) (pf : Pf V) (name v r : Bytes) (x : V) (hn : PlainName fl name)
    (hv : cPipe ∉ v) (hvc : cColon ∉ v) (hr : cPipe ∉ r) (hrc : cColon ∉ r) (hx : pf v = (x, .ok)) :
    let rate := effRate (pf r).1
    (lineToEvents fl pf true (name ++ cColon :: ratedSample v [109, 115] r)).events =
      List.replicate (recipInt rate).toNat ⟨.observer, name, div x thousand, false⟩ ∧
    (lineToEvents fl pf true (name ++ cColon :: ratedSample v [104] r)).events =
      List.replicate (recipInt rate).toNat ⟨.observer, name, x, false⟩ ∧
    (lineToEvents fl pf true (name ++ cColon :: ratedSample v [100] r)).events =
      List.replicate (recipInt rate).toNat ⟨.observer, name, x, false⟩ ∧
    (lineToEvents fl pf true (name ++ cColon :: ratedSample v [99] r)).events =
      [⟨.counter, name, div x rate, false⟩] ∧
    (lineToEvents fl pf true (name ++ cColon :: ratedSample v [103] r)).events =
      [⟨.gauge, name, x, signedValue v⟩] ∧
    (lineToEvents fl pf true (name ++ cColon :: plainSample v [109, 115])).events =
      [⟨.observer, name, div x thousand, false⟩] ∧
    (lineToEvents fl pf true (name ++ cColon :: plainSample v [104])).events = [⟨.observer, name, x, false⟩] ∧
    (lineToEvents fl pf true (name ++ cColon :: plainSample v [100])).events = [⟨.observer, name, x, false⟩] ∧
    (lineToEvents fl pf true (name ++ cColon :: plainSample v [99])).events = [⟨.counter, name, x, false⟩] ∧
    (lineToEvents fl pf true (name ++ cColon :: plainSample v [103])).events = [⟨.gauge, name, x, signedValue v⟩] := by
  have hT : ∀ T : Bytes, T ∈ [[109, 115], [104], [100], [99], [103]] → cPipe ∉ T ∧ cColon ∉ T := by decide
  refine ⟨?_, ?_, ?_, ?_, ?_, ?_, ?_, ?_, ?_, ?_⟩
  · rw [line_rated_events fl pf hn hv hvc (hT _ (by decide)).1 (hT _ (by decide)).2 hr hrc hx]; rfl
  · rw [line_rated_events fl pf hn hv hvc (hT _ (by decide)).1 (hT _ (by decide)).2 hr hrc hx]; rfl
  · rw [line_rated_events fl pf hn hv hvc (hT _ (by decide)).1 (hT _ (by decide)).2 hr hrc hx]; rfl
  · rw [line_rated_events fl pf hn hv hvc (hT _ (by decide)).1 (hT _ (by decide)).2 hr hrc hx]; rfl
  · rw [line_rated_events fl pf hn hv hvc (hT _ (by decide)).1 (hT _ (by decide)).2 hr hrc hx]; rfl
  · rw [line_plain_events fl pf hn hv hvc (hT _ (by decide)).1 (hT _ (by decide)).2 hx]; rfl
  · rw [line_plain_events fl pf hn hv hvc (hT _ (by decide)).1 (hT _ (by decide)).2 hx]; rfl
  · rw [line_plain_events fl pf hn hv hvc (hT _ (by decide)).1 (hT _ (by decide)).2 hx]; rfl
  · rw [line_plain_events fl pf hn hv hvc (hT _ (by decide)).1 (hT _ (by decide)).2 hx]; rfl
  · rw [line_plain_events fl pf hn hv hvc (hT _ (by decide)).1 (hT _ (by decide)).2 hx]; rfl

/-! ### Identity of the series -/

/-- `Reg.firstHelp?`, the help string a *new* vector of an already known family gets (`series_identity`), spelled
    out: it is the help of the first vector of the metric entry the name resolves to; there is none iff the name
    is not registered or its entry has no vector yet — only then does the event's own help text count. -/
theorem first_help_spec (r : Reg V) (name : Bytes) :
    (∀ h, r.firstHelp? name = some h ↔ ∃ m v rest, r.find name = some m ∧ m.vecs = v :: rest ∧ v.help = h) ∧
    (r.firstHelp? name = none ↔ ∀ m, r.find name = some m → m.vecs = []) ∧
    (r.type? name = none → r.firstHelp? name = none) := by
  refine ⟨firstHelp?_some_iff r name, firstHelp?_none_iff r name, ?_⟩
  intro h
  rw [firstHelp?_none_iff]
  intro m hm
  unfold Reg.type? at h
  rw [hm] at h; cases h

/-- **The series an applied event touches.** If `handleEvent` applies an event on a well-formed registry
    (it is counted in `counts.applied`), the event has a touch `t`, and
    * name: `t.name` is the escaped (`specEscape`) mapped name when a rule matched (`m.name`, the expanded
      `name:` template of the mapper's answer), else the escaped event name; it is not empty before escaping;
    * type: counter / gauge from the event kind; for an observer event histogram or summary according to the
      rule's `observer_type`, or the default when the rule says nothing or no rule matched;
    * labels: `t.labels` is the sorted form of the label map C05 specifies (`C05.specLabels`: the line's tags
      with the rule's labels merged in, see `C05.mergeLabels_spec`);
    * afterwards the series exists with exactly these labels under a name registered with this type, and no
      other series changed;
    * vector: if the vector (name, label names) existed, it is unchanged (help and bounds stay those of the
      event that created it: `getOrCreate` never changes an existing vector); otherwise it is created with
      these label names, help = the help string of the first vector ever created for this metric name
      (`Reg.firstHelp?`, the registry's `helpFor`: one help string per family, whatever later rules or reloaded
      configurations say — `first_help_spec`) or, when the name has no vector yet, the event's help text
      `evHelp` = the rule's help, or the default text `defaultHelp` when the rule has none or no rule matched,
      and — for a histogram — bounds = the rule's buckets if it has histogram options with buckets, else the
      default buckets. -/
theorem series_identity (p p' : Pipe V) (rx : Rx) (ev : Ev V) (tags : Labels) (hw : RegWF p.reg)
    (h : handleEvent p rx ev tags = some (.ok p')) (ha : p'.counts.applied = p.counts.applied + 1) :
    ∃ t, touchOf p rx ev tags = some t ∧
      -- name
      t.name = specEscape (evRawName p rx ev) ∧ evRawName p rx ev ≠ [] ∧
      (∀ m r, evFound p rx ev = some m → evRule p rx ev = some r → m.name = some (evRawName p rx ev)) ∧
      ((evFound p rx ev = none ∨ evRule p rx ev = none) → evRawName p rx ev = ev.name) ∧
      -- type
      t.ty = evType p rx ev ∧
      (ev.kind = .counter → t.ty = .counter) ∧ (ev.kind = .gauge → t.ty = .gauge) ∧
      (ev.kind = .observer → t.ty = if evObsTy p rx ev == .histogram then .histogram else .summary) ∧
      (∀ r, evRule p rx ev = some r → r.observerType ≠ .dflt → evObsTy p rx ev = r.observerType) ∧
      (∀ r, evRule p rx ev = some r → r.observerType = .dflt → evObsTy p rx ev = p.mapper.cfg.dObserverType) ∧
      (evRule p rx ev = none → evObsTy p rx ev = p.mapper.cfg.dObserverType) ∧
      -- labels
      t.labels = (C05.specLabels (p.mapper.lookup rx ev.name (kindIdx ev.kind))
          ((p.mapper.lookup rx ev.name (kindIdx ev.kind)).bind fun m => p.mapper.cfg.rules[m.ruleIdx]?) tags).sorted ∧
      -- the series afterwards
      (∃ s, p'.reg.series? t.name t.labels = some s ∧ s.labels = t.labels) ∧
      p'.reg.type? t.name = some t.ty ∧
      (∀ name labels, ¬(name = t.name ∧ labels = t.labels) → p'.reg.series? name labels = p.reg.series? name labels) ∧
      -- the vector
      (∀ v, p.reg.vec? t.name (t.labels.map (·.1)) = some v → p'.reg.vec? t.name (t.labels.map (·.1)) = some v) ∧
      (p.reg.vec? t.name (t.labels.map (·.1)) = none →
        ∃ v, p'.reg.vec? t.name (t.labels.map (·.1)) = some v ∧ v.names = t.labels.map (·.1) ∧
          v.help = (p.reg.firstHelp? t.name).getD (evHelp p rx ev) ∧
          (t.ty = .histogram → v.bounds = evBounds p rx ev)) ∧
      -- help and bounds, spelled out
      (∀ r, evRule p rx ev = some r → r.help ≠ [] → evHelp p rx ev = r.help) ∧
      (∀ r, evRule p rx ev = some r → r.help = [] → evHelp p rx ev = defaultHelp) ∧
      (evRule p rx ev = none → evHelp p rx ev = defaultHelp) ∧
      (∀ r, evRule p rx ev = some r → r.hasHistOpts = true → r.buckets ≠ [] → evBounds p rx ev = r.buckets) ∧
      (∀ r, evRule p rx ev = some r → (r.hasHistOpts = false ∨ r.buckets = []) →
        evBounds p rx ev = p.mapper.cfg.dBuckets) ∧
      (evRule p rx ev = none → evBounds p rx ev = p.mapper.cfg.dBuckets) := by
  obtain ⟨t, ht⟩ := (applied_iff_touch h).mp ha
  obtain ⟨i1, i2, i3, i4, _⟩ := touchOf_identity ht
  obtain ⟨c, pl, reg, hta, hg, et⟩ := touchOf_eq_some ht
  obtain ⟨_, _, nm, hn, _⟩ := evTarget_spec hta
  obtain ⟨v1, v2⟩ := step_vec hw h ht
  obtain ⟨e1, e2, e3⟩ := evHelp_spec p rx ev
  refine ⟨t, ht, i1, i2, fun m r hf hr => evNamed_mapped_name hn m r hf hr, ?_, i3, ?_, ?_, ?_, ?_, ?_, ?_, ?_, ?_,
    step_type h ht, ?_, v1, v2, e1, e2, e3, ?_, ?_, ?_⟩
  · intro hno
    unfold evRawName
    split
    · rename_i m r hf hr; rcases hno with h' | h' <;> simp [hf, hr] at h'
    · rfl
  · intro hk; rw [i3]; unfold evType; rw [hk]
  · intro hk; rw [i3]; unfold evType; rw [hk]
  · intro hk; rw [i3]; unfold evType; rw [hk]
  · intro r hr hne; unfold evObsTy; rw [hr]
    have : (r.observerType == ObsTy.dflt) = false := by simpa using hne
    simp [this]
  · intro r hr he; unfold evObsTy; rw [hr]; simp [he]
  · intro hr; unfold evObsTy; rw [hr]
  · rw [i4]; rfl
  · obtain ⟨s, hs⟩ := step_exists h ht
    exact ⟨s, hs, (hasSeries_of_series? hs).2⟩
  · intro name labels hne
    apply step_frame h name labels
    intro t' ht'
    rw [ht] at ht'; injection ht' with ht'; subst ht'
    cases hadd : t.addresses name labels with
    | false => rfl
    | true =>
      obtain ⟨a1, a2⟩ := (addresses_iff t name labels).mp hadd
      exact absurd ⟨a1.symm, a2.symm⟩ hne
  · intro r hr hh hb; unfold evBounds; rw [hr]
    have : r.buckets.isEmpty = false := by cases hh' : r.buckets with | nil => exact absurd hh' hb | cons _ _ => rfl
    simp [hh, this]
  · intro r hr hor; unfold evBounds; rw [hr]
    rcases hor with h' | h' <;> simp [h']
  · intro hr; unfold evBounds; rw [hr]

/-- The vector a series belongs to is never changed by later events of the history: it keeps the help and
    the bounds of its creating event until the end. -/
theorem vector_fixed_at_creation (rx : Rx) (p p' : Pipe V) (evs : List (Ev V × Labels))
    (hrun : runEvs rx p evs = some (.ok p')) (name : Bytes) (names : List Bytes) (v : VecM V)
    (hv : p.reg.vec? name names = some v) : p'.reg.vec? name names = some v :=
  runEvs_vec_keep name names v evs hrun hv

/-! ### Non-vacuity: a concrete history on the toy number type -/

section example_
attribute [local instance] toyNumOps

private def cfg0 : Config Int :=
  { rules := [], dObserverType := .histogram, dTtl := 0, dBuckets := [1, 5], dQuantiles := [], dMaxAge := 0,
    dAgeBuckets := 0, dBufCap := 0, orderingDisabled := false, doFSM := false }
private def p0 : Pipe Int := { mapper := MState.fresh cfg0 }
private def noRx : Rx := fun _ _ => none

private def nx : Bytes := [120]   -- "x"
private def ny : Bytes := [121]   -- "y"
private def nz : Bytes := [122]   -- "z"

/-- `x:3|c`, `y:5|g`, `x:4|c`, `y:+2|g`, `z:3|h`, `z:7|h`, and a refused `x:-1|c` in between -/
private def hist : List (Ev Int × Labels) :=
  [ (⟨.counter, nx, 3, false⟩, []), (⟨.gauge, ny, 5, false⟩, []), (⟨.counter, nx, -1, false⟩, []),
    (⟨.counter, nx, 4, false⟩, []), (⟨.gauge, ny, 2, true⟩, []),
    (⟨.observer, nz, 3, false⟩, []), (⟨.observer, nz, 7, false⟩, []) ]

private def final : Option (Pipe Int) :=
  match runEvs noRx p0 hist with
  | some (.ok p) => some p
  | _ => none

private def valueOf (name : Bytes) : Option (Int × Nat × List Nat) :=
  final.bind fun p => (p.reg.series? name []).map fun s => (s.f, s.n, s.bk)

-- the history runs without panic; six of the seven events are applied, one is refused
example : (final.map fun p => (p.counts.applied, p.counts.errors)) = some (6, [.illegalNegativeCounter]) := by
  with_unfolding_all decide
-- the touches: which series, which type, in order
example : (touches noRx p0 hist).map (fun t => (t.name, t.labels, t.ty)) =
    [(nx, [], .counter), (ny, [], .gauge), (nx, [], .counter), (ny, [], .gauge), (nz, [], .histogram), (nz, [], .histogram)] := by
  with_unfolding_all decide
-- the counter x = 3 + 4 (integer path), the gauge y = 5 + 2, the histogram z: two observations, sum 10,
-- buckets (≤1, ≤5, +Inf) = (0, 1, 1)
example : valueOf nx = some (0, 7, []) := by with_unfolding_all decide
example : valueOf ny = some (7, 0, []) := by with_unfolding_all decide
example : valueOf nz = some (10, 2, [0, 1, 1]) := by with_unfolding_all decide
-- the fold of the own updates of each series, computed separately, gives the same values: it is non-trivial
-- (two updates each) and independent of the interleaving
private def vec0 : VecM Int := { names := [], help := defaultHelp, bounds := [] }
private def vecH : VecM Int := { names := [], help := defaultHelp, bounds := [1, 5] }
private def foldOf (name : Bytes) (ty : MType) (vec : VecM Int) : Int × Nat × List Nat :=
  let s := specSeries (zeroSeries ty vec []) vec (ownUpds name [] (touches noRx p0 hist))
  (s.f, s.n, s.bk)
example : (ownUpds nx [] (touches noRx p0 hist)).length = 2 ∧ (ownUpds ny [] (touches noRx p0 hist)).length = 2 ∧
    (ownUpds nz [] (touches noRx p0 hist)).length = 2 := by
  refine ⟨?_, ?_, ?_⟩ <;> with_unfolding_all decide
example : foldOf nx .counter vec0 = (0, 7, []) := by with_unfolding_all decide
example : foldOf ny .gauge vec0 = (7, 0, []) := by with_unfolding_all decide
example : foldOf nz .histogram vecH = (10, 2, [0, 1, 1]) := by with_unfolding_all decide
-- no other series: a name nobody addressed is absent
example : valueOf [119] = none := by with_unfolding_all decide

-- multiplicity: `x:5|ms|@…` on the toy parser (rate "2" ↦ int(1/2) = 0 events; rate "1" ↦ one event, value 5/1000 = 0)
example : ((lineToEvents (V := Int) ⟨false, false, false, false⟩ toyPf true
    (nx ++ cColon :: ratedSample [53] [109, 115] [49])).events.map fun e => (e.kind, e.name, e.value, e.relative)) =
    [(.observer, nx, 0, false)] := by
  with_unfolding_all decide
example : ((lineToEvents (V := Int) ⟨false, false, false, false⟩ toyPf true
    (nx ++ cColon :: ratedSample [53] [99] [50])).events.map fun e => (e.kind, e.name, e.value, e.relative)) =
    [(.counter, nx, 2, false)] := by
  with_unfolding_all decide

end example_

end SE.Props.C01
