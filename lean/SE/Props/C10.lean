import SE.Proofs.LineMulti
/-
C10 — Multi-sample and extended-aggregation lines decompose sample by sample.

`lineToEvents` is the model of `LineToEvents` (SE/Model/Line.lean); `mkLine name rest` is the
line `name:rest`. Every theorem holds for all value types `V` with `NumOps V`, all
parse-float oracles `pf`, all flag combinations `fl` and all byte strings in the stated
domain (no size bounds). The domains are the structures `MultiDom` and `ExtAggDom` of
SE/Spec/Line.lean (each field is one guard); helper lemmas are in SE/Proofs/Bytes.lean,
Line.lean, LineLabels.lean and LineMulti.lean.
-/
namespace SE.Props.C10
open SE
variable {V : Type} [NumOps V]

/-- A line `name:s1:s2:…:sk` yields exactly the events of the single-sample lines `name:s1`,
    `name:s2`, … in order, and the same number of sample-error increments; `samplesReceived`
    moves once per part; tag errors are those of the name (as for every `name:sᵢ`); the label
    map is that of every single line `name:sᵢ` whose `sᵢ` contains a `|` (a part without `|`
    is, as a line of its own, rejected before labels are attached to anything).
    Guards: `MultiDom` (name non-empty without `:`, parts without `:`, first part has a `|`,
    no `|#` after the first colon). -/
theorem multi_sample_decomposes (fl : ParserFlags) (pf : Pf V) (e0 : Bytes) (ss : List Bytes)
    (d : MultiDom e0 ss) :
    let whole := lineToEvents fl pf true (mkLine e0 (joinWith cColon ss))
    let single := fun s => lineToEvents fl pf true (mkLine e0 s)
    whole.events = (ss.map fun s => (single s).events).flatten ∧
    whole.errs.length = (ss.map fun s => (single s).errs.length).sum ∧
    whole.samples = ss.length ∧
    (∀ s ∈ ss, cPipe ∈ s → whole.labels = (single s).labels) ∧
    (∀ s ∈ ss, whole.tagErrs = (single s).tagErrs) := by
  intro whole single
  obtain ⟨m, L, E, hnt, hw, hs, h1⟩ := multi_unfold fl pf e0 ss d
  have hw : whole = ss.foldl (parseSample fl pf m) (startSt L E) := hw
  have hs : ∀ s, single s = afterName fl pf (m, L, E) s := hs
  have hin : ∀ s ∈ ss, ∀ c ∈ (splitOn cPipe s).drop 2, Inert fl c :=
    fun s hs => inert_of_no_dog fl (d.no_dog_mem hs)
  refine ⟨?_, ?_, ?_, ?_, ?_⟩
  · rw [hw, foldl_parseSample_events]
    simp only [startSt, List.nil_append]
    congr 1
    apply List.map_congr_left
    intro s hmem
    rw [hs, afterName_single_events fl pf m L E s (d.no_colon s hmem) (d.no_dog_mem hmem)]
  · rw [hw, foldl_parseSample_errs]
    simp only [startSt, List.nil_append, List.length_flatten, List.map_map]
    congr 1
    apply List.map_congr_left
    intro s hmem
    simp only [Function.comp]
    rw [hs, afterName_single_errs_length fl pf m L E s (d.no_colon s hmem) (d.no_dog_mem hmem)]
  · rw [hw, foldl_parseSample_samples]; simp [startSt]
  · intro s hmem hps
    have : single s = parseSample fl pf m (startSt L E) s := h1 s hmem hps
    rw [hw, (foldl_parseSample_inert fl pf m _ hin _).1, this,
      (parseSample_inert fl pf m _ s (hin s hmem)).1]
  · intro s hmem
    rw [hw, (foldl_parseSample_inert fl pf m _ hin _).2, hs]
    by_cases hps : cPipe ∈ s
    · rw [afterName_single fl pf m L E s hps (d.no_colon s hmem) (d.no_dog_mem hmem),
        (parseSample_inert fl pf m _ s (hin s hmem)).2]
    · rw [afterName_nopipe fl pf m L E s hps]; rfl

/-- When every part contains a `|` the decomposition is exact on the error *reasons* and on
    `samplesReceived` too: the reasons of the whole line are the concatenation of the reasons of
    the single lines, and the sample counter is the sum of theirs. Guards: `MultiDom` plus
    "every part contains `|`". -/
theorem multi_sample_decomposes_exact (fl : ParserFlags) (pf : Pf V) (e0 : Bytes) (ss : List Bytes)
    (d : MultiDom e0 ss) (hpipe : ∀ s ∈ ss, cPipe ∈ s) :
    let whole := lineToEvents fl pf true (mkLine e0 (joinWith cColon ss))
    let single := fun s => lineToEvents fl pf true (mkLine e0 s)
    whole.errs = (ss.map fun s => (single s).errs).flatten ∧
    whole.samples = (ss.map fun s => (single s).samples).sum := by
  intro whole single
  obtain ⟨m, L, E, hnt, hw, hs, h1⟩ := multi_unfold fl pf e0 ss d
  have hw : whole = ss.foldl (parseSample fl pf m) (startSt L E) := hw
  have h1 : ∀ s ∈ ss, single s = parseSample fl pf m (startSt L E) s :=
    fun s hmem => h1 s hmem (hpipe s hmem)
  constructor
  · rw [hw, foldl_parseSample_errs]
    simp only [startSt, List.nil_append]
    congr 1
    apply List.map_congr_left
    intro s hmem
    rw [h1 s hmem, parseSample_errs]; rfl
  · rw [hw, foldl_parseSample_samples]
    have : ∀ l : List Bytes, (∀ s ∈ l, s ∈ ss) → (l.map fun s => (single s).samples).sum = l.length := by
      intro l
      induction l with
      | nil => intro _; rfl
      | cons a l ih =>
        intro h
        rw [List.map_cons, List.sum_cons, ih (fun s hs => h s (by simp [hs])), h1 a (h a (by simp)),
          parseSample_samples]
        simp [startSt]; omega
    rw [this ss (fun _ h => h)]; simp [startSt]

/-- An extended-aggregation shaped line `name:p0|p1 rest` (the part `p0` before the first `|`
    contains a `:`) whose type field `p1` is not `ms`, `h` or `d` is rejected as a whole: no
    events, exactly one `invalid_extended_aggregate_type`, `samplesReceived` untouched.
    Guards: name non-empty without `:`; `p0`, `p1` without `|`; `rest` empty or starting with
    `|`; the line is not already rejected as mixed tagging (`|#` absent or no name-side labels —
    otherwise see `mixed_rejected` in C09: that check comes first). -/
theorem ext_agg_bad_type (fl : ParserFlags) (pf : Pf V) (e0 p0 p1 rest : Bytes)
    (h0 : e0 ≠ []) (hc0 : cColon ∉ e0) (hp0 : cPipe ∉ p0) (hp1 : cPipe ∉ p1)
    (hrest : rest = [] ∨ ∃ r, rest = cPipe :: r) (hcol : cColon ∈ p0)
    (hT : isExtAggType p1 = false)
    (hmix : containsSub [cPipe, cHash] (p0 ++ cPipe :: (p1 ++ rest)) = false ∨
            (parseNameAndTags fl e0).2.1 = []) :
    let r := lineToEvents fl pf true (mkLine e0 (p0 ++ cPipe :: (p1 ++ rest)))
    r.events = [] ∧ r.errs = [.invalidExtAggType] ∧ r.samples = 0 := by
  intro r
  rcases hnt : parseNameAndTags fl e0 with ⟨m, L, E⟩
  rw [hnt] at hmix
  have : r = { errs := [.invalidExtAggType], tagErrs := E } := by
    simp only [r, mkLine]
    rw [lineToEvents_eq fl pf _ h0 hc0, hnt]
    exact afterName_extagg_bad fl pf m L E hp0 hp1 hrest hcol hT hmix
  rw [this]; exact ⟨rfl, rfl, rfl⟩

/-- A DogStatsD extended-aggregation line `name:v1:v2:…:vk|T rest` (T one of ms, h, d) yields
    exactly the events of the lines `name:v1|T rest`, `name:v2|T rest`, … in order.
    Guards: `ExtAggDom`. -/
theorem ext_agg_decomposes (fl : ParserFlags) (pf : Pf V) (e0 : Bytes) (vs : List Bytes) (T rest : Bytes)
    (d : ExtAggDom e0 vs T rest) :
    let whole := lineToEvents fl pf true (mkLine e0 (joinWith cColon vs ++ cPipe :: (T ++ rest)))
    let single := fun v => lineToEvents fl pf true (mkLine e0 (v ++ cPipe :: (T ++ rest)))
    whole.events = (vs.map fun v => (single v).events).flatten := by
  intro whole single
  obtain ⟨m, L, E, hnt, h⟩ := ext_agg_unfold fl pf e0 vs T rest d
  rcases h with ⟨_, _, hw, hs⟩ | ⟨_, hw, hs⟩
  · have hw : whole = _ := hw
    rw [hw, flatten_map_nil]
    intro v hv
    have : single v = _ := hs v hv
    rw [this]
  · have hw : whole = _ := hw
    rw [hw, foldl_parseSample_events, List.map_map]
    simp only [startSt, List.nil_append]
    congr 1
    apply List.map_congr_left
    intro v hv
    have : single v = _ := hs v hv
    simp only [Function.comp]
    rw [this, parseSample_events]; rfl

/-- For an extended-aggregation line that is not rejected as mixed tagging (no `|#` in `rest`,
    or no name-side labels) the sample-error reasons are the concatenation of those of the single
    lines and `samplesReceived` is the sum of theirs; `tagErrors`: the name-side tag errors are
    counted once per line, the `#`-section's once per sample, so
    `whole.tagErrs + (k-1)·nameTagErrs` is the sum over the single lines.
    (If the line *is* mixed, it raises one `mixed_tagging_styles` — and so does each of the `k`
    single lines, so the counts differ there; see C09 `mixed_rejected`.)
    Guards: `ExtAggDom`, not mixed. -/
theorem ext_agg_decomposes_errs (fl : ParserFlags) (pf : Pf V) (e0 : Bytes) (vs : List Bytes)
    (T rest : Bytes) (d : ExtAggDom e0 vs T rest)
    (hmix : containsSub [cPipe, cHash] rest = false ∨ (parseNameAndTags fl e0).2.1 = []) :
    let whole := lineToEvents fl pf true (mkLine e0 (joinWith cColon vs ++ cPipe :: (T ++ rest)))
    let single := fun v => lineToEvents fl pf true (mkLine e0 (v ++ cPipe :: (T ++ rest)))
    whole.errs = (vs.map fun v => (single v).errs).flatten ∧
    whole.samples = (vs.map fun v => (single v).samples).sum ∧
    whole.tagErrs + (vs.length - 1) * (parseNameAndTags fl e0).2.2 =
      (vs.map fun v => (single v).tagErrs).sum := by
  intro whole single
  obtain ⟨m, L, E, hnt, h⟩ := ext_agg_unfold fl pf e0 vs T rest d
  rw [hnt] at hmix ⊢
  rcases h with ⟨h1, h2, _, _⟩ | ⟨_, hw, hs⟩
  · rcases hmix with h | h
    · rw [h1] at h; exact absurd h (by simp)
    · exact absurd h h2
  · have hw : whole = _ := hw
    have hs : ∀ v ∈ vs, single v = _ := hs
    refine ⟨?_, ?_, ?_⟩
    · rw [hw, foldl_parseSample_errs, List.map_map]
      simp only [startSt, List.nil_append]
      congr 1
      apply List.map_congr_left
      intro v hv
      simp only [Function.comp]
      rw [hs v hv, parseSample_errs]; rfl
    · rw [hw, foldl_parseSample_samples]
      have : ∀ l : List Bytes, (∀ s ∈ l, s ∈ vs) → (l.map fun s => (single s).samples).sum = l.length := by
        intro l
        induction l with
        | nil => intro _; rfl
        | cons a l ih =>
          intro h
          rw [List.map_cons, List.sum_cons, ih (fun s hs => h s (by simp [hs])), hs a (h a (by simp)),
            parseSample_samples]
          simp [startSt]; omega
      rw [this vs (fun _ h => h)]; simp [startSt]
    · rw [hw, foldl_parseSample_tagErrs, List.map_map]
      have : ∀ l : List Bytes, (∀ s ∈ l, s ∈ vs) →
          (l.map fun s => (single s).tagErrs).sum =
            l.length * E + (l.map ((fun s => (sOut fl pf m s).tagErrs) ∘ fun v => v ++ cPipe :: (T ++ rest))).sum := by
        intro l
        induction l with
        | nil => intro _; simp
        | cons a l ih =>
          intro h
          rw [List.map_cons, List.sum_cons, ih (fun s hs => h s (by simp [hs])), hs a (h a (by simp)),
            parseSample_tagErrs]
          simp only [startSt, List.length_cons, List.map_cons, List.sum_cons, Function.comp]
          rw [Nat.add_mul]; omega
      rw [this vs (fun _ h => h)]
      simp only [startSt]
      generalize (vs.map ((fun s => (sOut fl pf m s).tagErrs) ∘ fun v => v ++ cPipe :: (T ++ rest))).sum = S
      obtain ⟨a, b, l, hvs⟩ := d.two
      have hk : vs.length = (l.length + 1) + 1 := by rw [hvs]; rfl
      rw [hk, Nat.add_sub_cancel, Nat.add_mul (l.length + 1) 1 E]; omega

/-- Labels of an extended-aggregation line: every rebuilt sample re-parses the same `#tags`
    section into the one shared label map, which is idempotent (`applyKVs_idem`), so the final
    label map of the whole line equals the label map of *every* single line `name:vᵢ|T rest`
    whose sample is accepted (value parses, fields well-formed — `sampleAccepted`); and if no
    sample is accepted, it equals the label map of all of them (the name's labels).
    (A single line whose value does not parse never looks at its tag section, so its map can be
    smaller than the whole line's; that is why the statement is per accepted sample.)
    No distinctness assumption on tag keys is needed. Guards: `ExtAggDom`. -/
theorem ext_agg_labels (fl : ParserFlags) (pf : Pf V) (e0 : Bytes) (vs : List Bytes) (T rest : Bytes)
    (d : ExtAggDom e0 vs T rest) :
    let whole := lineToEvents fl pf true (mkLine e0 (joinWith cColon vs ++ cPipe :: (T ++ rest)))
    let single := fun v => lineToEvents fl pf true (mkLine e0 (v ++ cPipe :: (T ++ rest)))
    (∀ v ∈ vs, sampleAccepted pf (v ++ cPipe :: (T ++ rest)) = true → whole.labels = (single v).labels) ∧
    ((∀ v ∈ vs, sampleAccepted pf (v ++ cPipe :: (T ++ rest)) = false) →
      ∀ v ∈ vs, whole.labels = (single v).labels) := by
  intro whole single
  obtain ⟨m, L, E, hnt, h⟩ := ext_agg_unfold fl pf e0 vs T rest d
  rcases h with ⟨_, _, hw, hs⟩ | ⟨_, hw, hs⟩
  · have hw : whole = _ := hw
    have hs : ∀ v ∈ vs, single v = _ := hs
    constructor
    · intro v hv _; rw [hw, hs v hv]
    · intro _ v hv; rw [hw, hs v hv]
  · have hw : whole = _ := hw
    have hs : ∀ v ∈ vs, single v = _ := hs
    have hwl := foldl_rebuilt_labels fl pf m (T ++ rest) vs d.no_pipe (startSt L E)
    constructor
    · intro v hv hacc
      have hany : vs.any (fun v => sampleAccepted pf (v ++ cPipe :: (T ++ rest))) = true :=
        List.any_eq_true.mpr ⟨v, hv, hacc⟩
      rw [hw, hwl, hs v hv, parseSample_labels_rebuilt fl pf m _ v _ (d.no_pipe v hv), hany, hacc]
    · intro hnone v hv
      have hany : vs.any (fun v => sampleAccepted pf (v ++ cPipe :: (T ++ rest))) = false := by
        rw [List.any_eq_false]
        intro x hx; rw [hnone x hx]; simp
      rw [hw, hwl, hs v hv, parseSample_labels_rebuilt fl pf m _ v _ (d.no_pipe v hv), hany, hnone v hv]

/-- A sample is *rejected* by the parser if its single-sample line yields no event and raises
    at least one sample-error counter. (A sample such as `1|ms|@2` yields no event *without*
    any error — `int(1/2) = 0` copies — so "no events" alone does not imply an error.) -/
def Rejected (fl : ParserFlags) (pf : Pf V) (e0 s : Bytes) : Prop :=
  (lineToEvents fl pf true (mkLine e0 s)).events = [] ∧
  (lineToEvents fl pf true (mkLine e0 s)).errs ≠ []

/-- The syntactic classes of DESIGN.md are rejected: fewer than 2 or more than 4 `|`-fields, a
    value that does not parse, an empty extra field, an unknown type or type `s`
    (`sampleRejected`, SE/Spec/Line.lean). Guards: name non-empty without `:`, sample without
    `:` and without `|#`. -/
theorem sampleRejected_rejected (fl : ParserFlags) (pf : Pf V) (e0 s : Bytes)
    (h0 : e0 ≠ []) (hc0 : cColon ∉ e0) (hc : cColon ∉ s)
    (hd : containsSub [cPipe, cHash] s = false) (hr : sampleRejected pf s = true) :
    Rejected fl pf e0 s := by
  rcases hnt : parseNameAndTags fl e0 with ⟨m, L, E⟩
  obtain ⟨hev, her⟩ := sOut_rejected fl pf m s hr
  unfold Rejected
  simp only [mkLine]
  rw [lineToEvents_eq fl pf _ h0 hc0, hnt]
  constructor
  · rw [afterName_single_events fl pf m L E s hc hd, hev]
  · intro h
    have := afterName_single_errs_length fl pf m L E s hc hd
    rw [h] at this
    exact her (List.length_eq_zero_iff.mp this.symm)

/-- Replacing one sample of a multi-sample line by a sample `bad` whose single-sample line
    yields no events removes exactly that sample's events: the events of the line are those of
    the neighbours `pre` and `post`, in order, unchanged (compare `multi_sample_decomposes` for
    the line with the original sample); and if `bad` raises a sample-error counter on its own
    line (in particular if it is `Rejected`, e.g. by `sampleRejected_rejected`), the whole line
    raises at least one too.
    Guards: `MultiDom` for the line *with* `bad` in place (so `bad` has no `:`, introduces no
    `|#`, and — if it is the first part — still contains a `|`; a first part without `|` changes
    how the whole line is split and is outside the domain), `bad`'s own line yields no events. -/
theorem bad_sample_is_local (fl : ParserFlags) (pf : Pf V) (e0 bad : Bytes) (pre post : List Bytes)
    (d : MultiDom e0 (pre ++ bad :: post))
    (hbad : (lineToEvents fl pf true (mkLine e0 bad)).events = []) :
    let whole := lineToEvents fl pf true (mkLine e0 (joinWith cColon (pre ++ bad :: post)))
    let single := fun s => lineToEvents fl pf true (mkLine e0 s)
    whole.events = (pre.map fun s => (single s).events).flatten ++
                   (post.map fun s => (single s).events).flatten ∧
    ((single bad).errs ≠ [] → whole.errs.length > 0) := by
  intro whole single
  obtain ⟨h1, h2, _⟩ := multi_sample_decomposes fl pf e0 _ d
  constructor
  · rw [h1]
    simp only [List.map_append, List.map_cons, List.flatten_append, List.flatten_cons]
    rw [hbad]; simp [single]
  · intro herr
    rw [h2]
    simp only [List.map_append, List.map_cons, List.sum_append, List.sum_cons]
    have : (lineToEvents fl pf true (mkLine e0 bad)).errs.length > 0 :=
      List.length_pos_iff.mpr herr
    omega

/-- `bad_sample_is_local` for a `Rejected` sample: its events vanish, the neighbours' events are
    untouched, and an error counter is raised. Guards: as `bad_sample_is_local`, `Rejected bad`. -/
theorem rejected_sample_is_local (fl : ParserFlags) (pf : Pf V) (e0 bad : Bytes) (pre post : List Bytes)
    (d : MultiDom e0 (pre ++ bad :: post)) (hbad : Rejected fl pf e0 bad) :
    let whole := lineToEvents fl pf true (mkLine e0 (joinWith cColon (pre ++ bad :: post)))
    let single := fun s => lineToEvents fl pf true (mkLine e0 s)
    whole.events = (pre.map fun s => (single s).events).flatten ++
                   (post.map fun s => (single s).events).flatten ∧
    whole.errs.length > 0 := by
  intro whole single
  obtain ⟨h1, h2⟩ := bad_sample_is_local fl pf e0 bad pre post d hbad.1
  exact ⟨h1, h2 hbad.2⟩

/-! ### Non-vacuity: the hypotheses are satisfiable and the conclusions non-trivial
    (toy number type `intOps` = integers, toy oracle `toyPf` accepting "1", "2", "5";
    SE/Spec/Line.lean) -/
section Examples
local instance : NumOps Int := intOps
private def allOn : ParserFlags := ⟨true, true, true, true⟩

-- name "m", parts "1|c", "x|c", "2|g": the domain holds …
example : MultiDom [109] [[49, 124, 99], [120, 124, 99], [50, 124, 103]] :=
  ⟨by decide, by decide, ⟨_, _, rfl, by decide⟩, by decide, by decide⟩
-- … "m:1|c:x|c:2|g" yields a counter and a gauge and one malformed_value; the middle part alone is rejected
example : ((lineToEvents allOn toyPf true [109, 58, 49, 124, 99, 58, 120, 124, 99, 58, 50, 124, 103]).events.map (·.kind)) = [.counter, .gauge] := by decide
example : (lineToEvents allOn toyPf true [109, 58, 49, 124, 99, 58, 120, 124, 99, 58, 50, 124, 103]).errs = [.malformedValue] := by decide
example : Rejected allOn toyPf [109] [120, 124, 99] := ⟨by decide, by decide⟩
example : sampleRejected toyPf [120, 124, 99] = true := by decide
-- a part without `|`: one error either way, but a different reason and a different sample count
example : (lineToEvents allOn toyPf true [109, 58, 49, 124, 99, 58, 50]).errs = [.malformedComponent] ∧
    (lineToEvents allOn toyPf true [109, 58, 49, 124, 99, 58, 50]).samples = 2 ∧
    (lineToEvents allOn toyPf true [109, 58, 50]).errs = [.notEnoughParts] ∧
    (lineToEvents allOn toyPf true [109, 58, 50]).samples = 0 := by decide
-- why `Rejected` asks for an error: "1|ms|@2" yields int(1/2) = 0 events and no error
example : (lineToEvents allOn toyPf true [109, 58, 49, 124, 109, 115, 124, 64, 50]).events.length = 0 ∧
    (lineToEvents allOn toyPf true [109, 58, 49, 124, 109, 115, 124, 64, 50]).errs = [] := by decide
-- extended aggregation "m:1:2|ms|#a:b": domain, two observer events, labels a=b
example : ExtAggDom [109] [[49], [50]] [109, 115] [124, 35, 97, 58, 98] :=
  ⟨by decide, by decide, ⟨_, _, _, rfl⟩, by decide, by decide, by decide, Or.inr ⟨_, rfl⟩, Or.inr (by decide)⟩
example : [109, 58, 49, 58, 50, 124, 109, 115, 124, 35, 97, 58, 98] = mkLine [109] (joinWith cColon [[49], [50]] ++ cPipe :: ([109, 115] ++ [124, 35, 97, 58, 98])) := by decide
example : ((lineToEvents allOn toyPf true [109, 58, 49, 58, 50, 124, 109, 115, 124, 35, 97, 58, 98]).events.map (·.kind)) = [.observer, .observer] ∧
    (lineToEvents allOn toyPf true [109, 58, 49, 58, 50, 124, 109, 115, 124, 35, 97, 58, 98]).labels = [([97], [98])] := by decide
-- a colon in `rest` without `|#` really breaks comparability (the `rest_colon` guard):
-- "m:1:2|ms|@1:5|c" is two samples with a bad rate, "m:1|ms|@1:5|c" is a timer plus a counter
example : ((lineToEvents allOn toyPf true [109, 58, 49, 58, 50, 124, 109, 115, 124, 64, 49, 58, 53, 124, 99]).events.map (·.kind)) = [.observer, .observer] ∧
    ((lineToEvents allOn toyPf true [109, 58, 49, 124, 109, 115, 124, 64, 49, 58, 53, 124, 99]).events.map (·.kind)) = [.observer, .counter] := by decide
-- any other type: rejected as a whole
example : (lineToEvents allOn toyPf true [109, 58, 49, 58, 50, 124, 99]).errs = [.invalidExtAggType] ∧
    (lineToEvents allOn toyPf true [109, 58, 49, 58, 50, 124, 99]).events.length = 0 ∧
    (lineToEvents allOn toyPf true [109, 58, 49, 58, 50, 124, 99]).samples = 0 := by decide
-- a first part without `|` is outside the domain for a reason: "m:x:1|c" becomes an extended-aggregation line
example : (lineToEvents allOn toyPf true [109, 58, 120, 58, 49, 124, 99]).errs = [.invalidExtAggType] := by decide
end Examples

end SE.Props.C10
