import SE.Proofs.SafetyFrame
import SE.Proofs.SafetyLine
import SE.Proofs.LineBound
import SE.Proofs.SafetyLoaded
import SE.Spec.FloatLaws
import SE.Model.System
/-
C02 — No network input can crash or stall the exporter.

What is proved, for *every* byte string (any parser flags, any `strconv.ParseFloat` oracle `pf`,
valid UTF-8 or not):

* the parser `lineToEvents` is a total function (by construction: it is a Lean function without
  `partial`), and handing its events to the exporter never produces a `Panic` outcome — neither a
  client_golang constructor panic nor the endless loop `summaryHang` — provided the configuration is
  safe (`ConfigSafe`, SE/Props/C19.lean) and the registry was built under safe configurations
  (`VecsSafe`): `packet_total`, `history_total`;
* the proviso is discharged by the loader: every configuration that `InitFromYAMLString` accepts is
  `ConfigSafe` (SE/Props/C19.lean `accepted_config_safe`, under the hypotheses `LoaderAssumptions`), so no
  byte string can make the exporter panic or hang under **any** configuration the loader accepted:
  `packet_total_loaded`, `history_total_loaded`, `lines_total_loaded`;
* whatever a line does is local (`hostile_line_is_local`): the registry stays well-formed and safe,
  mapper and clock are unchanged, no metric changes its type, no vector changes, and every series that
  none of the line's own events addresses is the very same record as before; any later line is therefore
  processed by the same function on a state that differs only by what the first line's events
  legitimately created or updated;
* the "stall" half is **false in general** for the current code: the number of events one line produces is
  not bounded by its length (`events_per_line_unbounded`): `a:1|ms|@r` produces `int(1/r)` events
  (open finding `sampling_multiplicity_unbounded`);
* … and it is **true up to exactly that factor**: a line counts fewer samples than it has bytes
  (`samples_per_line_bounded`, unconditionally), and every sample yields at most `M` events when `M ≥ 1` bounds
  the repetition counts `int(1/rate)` its `|@rate` components ask for (`events_per_sample_bounded`), hence
  `events ≤ length × M` (`events_per_line_bounded_partial`; likewise `sampleErrors` increments
  `≤ length × (M + 2)`, `errors_per_line_bounded_partial`). Without sampling rates, or with rates whose
  `int(1/rate)` is at most 1, no line produces more events than it has bytes
  (`events_per_line_bounded_rate_free`). The sampling multiplicity is therefore the *only* source of
  unboundedness: the linear-work claim holds for a number type iff `int(1/x)` is bounded over its non-zero
  values (`events_per_line_bounded_iff`).

The result `none` of `handleEvent(s)` is not an outcome of the program: it marks inputs outside the
modelled `Sprintf` fragment of the template expansion (see SE/Model/Template.lean).
-/
namespace SE.Props.C02
open SE
variable {V : Type} [NumOps V]

/-- the exporter operation "process this line" -/
def lineOp (fl : ParserFlags) (pf : Pf V) (valid : Bool) (line : Bytes) : PipeOp V :=
  .line (lineToEvents fl pf valid line).labels (lineToEvents fl pf valid line).events

/-- **No input line can make the exporter panic or hang.** Under a safe configuration and a safe registry,
    for every byte string `line` (any flags, any float parser, valid UTF-8 or not) processing the events of
    the line never ends in a `Panic` outcome (`bucketsNotIncreasing`, `negativeMaxAge`, `summaryHang`, …). -/
theorem packet_total (p : Pipe V) (rx : Rx) (fl : ParserFlags) (pf : Pf V) (valid : Bool) (line : Bytes)
    (hc : ConfigSafe p.mapper.cfg) (hv : VecsSafe p.reg) (pn : Panic) :
    handleEvents p rx (lineToEvents fl pf valid line).labels (lineToEvents fl pf valid line).events
      ≠ some (.error pn) :=
  (handleEvents_safe _ hc hv).1 pn

/-- … and the state it leaves is again safe, with the same (safe) configuration: the hypothesis of
    `packet_total` is re-established for the next line. -/
theorem packet_total_step (p p' : Pipe V) (rx : Rx) (fl : ParserFlags) (pf : Pf V) (valid : Bool) (line : Bytes)
    (hc : ConfigSafe p.mapper.cfg) (hv : VecsSafe p.reg)
    (h : handleEvents p rx (lineToEvents fl pf valid line).labels (lineToEvents fl pf valid line).events = some (.ok p')) :
    ConfigSafe p'.mapper.cfg ∧ VecsSafe p'.reg := by
  obtain ⟨a, b, _⟩ := (handleEvents_safe _ hc hv).2 p' h
  exact ⟨by rw [b]; exact hc, a⟩

/-- **No history of inputs can.** Any sequence of lines (arbitrary byte strings, each with its own flags
    and validity), interleaved in any way with sweeps, clock changes and reloads among safe configurations,
    started from a safe state: never a `Panic` outcome. -/
theorem history_total (rx : Rx) (p : Pipe V) (ops : List (PipeOp V))
    (hc : ConfigSafe p.mapper.cfg) (hv : VecsSafe p.reg) (hs : OpsSafe ops) (pn : Panic) :
    runOps rx p ops ≠ some (.error pn) :=
  (runOps_safe rx ops hc hv hs).1 pn

/-- in particular from the empty registry, with lines only -/
theorem lines_total (rx : Rx) (m : MState V) (hc : ConfigSafe m.cfg) (pre : List (Bytes × MType × Bytes))
    (lines : List (ParserFlags × Pf V × Bool × Bytes)) (pn : Panic) :
    runOps rx { mapper := m, reg := { metrics := [], pre := pre } }
      (lines.map fun l => lineOp l.1 l.2.1 l.2.2.1 l.2.2.2) ≠ some (.error pn) := by
  apply history_total rx _ _ hc (VecsSafe_empty pre)
  intro m' hm'
  obtain ⟨l, _, e⟩ := List.mem_map.mp hm'
  cases e

/-- **No input line can make the exporter panic or hang under any configuration the loader accepted.**
    Let `cfg` be the result of `load` on any raw configuration satisfying `LoaderAssumptions` (the objective law of
    the number type), let it be the current configuration, and let the registry be safe
    (for instance empty). Then for every byte string `line` — any parser flags, any float parser, valid UTF-8 or
    not — processing the events of the line never ends in a `Panic` outcome, and the state it leaves is again
    safe under the same configuration. -/
theorem packet_total_loaded (rxOk : Bytes → Bool) (db : List V) (dq : List (V × V)) (raw : RawConfig V) (cfg : Config V)
    (ha : LoaderAssumptions raw) (hl : load rxOk db dq raw = .ok cfg)
    (p : Pipe V) (hp : p.mapper.cfg = cfg) (hv : VecsSafe p.reg)
    (rx : Rx) (fl : ParserFlags) (pf : Pf V) (valid : Bool) (line : Bytes) :
    (∀ pn, handleEvents p rx (lineToEvents fl pf valid line).labels (lineToEvents fl pf valid line).events
      ≠ some (.error pn)) ∧
    (∀ p', handleEvents p rx (lineToEvents fl pf valid line).labels (lineToEvents fl pf valid line).events = some (.ok p') →
      p'.mapper.cfg = cfg ∧ VecsSafe p'.reg) := by
  have hc : ConfigSafe p.mapper.cfg := by rw [hp]; exact load_configSafe ha hl
  refine ⟨fun pn => packet_total p rx fl pf valid line hc hv pn, fun p' h => ?_⟩
  obtain ⟨a, b, _⟩ := (handleEvents_safe _ hc hv).2 p' h
  exact ⟨by rw [b]; exact hp, a⟩

/-- **No history of inputs can**, under configurations the loader accepted: any sequence of lines, sweeps, clock
    changes and reloads of loaded configurations (`OpsLoaded`), from a safe registry. -/
theorem history_total_loaded (rxOk : Bytes → Bool) (db : List V) (dq : List (V × V)) (raw : RawConfig V) (cfg : Config V)
    (ha : LoaderAssumptions raw) (hl : load rxOk db dq raw = .ok cfg)
    (rx : Rx) (p : Pipe V) (hp : p.mapper.cfg = cfg) (hv : VecsSafe p.reg) (ops : List (PipeOp V)) (ho : OpsLoaded ops)
    (pn : Panic) : runOps rx p ops ≠ some (.error pn) :=
  history_total rx p ops (by rw [hp]; exact load_configSafe ha hl) hv ho.opsSafe pn

/-- in particular from process start (freshly loaded mapper, empty registry), with arbitrary byte strings as lines -/
theorem lines_total_loaded (rxOk : Bytes → Bool) (db : List V) (dq : List (V × V)) (raw : RawConfig V) (cfg : Config V)
    (ha : LoaderAssumptions raw) (hl : load rxOk db dq raw = .ok cfg)
    (rx : Rx) (pre : List (Bytes × MType × Bytes)) (lines : List (ParserFlags × Pf V × Bool × Bytes)) (pn : Panic) :
    runOps rx { mapper := MState.fresh cfg, reg := { metrics := [], pre := pre } }
      (lines.map fun l => lineOp l.1 l.2.1 l.2.2.1 l.2.2.2) ≠ some (.error pn) :=
  lines_total rx (MState.fresh cfg) (load_configSafe ha hl) pre lines pn

/-- **No network input can**, end to end (SE/Model/System.lean: listener framing, parser and exporter composed): from
    process start under any configuration the loader accepted, whatever byte strings arrive as UDP/Unixgram datagrams
    and as TCP connection streams, in any order, processing them never ends in a `Panic` outcome. `inputs` lists the
    network inputs in the order in which the exporter goroutine sees their lines: `.inl d` a datagram, `.inr s` the
    byte stream of a TCP connection. -/
theorem network_input_total_loaded (rxOk : Bytes → Bool) (db : List V) (dq : List (V × V)) (raw : RawConfig V) (cfg : Config V)
    (ha : LoaderAssumptions raw) (hl : load rxOk db dq raw = .ok cfg)
    (rx : Rx) (pre : List (Bytes × MType × Bytes)) (fl : ParserFlags) (pf : Pf V) (inputs : List (Bytes ⊕ Bytes)) (pn : Panic) :
    runOps rx { mapper := MState.fresh cfg, reg := { metrics := [], pre := pre } }
      (inputs.flatMap fun i => match i with
        | .inl d => SE.datagramOps fl pf d
        | .inr s => SE.tcpOps fl pf s) ≠ some (.error pn) := by
  apply history_total rx _ _ (load_configSafe ha hl) (VecsSafe_empty pre)
  intro m hm
  obtain ⟨i, _, hi⟩ := List.mem_flatMap.mp hm
  cases i with
  | inl d =>
    simp only [SE.datagramOps, List.mem_map] at hi
    obtain ⟨l, _, e⟩ := hi
    simp [SE.lineOp] at e
  | inr s =>
    simp only [SE.tcpOps, List.mem_map] at hi
    obtain ⟨l, _, e⟩ := hi
    simp [SE.lineOp] at e

/-- **Whatever a line does is local.** Let `h` be any byte string, processed from a state with a
    well-formed, safe registry under a safe configuration, and let `p'` be the resulting state. Then
    * the registry is again well-formed and safe, configuration/mapper and clock are unchanged;
    * no metric changes its type and no vector (help, buckets, summary options) changes;
    * every series that none of `h`'s own events addresses is the same record as before (nothing else is
      created, updated or removed);
    * every later event gets exactly the registry request it would have got without `h`. -/
theorem hostile_line_is_local (p p' : Pipe V) (rx : Rx) (fl : ParserFlags) (pf : Pf V) (valid : Bool) (h : Bytes)
    (hw : RegWF p.reg) (hc : ConfigSafe p.mapper.cfg) (hv : VecsSafe p.reg)
    (hrun : handleEvents p rx (lineToEvents fl pf valid h).labels (lineToEvents fl pf valid h).events = some (.ok p')) :
    RegWF p'.reg ∧ VecsSafe p'.reg ∧ p'.mapper = p.mapper ∧ p'.now = p.now ∧
    (∀ name t, p.reg.type? name = some t → p'.reg.type? name = some t) ∧
    (∀ name names v, p.reg.vec? name names = some v → p'.reg.vec? name names = some v) ∧
    (∀ name L, ¬ LineAddresses p rx (lineToEvents fl pf valid h).labels (lineToEvents fl pf valid h).events name L →
      p'.reg.series? name L = p.reg.series? name L) ∧
    (∀ (ev : Ev V) (tags : Labels), (evTarget p' rx ev tags).map (·.2) = (evTarget p rx ev tags).map (·.2)) := by
  obtain ⟨f1, f2, f3, f4, f5⟩ := handleEvents_frame _ hrun
  exact ⟨RegWF_handleEvents _ hw hrun, ((handleEvents_safe _ hc hv).2 p' hrun).1, f1, f2, f3, f4, f5,
    handleEvents_request_frame _ hrun⟩

/-- The same without any assumption on the configuration (a panic is then a possible outcome, but *if* the
    line is processed, the frame holds): locality does not depend on `ConfigSafe`. -/
theorem hostile_line_is_local_any_config (p p' : Pipe V) (rx : Rx) (tags : Labels) (evs : List (Ev V))
    (hw : RegWF p.reg) (hrun : handleEvents p rx tags evs = some (.ok p')) :
    RegWF p'.reg ∧ p'.mapper = p.mapper ∧ p'.now = p.now ∧
    (∀ name t, p.reg.type? name = some t → p'.reg.type? name = some t) ∧
    (∀ name names v, p.reg.vec? name names = some v → p'.reg.vec? name names = some v) ∧
    (∀ name L, ¬ LineAddresses p rx tags evs name L → p'.reg.series? name L = p.reg.series? name L) := by
  obtain ⟨f1, f2, f3, f4, f5⟩ := handleEvents_frame _ hrun
  exact ⟨RegWF_handleEvents _ hw hrun, f1, f2, f3, f4, f5⟩

/-- A line that produces no event (malformed, empty, invalid UTF-8, …) changes nothing at all. -/
theorem eventless_line_is_noop (p : Pipe V) (rx : Rx) (fl : ParserFlags) (pf : Pf V) (valid : Bool) (line : Bytes)
    (h : (lineToEvents fl pf valid line).events = []) :
    handleEvents p rx (lineToEvents fl pf valid line).labels (lineToEvents fl pf valid line).events = some (.ok p) := by
  rw [h]; rfl

/-- invalid UTF-8 and lines without a colon produce no event -/
theorem invalid_utf8_no_events (fl : ParserFlags) (pf : Pf V) (line : Bytes) :
    (lineToEvents fl pf false line).events = [] := by
  unfold lineToEvents
  split
  · rfl
  · split
    · rfl
    · simp

/-! ### the "stall" half: events per line are not bounded by the line length -/

/-- (FALSE on the current code) the work one line causes is linear in its length -/
def events_per_line_bounded_statement (V : Type) [NumOps V] : Prop :=
  ∃ c, ∀ (fl : ParserFlags) (pf : Pf V) (line : Bytes), (lineToEvents fl pf true line).events.length ≤ c * line.length

/-- **Sampling-rate amplification.** The 9-byte line `a:1|ms|@r` produces `int(1/r)` identical events
    (`recipInt sf`, for the value `sf` that `ParseFloat("r")` returns): `LineToEvents` repeats a timer sample
    `1/rate` times. For every flags setting and every number type. -/
theorem sample_rate_multiplies_events (fl : ParserFlags) (pf : Pf V) (v sf : V)
    (h1 : pf [49] = (v, .ok)) (h2 : pf [114] = (sf, .ok)) (hz : NumOps.isZero sf = false) :
    (lineToEvents fl pf true amplLine).events =
      List.replicate (NumOps.recipInt sf).toNat ⟨.observer, [97], NumOps.div v NumOps.thousand, false⟩ :=
  amplLine_events fl pf v sf h1 h2 hz

/-- Hence: whenever `int(1/x)` is unbounded over the non-zero values of the number type (as it is for
    float64: `int(1/(1/N)) = N` up to 2^53), no constant bounds the number of events per input byte. -/
theorem events_per_line_unbounded_of
    (hrecip : ∀ N : Nat, ∃ sf : V, NumOps.isZero sf = false ∧ N ≤ (NumOps.recipInt sf).toNat) :
    ¬ events_per_line_bounded_statement V := by
  rintro ⟨c, hc⟩
  obtain ⟨sf, hz, hN⟩ := hrecip (c * amplLine.length + 1)
  have := hc ⟨false, false, false, false⟩ (fun _ => (sf, .ok)) amplLine
  rw [sample_rate_multiplies_events _ _ sf sf rfl rfl hz, List.length_replicate] at this
  omega

/-- the toy number type of SE/Spec/FloatLaws.lean with `int(1/x)` replaced by the identity: the rate `r` in
    `@r` stands directly for the repetition count -/
@[reducible] def toyRecipId : NumOps Int := { toyNumOps with recipInt := id }

/-- **For every N there is a line of 9 bytes (and a float parser) with at least N events** -/
theorem line_with_N_events (N : Nat) (fl : ParserFlags) :
    ∃ (pf : Pf Int) (line : Bytes), line.length ≤ 12 ∧
      N ≤ (@lineToEvents Int toyRecipId fl pf true line).events.length := by
  letI := toyRecipId
  refine ⟨fun _ => ((N : Int) + 1, .ok), amplLine, by decide, ?_⟩
  have hz : NumOps.isZero ((N : Int) + 1) = false := by
    show (((N : Int) + 1) == 0) = false
    simp only [beq_eq_false_iff_ne, ne_eq]; omega
  rw [sample_rate_multiplies_events fl _ ((N : Int) + 1) ((N : Int) + 1) rfl rfl hz, List.length_replicate]
  show N ≤ ((N : Int) + 1).toNat
  omega

/-- **the bounded-work claim is false** -/
theorem events_per_line_unbounded : ¬ @events_per_line_bounded_statement Int toyRecipId := by
  letI := toyRecipId
  apply events_per_line_unbounded_of
  intro N
  refine ⟨(N : Int) + 1, ?_, ?_⟩
  · show (((N : Int) + 1) == 0) = false
    simp only [beq_eq_false_iff_ne, ne_eq]; omega
  · show N ≤ ((N : Int) + 1).toNat
    omega

/-! ### … and the sampling multiplicity is the only source of unboundedness -/

/-- **A line counts fewer samples than it has bytes** — unconditionally (any number type, flags, float parser,
    validity): the samples are `:`-separated pieces of what follows the non-empty name and its colon. -/
theorem samples_per_line_bounded (fl : ParserFlags) (pf : Pf V) (valid : Bool) (line : Bytes) :
    (lineToEvents fl pf valid line).samples ≤ line.length :=
  samples_le_length fl pf valid line

/-- **A sample yields at most `M` events**, if `M ≥ 1` bounds every repetition count `int(1/rate)` that the
    float parser can make a `|@rate` component set (`stepComponent`: the parsed rate, replaced by 1 if it is 0,
    goes through `recipInt`; without a rate component the count is 1). -/
theorem events_per_sample_bounded (M : Nat) (hM1 : 1 ≤ M) (pf : Pf V)
    (hM : ∀ b : Bytes, (NumOps.recipInt (if NumOps.isZero (pf b).1 then NumOps.one else (pf b).1)).toNat ≤ M)
    (fl : ParserFlags) (valid : Bool) (line : Bytes) :
    (lineToEvents fl pf valid line).events.length ≤ (lineToEvents fl pf valid line).samples * M :=
  events_le_samples_mul fl pf valid line M hM1 hM

/-- **The work a line causes is linear in its length times the largest repetition count `int(1/rate)` its
    sampling rates ask for.** If `M ≥ 1` bounds the repetition counts `int(1/rate)` of all rates the float
    parser `pf` can return, then a line of `n` bytes produces at most `n × M` events — for every number type,
    flags setting, validity flag and byte string. Without sampling rates (the count is then 1), or with rates
    `≥ 1/M`, no line amplifies by more than `M`; the only way to get more than `n` events out of `n` bytes is a
    `|@rate` component with `int(1/rate) > 1`. This is exactly the boundary of the open finding
    `sampling_multiplicity_unbounded`: `events_per_line_unbounded_of` needs unbounded `int(1/rate)`, and
    bounded `int(1/rate)` gives this theorem. -/
theorem events_per_line_bounded_partial (M : Nat) (hM1 : 1 ≤ M) (pf : Pf V)
    (hM : ∀ b : Bytes, (NumOps.recipInt (if NumOps.isZero (pf b).1 then NumOps.one else (pf b).1)).toNat ≤ M)
    (fl : ParserFlags) (valid : Bool) (line : Bytes) :
    (lineToEvents fl pf valid line).events.length ≤ line.length * M :=
  events_le_length_mul fl pf valid line M hM1 hM

/-- the same in the weaker form `(n + 1) × M` -/
theorem events_per_line_bounded_partial' (M : Nat) (hM1 : 1 ≤ M) (pf : Pf V)
    (hM : ∀ b : Bytes, (NumOps.recipInt (if NumOps.isZero (pf b).1 then NumOps.one else (pf b).1)).toNat ≤ M)
    (fl : ParserFlags) (valid : Bool) (line : Bytes) :
    (lineToEvents fl pf valid line).events.length ≤ (line.length + 1) * M :=
  Nat.le_trans (events_per_line_bounded_partial M hM1 pf hM fl valid line)
    (Nat.mul_le_mul_right M (Nat.le_succ _))

/-- The error counter `sampleErrors` obeys the same kind of bound: a sample adds at most `M` `illegal_event`
    increments plus one per `|`-component (at most two), a line without samples at most one. -/
theorem errors_per_line_bounded_partial (M : Nat) (hM1 : 1 ≤ M) (pf : Pf V)
    (hM : ∀ b : Bytes, (NumOps.recipInt (if NumOps.isZero (pf b).1 then NumOps.one else (pf b).1)).toNat ≤ M)
    (fl : ParserFlags) (valid : Bool) (line : Bytes) :
    (lineToEvents fl pf valid line).errs.length ≤ line.length * (M + 2) :=
  errs_le_length_mul fl pf valid line M hM1 hM

/-- **Rate-free traffic does not amplify.** If no rate the float parser returns has `int(1/rate) > 1` (in
    particular for rates ≥ 1, where `int(1/rate)` is 0 or 1), a line produces at most as many events as it has
    bytes. -/
theorem events_per_line_bounded_rate_free (pf : Pf V)
    (h1 : ∀ b : Bytes, (NumOps.recipInt (if NumOps.isZero (pf b).1 then NumOps.one else (pf b).1)).toNat ≤ 1)
    (fl : ParserFlags) (valid : Bool) (line : Bytes) :
    (lineToEvents fl pf valid line).events.length ≤ line.length := by
  have := events_per_line_bounded_partial 1 (Nat.le_refl 1) pf h1 fl valid line
  rwa [Nat.mul_one] at this

/-- Hence: whenever `int(1/x)` is bounded over the non-zero values of the number type, the linear-work claim
    `events_per_line_bounded_statement` holds (converse of `events_per_line_unbounded_of`). -/
theorem events_per_line_bounded_of (N : Nat)
    (hrecip : ∀ sf : V, NumOps.isZero sf = false → (NumOps.recipInt sf).toNat ≤ N) :
    events_per_line_bounded_statement V := by
  refine ⟨max (max N 1) (NumOps.recipInt (NumOps.one : V)).toNat, fun fl pf line => ?_⟩
  rw [Nat.mul_comm]
  apply events_per_line_bounded_partial _ (by omega) pf _ fl true line
  intro b
  by_cases hz : NumOps.isZero (pf b).1 = true
  · rw [if_pos hz]; omega
  · rw [if_neg hz]
    have := hrecip (pf b).1 (by simpa using hz)
    omega

/-- **The sampling multiplicity is the only source of unboundedness**: for every number type, the number of
    events per line is linear in the line length iff `int(1/x)` is bounded over the non-zero values. -/
theorem events_per_line_bounded_iff :
    events_per_line_bounded_statement V ↔
      ∃ N : Nat, ∀ sf : V, NumOps.isZero sf = false → (NumOps.recipInt sf).toNat ≤ N := by
  constructor
  · intro hb
    apply Classical.byContradiction
    intro hne
    refine events_per_line_unbounded_of (V := V) (fun N => ?_) hb
    apply Classical.byContradiction
    intro hno
    refine hne ⟨N, fun sf hz => ?_⟩
    apply Classical.byContradiction
    intro hlt
    exact hno ⟨sf, hz, by omega⟩
  · rintro ⟨N, hN⟩
    exact events_per_line_bounded_of N hN

/-- the toy number type as it stands (`int(1/x)` is integer division `1 / x ∈ {-1, 0, 1}`) does satisfy the
    linear-work claim: the refutation above needs a number type with unbounded `int(1/x)` -/
theorem events_per_line_bounded_toy : @events_per_line_bounded_statement Int toyNumOps := by
  letI := toyNumOps
  apply events_per_line_bounded_of 1
  intro sf _
  show ((1 : Int) / sf).toNat ≤ 1
  have := Int.ediv_le_self sf (show (0 : Int) ≤ 1 by decide)
  omega

/-! ### Non-vacuity -/

section examples
attribute [local instance] toyNumOps

/-- no rules; observers default to histograms with buckets 1 < 2 -/
private def cfg0 : Config Int :=
  { rules := [], dObserverType := .histogram, dTtl := 0, dBuckets := [1, 2], dQuantiles := [], dMaxAge := 0,
    dAgeBuckets := 0, dBufCap := 0, orderingDisabled := false, doFSM := false }
private def p0 : Pipe Int := { mapper := MState.fresh cfg0 }
private def noRx : Rx := fun _ _ => none
private def fl0 : ParserFlags := ⟨true, true, true, true⟩
/-- a stand-in for ParseFloat: every value string is 1 -/
private def pf1 : Pf Int := fun _ => (1, .ok)

/-- the hypotheses of `packet_total` are satisfiable -/
example : ConfigSafe cfg0 ∧ VecsSafe p0.reg :=
  ⟨⟨fun _ h => (by cases h), by
      show (if ObsTy.histogram = ObsTy.histogram then _ else _)
      rw [if_pos rfl]; decide⟩, VecsSafe_empty []⟩

/-- a garbage line (`\xff|:|@#`) is processed to the same state; a timer line creates one histogram series -/
example : handleEvents p0 noRx (lineToEvents fl0 pf1 true [0xff, 124, 58, 124, 64, 35]).labels
    (lineToEvents fl0 pf1 true [0xff, 124, 58, 124, 64, 35]).events = some (.ok p0) :=
  eventless_line_is_noop p0 noRx fl0 pf1 true _ (List.eq_nil_of_length_eq_zero (by with_unfolding_all decide))

example : (match handleEvents p0 noRx (lineToEvents fl0 pf1 true (strBytes "a:1|ms")).labels
    (lineToEvents fl0 pf1 true (strBytes "a:1|ms")).events with
    | some (.ok p) => p.reg.type? [97] | _ => none) = some .histogram := by
  with_unfolding_all decide

/-- the amplification, concretely: rate "r" parsed as 50 (toy: `recipInt = id`) gives 50 events -/
example : (@lineToEvents Int toyRecipId fl0 (fun _ => (50, .ok)) true amplLine).events.length = 50 := by
  with_unfolding_all decide

/-- a stand-in for ParseFloat: every value and every rate is 3 -/
private def pf3 : Pf Int := fun _ => (3, .ok)

/-- the partial bound, concretely (toy: `recipInt = id`, every rate parsed as 3, so `M = 3` works): the
    17-byte line `a:1|ms|@r:2|ms|@r` has two samples and 6 = 2 × 3 events — the per-sample bound is attained —
    and `events_per_line_bounded_partial` bounds them by 17 × 3 -/
example : (@lineToEvents Int toyRecipId fl0 pf3 true (strBytes "a:1|ms|@r:2|ms|@r")).samples = 2 ∧
    (@lineToEvents Int toyRecipId fl0 pf3 true (strBytes "a:1|ms|@r:2|ms|@r")).events.length = 6 := by
  with_unfolding_all decide

example : (@lineToEvents Int toyRecipId fl0 pf3 true (strBytes "a:1|ms|@r:2|ms|@r")).events.length ≤ 17 * 3 :=
  @events_per_line_bounded_partial Int toyRecipId 3 (by decide) pf3 (fun _ => show (3 : Int).toNat ≤ 3 by decide) fl0 true
    (strBytes "a:1|ms|@r:2|ms|@r")

/-- with the plain toy number type (`int(1/3) = 0`, and `int(1/1) = 1` without a rate) `M = 1` works for every
    float parser: the rate-free corollary applies -/
example (pf : Pf Int) (line : Bytes) : (lineToEvents fl0 pf true line).events.length ≤ line.length :=
  events_per_line_bounded_rate_free pf (fun b => by
    show ((1 : Int) / (if ((pf b).1 == 0) = true then 1 else (pf b).1)).toNat ≤ 1
    have := Int.ediv_le_self (if ((pf b).1 == 0) = true then 1 else (pf b).1) (show (0 : Int) ≤ 1 by decide)
    omega) fl0 true line

end examples

end SE.Props.C02
