import SE.Proofs.GlobBridgeUnordered
/-
C12 — Unordered glob mode (`glob_disable_ordering: true`): complete, and the most specific rule wins.

`lookupGlob` / `globLookup` model `FSM.GetMapping`; `needBT` models `TestIfNeedBacktracking`, `ambiguous`
models `FSM.HasAmbiguousTransitions`, `backtracking = needBT || ambiguous` is the `BacktrackingNeeded`
flag as mapper.go computes it after the repair (SE/Model/Glob.lean); `mostSpecificGlob`, `mostSpecific`,
`moreSpecific` are the specification (SE/Spec/Mapping.lean). All theorems quantify over all
configurations, names and types.

The defect and its repair. Before the repair `BacktrackingNeeded` was the heuristic
`TestIfNeedBacktracking` alone. The heuristic answers "no" for rule sets in which a literal branch of the
trie can dead-end (`a.*.*` + `a.b.c`: `a.b.d` follows the literal `b` and is never matched;
`a.b.*` + `*.*.c` + `*.*.*`: `a.x.c`; `a` + `a.b.c` + `*.b`: `a.b`), so completeness and "most specific
wins" were FALSE without the hypothesis `needBT … = true`. The repair ORs in
`HasAmbiguousTransitions`: some state has the `*` transition together with a literal transition.

What is proved now, without any hypothesis on the heuristic:
  * `unordered_eq_mostSpecific`, `unordered_complete`, `unordered_lookup_eq_mostSpecific`: for every
    configuration with `orderingDisabled = true`, every name and every type, the lookup is complete and
    returns the spec's most specific matching rule;
  * the reason (`deterministic_search`): in a trie that is not ambiguous at most one child can be entered
    at every node, so the search without backtracking reaches the same first final state as the search
    with backtracking; `globLookup_unordered_eq`: whatever the flag is, `FSM.GetMapping` returns the first
    final state of the backtracking search;
  * the statements that used to be refuted (`…_statement`) are proved (`…_holds`);
  * the former counterexamples are kept as a record of the repair: the heuristic alone still says "no
    backtracking" (`cex_needBT_false`), the search without backtracking still loses the witnesses
    (`heuristic_alone_insufficient`), `ambiguous` is `true` and the witnesses are now mapped to the most
    specific rule (`cex_repaired`, `cex₂_repaired`, `cex₃_repaired`).
Soundness holds in every mode, as before; the `…_partial` theorems (hypothesis `needBT … = true`) remain.

Captures (`unordered_captures`): for every name — a component that is literally `*` included — the captures
`FSM.GetMapping` returns are `capturesOf` of the pattern that owns the final state. Before repair 0275669 a `*`
component was looked up among the literal transitions, reached the `*` child there and was not recorded (finding
`literal_star_component`; the theorem carried the hypothesis "no name component is literally `*`"); now it takes
the wildcard branch and is captured (`star_component_captured`, `star_component_captured_cfg`), and the
backtracking search no longer enters the `*` child twice for such a field (`star_field_single_branch`).

`unordered_complete_statement` carries the premise `name ≠ []`: a name with zero fields is never looked up
(`splitOn` never returns `[]`), and `premise_name_ne_needed` shows the premise cannot be dropped on the level of field lists.
-/
namespace SE.Props.C12
open SE SE.ListLemmas
variable {V : Type}

/-- **Soundness (any mode, backtracking or not)**: whatever `lookupGlob` returns is a glob rule of the
    configuration that matches the name component-wise and passes the type filter. -/
theorem unordered_sound (cfg : Config V) (name : Bytes) (ty : Nat) (m : Mapped)
    (h : lookupGlob cfg name ty = some m) :
    ∃ r, cfg.rules[m.ruleIdx]? = some r ∧ ruleMatchesGlob r (splitOn 46 name) ty = true :=
  lookupGlob_sound cfg name ty m h

/-- The first final state the search reaches (backtracking on) is owned by a matching pattern that
    no matching pattern of the type root beats in the C12 order: literal-first DFS = most specific first. -/
theorem trie_dfs_head_mostSpecific (rs : TRules) (name : Pat) (f0 : Found)
    (h : pick false (dfs rs true [] [] name) = some f0) :
    ∃ pat, globMatches pat name = true ∧ result rs pat = some f0.rule ∧
      ∀ r ∈ rs, globMatches r.2 name = true → moreSpecific r.2 pat = false :=
  unordered_pick_dfs rs name f0 h

/-! ### The repair: a trie that is not ambiguous is searched deterministically -/

/-- The node invariant of a non-ambiguous trie: a node that can be left through `*` cannot be left
    through a literal. -/
theorem not_ambiguous_node (rs : TRules) (hna : ambiguousAt rs = false) (p : Pat) (f : Bytes)
    (left left' : Nat) (h1 : okChild rs p f left = true) (h2 : okChild rs p starB left' = true) : f = starB :=
  okChild_star_unique hna h1 h2

/-- **Key lemma, general form**: in a non-ambiguous trie the search without backtracking reaches the same
    first final state — rule and captures — as the search with backtracking, from every node `p`, with
    every capture prefix, for every list of remaining fields (fields that are literally `*` included:
    since repair 0275669 both searches take the single wildcard branch for such a field). -/
theorem deterministic_search_from (rs : TRules) (hna : ambiguousAt rs = false)
    (p : Pat) (caps : List Bytes) (fields : List Bytes) :
    (dfs rs false p caps fields).head? = (dfs rs true p caps fields).head? :=
  dfs_head_deterministic rs hna fields p caps

/-- **Key lemma**: when the trie of a type root is not ambiguous, the search without backtracking finds
    the same first result as the search with backtracking. -/
theorem deterministic_search (rs : TRules) (hna : ambiguousAt rs = false) (name : Pat) :
    pick false (dfs rs false [] [] name) = pick false (dfs rs true [] [] name) :=
  pick_dfs_deterministic rs hna name

/-- `BacktrackingNeeded = false` after the repair means that *every* type root is non-ambiguous
    (a type that no rule names sees the untyped rules only, a subset of every root). -/
theorem no_backtracking_all_roots (rules : List GRule) (h : backtracking rules true = false) (ty : Nat) :
    ambiguousAt (rulesFor rules ty) = false := by
  simp only [backtracking, Bool.or_eq_false_iff] at h
  exact ambiguousAt_rulesFor_of_not_ambiguous h.2 ty

/-- **`FSM.GetMapping` in unordered mode after the repair**: whatever the heuristic answers, for every
    rule list, name and type, the lookup returns the first final state of the backtracking search. -/
theorem globLookup_unordered_eq (rules : List GRule) (name : Pat) (ty : Nat) :
    globLookup rules true name ty = pick false (dfs (rulesFor rules ty) true [] [] name) :=
  globLookup_unordered rules name ty

/-! ### Main results -/

/-- **Most specific wins**: in unordered mode the glob lookup returns exactly the spec's most specific
    matching glob rule (the first written among rules with an identical pattern) — for every
    configuration, every name and every type. -/
theorem unordered_eq_mostSpecific (cfg : Config V) (hod : cfg.orderingDisabled = true)
    (name : Bytes) (ty : Nat) :
    (lookupGlob cfg name ty).map (·.ruleIdx) = mostSpecificGlob cfg name ty :=
  lookupGlob_unordered cfg hod name ty

private theorem complete_of_eq (cfg : Config V) (name : Bytes) (ty : Nat)
    (h : (lookupGlob cfg name ty).map (·.ruleIdx) = mostSpecificGlob cfg name ty) :
    (lookupGlob cfg name ty).isSome = true ↔
      ∃ r ∈ cfg.rules, ruleMatchesGlob r (splitOn 46 name) ty = true := by
  have hn := mostSpecificGlob_none_iff cfg name ty
  constructor
  · intro hs
    cases hm : mostSpecificGlob cfg name ty with
    | none =>
      rw [hm] at h
      cases hl : lookupGlob cfg name ty with
      | none => rw [hl] at hs; cases hs
      | some _ => rw [hl] at h; cases h
    | some i =>
      obtain ⟨r, hr, hrm, _⟩ := mostSpecificGlob_some hm
      exact ⟨r, List.mem_of_getElem? hr, hrm⟩
  · rintro ⟨r, hr, hrm⟩
    cases hl : lookupGlob cfg name ty with
    | some _ => rfl
    | none =>
      rw [hl] at h
      have := hn.mp h.symm r hr
      rw [hrm] at this; cases this

private theorem lookup_of_eq (cfg : Config V) (hwf : DoFSMConsistent cfg) (rx : Rx) (name : Bytes) (ty : Nat)
    (h : (lookupGlob cfg name ty).map (·.ruleIdx) = mostSpecificGlob cfg name ty) :
    (lookup cfg rx name ty).map (·.ruleIdx) = mostSpecific cfg rx name ty := by
  have := lookup_eq_of_glob cfg hwf rx name ty _ h
    (by
      intro hno
      rw [mostSpecificGlob_none_iff]
      intro r hr
      simp [ruleMatchesGlob, hno r hr])
  rw [this]; rfl

/-- **Completeness**: in unordered mode the glob lookup succeeds iff some glob rule matches the name and
    passes the type filter. -/
theorem unordered_complete (cfg : Config V) (hod : cfg.orderingDisabled = true) (name : Bytes) (ty : Nat) :
    (lookupGlob cfg name ty).isSome = true ↔
      ∃ r ∈ cfg.rules, ruleMatchesGlob r (splitOn 46 name) ty = true :=
  complete_of_eq cfg name ty (unordered_eq_mostSpecific cfg hod name ty)

/-- **Whole lookup**: in unordered mode, for a configuration whose `doFSM` flag is what the loader
    computes, `lookup` is the spec `mostSpecific` (most specific glob rule, else first matching regex rule). -/
theorem unordered_lookup_eq_mostSpecific (cfg : Config V) (hod : cfg.orderingDisabled = true)
    (hwf : DoFSMConsistent cfg) (rx : Rx) (name : Bytes) (ty : Nat) :
    (lookup cfg rx name ty).map (·.ruleIdx) = mostSpecific cfg rx name ty :=
  lookup_of_eq cfg hwf rx name ty (unordered_eq_mostSpecific cfg hod name ty)

/-! ### The results under the hypothesis that the heuristic alone answered `true` (all that held before the repair) -/

/-- **Most specific wins (partial)**: in unordered mode, *if `TestIfNeedBacktracking` answered `true`*,
    the glob lookup returns exactly the spec's most specific matching glob rule (the first written among
    rules with an identical pattern). No hypothesis on the name is needed. -/
theorem unordered_eq_mostSpecific_partial (cfg : Config V) (hod : cfg.orderingDisabled = true)
    (hbt : needBT ((toGRules cfg).map (·.pat)) true = true) (name : Bytes) (ty : Nat) :
    (lookupGlob cfg name ty).map (·.ruleIdx) = mostSpecificGlob cfg name ty :=
  lookupGlob_unordered_bt cfg hod (backtracking_of_needBT hbt) name ty

/-- **Completeness (partial)**: in unordered mode, *if `TestIfNeedBacktracking` answered `true`*, the
    glob lookup succeeds iff some glob rule matches the name and passes the type filter. -/
theorem unordered_complete_partial (cfg : Config V) (hod : cfg.orderingDisabled = true)
    (hbt : needBT ((toGRules cfg).map (·.pat)) true = true) (name : Bytes) (ty : Nat) :
    (lookupGlob cfg name ty).isSome = true ↔
      ∃ r ∈ cfg.rules, ruleMatchesGlob r (splitOn 46 name) ty = true :=
  complete_of_eq cfg name ty (unordered_eq_mostSpecific_partial cfg hod hbt name ty)

/-- **Whole lookup (partial)**: in unordered mode with backtracking enabled by the heuristic, for a
    configuration whose `doFSM` flag is what the loader computes, `lookup` is the spec `mostSpecific`
    (most specific glob rule, else first matching regex rule). -/
theorem unordered_lookup_eq_mostSpecific_partial (cfg : Config V) (hod : cfg.orderingDisabled = true)
    (hbt : needBT ((toGRules cfg).map (·.pat)) true = true) (hwf : DoFSMConsistent cfg)
    (rx : Rx) (name : Bytes) (ty : Nat) :
    (lookup cfg rx name ty).map (·.ruleIdx) = mostSpecific cfg rx name ty :=
  lookup_of_eq cfg hwf rx name ty (unordered_eq_mostSpecific_partial cfg hod hbt name ty)

/-- The same with the repaired flag as the hypothesis: `BacktrackingNeeded = true`, for whichever reason. -/
theorem unordered_eq_mostSpecific_of_backtracking (cfg : Config V) (hod : cfg.orderingDisabled = true)
    (hbt : backtracking (toGRules cfg) true = true) (name : Bytes) (ty : Nat) :
    (lookupGlob cfg name ty).map (·.ruleIdx) = mostSpecificGlob cfg name ty :=
  lookupGlob_unordered_bt cfg hod hbt name ty

/-- The captures in unordered mode (in fact in either mode), for every name: the captures
    `FSM.GetMapping` returns are those of the pattern that owns the final state. -/
theorem unordered_captures (cfg : Config V) (name : Bytes) (ty : Nat) (f : Found)
    (hf : globLookup (toGRules cfg) cfg.orderingDisabled (splitOn 46 name) ty = some f) :
    ∃ i r, (globRules cfg)[f.rule]? = some (i, r) ∧ cfg.rules[i]? = some r ∧
      ruleMatchesGlob r (splitOn 46 name) ty = true ∧ f.caps = capturesOf r.pat (splitOn 46 name) := by
  have hmem := pick_mem hf
  obtain ⟨ext, h1, h2, h3⟩ := dfs_sound _ _ _ [] [] f hmem
  have hm := result_some_mem h2
  simp only [List.nil_append] at hm
  obtain ⟨y, hy, hyj, hyp⟩ := mem_rulesFor_toGRules hm
  have hk := mem_globKK hy
  refine ⟨y.1.2, y.1.1, by rw [← hyj]; exact hk.1, hk.2.1, ?_, ?_⟩
  · simp [ruleMatchesGlob, hk.2.2.1, hk.2.2.2, hyp, h1]
  · rw [h3, hyp]; simp

/-! ### The full-strength statements (refuted before the repair) now hold -/

private def a : Bytes := [97]
private def b : Bytes := [98]
private def c : Bytes := [99]
private def d : Bytes := [100]
private def x : Bytes := [120]

/-- completeness of the unordered FSM lookup without the backtracking hypothesis, for every list of rules, every type
    and every name that has at least one field (every name has: `splitOn` never returns `[]`) -/
def unordered_complete_statement : Prop :=
  ∀ (rules : List GRule) (name : Pat) (ty : Nat), name ≠ [] →
    (∃ r ∈ rules, globMatches r.pat name = true ∧ typeOk r.ty ty = true) →
    (globLookup rules true name ty).isSome = true

/-- **Completeness on the level of rule lists**, no hypothesis on the heuristic, every type. -/
theorem unordered_complete_holds : unordered_complete_statement := by
  intro rules name ty hne ⟨r, hr, hm, hty⟩
  rw [globLookup_unordered]
  cases hp : pick false (dfs (rulesFor rules ty) true [] [] name) with
  | some _ => rfl
  | none =>
    rw [unordered_pick_none_iff _ _ hne] at hp
    obtain ⟨i, hi⟩ := List.getElem?_of_mem hr
    have hmem : (i, r.pat) ∈ rulesFor rules ty :=
      mem_rulesFor.mpr ⟨(r, i), List.mem_zipIdx_iff_getElem?.mpr hi, by rw [typeOk_eq]; exact hty, rfl⟩
    have := hp _ hmem
    rw [hm] at this; cases this

/-- the premise `name ≠ []` is needed on this level: the empty pattern matches the name with zero fields, which
    `GetMapping` never sees -/
theorem premise_name_ne_needed :
    globMatches [] [] = true ∧ globLookup [⟨[], none⟩] true [] 0 = none := by decide

/-- a configuration of glob rules with the given patterns and otherwise trivial fields -/
def mkCfg (pats : List Pat) (orderingDisabled : Bool) : Config Unit :=
  { rules := pats.map fun p =>
      { matchStr := joinWith 46 p, name := [], labels := [], honorLabels := false, observerType := .dflt,
        matchType := .glob, help := [], action := .map, matchMetricType := none, ttl := 0, scale := none,
        buckets := [], hasHistOpts := false, quantiles := [], hasSummaryOpts := false, maxAge := 0,
        ageBuckets := 0, bufCap := 0, pat := p, captureCount := countStars p },
    dObserverType := .dflt, dTtl := 0, dBuckets := [], dQuantiles := [], dMaxAge := 0, dAgeBuckets := 0,
    dBufCap := 0, orderingDisabled := orderingDisabled, doFSM := true }

/-- completeness on the `Config` level, without the backtracking hypothesis -/
def unordered_complete_cfg_statement : Prop :=
  ∀ (cfg : Config Unit) (name : Bytes) (ty : Nat), cfg.orderingDisabled = true →
    (∃ r ∈ cfg.rules, ruleMatchesGlob r (splitOn 46 name) ty = true) →
    (lookupGlob cfg name ty).isSome = true

/-- "most specific wins" on the `Config` level, without the backtracking hypothesis -/
def unordered_eq_mostSpecific_statement : Prop :=
  ∀ (cfg : Config Unit) (name : Bytes) (ty : Nat), cfg.orderingDisabled = true →
    (lookupGlob cfg name ty).map (·.ruleIdx) = mostSpecificGlob cfg name ty

theorem unordered_complete_cfg_holds : unordered_complete_cfg_statement :=
  fun cfg name ty hod h => (unordered_complete cfg hod name ty).mpr h

theorem unordered_eq_mostSpecific_holds : unordered_eq_mostSpecific_statement :=
  fun cfg name ty hod => unordered_eq_mostSpecific cfg hod name ty

/-! ### The former counterexamples: a record of the repair -/

/-- rules `[a.b.*, *.*.c, *.*.*]` -/
def cexRules : List GRule :=
  [⟨[a, b, starB], none⟩, ⟨[starB, starB, c], none⟩, ⟨[starB, starB, starB], none⟩]

/-- second defect class: the length range of a node is widened by rules of other lengths.
    rules `[a, a.b.c, *.b]` -/
def cexRules₂ : List GRule := [⟨[a], none⟩, ⟨[a, b, c], none⟩, ⟨[starB, b], none⟩]

/-- the smallest instance: rules `[a.*.*, a.b.c]` -/
def cexRules₃ : List GRule := [⟨[a, starB, starB], none⟩, ⟨[a, b, c], none⟩]

/-- `TestIfNeedBacktracking` alone still answers "no" on the counterexample rules … -/
theorem cex_needBT_false : needBT (cexRules.map (·.pat)) true = false := by decide
theorem cex₂_needBT_false : needBT (cexRules₂.map (·.pat)) true = false := by decide
theorem cex₃_needBT_false : needBT (cexRules₃.map (·.pat)) true = false := by decide

/-- … and that alone is insufficient: without backtracking the search loses `a.x.c` (resp. `a.b`,
    `a.b.d`) although a rule matches it (this was `cex_unmapped` / `unordered_complete_counterexample₂`
    when the heuristic was the whole flag). -/
theorem heuristic_alone_insufficient :
    (pick false (dfs (rulesFor cexRules 0) false [] [] [a, x, c]) = none ∧
      globMatches [starB, starB, c] [a, x, c] = true ∧ globMatches [starB, starB, starB] [a, x, c] = true) ∧
    (pick false (dfs (rulesFor cexRules₂ 0) false [] [] [a, b]) = none ∧
      globMatches [starB, b] [a, b] = true) ∧
    (pick false (dfs (rulesFor cexRules₃ 0) false [] [] [a, b, d]) = none ∧
      globMatches [a, starB, starB] [a, b, d] = true) := by decide

/-- `HasAmbiguousTransitions` is `true` on all three, so `BacktrackingNeeded` is `true` after the repair … -/
theorem cex_ambiguous : ambiguous cexRules = true ∧ ambiguous cexRules₂ = true ∧ ambiguous cexRules₃ = true := by
  decide

theorem cex_backtracking : backtracking cexRules true = true ∧ backtracking cexRules₂ true = true ∧
    backtracking cexRules₃ true = true := by decide

/-- … and the formerly unmapped names are mapped to the most specific matching rule:
    `a.x.c ↦ *.*.c` (not `*.*.*`), -/
theorem cex_repaired : globLookup cexRules true [a, x, c] 0 = some ⟨1, [a, x]⟩ := by decide
/-- `a.b ↦ *.b`, -/
theorem cex₂_repaired : globLookup cexRules₂ true [a, b] 0 = some ⟨2, [a]⟩ := by decide
/-- `a.b.d ↦ a.*.*`; and the literal rule still wins where it matches. -/
theorem cex₃_repaired : globLookup cexRules₃ true [a, b, d] 0 = some ⟨0, [b, d]⟩ ∧
    globLookup cexRules₃ true [a, b, c] 0 = some ⟨1, []⟩ := by decide

/-- the search with backtracking on the counterexample rules gives the spec's answer -/
example : (pick false (dfs (rulesFor cexRules 0) true [] [] [a, x, c])).map (·.rule) = some 1 := by decide

/-- the metric name `a.x.c` -/
def cexName : Bytes := [97, 46, 120, 46, 99]

/-- the former `Config`-level counterexample: `a.x.c` is mapped, to the rule the spec selects -/
theorem cex_cfg_lookup :
    (lookupGlob (mkCfg (cexRules.map (·.pat)) true) cexName 0).map (·.ruleIdx) = some 1 := by
  rw [unordered_eq_mostSpecific _ rfl]; decide
theorem cex_cfg_spec : mostSpecificGlob (mkCfg (cexRules.map (·.pat)) true) cexName 0 = some 1 := by decide

/-! ### Order independence of the specification -/

/-- the pattern of the rule `mostSpecificGlob` selects (`none` if no glob rule matches) -/
def winnerPat (cfg : Config V) (name : Bytes) (ty : Nat) : Option Pat :=
  (mostSpecificGlob cfg name ty).bind (fun i => cfg.rules[i]?.map (·.pat))

/-- `mostSpecificGlob` returns a matching glob rule that no matching glob rule beats. -/
theorem mostSpecificGlob_spec (cfg : Config V) (name : Bytes) (ty i : Nat)
    (h : mostSpecificGlob cfg name ty = some i) :
    ∃ r, cfg.rules[i]? = some r ∧ ruleMatchesGlob r (splitOn 46 name) ty = true ∧
      ∀ r' ∈ cfg.rules, ruleMatchesGlob r' (splitOn 46 name) ty = true → moreSpecific r'.pat r.pat = false :=
  mostSpecificGlob_some h

/-- `mostSpecificGlob` is `none` exactly when no glob rule matches. -/
theorem mostSpecificGlob_none (cfg : Config V) (name : Bytes) (ty : Nat) :
    mostSpecificGlob cfg name ty = none ↔ ∀ r ∈ cfg.rules, ruleMatchesGlob r (splitOn 46 name) ty = false :=
  mostSpecificGlob_none_iff cfg name ty

/-- On patterns matching one name the C12 order is total: two matching patterns neither of which is
    more specific than the other are equal. Together with transitivity this makes the winner's pattern unique. -/
theorem moreSpecific_total_on_matching (p q name : Pat) (hp : globMatches p name = true)
    (hq : globMatches q name = true) (h1 : moreSpecific p q = false) (h2 : moreSpecific q p = false) : p = q :=
  moreSpecific_total p q name hp hq h1 h2

theorem moreSpecific_transitive (p q r : Pat) (h1 : moreSpecific p q = true) (h2 : moreSpecific q r = true) :
    moreSpecific p r = true := moreSpecific_trans p q r h1 h2

/-- **Order independence**: the *pattern* of the winner under `mostSpecificGlob` is invariant under
    every permutation of the rule list (all other configuration fields are irrelevant). -/
theorem mostSpecific_perm (cfg1 cfg2 : Config V) (hp : cfg1.rules.Perm cfg2.rules) (name : Bytes) (ty : Nat) :
    winnerPat cfg1 name ty = winnerPat cfg2 name ty :=
  mostSpecificGlobPat_perm cfg1 cfg2 hp name ty

/-- The same on plain lists of (pattern, type filter): the fold of the spec over the matching rules. -/
def mostSpecificPat (rules : List GRule) (name : Pat) (ty : Nat) : Option Pat :=
  ((rules.filter (fun r => globMatches r.pat name && typeOk r.ty ty)).foldl
    (msStep (fun r : GRule => r.pat)) none).map (·.pat)

theorem mostSpecificPat_perm (l1 l2 : List GRule) (hp : l1.Perm l2) (name : Pat) (ty : Nat) :
    mostSpecificPat l1 name ty = mostSpecificPat l2 name ty := by
  unfold mostSpecificPat
  apply msWinnerPat_eq_of_same_pats _ _ _ _ name
  · intro r hr; rw [List.mem_filter, Bool.and_eq_true] at hr; exact hr.2.1
  · intro r hr; rw [List.mem_filter, Bool.and_eq_true] at hr; exact hr.2.1
  · intro r hr; rw [List.mem_filter] at hr
    exact ⟨r, List.mem_filter.mpr ⟨hp.mem_iff.mp hr.1, hr.2⟩, rfl⟩
  · intro r hr; rw [List.mem_filter] at hr
    exact ⟨r, List.mem_filter.mpr ⟨hp.mem_iff.mpr hr.1, hr.2⟩, rfl⟩

/- Non-vacuity / sanity -/
-- backtracking is needed for [a.b.*, *.b.c] and then a.b.c ↦ rule 0 (literal first), x.b.c ↦ rule 1
example : needBT [[a, b, starB], [starB, b, c]] true = true := by decide
example : (globLookup [⟨[a, b, starB], none⟩, ⟨[starB, b, c], none⟩] true [a, b, c] 0).map (·.rule) = some 0 := by decide
example : (globLookup [⟨[a, b, starB], none⟩, ⟨[starB, b, c], none⟩] true [x, b, c] 0).map (·.rule) = some 1 := by decide
-- the spec on the counterexample rules, in two orders: same winning pattern
example : mostSpecificPat cexRules [a, x, c] 0 = some [starB, starB, c] := by decide
example : mostSpecificPat cexRules.reverse [a, x, c] 0 = some [starB, starB, c] := by decide

/-- rules `[a.b, c.*]`: neither the heuristic nor the ambiguity test asks for backtracking -/
def detRules : List GRule := [⟨[a, b], none⟩, ⟨[c, starB], none⟩]

-- the deterministic branch of the proof is inhabited: `BacktrackingNeeded = false`, every root is
-- non-ambiguous, the search without backtracking is the search with backtracking, and lookups succeed
example : backtracking detRules true = false := by decide
example : ambiguousAt (rulesFor detRules 0) = false := no_backtracking_all_roots detRules (by decide) 0
example : pick false (dfs (rulesFor detRules 0) false [] [] [c, x]) = some ⟨1, [x]⟩ ∧
    pick false (dfs (rulesFor detRules 0) true [] [] [c, x]) = some ⟨1, [x]⟩ := by decide
example : globLookup detRules true [c, x] 0 = some ⟨1, [x]⟩ ∧ globLookup detRules true [a, b] 1 = some ⟨0, []⟩ ∧
    globLookup detRules true [a, x] 0 = none := by decide
example : backtracking (toGRules (mkCfg (detRules.map (·.pat)) true)) true = false := by decide
example : (lookupGlob (mkCfg (detRules.map (·.pat)) true) [99, 46, 120] 0).map (·.ruleIdx) = some 1 := by
  rw [unordered_eq_mostSpecific _ rfl]; decide
-- a name field that is literally `*`: see `star_field_single_branch` below
-- `ambiguous = true` although the heuristic says no: the repaired branch is inhabited too (`cex_ambiguous`);
-- a root that only a rule's own type names is inspected as well
example : needBT [[a, starB, starB], [a, b, c]] true = false ∧
    ambiguous [⟨[a, starB, starB], some 5⟩, ⟨[a, b, c], some 5⟩] = true ∧
    globLookup [⟨[a, starB, starB], some 5⟩, ⟨[a, b, c], some 5⟩] true [a, b, d] 5 = some ⟨0, [b, d]⟩ := by decide

/-! ### The repaired `*`-component defect (finding `literal_star_component`, repair 0275669) -/

private def y : Bytes := [121]

/-- A name field that is literally `*` takes the single wildcard branch, with and without backtracking, and is
    recorded as a capture. (Before the repair the backtracking search entered the `*` child twice — first through
    the literal transition, capturing nothing — and reported `[⟨1, []⟩, ⟨1, [*]⟩]`, the other one `[⟨1, []⟩]`.) -/
theorem star_field_single_branch :
    dfs (rulesFor detRules 0) true [] [] [c, starB] = [⟨1, [starB]⟩] ∧
    dfs (rulesFor detRules 0) false [] [] [c, starB] = [⟨1, [starB]⟩] := by decide

/-- **The repair, on the former counterexample, unordered mode**: rules `[a.*.*]`, name `a.*.y` — the captures are
    `[*, y]` = `capturesOf` (they were `(y, "")`): without backtracking (`BacktrackingNeeded = false` for this
    rule set), and with it (a second rule `a.b.y` makes the trie ambiguous). -/
theorem star_component_captured :
    backtracking [⟨[a, starB, starB], none⟩] true = false ∧
    globLookup [⟨[a, starB, starB], none⟩] true [a, starB, y] 0 = some ⟨0, [starB, y]⟩ ∧
    backtracking [⟨[a, starB, starB], none⟩, ⟨[a, b, y], none⟩] true = true ∧
    globLookup [⟨[a, starB, starB], none⟩, ⟨[a, b, y], none⟩] true [a, starB, y] 0 = some ⟨0, [starB, y]⟩ ∧
    capturesOf [a, starB, starB] [a, starB, y] = [starB, y] := by decide

/-- the metric name `a.*.y` -/
def starName : Bytes := [97, 46, 42, 46, 121]

/-- The same through `lookupGlob` on the `Config` level, in either mode (`od` = `glob_disable_ordering`): the
    mapping returned for `a.*.y` is rule 0 with its (empty) name template formatted with the captures `[*, y]`. -/
theorem star_component_captured_cfg (od : Bool) :
    globLookup (toGRules (mkCfg [[a, starB, starB]] od)) od (splitOn 46 starName) 0 = some ⟨0, [starB, y]⟩ ∧
    lookupGlob (mkCfg [[a, starB, starB]] od) starName 0 =
      some { ruleIdx := 0, name := (compileTemplate [] 2).format [starB, y], labels := [] } := by
  have h : globLookup (toGRules (mkCfg [[a, starB, starB]] od)) od (splitOn 46 starName) 0 =
      some ⟨0, [starB, y]⟩ := by cases od <;> decide
  refine ⟨h, ?_⟩
  unfold lookupGlob
  show (match globLookup (toGRules (mkCfg [[a, starB, starB]] od)) od (splitOn 46 starName) 0 with
    | none => none | some f => _) = _
  rw [h]
  rfl

/-- … and that name is the empty template's expansion, `""` (a template without references is returned as it is) -/
theorem star_component_captured_name :
    (compileTemplate [] 2).format [starB, y] = some [] ∧ expandSpec [starB, y] 0 [] = some [] := by decide

end SE.Props.C12
