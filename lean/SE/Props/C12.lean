import SE.Proofs.GlobBridgeUnordered
/-
C12 — Unordered glob mode (`glob_disable_ordering: true`): complete, and the most specific rule wins.

`lookupGlob` / `globLookup` model `FSM.GetMapping`, `needBT` models `TestIfNeedBacktracking`
(SE/Model/Glob.lean); `mostSpecificGlob`, `mostSpecific`, `moreSpecific` are the specification
(SE/Spec/Mapping.lean). All theorems quantify over all configurations, names and types.

What is proved: soundness always; completeness and "most specific wins" under the explicit
hypothesis that `TestIfNeedBacktracking` answered `true`. Without that hypothesis completeness is
FALSE on the current code; the full-strength statements are kept as `def …_statement : Prop` and
their negations are proved by the concrete counterexamples found on the real exporter.
-/
namespace SE.Props.C12
open SE SE.ListLemmas
variable {V : Type}

/-- **Soundness (any mode, backtracking or not)**: whatever `lookupGlob` returns is a glob rule of the
    configuration that matches the name component-wise and passes the type filter. -/
theorem unordered_sound (cfg : Config V) (name : Bytes) (ty : Nat) (m : Mapped)
    (h : lookupGlob cfg name ty = some m) :
    ∃ r, cfg.rules[m.ruleIdx]? = some r ∧ ruleMatchesGlob r (splitOn 46 name) ty = true :=
  lookupGlob_sound cfg name ty m h

/-- The first final state the search reaches (backtracking on) is owned by a matching pattern that
    no matching pattern of the type root beats in the C12 order: literal-first DFS = most specific first. -/
theorem trie_dfs_head_mostSpecific (rs : TRules) (name : Pat) (f0 : Found)
    (h : pick false (dfs rs true [] [] name) = some f0) :
    ∃ pat, globMatches pat name = true ∧ result rs pat = some f0.rule ∧
      ∀ r ∈ rs, globMatches r.2 name = true → moreSpecific r.2 pat = false :=
  unordered_pick_dfs rs name f0 h

/-- **Most specific wins (partial)**: in unordered mode, *if `TestIfNeedBacktracking` answered `true`*,
    the glob lookup returns exactly the spec's most specific matching glob rule (the first written among
    rules with an identical pattern). No hypothesis on the name is needed. -/
theorem unordered_eq_mostSpecific_partial (cfg : Config V) (hod : cfg.orderingDisabled = true)
    (hbt : needBT ((toGRules cfg).map (·.pat)) true = true) (name : Bytes) (ty : Nat) :
    (lookupGlob cfg name ty).map (·.ruleIdx) = mostSpecificGlob cfg name ty :=
  lookupGlob_unordered_bt cfg hod hbt name ty

/-- **Completeness (partial)**: in unordered mode, *if `TestIfNeedBacktracking` answered `true`*, the
    glob lookup succeeds iff some glob rule matches the name and passes the type filter. -/
theorem unordered_complete_partial (cfg : Config V) (hod : cfg.orderingDisabled = true)
    (hbt : needBT ((toGRules cfg).map (·.pat)) true = true) (name : Bytes) (ty : Nat) :
    (lookupGlob cfg name ty).isSome = true ↔
      ∃ r ∈ cfg.rules, ruleMatchesGlob r (splitOn 46 name) ty = true := by
  have h := lookupGlob_unordered_bt cfg hod hbt name ty
  have hn := mostSpecificGlob_none_iff cfg name ty
  constructor
  · intro hs
    cases hm : mostSpecificGlob cfg name ty with
    | none =>
      rw [hm] at h
      cases hl : lookupGlob cfg name ty with
      | none => rw [hl] at hs; cases hs
      | some _ => rw [hl] at h; cases h
    | some i =>
      obtain ⟨r, hr, hrm, _⟩ := mostSpecificGlob_some hm
      exact ⟨r, List.mem_of_getElem? hr, hrm⟩
  · rintro ⟨r, hr, hrm⟩
    cases hl : lookupGlob cfg name ty with
    | some _ => rfl
    | none =>
      rw [hl] at h
      have := hn.mp h.symm r hr
      rw [hrm] at this; cases this

/-- **Whole lookup (partial)**: in unordered mode with backtracking enabled, for a configuration whose
    `doFSM` flag is what the loader computes, `lookup` is the spec `mostSpecific` (most specific glob
    rule, else first matching regex rule). -/
theorem unordered_lookup_eq_mostSpecific_partial (cfg : Config V) (hod : cfg.orderingDisabled = true)
    (hbt : needBT ((toGRules cfg).map (·.pat)) true = true) (hwf : DoFSMConsistent cfg)
    (rx : Rx) (name : Bytes) (ty : Nat) :
    (lookup cfg rx name ty).map (·.ruleIdx) = mostSpecific cfg rx name ty := by
  have := lookup_eq_of_glob cfg hwf rx name ty _ (lookupGlob_unordered_bt cfg hod hbt name ty)
    (by
      intro hno
      rw [mostSpecificGlob_none_iff]
      intro r hr
      simp [ruleMatchesGlob, hno r hr])
  rw [this]; rfl

/-- The captures in unordered mode with backtracking: if no name component is literally `*`, the
    captures `FSM.GetMapping` returns are those of the pattern that owns the final state. -/
theorem unordered_captures (cfg : Config V) (name : Bytes) (ty : Nat)
    (hns : NoStarField (splitOn 46 name)) (f : Found)
    (hf : globLookup (toGRules cfg) cfg.orderingDisabled (splitOn 46 name) ty = some f) :
    ∃ i r, (globRules cfg)[f.rule]? = some (i, r) ∧ cfg.rules[i]? = some r ∧
      ruleMatchesGlob r (splitOn 46 name) ty = true ∧ f.caps = capturesOf r.pat (splitOn 46 name) := by
  have hmem := pick_mem hf
  obtain ⟨ext, h1, h2, h3⟩ := dfs_sound _ _ _ [] [] f hmem
  have hm := result_some_mem h2
  simp only [List.nil_append] at hm
  obtain ⟨y, hy, hyj, hyp⟩ := mem_rulesFor_toGRules hm
  have hk := mem_globKK hy
  refine ⟨y.1.2, y.1.1, by rw [← hyj]; exact hk.1, hk.2.1, ?_, ?_⟩
  · simp [ruleMatchesGlob, hk.2.2.1, hk.2.2.2, hyp, h1]
  · rw [h3 hns, hyp]; simp

/-! ### The full-strength statements are false on the current code -/

private def a : Bytes := [97]
private def b : Bytes := [98]
private def c : Bytes := [99]
private def x : Bytes := [120]

-- NOT PROVED / FALSE on the current code:
/-- completeness of the unordered FSM lookup without the backtracking hypothesis -/
def unordered_complete_statement : Prop :=
  ∀ (rules : List GRule) (name : Pat) (ty : Nat),
    (∃ r ∈ rules, globMatches r.pat name = true ∧ typeOk r.ty ty = true) →
    (globLookup rules true name ty).isSome = true

/-- rules `[a.b.*, *.*.c, *.*.*]` -/
def cexRules : List GRule :=
  [⟨[a, b, starB], none⟩, ⟨[starB, starB, c], none⟩, ⟨[starB, starB, starB], none⟩]

/-- `TestIfNeedBacktracking` answers "no" on the counterexample rules … -/
theorem cex_needBT_false : needBT (cexRules.map (·.pat)) true = false := by decide

/-- … and `a.x.c` is then unmapped although both `*.*.c` and `*.*.*` match it. -/
theorem cex_unmapped : globLookup cexRules true [a, x, c] 0 = none ∧
    globMatches [starB, starB, c] [a, x, c] = true ∧ globMatches [starB, starB, starB] [a, x, c] = true := by
  decide

theorem unordered_complete_counterexample : ¬ unordered_complete_statement := by
  intro h
  have := h cexRules [a, x, c] 0 ⟨⟨[starB, starB, c], none⟩, by decide, by decide, by decide⟩
  revert this
  decide

/-- second defect class: the length range of a node is widened by rules of other lengths.
    rules `[a, a.b.c, *.b]`, name `a.b` is unmapped although `*.b` matches. -/
theorem unordered_complete_counterexample₂ :
    globLookup [⟨[a], none⟩, ⟨[a, b, c], none⟩, ⟨[starB, b], none⟩] true [a, b] 0 = none ∧
      globMatches [starB, b] [a, b] = true := by decide

/-- forcing backtracking on the same rule sets gives the spec's answer (the defect is the heuristic only) -/
example : (pick false (dfs (rulesFor cexRules 0) true [] [] [a, x, c])).map (·.rule) = some 1 := by decide

/-- a configuration of glob rules with the given patterns and otherwise trivial fields -/
def mkCfg (pats : List Pat) (orderingDisabled : Bool) : Config Unit :=
  { rules := pats.map fun p =>
      { matchStr := joinWith 46 p, name := [], labels := [], honorLabels := false, observerType := .dflt,
        matchType := .glob, help := [], action := .map, matchMetricType := none, ttl := 0, scale := none,
        buckets := [], hasHistOpts := false, quantiles := [], hasSummaryOpts := false, maxAge := 0,
        ageBuckets := 0, bufCap := 0, pat := p, captureCount := countStars p },
    dObserverType := .dflt, dTtl := 0, dBuckets := [], dQuantiles := [], dMaxAge := 0, dAgeBuckets := 0,
    dBufCap := 0, orderingDisabled := orderingDisabled, doFSM := true }

-- NOT PROVED / FALSE on the current code:
/-- completeness on the `Config` level, without the backtracking hypothesis -/
def unordered_complete_cfg_statement : Prop :=
  ∀ (cfg : Config Unit) (name : Bytes) (ty : Nat), cfg.orderingDisabled = true →
    (∃ r ∈ cfg.rules, ruleMatchesGlob r (splitOn 46 name) ty = true) →
    (lookupGlob cfg name ty).isSome = true

-- NOT PROVED / FALSE on the current code:
/-- "most specific wins" on the `Config` level, without the backtracking hypothesis -/
def unordered_eq_mostSpecific_statement : Prop :=
  ∀ (cfg : Config Unit) (name : Bytes) (ty : Nat), cfg.orderingDisabled = true →
    (lookupGlob cfg name ty).map (·.ruleIdx) = mostSpecificGlob cfg name ty

/-- the metric name `a.x.c` -/
def cexName : Bytes := [97, 46, 120, 46, 99]

theorem cex_cfg_lookup : lookupGlob (mkCfg (cexRules.map (·.pat)) true) cexName 0 = none := by decide
theorem cex_cfg_spec : mostSpecificGlob (mkCfg (cexRules.map (·.pat)) true) cexName 0 = some 1 := by decide

theorem unordered_complete_cfg_counterexample : ¬ unordered_complete_cfg_statement := by
  intro h
  have := h (mkCfg (cexRules.map (·.pat)) true) cexName 0 rfl
    ⟨(mkCfg (cexRules.map (·.pat)) true).rules[1], List.getElem_mem _, by decide⟩
  rw [cex_cfg_lookup] at this
  cases this

theorem unordered_eq_mostSpecific_counterexample : ¬ unordered_eq_mostSpecific_statement := by
  intro h
  have := h (mkCfg (cexRules.map (·.pat)) true) cexName 0 rfl
  rw [cex_cfg_lookup, cex_cfg_spec] at this
  cases this

/-! ### Order independence of the specification -/

/-- the pattern of the rule `mostSpecificGlob` selects (`none` if no glob rule matches) -/
def winnerPat (cfg : Config V) (name : Bytes) (ty : Nat) : Option Pat :=
  (mostSpecificGlob cfg name ty).bind (fun i => cfg.rules[i]?.map (·.pat))

/-- `mostSpecificGlob` returns a matching glob rule that no matching glob rule beats. -/
theorem mostSpecificGlob_spec (cfg : Config V) (name : Bytes) (ty i : Nat)
    (h : mostSpecificGlob cfg name ty = some i) :
    ∃ r, cfg.rules[i]? = some r ∧ ruleMatchesGlob r (splitOn 46 name) ty = true ∧
      ∀ r' ∈ cfg.rules, ruleMatchesGlob r' (splitOn 46 name) ty = true → moreSpecific r'.pat r.pat = false :=
  mostSpecificGlob_some h

/-- `mostSpecificGlob` is `none` exactly when no glob rule matches. -/
theorem mostSpecificGlob_none (cfg : Config V) (name : Bytes) (ty : Nat) :
    mostSpecificGlob cfg name ty = none ↔ ∀ r ∈ cfg.rules, ruleMatchesGlob r (splitOn 46 name) ty = false :=
  mostSpecificGlob_none_iff cfg name ty

/-- On patterns matching one name the C12 order is total: two matching patterns neither of which is
    more specific than the other are equal. Together with transitivity this makes the winner's pattern unique. -/
theorem moreSpecific_total_on_matching (p q name : Pat) (hp : globMatches p name = true)
    (hq : globMatches q name = true) (h1 : moreSpecific p q = false) (h2 : moreSpecific q p = false) : p = q :=
  moreSpecific_total p q name hp hq h1 h2

theorem moreSpecific_transitive (p q r : Pat) (h1 : moreSpecific p q = true) (h2 : moreSpecific q r = true) :
    moreSpecific p r = true := moreSpecific_trans p q r h1 h2

/-- **Order independence**: the *pattern* of the winner under `mostSpecificGlob` is invariant under
    every permutation of the rule list (all other configuration fields are irrelevant). -/
theorem mostSpecific_perm (cfg1 cfg2 : Config V) (hp : cfg1.rules.Perm cfg2.rules) (name : Bytes) (ty : Nat) :
    winnerPat cfg1 name ty = winnerPat cfg2 name ty :=
  mostSpecificGlobPat_perm cfg1 cfg2 hp name ty

/-- The same on plain lists of (pattern, type filter): the fold of the spec over the matching rules. -/
def mostSpecificPat (rules : List GRule) (name : Pat) (ty : Nat) : Option Pat :=
  ((rules.filter (fun r => globMatches r.pat name && typeOk r.ty ty)).foldl
    (msStep (fun r : GRule => r.pat)) none).map (·.pat)

theorem mostSpecificPat_perm (l1 l2 : List GRule) (hp : l1.Perm l2) (name : Pat) (ty : Nat) :
    mostSpecificPat l1 name ty = mostSpecificPat l2 name ty := by
  unfold mostSpecificPat
  apply msWinnerPat_eq_of_same_pats _ _ _ _ name
  · intro r hr; rw [List.mem_filter, Bool.and_eq_true] at hr; exact hr.2.1
  · intro r hr; rw [List.mem_filter, Bool.and_eq_true] at hr; exact hr.2.1
  · intro r hr; rw [List.mem_filter] at hr
    exact ⟨r, List.mem_filter.mpr ⟨hp.mem_iff.mp hr.1, hr.2⟩, rfl⟩
  · intro r hr; rw [List.mem_filter] at hr
    exact ⟨r, List.mem_filter.mpr ⟨hp.mem_iff.mpr hr.1, hr.2⟩, rfl⟩

/- Non-vacuity / sanity -/
-- backtracking is needed for [a.b.*, *.b.c] and then a.b.c ↦ rule 0 (literal first), x.b.c ↦ rule 1
example : needBT [[a, b, starB], [starB, b, c]] true = true := by decide
example : (globLookup [⟨[a, b, starB], none⟩, ⟨[starB, b, c], none⟩] true [a, b, c] 0).map (·.rule) = some 0 := by decide
example : (globLookup [⟨[a, b, starB], none⟩, ⟨[starB, b, c], none⟩] true [x, b, c] 0).map (·.rule) = some 1 := by decide
-- the spec on the counterexample rules, in two orders: same winning pattern
example : mostSpecificPat cexRules [a, x, c] 0 = some [starB, starB, c] := by decide
example : mostSpecificPat cexRules.reverse [a, x, c] 0 = some [starB, starB, c] := by decide

end SE.Props.C12
