import SE.Proofs.RegistryPipe
import SE.Spec.FloatLaws
/-
C07 — TTL expiry removes exactly the stale series.
`Reg.sweep now` models `RemoveStaleMetrics` at clock value `now`; `Reg.getOrCreate` models the
`GetCounter/GetGauge/GetHistogram/GetSummary` path (which restarts the clock and the ttl of the series
it returns); `handleEvent` is one event through the exporter. All theorems hold for every registry,
every clock value, every event, label set and configuration.

Vocabulary (SE/Spec/Registry.lean): `r.HasSeries name s` = `s` is a series of a metric called `name`
(membership); `r.series? name labels` = the series a lookup of (name, sorted label set) finds;
`RegWF r` = the registry invariant (distinct names, distinct label sets per metric, every series has
its vector), which holds initially and is preserved by every operation (`wf_invariant` below).
Stages of `handleEvent` (SE/Proofs/RegistryPipe.lean): `evRule` = the matched rule, `evTtl` = its ttl
or the default, `evLabels` = the merged label map, `evTarget` = the registry request `(type, GetArgs,
update)` if the event reaches the registry.
-/
namespace SE.Props.C07
open SE
variable {V : Type} [NumOps V]

/-- **Sweep removes exactly the stale series.** The metrics stay where they are, with their name, type
    and vectors; a series is in metric `i` after the sweep iff it was there before (the same record:
    same labels, ttl, last, value, counts) and it is not stale (`ttl = 0` or `last + ttl ≥ now`);
    the surviving series keep their order. -/
theorem sweep_removes_exactly_stale (r : Reg V) (now : Int) :
    (r.sweep now).metrics.length = r.metrics.length ∧ (r.sweep now).pre = r.pre ∧
    ∀ (i : Nat) (m : MetricM V), r.metrics[i]? = some m →
      ∃ m', (r.sweep now).metrics[i]? = some m' ∧ m'.name = m.name ∧ m'.ty = m.ty ∧ m'.vecs = m.vecs ∧
        m'.series.Sublist m.series ∧
        ∀ s, s ∈ m'.series ↔ s ∈ m.series ∧ (s.ttl = 0 ∨ s.last + s.ttl ≥ now) := by
  refine ⟨by rw [sweep_metrics, List.length_map], rfl, ?_⟩
  intro i m hm
  refine ⟨sweepMetric now m, by rw [sweep_metrics, List.getElem?_map, hm]; rfl, rfl, rfl, rfl,
    List.filter_sublist, ?_⟩
  intro s
  simp only [sweepMetric, List.mem_filter, keepSeries_iff, ge_iff_le]

/-- The same, by name: `s` is a series of `name` after the sweep iff it was before and is not stale. -/
theorem sweep_hasSeries (r : Reg V) (now : Int) (name : Bytes) (s : Series V) :
    (r.sweep now).HasSeries name s ↔ r.HasSeries name s ∧ (s.ttl = 0 ∨ s.last + s.ttl ≥ now) :=
  hasSeries_sweep r now name s

/-- The same, for lookups on a well-formed registry: a lookup after the sweep finds what it found
    before unless that series is stale, in which case it finds nothing. -/
theorem sweep_lookup (r : Reg V) (hw : RegWF r) (now : Int) (name : Bytes) (labels : Labels) :
    (r.sweep now).series? name labels =
      match r.series? name labels with
      | some s => if s.ttl ≠ 0 ∧ s.last + s.ttl < now then none else some s
      | none => none := by
  rw [hw.series?_sweep]
  cases r.series? name labels with
  | none => rfl
  | some s =>
    simp only [Option.filter]
    by_cases hk : keepSeries now s = true
    · have := (keepSeries_iff now s).mp hk
      have hn : ¬(s.ttl ≠ 0 ∧ s.last + s.ttl < now) := by omega
      simp [hk, hn]
    · have : ¬(s.ttl = 0 ∨ now ≤ s.last + s.ttl) := fun h => hk ((keepSeries_iff now s).mpr h)
      have hn : s.ttl ≠ 0 ∧ s.last + s.ttl < now := by omega
      simp [hk, hn]

/-- A sweep changes no metric's type and no vector (help, buckets, summary options). -/
theorem sweep_keeps_types (r : Reg V) (now : Int) (name : Bytes) (names : List Bytes) :
    (r.sweep now).type? name = r.type? name ∧ (r.sweep now).vec? name names = r.vec? name names :=
  ⟨type?_sweep r now name, vec?_sweep r now name names⟩

/-- **Never removed early**: a series whose deadline `last + ttl` has not passed survives. -/
theorem never_removed_early (r : Reg V) (now : Int) (name : Bytes) (s : Series V)
    (h : r.HasSeries name s) (hd : now ≤ s.last + s.ttl) : (r.sweep now).HasSeries name s :=
  (hasSeries_sweep r now name s).mpr ⟨h, Or.inr hd⟩

/-- A series with ttl 0 never expires, at any clock value. -/
theorem ttl_zero_never_expires (r : Reg V) (now : Int) (name : Bytes) (s : Series V)
    (h : r.HasSeries name s) (h0 : s.ttl = 0) : (r.sweep now).HasSeries name s :=
  (hasSeries_sweep r now name s).mpr ⟨h, Or.inl h0⟩

/-- **Removed when due**: a series with a non-zero ttl whose deadline has passed is gone. -/
theorem stale_removed (r : Reg V) (now : Int) (name : Bytes) (s : Series V)
    (h0 : s.ttl ≠ 0) (hd : s.last + s.ttl < now) : ¬ (r.sweep now).HasSeries name s := by
  intro h
  have := ((hasSeries_sweep r now name s).mp h).2
  omega

/-- **A touch restarts the clock and the ttl** (registry level): after a successful `getOrCreate`
    the addressed series has `last = now` and `ttl = args.ttl` — whether it existed (then its value is
    unchanged) or was created (then it is zero). -/
theorem touch_restarts_clock_and_ttl (r r' : Reg V) (ty : MType) (a : GetArgs V) (now : Int)
    (h : r.getOrCreate ty a now = .ok (.ok r')) :
    ∃ s, r'.series? a.name a.labels = some s ∧ s.labels = a.labels ∧ s.last = now ∧ s.ttl = a.ttl ∧
      ((∃ s0, r.series? a.name a.labels = some s0 ∧ s.sameValue s0) ∨
       (r.series? a.name a.labels = none ∧ s.isFresh)) := by
  obtain ⟨s, hs, hl, h1, h2, hc⟩ := getOrCreate_addressed h
  refine ⟨s, hs, hl, h1, h2, ?_⟩
  rcases hc with ⟨s0, hs0, _, e⟩ | ⟨hn, e, _⟩
  · subst e; exact Or.inl ⟨s0, hs0, rfl, rfl, rfl, rfl⟩
  · subst e; exact Or.inr ⟨hn, freshSeries_isFresh _ _ _ _⟩

/-- … and a touched series is not removed before `now + ttl`: the deadline is counted from the touch. -/
theorem touched_survives_until_deadline (r r' : Reg V) (hw : RegWF r) (ty : MType) (a : GetArgs V) (now later : Int)
    (h : r.getOrCreate ty a now = .ok (.ok r')) (hl : a.ttl = 0 ∨ later ≤ now + a.ttl) :
    ∃ s, (r'.sweep later).series? a.name a.labels = some s ∧ s.last = now ∧ s.ttl = a.ttl := by
  obtain ⟨s, hs, _, h1, h2, _⟩ := getOrCreate_addressed h
  refine ⟨s, ?_, h1, h2⟩
  rw [(RegWF_getOrCreate hw h).series?_sweep, hs]
  have : keepSeries later s = true := (keepSeries_iff later s).mpr (by rw [h1, h2]; exact hl)
  simp [Option.filter, this]

/-- **A touch restarts the clock and the ttl** (exporter level): when `handleEvent` applies an event
    (`applied` goes up by one), the series it addresses — metric name and sorted labels of the registry
    request `evTarget` — has afterwards `last = p.now` and `ttl` = the matched rule's ttl, or the
    configured default ttl when no rule matched. -/
theorem handleEvent_restarts_clock_and_ttl (p p' : Pipe V) (rx : Rx) (ev : Ev V) (tags : Labels)
    (h : handleEvent p rx ev tags = some (.ok p')) (ha : p'.counts.applied = p.counts.applied + 1) :
    ∃ c pl s, evTarget p rx ev tags = some (c, pl) ∧
      pl.2.1.labels = (evLabels p rx ev tags).sorted ∧
      p'.reg.series? pl.2.1.name pl.2.1.labels = some s ∧ s.last = p.now ∧
      s.ttl = (match evRule p rx ev with
               | some rule => rule.ttl
               | none => p.mapper.cfg.dTtl) := by
  obtain ⟨c, pl, reg, ht, hg, e⟩ := handleEvent_applied h ha
  subst e
  obtain ⟨s, _, hs, hlast, httl, _⟩ := applied_addressed (c := c) (evTarget_keeps ht) hg
  exact ⟨c, pl, _, ht, (evTarget_args ht).1, hs, hlast, by rw [httl, (evTarget_args ht).2.1]; rfl⟩

/-- **Recreated from zero** (registry level): if the series does not exist — e.g. because it expired —
    a successful `getOrCreate` creates it with value zero, count zero and all bucket counts zero. -/
theorem recreated_from_zero (r r' : Reg V) (ty : MType) (a : GetArgs V) (now : Int)
    (hn : r.series? a.name a.labels = none) (h : r.getOrCreate ty a now = .ok (.ok r')) :
    ∃ s, r'.series? a.name a.labels = some s ∧ s.f = NumOps.zero ∧ s.n = 0 ∧ (∀ x, x ∈ s.bk → x = 0) ∧
      s.last = now ∧ s.ttl = a.ttl := by
  obtain ⟨s, hs, _, h1, h2, hc⟩ := touch_restarts_clock_and_ttl r r' ty a now h
  rcases hc with ⟨s0, hs0, _⟩ | ⟨_, hf⟩
  · rw [hn] at hs0; cases hs0
  · exact ⟨s, hs, hf.1, hf.2.1, hf.2.2, h1, h2⟩

/-- An expired series really is gone for the next `getOrCreate`: after the sweep the lookup fails, so the
    next successful request for the same name and labels starts again from zero. -/
theorem expired_then_recreated_from_zero (r r' : Reg V) (hw : RegWF r) (ty : MType) (a : GetArgs V)
    (s0 : Series V) (sweepAt now : Int)
    (hs0 : r.series? a.name a.labels = some s0) (h0 : s0.ttl ≠ 0) (hd : s0.last + s0.ttl < sweepAt)
    (h : (r.sweep sweepAt).getOrCreate ty a now = .ok (.ok r')) :
    ∃ s, r'.series? a.name a.labels = some s ∧ s.f = NumOps.zero ∧ s.n = 0 ∧ (∀ x, x ∈ s.bk → x = 0) := by
  have hn : (r.sweep sweepAt).series? a.name a.labels = none := by
    rw [sweep_lookup r hw, hs0]
    simp [h0, hd]
  obtain ⟨s, hs, h1, h2, h3, _⟩ := recreated_from_zero _ r' ty a now hn h
  exact ⟨s, hs, h1, h2, h3⟩

/-- **Recreated from zero** (exporter level): if the series an applied event addresses did not exist,
    the series exposed afterwards is the event's update applied to the all-zero series — it comes from
    this sample alone. (`vecFor` is the vector the series is created in: the existing one with these
    label names or a new one from the event's help/buckets/summary options.) -/
theorem handleEvent_recreates_from_zero (p p' : Pipe V) (rx : Rx) (ev : Ev V) (tags : Labels)
    (h : handleEvent p rx ev tags = some (.ok p')) (ha : p'.counts.applied = p.counts.applied + 1) :
    ∃ c pl, evTarget p rx ev tags = some (c, pl) ∧
      (p.reg.series? pl.2.1.name pl.2.1.labels = none →
        ∃ s0 : Series V, s0.isFresh ∧ s0.labels = pl.2.1.labels ∧ s0.last = p.now ∧ s0.ttl = pl.2.1.ttl ∧
          p'.reg.series? pl.2.1.name pl.2.1.labels = some (pl.2.2 (p.reg.vecFor pl.1 pl.2.1) s0)) := by
  obtain ⟨c, pl, reg, ht, hg, e⟩ := handleEvent_applied h ha
  subst e
  refine ⟨c, pl, ht, fun hn => ⟨freshSeries pl.1 (p.reg.vecFor pl.1 pl.2.1) pl.2.1 p.now,
    freshSeries_isFresh _ _ _ _, rfl, rfl, rfl, applied_created (evTarget_keeps ht) hg hn⟩⟩

/-- For a counter event this reads: the recreated counter holds exactly this increment
    (`counterAdd` of the zero series), nothing of the expired series' value. -/
theorem counter_recreated_from_zero (p p' : Pipe V) (rx : Rx) (ev : Ev V) (tags : Labels) (hk : ev.kind = .counter)
    (h : handleEvent p rx ev tags = some (.ok p')) (ha : p'.counts.applied = p.counts.applied + 1) :
    ∃ c pl, evTarget p rx ev tags = some (c, pl) ∧
      (p.reg.series? pl.2.1.name pl.2.1.labels = none →
        ∃ s0 : Series V, s0.isFresh ∧
          p'.reg.series? pl.2.1.name pl.2.1.labels = some (counterAdd s0 (evValue p rx ev))) := by
  obtain ⟨c, pl, ht, hcr⟩ := handleEvent_recreates_from_zero p p' rx ev tags h ha
  refine ⟨c, pl, ht, fun hn => ?_⟩
  obtain ⟨s0, hf, _, _, _, hs⟩ := hcr hn
  obtain ⟨_, _, nm, _, hpl⟩ := evTarget_spec ht
  have hu := ((evPlan_type p rx ev nm (evLabels p rx ev tags).sorted).1 hk).2
  rw [← hpl] at hu
  rw [hu] at hs
  exact ⟨s0, hf, hs⟩

/-- The registry invariant used above: it holds for the empty registry and every operation of the
    exporter goroutine preserves it. -/
theorem wf_invariant :
    (∀ pre, RegWF ({ metrics := [], pre := pre } : Reg V)) ∧
    (∀ (r r' : Reg V) ty a now, RegWF r → r.getOrCreate ty a now = .ok (.ok r') → RegWF r') ∧
    (∀ (r : Reg V) now, RegWF r → RegWF (r.sweep now)) ∧
    (∀ (p p' : Pipe V) rx ev tags, RegWF p.reg → handleEvent p rx ev tags = some (.ok p') → RegWF p'.reg) :=
  ⟨RegWF_empty, fun _ _ _ _ _ hw h => RegWF_getOrCreate hw h, fun _ now hw => RegWF_sweep hw now,
   fun _ _ _ _ _ hw h => RegWF_handleEvent hw h⟩

/-- Under the invariant, membership and lookup say the same. -/
theorem lookup_iff_member (r : Reg V) (hw : RegWF r) (name : Bytes) (s : Series V) :
    r.HasSeries name s ↔ r.series? name s.labels = some s :=
  hw.hasSeries_iff name s

/-! ### Non-vacuity: a concrete registry over the toy value type -/
section examples
attribute [local instance] toyNumOps

private def args (name : Bytes) (ttl : Int) : GetArgs Int := { name := name, labels := [([97], [98])], help := [], ttl := ttl }
private def r0 : Reg Int := {}
private def get (r : Reg Int) (ty : MType) (a : GetArgs Int) (now : Int) : Reg Int :=
  match r.getOrCreate ty a now with
  | .ok (.ok r') => r'
  | _ => r
/-- series as (name, last, ttl) triples -/
private def view (r : Reg Int) : List (Bytes × Int × Int) :=
  r.metrics.flatMap fun m => m.series.map fun s => (m.name, s.last, s.ttl)

-- created at 10 with ttl 5, a second series with ttl 0
private def r2 : Reg Int := get (get r0 .counter (args [120] 5) 10) .gauge (args [121] 0) 10
example : view r2 = [([120], 10, 5), ([121], 10, 0)] := by with_unfolding_all decide
-- at 15 = last + ttl nothing is removed; at 16 exactly the first one is
example : view (r2.sweep 15) = [([120], 10, 5), ([121], 10, 0)] := by with_unfolding_all decide
example : view (r2.sweep 16) = [([121], 10, 0)] := by with_unfolding_all decide
-- a touch at 14 with a new ttl restarts both; the series then survives until 14 + 7
example : view ((get r2 .counter (args [120] 7) 14).sweep 21) = [([120], 14, 7), ([121], 10, 0)] := by
  with_unfolding_all decide
example : view ((get r2 .counter (args [120] 7) 14).sweep 22) = [([121], 10, 0)] := by with_unfolding_all decide

end examples

end SE.Props.C07
