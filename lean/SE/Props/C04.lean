import SE.Proofs.GlobBridge
import SE.Proofs.FirstMatch
/-
C04 — Ordered glob mapping: the first matching rule wins.

`lookup` / `lookupGlob` / `globLookup` are the models of `MetricMapper.GetMapping` and
`FSM.GetMapping` (SE/Model/Mapper.lean, SE/Model/Glob.lean); `firstGlob`, `firstRegex`,
`firstMatch` are the specifications (SE/Spec/Mapping.lean). Every theorem quantifies over
*all* configurations, metric names (byte strings) and metric types; there is no size bound.
"Ordered mode" is `cfg.orderingDisabled = false`; then `BacktrackingNeeded` is `true`
by the definition of `TestIfNeedBacktracking` (`needBT_ordered`).

The capture statements (`trie_dfs_sound`, `trie_dfs_complete`, `glob_captures`, `globLookup_captures`)
hold for *every* name, including names with a component that is literally `*`. Before repair 0275669 such
a component was looked up among the literal transitions, found the wildcard transition there and was not
recorded as a capture, so that all later captures were shifted (the finding `literal_star_component`;
the statements then carried the hypothesis "no name component is literally `*`"). Now a `*` component
takes the wildcard branch like any other component that has no literal transition and is captured:
`star_component_captured` records the repaired behaviour on the former counterexample.
-/
namespace SE.Props.C04
open SE SE.ListLemmas
variable {V : Type}

/-- In ordered mode `TestIfNeedBacktracking` always answers "backtracking needed". -/
theorem needBT_ordered (pats : List Pat) : needBT pats false = true := SE.needBT_ordered pats

/-- Soundness of the trie search (any mode, with or without backtracking): every final state the
    search reports is owned by a rule of the type root whose pattern matches the name component-wise,
    and its captures are the name components under the `*`s of that pattern. -/
theorem trie_dfs_sound (rs : TRules) (bt : Bool) (name : Pat) (f : Found)
    (h : f ∈ dfs rs bt [] [] name) :
    ∃ pat, (f.rule, pat) ∈ rs ∧ globMatches pat name = true ∧ result rs pat = some f.rule ∧
      f.caps = capturesOf pat name := by
  obtain ⟨ext, h1, h2, h3⟩ := dfs_sound rs bt name [] [] f h
  exact ⟨ext, result_some_mem h2, h1, h2, by simpa using h3⟩

/-- Completeness of the trie search with backtracking: every rule of the type root that matches the
    name and is the first with its pattern (so it owns its final node) is reported, with the captures of
    its pattern; the `[min,max]` length pruning never cuts it off. -/
theorem trie_dfs_complete (rs : TRules) (name : Pat) (hne : name ≠ []) (i : Nat) (pat : Pat)
    (hm : globMatches pat name = true) (hr : result rs pat = some i) :
    ∃ c, (⟨i, c⟩ : Found) ∈ dfs rs true [] [] name ∧ c = capturesOf pat name := by
  obtain ⟨c, h1, h2⟩ := dfs_complete rs name [] [] pat i hne hm hr
  exact ⟨c, h1, by simpa using h2⟩

/-- Ordered `pick` selects a reported state with the smallest rule index. -/
theorem pick_ordered_min {fs : List Found} {b : Found} (h : pick true fs = some b) :
    b ∈ fs ∧ ∀ f ∈ fs, b.rule ≤ f.rule := pick_ordered_some h

/-- Ordered `pick` finds something iff the search reported something. -/
theorem pick_ordered_none_iff {fs : List Found} : pick true fs = none ↔ fs = [] := pick_ordered_none

/-- Unordered `pick` is the first reported state. -/
theorem pick_unordered_head (fs : List Found) : pick false fs = fs.head? := pick_unordered fs

/-- **Ordered glob lookup = first matching glob rule** (rule index in `cfg.rules`), for every
    configuration, name and type. No hypothesis on the name is needed for the rule index. -/
theorem glob_ordered_eq_firstGlob (cfg : Config V) (hord : cfg.orderingDisabled = false)
    (name : Bytes) (ty : Nat) :
    (lookupGlob cfg name ty).map (·.ruleIdx) = firstGlob cfg name ty := by
  have h := globLookup_ordered cfg hord (splitOn 46 name) (splitOn_ne_nil _ _) ty
  rw [firstGlob_eq]
  unfold lookupGlob
  cases hk : (globKK cfg ty).find? (fun y => globMatches y.1.1.pat (splitOn 46 name)) with
  | none =>
    rw [hk] at h; simp only at h
    rw [h]; rfl
  | some y =>
    rw [hk] at h; simp only at h
    obtain ⟨b, hb, hbr, _⟩ := h
    have hy := mem_globKK (List.mem_of_find?_eq_some hk)
    rw [hb]; simp only [hbr, hy.1, Option.map_some]

/-- **Captures / full result of the ordered glob lookup**, for every name (a component that is
    literally `*` included): the mapping returned is the first matching glob rule `r` (index `i`), and
    its name and label values are `r`'s templates formatted with `capturesOf r.pat name`. -/
theorem glob_captures (cfg : Config V) (hord : cfg.orderingDisabled = false)
    (name : Bytes) (ty : Nat) (m : Mapped)
    (hm : lookupGlob cfg name ty = some m) :
    ∃ i r, firstGlob cfg name ty = some i ∧ cfg.rules[i]? = some r ∧
      ruleMatchesGlob r (splitOn 46 name) ty = true ∧
      m = { ruleIdx := i,
            name := (compileTemplate r.name r.captureCount).format (capturesOf r.pat (splitOn 46 name)),
            labels := r.labels.map fun (k, t) =>
              (k, (compileTemplate t r.captureCount).format (capturesOf r.pat (splitOn 46 name))) } := by
  have h := globLookup_ordered cfg hord (splitOn 46 name) (splitOn_ne_nil _ _) ty
  rw [firstGlob_eq]
  unfold lookupGlob at hm
  cases hk : (globKK cfg ty).find? (fun y => globMatches y.1.1.pat (splitOn 46 name)) with
  | none =>
    rw [hk] at h; simp only at h
    rw [h] at hm; cases hm
  | some y =>
    rw [hk] at h; simp only at h
    obtain ⟨b, hb, hbr, hcaps⟩ := h
    have hy := mem_globKK (List.mem_of_find?_eq_some hk)
    have hmatch := List.find?_some hk
    rw [hb] at hm; simp only [hbr, hy.1, hcaps, Option.some.injEq] at hm
    refine ⟨y.1.2, y.1.1, rfl, hy.2.1, ?_, hm.symm⟩
    simp [ruleMatchesGlob, hy.2.2.1, hy.2.2.2, hmatch]

/-- The captures themselves, on the FSM level: in ordered mode, for every name, the captures returned
    by `FSM.GetMapping` are `capturesOf pat name` for the winning rule. -/
theorem globLookup_captures (cfg : Config V) (hord : cfg.orderingDisabled = false)
    (name : Bytes) (ty : Nat) (f : Found)
    (hf : globLookup (toGRules cfg) cfg.orderingDisabled (splitOn 46 name) ty = some f) :
    ∃ i r, firstGlob cfg name ty = some i ∧ cfg.rules[i]? = some r ∧
      (globRules cfg)[f.rule]? = some (i, r) ∧ f.caps = capturesOf r.pat (splitOn 46 name) := by
  have h := globLookup_ordered cfg hord (splitOn 46 name) (splitOn_ne_nil _ _) ty
  rw [firstGlob_eq]
  cases hk : (globKK cfg ty).find? (fun y => globMatches y.1.1.pat (splitOn 46 name)) with
  | none =>
    rw [hk] at h; simp only at h
    rw [h] at hf; cases hf
  | some y =>
    rw [hk] at h; simp only at h
    obtain ⟨b, hb, hbr, hcaps⟩ := h
    have hy := mem_globKK (List.mem_of_find?_eq_some hk)
    rw [hb] at hf; cases hf
    exact ⟨y.1.2, y.1.1, rfl, hy.2.1, by rw [hbr]; exact hy.1, hcaps⟩

/-- `lookupRegex` is "the first regex rule, in configuration order, that matches and passes the type filter". -/
theorem regex_eq_firstRegex (cfg : Config V) (rx : Rx) (name : Bytes) (ty : Nat) :
    (lookupRegex cfg rx name ty).map (·.ruleIdx) = firstRegex cfg rx name ty :=
  SE.regex_eq_firstRegex cfg rx name ty

/-- **Ordered lookup = first match** (glob rules first, then regex rules), for every configuration
    whose `doFSM` flag is what the loader computes (`DoFSMConsistent cfg`:
    `cfg.doFSM = cfg.rules.any (·.matchType == .glob)`), every regex oracle, name and type. -/
theorem lookup_eq_firstMatch (cfg : Config V) (hord : cfg.orderingDisabled = false)
    (hwf : DoFSMConsistent cfg) (rx : Rx) (name : Bytes) (ty : Nat) :
    (lookup cfg rx name ty).map (·.ruleIdx) = firstMatch cfg rx name ty :=
  lookup_eq_of_glob cfg hwf rx name ty _ (glob_ordered_eq_firstGlob cfg hord name ty)
    (firstGlob_none_of_no_glob cfg name ty)

/-- Every configuration the loader produces satisfies the `doFSM` hypothesis of `lookup_eq_firstMatch`. -/
theorem load_doFSMConsistent [NumOps V] (rxOk : Bytes → Bool) (db : List V) (dq : List (V × V)) (raw : RawConfig V)
    (cfg : Config V) (h : load rxOk db dq raw = .ok cfg) : DoFSMConsistent cfg :=
  SE.load_doFSMConsistent rxOk db dq raw cfg h

/-! ### Corollaries on the specification

`cfg` and `cfg'` are two configurations whose rule lists are related as stated; all other fields are
irrelevant to `firstGlob` / `firstRegex` / `firstMatch`. Regex oracles are indexed by rule position,
so an insertion comes with the re-indexed oracle `rx'`. `shiftAt k i` is the new index of old rule
`i` after an insertion at position `k` (`i` if `i < k`, else `i + 1`). -/

/-- Inserting, anywhere, a rule that does not glob-match the name/type leaves the winning glob rule
    unchanged (its index shifts past the insertion point). -/
theorem firstGlob_insert_nonmatching (cfg cfg' : Config V) (pre post : List (Rule V)) (r : Rule V)
    (name : Bytes) (ty : Nat) (h : cfg.rules = pre ++ post) (h' : cfg'.rules = pre ++ r :: post)
    (hr : ruleMatchesGlob r (splitOn 46 name) ty = false) :
    firstGlob cfg' name ty = (firstGlob cfg name ty).map (shiftAt pre.length) := by
  rw [firstGlob_eq_find, firstGlob_eq_find, h, h']
  exact find?_zipIdx_insert pre post r _ _ hr (fun _ _ _ => rfl) (fun _ _ _ _ => rfl)

/-- The same for regex rules: the inserted rule is not a regex rule that matches (under the new oracle
    `rx'` at its position) and passes the type filter; `rx'` is `rx` re-indexed. -/
theorem firstRegex_insert_nonmatching (cfg cfg' : Config V) (pre post : List (Rule V)) (r : Rule V)
    (rx rx' : Rx) (name : Bytes) (ty : Nat) (h : cfg.rules = pre ++ post) (h' : cfg'.rules = pre ++ r :: post)
    (hr : (r.matchType == .regex && (rx' pre.length name).isSome && typeOk r.matchMetricType ty) = false)
    (hlt : ∀ i, i < pre.length → rx' i name = rx i name)
    (hge : ∀ i, pre.length ≤ i → i < pre.length + post.length → rx' (i + 1) name = rx i name) :
    firstRegex cfg' rx' name ty = (firstRegex cfg rx name ty).map (shiftAt pre.length) := by
  rw [firstRegex_eq_find, firstRegex_eq_find, h, h']
  apply find?_zipIdx_insert pre post r _ _ hr
  · intro x i hi; simp only [regexHit, hlt i hi]
  · intro x i h1 h2; simp only [regexHit, hge i h1 h2]

/-- **Inserting a non-matching rule anywhere does not change which rule wins** (`firstMatch`), up to
    the index shift caused by the insertion. -/
theorem firstMatch_insert_nonmatching (cfg cfg' : Config V) (pre post : List (Rule V)) (r : Rule V)
    (rx rx' : Rx) (name : Bytes) (ty : Nat) (h : cfg.rules = pre ++ post) (h' : cfg'.rules = pre ++ r :: post)
    (hrg : ruleMatchesGlob r (splitOn 46 name) ty = false)
    (hrr : (r.matchType == .regex && (rx' pre.length name).isSome && typeOk r.matchMetricType ty) = false)
    (hlt : ∀ i, i < pre.length → rx' i name = rx i name)
    (hge : ∀ i, pre.length ≤ i → i < pre.length + post.length → rx' (i + 1) name = rx i name) :
    firstMatch cfg' rx' name ty = (firstMatch cfg rx name ty).map (shiftAt pre.length) := by
  unfold firstMatch
  rw [firstGlob_insert_nonmatching cfg cfg' pre post r name ty h h' hrg,
    firstRegex_insert_nonmatching cfg cfg' pre post r rx rx' name ty h h' hrr hlt hge]
  cases firstGlob cfg name ty <;> rfl

/-- **Erasing a non-matching rule does not change which rule wins**: the previous theorem read from
    the larger configuration (`unshiftAt k i` = `i` if `i ≤ k`, else `i - 1`). -/
theorem firstMatch_erase_nonmatching (cfg cfg' : Config V) (pre post : List (Rule V)) (r : Rule V)
    (rx rx' : Rx) (name : Bytes) (ty : Nat) (h : cfg.rules = pre ++ post) (h' : cfg'.rules = pre ++ r :: post)
    (hrg : ruleMatchesGlob r (splitOn 46 name) ty = false)
    (hrr : (r.matchType == .regex && (rx' pre.length name).isSome && typeOk r.matchMetricType ty) = false)
    (hlt : ∀ i, i < pre.length → rx' i name = rx i name)
    (hge : ∀ i, pre.length ≤ i → i < pre.length + post.length → rx' (i + 1) name = rx i name) :
    firstMatch cfg rx name ty = (firstMatch cfg' rx' name ty).map (unshiftAt pre.length) := by
  rw [firstMatch_insert_nonmatching cfg cfg' pre post r rx rx' name ty h h' hrg hrr hlt hge,
    Option.map_map]
  cases firstMatch cfg rx name ty with
  | none => rfl
  | some i => simp [unshiftAt_shiftAt]

/-- A winner is a valid rule index. -/
theorem firstMatch_lt_length (cfg : Config V) (rx : Rx) (name : Bytes) (ty : Nat) (i : Nat)
    (h : firstMatch cfg rx name ty = some i) : i < cfg.rules.length := by
  unfold firstMatch at h
  cases hg : firstGlob cfg name ty with
  | some j =>
    rw [hg] at h; cases h
    obtain ⟨r, _, hr, _⟩ := firstGlob_some hg
    exact (List.getElem?_eq_some_iff.mp hr).1
  | none =>
    rw [hg] at h; simp only at h
    obtain ⟨r, _, hr, _⟩ := firstRegex_some h
    exact (List.getElem?_eq_some_iff.mp hr).1

/-- **Appending a non-matching rule changes nothing** (same oracle, same winning index). -/
theorem firstMatch_append_nonmatching (cfg cfg' : Config V) (r : Rule V) (rx : Rx) (name : Bytes) (ty : Nat)
    (h' : cfg'.rules = cfg.rules ++ [r])
    (hrg : ruleMatchesGlob r (splitOn 46 name) ty = false)
    (hrr : (r.matchType == .regex && (rx cfg.rules.length name).isSome && typeOk r.matchMetricType ty) = false) :
    firstMatch cfg' rx name ty = firstMatch cfg rx name ty := by
  rw [firstMatch_insert_nonmatching cfg cfg' cfg.rules [] r rx rx name ty (by simp) h' hrg hrr
    (fun _ _ => rfl) (fun i h1 h2 => by simp at h2; omega)]
  cases hm : firstMatch cfg rx name ty with
  | none => rfl
  | some i =>
    have := firstMatch_lt_length cfg rx name ty i hm
    simp only [Option.map_some, shiftAt, this, if_true]

/-- **Rules after a glob winner are irrelevant**: any configuration that agrees with `cfg` up to and
    including the winning glob rule has the same `firstGlob`. -/
theorem firstGlob_later_rules_irrelevant (cfg cfg' : Config V) (name : Bytes) (ty i : Nat)
    (h : firstGlob cfg name ty = some i) (htake : cfg'.rules.take (i + 1) = cfg.rules.take (i + 1)) :
    firstGlob cfg' name ty = some i := by
  obtain ⟨r, hf, _, _⟩ := firstGlob_some h
  rw [firstGlob_eq_find, find?_zipIdx_take cfg.rules cfg'.rules _ _ r i hf htake (fun _ _ _ => rfl)]
  rfl

/-- **Rules after the winner are irrelevant** (glob winner): changing, reordering, adding or removing
    rules after the winning glob rule — and changing the regex oracle arbitrarily — does not change
    the winner. -/
theorem firstMatch_later_rules_irrelevant (cfg cfg' : Config V) (rx rx' : Rx) (name : Bytes) (ty i : Nat)
    (h : firstGlob cfg name ty = some i) (htake : cfg'.rules.take (i + 1) = cfg.rules.take (i + 1)) :
    firstMatch cfg' rx' name ty = some i ∧ firstMatch cfg rx name ty = some i := by
  unfold firstMatch
  rw [firstGlob_later_rules_irrelevant cfg cfg' name ty i h htake, h]
  exact ⟨rfl, rfl⟩

/-- **Rules after the winner are irrelevant** (regex winner): if no glob rule matches and regex rule `i`
    wins, then any configuration that agrees up to and including rule `i`, whose later rules contain
    no matching glob rule, and whose oracle agrees on the rules up to `i`, has the same winner. -/
theorem firstMatch_later_rules_irrelevant_regex (cfg cfg' : Config V) (rx rx' : Rx) (name : Bytes) (ty i : Nat)
    (hg : firstGlob cfg name ty = none) (h : firstRegex cfg rx name ty = some i)
    (htake : cfg'.rules.take (i + 1) = cfg.rules.take (i + 1))
    (hlater : ∀ r ∈ cfg'.rules.drop (i + 1), ruleMatchesGlob r (splitOn 46 name) ty = false)
    (hrx : ∀ j, j ≤ i → rx' j name = rx j name) :
    firstMatch cfg' rx' name ty = some i := by
  have hg' : firstGlob cfg' name ty = none := by
    rw [firstGlob_none_iff] at hg ⊢
    intro r hr
    rw [← List.take_append_drop (i + 1) cfg'.rules, List.mem_append] at hr
    rcases hr with hr | hr
    · rw [htake] at hr
      exact hg r (List.mem_of_mem_take hr)
    · exact hlater r hr
  obtain ⟨r, hf, _, _⟩ := firstRegex_some h
  unfold firstMatch
  rw [hg', firstRegex_eq_find,
    find?_zipIdx_take cfg.rules cfg'.rules _ (regexHit rx' name ty) r i hf htake
      (fun y j hj => by simp only [regexHit, hrx j hj])]
  rfl

/- Non-vacuity / sanity on concrete rule sets (FSM level; indices are glob indices). -/
section examples
private def a : Bytes := [97]
private def b : Bytes := [98]
private def c : Bytes := [99]
-- rules [a.b.c, a.b], lookup a.b ↦ rule 1 (the shorter rule owns the inner node)
example : (globLookup [⟨[a, b, c], none⟩, ⟨[a, b], none⟩] false [a, b] 0).map (·.rule) = some 1 := by decide
-- rules [a.b, *.b, a.b], lookup a.b ↦ rule 0 (the first of two identical patterns wins)
example : (globLookup [⟨[a, b], none⟩, ⟨[starB, b], none⟩, ⟨[a, b], none⟩] false [a, b] 0).map (·.rule) = some 0 := by decide
-- rules [*.b, a.*], lookup a.b ↦ rule 0 although the literal branch is explored first; captures of rule 0
example : globLookup [⟨[starB, b], none⟩, ⟨[a, starB], none⟩] false [a, b] 0 = some ⟨0, [a]⟩ := by decide
-- the type filter: rule 0 is gauge-only, a counter lookup falls to rule 1
example : (globLookup [⟨[a, b], some 1⟩, ⟨[a, starB], none⟩] false [a, b] 0).map (·.rule) = some 1 := by decide
end examples

/-! ### The repaired `*`-component defect (finding `literal_star_component`, repair 0275669)

Before the repair a name component that was literally `*` reached the `*` child through the *literal*
transition, so nothing was captured for it and the later captures were shifted: rule `a.*.*`, name `a.*.y`
gave the captures `(y, "")` where `(*, y)` was expected; rule `*.b`, name `*.b` gave no capture at all.
The capture theorems above therefore carried the hypothesis "no name component is literally `*`". -/
section repair
private def y : Bytes := [121]

/-- **The repair, on the former counterexample**: rules `[a.*.*]`, name `a.*.y` — the captures are
    `[*, y]` = `capturesOf`, in ordered mode (and in unordered mode, with or without another rule that makes the
    trie ambiguous). -/
theorem star_component_captured :
    globLookup [⟨[a, starB, starB], none⟩] false [a, starB, y] 0 = some ⟨0, [starB, y]⟩ ∧
    globLookup [⟨[a, starB, starB], none⟩] true [a, starB, y] 0 = some ⟨0, [starB, y]⟩ ∧
    globLookup [⟨[a, starB, starB], none⟩, ⟨[a, b, y], none⟩] true [a, starB, y] 0 = some ⟨0, [starB, y]⟩ ∧
    capturesOf [a, starB, starB] [a, starB, y] = [starB, y] := by decide

/-- the one-`*` instance that used to show that the hypothesis was needed: rule `*.b`, name `*.b` now captures `*` -/
theorem star_component_captured₁ :
    globLookup [⟨[starB, b], none⟩] false [starB, b] 0 = some ⟨0, [starB]⟩ ∧
    capturesOf [starB, b] [starB, b] = [starB] := by decide

/-- a `*` component of the name is matched by a `*` of the pattern only: the pattern's literal components are not `*`
    (a pattern component equal to `*` *is* the wildcard), so the literal rule `a.b` does not match `a.*`,
    and the literal transition is never taken for it — `a.*` falls to the wildcard rule although `a.b` comes first -/
theorem star_component_no_literal :
    globMatches [a, b] [a, starB] = false ∧
    globLookup [⟨[a, b], none⟩, ⟨[a, starB], none⟩] false [a, starB] 0 = some ⟨1, [starB]⟩ := by decide

/-- the general theorem instantiated on the search itself: every final state the backtracking search reports for
    `a.*.y` carries `capturesOf` of its pattern (`trie_dfs_sound` without a hypothesis on the name) -/
example : dfs (rulesFor [⟨[a, starB, starB], none⟩, ⟨[a, starB, y], none⟩, ⟨[starB, starB, y], none⟩] 0) true [] []
      [a, starB, y] = [⟨1, [starB]⟩, ⟨0, [starB, y]⟩, ⟨2, [a, starB]⟩] := by decide
end repair

end SE.Props.C04
