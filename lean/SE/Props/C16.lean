import SE.Proofs.Queue
import SE.Proofs.QueueDriver
/-
C16 — The event queue delivers every event exactly once, in order, in bounded batches.
Every event handed to the event queue is delivered to the consumer exactly once; events from one
producer arrive in the order that producer queued them; no delivered batch is larger than the flush
threshold; anything queued is delivered no later than the next flush tick. This holds with any
number of concurrent producers and a concurrently firing flush timer, without deadlock as long as
the consumer keeps reading.

Model (SE/Model/Queue.lean): `qStep s label` is one atomic action of one goroutine of
pkg/event/event.go (`Queue`: acquire / append / send / release; the ticker goroutine's `Flush`:
tAcquire / tSend / tRelease; the consumer: recv); `qRun s sched` runs a *schedule*, a list of
labels chosen by Go's runtime. Every theorem below quantifies over every threshold `thr`, channel
capacity `cap`, number of producers and their programs (`programs[p]` = the list of `Queue(batch)`
calls producer `p` makes), number of ticks, and EVERY schedule `sched` for which the run is
defined (`qRun … sched = some s`: every step of it was enabled) — i.e. over every reachable state.

Vocabulary (SE/Proofs/Queue.lean): `pipeline s = delivered ++ channel ++ q` flattened — all events
appended so far in global append order; `pc.rest` = the events of the current call not yet
appended; `pc.isIdle` = the goroutine is outside its critical section; `Owned owner programs` =
events are tagged: every event of `programs[p]` has `owner e = p` (this is how an observer can
tell the producers' events apart; the queue itself never looks at the tag).
-/
namespace SE.Props.C16
open SE
variable {E : Type}

/-- Mutual exclusion: in every reachable state at most one goroutine (a producer inside `Queue` or
    the ticker inside `Flush`) is in its critical section, and the mutex is held exactly when one
    is. -/
theorem mutual_exclusion (thr cap ticks : Nat) (programs : List (List (List E))) (sched : List QLabel)
    (s : QSt E) (h : qRun (qInit thr cap programs ticks) sched = some s) :
    (∀ (i j : Nat) (pi pj : QProd E), s.prods[i]? = some pi → s.prods[j]? = some pj →
        pi.pc.isIdle = false → pj.pc.isIdle = false → i = j) ∧
    (s.tickPc.isIdle = false → ∀ (i : Nat) (pi : QProd E), s.prods[i]? = some pi → pi.pc.isIdle = true) ∧
    (s.locked = true ↔
      (s.tickPc.isIdle = false ∨ ∃ (i : Nat) (pi : QProd E), s.prods[i]? = some pi ∧ pi.pc.isIdle = false)) :=
  have hm := QMutex.reachable thr cap ticks programs sched s h
  ⟨hm.excl, hm.exclT, hm.lockedIff⟩

/-- Exactly once, in order (conservation). In every reachable state, for every producer `p`:
    its program, flattened, is exactly (its events in `delivered ++ channel ++ q`, in that order)
    followed by the not-yet-appended rest of its current call and its future calls. So nothing is
    lost, duplicated or reordered within a producer, and nothing foreign is in the pipeline.
    In particular the delivered batches alone satisfy the prefix specification `deliveryPrefixOk`. -/
theorem exactly_once_in_order [DecidableEq E] (owner : E → Nat) (thr cap ticks : Nat)
    (programs : List (List (List E))) (ho : Owned owner programs) (sched : List QLabel) (s : QSt E)
    (h : qRun (qInit thr cap programs ticks) sched = some s) :
    (∀ (p : Nat) (prog : List (List E)) (pr : QProd E), programs[p]? = some prog → s.prods[p]? = some pr →
        progEvents prog =
          (pipeline s).filter (fun e => owner e == p) ++ (pr.pc.rest ++ pr.todo.flatten)) ∧
    (∀ e, e ∈ pipeline s → owner e < programs.length) ∧
    s.prods.length = programs.length ∧
    deliveryPrefixOk owner programs s.delivered = true := by
  have hinv := (QInv.reachable ho thr cap ticks sched s h).cons
  refine ⟨hinv.cons, hinv.own, hinv.len, ?_⟩
  simp only [deliveryPrefixOk, Bool.and_eq_true, List.all_eq_true, decide_eq_true_eq]
  constructor
  · rintro ⟨prog, p⟩ hmem
    rw [List.mem_zipIdx_iff_getElem?] at hmem
    simp only at hmem ⊢
    rw [List.isPrefixOf_iff_prefix]
    have hp : p < s.prods.length := by
      rw [hinv.len]
      rcases Nat.lt_or_ge p programs.length with hlt | hge
      · exact hlt
      · rw [List.getElem?_eq_none hge] at hmem; cases hmem
    rw [progEvents, hinv.cons p prog s.prods[p] hmem (List.getElem?_eq_getElem hp)]
    unfold deliveredOf pipeline
    simp only [List.filter_append, List.append_assoc]
    exact List.prefix_append _ _
  · intro e he
    exact hinv.own e (by simp only [pipeline, List.mem_append]; exact Or.inl (Or.inl he))

/-- Completeness at quiescence: once every producer has finished its program and the pending slice
    and the channel are empty (e.g. after a final tick and enough `recv`s), the consumer has
    received, per producer, exactly that producer's events, each once, in program order. -/
theorem delivered_complete_at_quiescence [DecidableEq E] (owner : E → Nat) (thr cap ticks : Nat)
    (programs : List (List (List E))) (ho : Owned owner programs) (sched : List QLabel) (s : QSt E)
    (h : qRun (qInit thr cap programs ticks) sched = some s)
    (hdone : ∀ pr, pr ∈ s.prods → pr.todo = [] ∧ pr.pc.isIdle = true)
    (hq : s.q = []) (hc : s.chan = []) :
    deliveryCompleteOk owner programs s.delivered = true := by
  have hinv := (QInv.reachable ho thr cap ticks sched s h).cons
  simp only [deliveryCompleteOk, List.all_eq_true]
  rintro ⟨prog, p⟩ hmem
  rw [List.mem_zipIdx_iff_getElem?] at hmem
  simp only at hmem ⊢
  have hp : p < s.prods.length := by
    rw [hinv.len]
    rcases Nat.lt_or_ge p programs.length with hlt | hge
    · exact hlt
    · rw [List.getElem?_eq_none hge] at hmem; cases hmem
  have hpr : s.prods[p]? = some s.prods[p] := List.getElem?_eq_getElem hp
  obtain ⟨htodo, hidle⟩ := hdone s.prods[p] (List.mem_iff_getElem?.2 ⟨p, hpr⟩)
  have hrest : s.prods[p].pc.rest = [] := by
    cases hpc : s.prods[p].pc with
    | idle => rfl
    | holding r => rw [hpc] at hidle; cases hidle
    | sending r => rw [hpc] at hidle; cases hidle
  have := hinv.cons p prog s.prods[p] hmem hpr
  rw [htodo, hrest] at this
  simp only [pipeline, hq, hc, List.flatten_nil, List.append_nil] at this
  rw [beq_iff_eq, progEvents, this]
  rfl

/-- Bounded batches: in every reachable state every delivered batch, every batch in the channel
    and the pending slice `q` has at most `max thr 1` events (a threshold of 0 behaves like 1), and
    the channel never holds more than `cap` batches. -/
theorem batch_le_threshold [DecidableEq E] (thr cap ticks : Nat) (programs : List (List (List E)))
    (sched : List QLabel) (s : QSt E) (h : qRun (qInit thr cap programs ticks) sched = some s) :
    batchesBounded thr s.delivered = true ∧ batchesBounded thr s.chan = true ∧
      s.q.length ≤ max thr 1 ∧ s.chan.length ≤ cap := by
  obtain ⟨_, hb⟩ := QBound.reachable thr cap ticks programs sched s h
  obtain ⟨ht, hcp⟩ := qRun_params sched _ s h
  have ht' : s.thr = thr := ht
  have hcp' : s.cap = cap := hcp
  simp only [batchesBounded, List.all_eq_true, decide_eq_true_eq]
  rw [← ht', ← hcp']
  exact ⟨hb.delB, hb.chanB, hb.qB, hb.chanCap⟩

/-- A threshold flush is exact: whenever a producer's send step fires, the batch it puts on the
    channel is the whole pending slice and has exactly `max thr 1` events; `q` is empty afterwards.
    (Only ticker flushes produce shorter batches.) -/
theorem threshold_flush_exact (thr cap ticks : Nat) (programs : List (List (List E)))
    (sched : List QLabel) (s s' : QSt E) (p : Nat)
    (h : qRun (qInit thr cap programs ticks) sched = some s) (hs : qStep s (.send p) = some s') :
    s.q.length = max thr 1 ∧ s'.chan = s.chan ++ [s.q] ∧ s'.q = [] ∧ s'.delivered = s.delivered := by
  obtain ⟨_, hb⟩ := QBound.reachable thr cap ticks programs sched s h
  obtain ⟨ht, _⟩ := qRun_params sched _ s h
  have ht' : s.thr = thr := ht
  obtain ⟨todo, rest, hi, _, rfl⟩ := qStep_send_inv hs
  have hdue := hb.due p _ hi rfl
  have hqb := hb.qB
  rw [ht'] at hdue hqb
  exact ⟨by omega, rfl, rfl, rfl⟩

/-- A flush tick empties `q`: the ticker's send step moves the whole pending slice, as one batch,
    to the channel (in any state; an empty `q` is sent as an empty batch, as in the Go code). -/
theorem tick_empties_q (s s' : QSt E) (h : qStep s .tSend = some s') :
    s'.q = [] ∧ s'.chan = s.chan ++ [s.q] ∧ s'.delivered = s.delivered := by
  obtain ⟨_, _, rfl⟩ := qStep_tSend_inv h
  exact ⟨rfl, rfl, rfl⟩

/-- Anything queued is delivered no later than the next flush tick. Let `s0` be any reachable
    state, let the ticker acquire the mutex there, let any steps `mid` other than the ticker's send
    happen, then the ticker's send, reaching `s3`. Then: the only steps that could happen in
    between are consumer receives (the ticker holds the mutex, so no producer can append), `q` is
    empty in `s3`, and every event that had been appended before the tick began (`pipeline s0`) is,
    in the same order, in `delivered ++ channel` of `s3`. -/
theorem tick_flushes_everything (thr cap ticks : Nat) (programs : List (List (List E)))
    (pre mid : List QLabel) (s0 s3 : QSt E)
    (h0 : qRun (qInit thr cap programs ticks) pre = some s0) (hmid : QLabel.tSend ∉ mid)
    (h : qRun s0 (.tAcquire :: (mid ++ [.tSend])) = some s3) :
    s3.q = [] ∧ s3.delivered.flatten ++ s3.chan.flatten = pipeline s0 ∧ ∀ l, l ∈ mid → l = .recv := by
  have hm0 := QMutex.reachable thr cap ticks programs pre s0 h0
  simp only [qRun] at h
  cases h1 : qStep s0 .tAcquire with
  | none => rw [h1] at h; cases h
  | some s1 =>
    rw [h1, Option.bind_some, qRun_append] at h
    cases h2 : qRun s1 mid with
    | none => rw [h2] at h; cases h
    | some s2 =>
      rw [h2, Option.bind_some] at h
      simp only [qRun] at h
      cases h3 : qStep s2 .tSend with
      | none => rw [h3] at h; cases h
      | some s3' =>
        rw [h3] at h
        simp only [Option.bind_some] at h
        cases h
        obtain ⟨_, _, _, rfl⟩ := qStep_tAcquire_inv h1
        obtain ⟨_, _, g3, _, g5⟩ := tick_window mid _ s2 [] (hm0.step _ h1) rfl hmid h2
        obtain ⟨_, _, rfl⟩ := qStep_tSend_inv h3
        refine ⟨rfl, ?_, g5⟩
        have : pipeline s2 = pipeline s0 := g3
        rw [← this]
        simp [pipeline, List.flatten_append]

/-- No deadlock (channel capacity ≥ 1): in every reachable state that is not final (`qFinal`: all
    producers done and idle, no ticks left, ticker idle, channel drained) some step is enabled.
    NOTE: this model has no rendezvous step, so with `cap = 0` a send is never enabled (see
    `cap_zero_never_sends`); the Go unbuffered channel would hand over directly to a waiting
    receiver. The statement is therefore for `cap ≥ 1`. -/
theorem no_deadlock (thr cap ticks : Nat) (programs : List (List (List E))) (sched : List QLabel)
    (s : QSt E) (h : qRun (qInit thr cap programs ticks) sched = some s) (hcap : 1 ≤ cap)
    (hnf : ¬ qFinal s) : ∃ l, (qStep s l).isSome = true := by
  have hm := QMutex.reachable thr cap ticks programs sched s h
  obtain ⟨_, hcp⟩ := qRun_params sched _ s h
  have hcp' : s.cap = cap := hcp
  exact exists_enabled hm (by omega) hnf

/-- The only way the mutex holder can be stuck is a full channel, and then the consumer can move
    and its receive unblocks the sender: in a reachable state (`cap ≥ 1`) where producer `p` is at
    its send and the send is not enabled, `recv` is enabled, and after it the send is enabled.
    The same for the ticker's send. -/
theorem blocked_send_unblocked_by_recv (thr cap ticks : Nat) (programs : List (List (List E)))
    (sched : List QLabel) (s : QSt E) (h : qRun (qInit thr cap programs ticks) sched = some s)
    (hcap : 1 ≤ cap) :
    (∀ (p : Nat) (todo : List (List E)) (rest : List E), s.prods[p]? = some ⟨todo, .sending rest⟩ →
        qStep s (.send p) = none →
        ∃ s', qStep s .recv = some s' ∧ (qStep s' (.send p)).isSome = true) ∧
    (∀ (r : List E), s.tickPc = .sending r → qStep s .tSend = none →
        ∃ s', qStep s .recv = some s' ∧ (qStep s' .tSend).isSome = true) := by
  obtain ⟨_, hb⟩ := QBound.reachable thr cap ticks programs sched s h
  obtain ⟨_, hcp⟩ := qRun_params sched _ s h
  have hcp' : s.cap = cap := hcp
  have hcc := hb.chanCap
  constructor
  · intro p todo rest hp hblocked
    simp only [qStep, hp, canSend] at hblocked
    cases hch : s.chan with
    | nil => simp [hch] at hblocked; omega
    | cons b bs =>
      refine ⟨{ s with chan := bs, delivered := s.delivered ++ [b] }, by simp only [qStep, hch], ?_⟩
      rw [hch] at hcc
      simp only [List.length_cons] at hcc
      simp only [qStep, hp, canSend]
      simp; omega
  · intro r hp hblocked
    simp only [qStep, hp, canSend] at hblocked
    cases hch : s.chan with
    | nil => simp [hch] at hblocked; omega
    | cons b bs =>
      refine ⟨{ s with chan := bs, delivered := s.delivered ++ [b] }, by simp only [qStep, hch], ?_⟩
      rw [hch] at hcc
      simp only [List.length_cons] at hcc
      simp only [qStep, hp, canSend]
      simp; omega

/-- The system cannot run forever: every step consumes at least one unit of the budget `qMeasure`
    (3 per event still to append, 2 per call, 4 per tick, 1 per batch in the channel), so every
    schedule from the initial state has length at most `qMeasure` of the initial state. -/
theorem runs_are_bounded (thr cap ticks : Nat) (programs : List (List (List E))) (sched : List QLabel)
    (s : QSt E) (h : qRun (qInit thr cap programs ticks) sched = some s) :
    sched.length + qMeasure s ≤ qMeasure (qInit thr cap programs ticks) :=
  qRun_measure sched _ s h

/-- … and it can only stop in a final state (`cap ≥ 1`): if no step at all is enabled in a reachable
    state, then every producer has finished, the ticker is done and the channel is drained.
    Together with `runs_are_bounded`: whatever the scheduler does, as long as it keeps picking enabled
    steps (in particular, the consumer keeps reading), the run ends, and it ends in a final state. -/
theorem stuck_only_when_final (thr cap ticks : Nat) (programs : List (List (List E)))
    (sched : List QLabel) (s : QSt E) (h : qRun (qInit thr cap programs ticks) sched = some s)
    (hcap : 1 ≤ cap) (hstuck : ∀ l, qStep s l = none) : qFinal s := by
  apply Classical.byContradiction
  intro hnf
  obtain ⟨l, hl⟩ := no_deadlock thr cap ticks programs sched s h hcap hnf
  rw [hstuck l] at hl
  cases hl

/-- From every reachable state (`cap ≥ 1`) some continuation reaches a final state. -/
theorem can_always_complete (thr cap ticks : Nat) (programs : List (List (List E)))
    (sched : List QLabel) (s : QSt E) (h : qRun (qInit thr cap programs ticks) sched = some s)
    (hcap : 1 ≤ cap) : ∃ sched' s', qRun s sched' = some s' ∧ qFinal s' := by
  have hm := QMutex.reachable thr cap ticks programs sched s h
  obtain ⟨_, hcp⟩ := qRun_params sched _ s h
  have hcp' : s.cap = cap := hcp
  exact exists_completion (qMeasure s) s (Nat.le_refl _) hm (by omega)

/-- Remark on `cap = 0`: in this model a send on a capacity-0 channel is never enabled (there is no
    rendezvous step), so the first flush blocks forever. Go's unbuffered channel hands the batch to
    a receiver that is already waiting; that behaviour is outside this model. -/
theorem cap_zero_never_sends (s : QSt E) (h : s.cap = 0) (p : Nat) :
    qStep s (.send p) = none ∧ qStep s .tSend = none := by
  constructor
  · simp only [qStep, canSend, h]
    split <;> simp
  · simp only [qStep, canSend, h]
    split <;> simp

/-- Bridge to the call-level semantics used by the executable driver: from a state where producer
    `p` is idle with `Queue(batch)` as its next call and the mutex is free, the canonical schedule
    of that call (`acquire p`, then per event `append p` followed by `send p` whenever the threshold
    is reached, then `release p`; `callSched`) runs to completion — provided the channel has room
    for the batches the call flushes — and leaves `q` and the channel exactly as the sequential
    function `queueCall thr q batch []` says; nothing else changes except that the call is consumed. -/
theorem queue_call_canonical (s : QSt E) (p : Nat) (batch : List E) (todo : List (List E))
    (hp : s.prods[p]? = some ⟨batch :: todo, .idle⟩) (hfree : s.locked = false)
    (hroom : s.chan.length + (queueCall s.thr s.q batch []).2.length ≤ s.cap) :
    qRun s (.acquire p :: callSched p s.thr s.q.length batch) =
      some { s with q := (queueCall s.thr s.q batch []).1,
                    chan := s.chan ++ (queueCall s.thr s.q batch []).2,
                    prods := s.prods.set p ⟨todo, .idle⟩ } := by
  have h1 : qStep s (.acquire p) =
      some { s with prods := s.prods.set p ⟨todo, .holding batch⟩, locked := true } := by
    simp [qStep, hp, hfree, setProd]
  have h2 := call_body_bridge p batch
    { s with prods := s.prods.set p ⟨todo, .holding batch⟩, locked := true } todo
    (getElem?_set_self_of_some hp) hroom
  simp only [qRun, h1, Option.bind_some, h2]
  simp [List.set_set, hfree]

/-- The same for a flush tick: with the mutex free, the ticker idle, a tick pending and room for
    one batch, `tAcquire, tSend, tRelease` moves `q` (even if empty) to the channel as one batch. -/
theorem tick_canonical (s : QSt E) (hidle : s.tickPc = .idle) (hfree : s.locked = false)
    (hticks : 0 < s.ticks) (hroom : s.chan.length < s.cap) :
    qRun s [.tAcquire, .tSend, .tRelease] =
      some { s with q := [], chan := s.chan ++ [s.q], ticks := s.ticks - 1 } := by
  have hne : (s.ticks == 0) = false := by simp; omega
  simp [qRun, qStep, hidle, hfree, hne, canSend, hroom]

/-- What the executable driver computes for its `q <n>` operation (SE/Driver/Queue.lean): its
    fuel-bounded loop `runCall`, started after `acquire 0` with the driver's fuel `2·n + 4`, executes
    exactly the canonical schedule above, so the driver's state after the operation is the
    `queueCall` result. (The driver's `tick` operation is literally `tick_canonical`'s schedule and
    its `recv` a single `recv` step.) Hence the exhaustive call-level comparison against the real Go
    `EventQueue` exercised the same micro-step machine the theorems above are about. -/
theorem driver_queue_op (s : QSt Nat) (batch : List Nat) (todo : List (List Nat))
    (hp : s.prods[0]? = some ⟨batch :: todo, .idle⟩) (hfree : s.locked = false)
    (hroom : s.chan.length + (queueCall s.thr s.q batch []).2.length ≤ s.cap) :
    (qStep s (.acquire 0)).bind (SE.Driver.runCall · (2 * batch.length + 4)) =
      some { s with q := (queueCall s.thr s.q batch []).1,
                    chan := s.chan ++ (queueCall s.thr s.q batch []).2,
                    prods := s.prods.set 0 ⟨todo, .idle⟩ } :=
  SE.Driver.driver_queue_op s batch todo hp hfree hroom

/-! ### Non-vacuity: a concrete two-producer system, `E = Nat`, events tagged by `e / 10`.
Threshold 2, channel capacity 1, producer 0 calls `Queue([0,1]); Queue([2])`, producer 1 calls
`Queue([10,11,12])`, one tick. -/

def exProgs : List (List (List Nat)) := [[[0, 1], [2]], [[10, 11, 12]]]
def exOwner : Nat → Nat := (· / 10)

example : Owned exOwner exProgs := Owned_of_ownedB (by decide)

/-- producer 0 fills a batch and sends it; producer 1 fills the next batch and is blocked on the
    full channel -/
def exBlocked : List QLabel :=
  [.acquire 0, .append 0, .append 0, .send 0, .release 0, .acquire 1, .append 1, .append 1]

-- the blocked state: channel full with producer 0's batch, producer 1 at its send holding `q = [10, 11]`
example : (qRun (qInit 2 1 exProgs 1) exBlocked).map (fun s => (s.chan, s.q, s.locked, s.delivered)) =
    some ([[0, 1]], [10, 11], true, []) := by decide
-- the send is not enabled, nor is any step of producer 0 or the ticker: only `recv` can move
example : (qRun (qInit 2 1 exProgs 1) (exBlocked ++ [.send 1])).isSome = false := by decide
example : (qRun (qInit 2 1 exProgs 1) (exBlocked ++ [.acquire 0])).isSome = false := by decide
example : (qRun (qInit 2 1 exProgs 1) (exBlocked ++ [.tAcquire])).isSome = false := by decide
-- `recv` unblocks the sender
example : (qRun (qInit 2 1 exProgs 1) (exBlocked ++ [.recv, .send 1])).map
    (fun s => (s.delivered, s.chan, s.q)) = some ([[0, 1]], [[10, 11]], []) := by decide

/-- a complete interleaved run: the tick flushes the odd event 12 together with producer 0's 2 -/
def exFull : List QLabel :=
  exBlocked ++ [.recv, .send 1, .append 1, .release 1, .acquire 0, .recv, .append 0, .send 0,
    .release 0, .recv, .tAcquire, .tSend, .tRelease, .recv]

example : (qRun (qInit 2 1 exProgs 1) exFull).map (fun s => (s.delivered, s.chan, s.q, s.locked)) =
    some ([[0, 1], [10, 11], [12, 2], []], [], [], false) := by decide
example : deliveryCompleteOk exOwner exProgs [[0, 1], [10, 11], [12, 2], []] = true := by decide
example : deliveryPrefixOk exOwner exProgs [[0, 1], [10, 11]] = true := by decide
example : batchesBounded 2 [[0, 1], [10, 11], [12, 2], ([] : List Nat)] = true := by decide
-- the specification predicates do reject wrong deliveries: a reordering, a duplicate, a loss, an oversized batch
example : deliveryPrefixOk exOwner exProgs [[1, 0]] = false := by decide
example : deliveryPrefixOk exOwner exProgs [[0, 1], [0]] = false := by decide
example : deliveryCompleteOk exOwner exProgs [[0, 1], [10, 11], [12]] = false := by decide
example : batchesBounded 2 [[0, 1, 2]] = false := by decide

-- `cap = 0`: after the first threshold is reached nothing but (disabled) sends remain for the holder
example : (qRun (qInit 1 0 [[[7]]] 0) [.acquire 0, .append 0]).map (fun s => (s.q, s.locked)) =
    some ([7], true) := by decide
example : (qRun (qInit 1 0 [[[7]]] 0) [.acquire 0, .append 0, .send 0]).isSome = false := by decide
example : (qRun (qInit 1 0 [[[7]]] 0) [.acquire 0, .append 0, .recv]).isSome = false := by decide

-- the canonical schedule of a call agrees with `queueCall` (threshold 2, `q` already holds one event)
example : callSched 0 2 1 [5, 6, 7] = [.append 0, .send 0, .append 0, .append 0, .send 0, .release 0] := by decide
example : queueCall 2 [4] [5, 6, 7] [] = ([], [[4, 5], [6, 7]]) := by decide

end SE.Props.C16
