import SE.Proofs.SafetyLoad
import SE.Proofs.SafetyPipe
import SE.Spec.FloatLaws
/-
C19 — A configuration that loads is safe to run; one that is invalid is rejected.

(a) *Invalid configurations are rejected*: one theorem per class of invalid mapping configuration,
    each for a rule at **any** position of `raw.rules` (`raw.rules = pre ++ r :: post`) and of the form
    `∃ e, load rxOk db dq raw = .error e`. `load` is the model of `InitFromYAMLString` including the
    `UnmarshalYAML` hooks (SE/Model/Mapper.lean); `rxOk` is the oracle "`regexp.Compile` succeeds".
(b) *A safe configuration never panics*: `ConfigSafe cfg` (SE/Proofs/SafetyPipe.lean) says that the
    options the exporter would hand to the histogram / summary constructors — for every non-drop rule and
    for the defaults — are accepted by client_golang: strictly increasing buckets, `MaxAge ≥ 0`, a non-zero
    stream duration, objectives that never index out of range. Under `ConfigSafe`, on a registry whose
    vectors were created under safe configurations (`VecsSafe`), `handleEvent` never yields a `Panic`
    outcome, `VecsSafe` is preserved, and `Gather` does not panic — for single events, lines, and whole
    histories with reloads among safe configurations.
(c) *The loader does not establish `ConfigSafe`*: the statement "every accepted configuration is safe"
    is kept as `accepted_config_safe_statement` and **refuted** by four concrete accepted configurations
    (unsorted buckets, negative `max_age`, a `max_age` too small for the age buckets, an objective
    outside [0, 1]) that kill the exporter goroutine on the first matching event or scrape. These are
    findings about the real code which the theorems record.
-/
namespace SE.Props.C19
open SE

/-! ## (a) invalid configurations are rejected -/

section reject
variable {V : Type}

/-- `List.mapM` in `Except` (how `load` runs `loadRule` over the rules) fails if some element fails. -/
theorem mapM_fails_if_one_fails {ε α β} (f : α → Except ε β) (pre post : List α) (a : α)
    (h : ∃ e, f a = .error e) : ∃ e, (pre ++ a :: post).mapM f = .error e :=
  mapM_error_of_mem f pre post a h

/-- what every rule of an accepted configuration satisfies: the facts of `loadRule_ok_inv`, for the
    defaults that `load` decoded -/
theorem accepted_rule_facts {rxOk : Bytes → Bool} {db : List V} {dq : List (V × V)} {raw : RawConfig V} {cfg : Config V}
    (h : load rxOk db dq raw = .ok cfg) (r : RawRule V) (hr : r ∈ raw.rules) :
    ∃ dobs0 dtim0 dmt0 obs0 tim0 mt0 act0 mmt,
      optDec decObserverType raw.defaults.observerType = .ok dobs0 ∧
      optDec decObserverType raw.defaults.timerType = .ok dtim0 ∧
      optDec decMatchType raw.defaults.matchType = .ok dmt0 ∧
      optDec decObserverType r.observerType = .ok obs0 ∧
      optDec decObserverType r.timerType = .ok tim0 ∧
      optDec decMatchType r.matchType = .ok mt0 ∧
      optDec decAction r.action = .ok act0 ∧
      optDec decMetricType r.matchMetricType = .ok mmt ∧
      r.labels.all (fun kv => labelNameOk kv.1) = true ∧
      r.name.isEmpty = false ∧ metricNameOk r.name = true ∧
      (mt0.getD (dmt0.getD .glob) = .glob → matchLineOk (splitOn 46 r.matchStr) = true) ∧
      (mt0.getD (dmt0.getD .glob) ≠ .glob → rxOk r.matchStr = true) ∧
      (r.summaryOpts.isSome && r.legacyQuantiles.isSome && sumQuantSet r) = false ∧
      (r.histOpts.isSome && r.legacyBuckets.isSome && histBucketsSet r) = false ∧
      (effObs obs0 tim0 (defaultObs dobs0 dtim0) = .histogram → r.summaryOpts.isSome = false) ∧
      (effObs obs0 tim0 (defaultObs dobs0 dtim0) = .summary → r.histOpts.isSome = false) := by
  obtain ⟨dm, dobs, dt, dbk, dqu, dma, dab, dbc, rule, hrule, dobs0, dtim0, dmt0, d1, d2, d3, e1, e2⟩ := load_ok_rules h r hr
  obtain ⟨obs0, tim0, mt0, act0, mmt, f1, f2, f3, f4, f5, f6, f7, f8, f9, f10, f11, f12, f13, f14⟩ := loadRule_ok_inv hrule
  subst e1 e2
  exact ⟨dobs0, dtim0, dmt0, obs0, tim0, mt0, act0, mmt, d1, d2, d3, f1, f2, f3, f4, f5, f6, f7, f8, f9, f10, f11, f12, f13, f14⟩

/-- the common shape: an accepted configuration would contradict the defect -/
private theorem reject_of (rxOk : Bytes → Bool) (db : List V) (dq : List (V × V)) (raw : RawConfig V)
    (hbad : ∀ cfg, load rxOk db dq raw = .ok cfg → False) : ∃ e, load rxOk db dq raw = .error e :=
  except_error_of_not_ok fun cfg h => hbad cfg h

variable (rxOk : Bytes → Bool) (db : List V) (dq : List (V × V)) (raw : RawConfig V)
  (pre post : List (RawRule V)) (r : RawRule V) (hr : raw.rules = pre ++ r :: post)
include hr

private theorem mem_rules : r ∈ raw.rules := by rw [hr]; simp

/-- **label key**: a rule with a label whose name does not match `^[a-zA-Z_][a-zA-Z0-9_]+$` is rejected. -/
theorem rejects_bad_label_key (k v : Bytes) (hk : (k, v) ∈ r.labels) (hbad : labelNameOk k = false) :
    ∃ e, load rxOk db dq raw = .error e := by
  refine reject_of rxOk db dq raw fun cfg h => ?_
  obtain ⟨_, _, _, _, _, _, _, _, _, _, _, _, _, _, _, _, f, _⟩ := accepted_rule_facts h r (mem_rules raw pre post r hr)
  have := List.all_eq_true.mp f (k, v) hk
  simp only at this
  rw [hbad] at this; cases this

/-- **empty name**: a rule without a metric name is rejected. -/
theorem rejects_empty_name (hbad : r.name = []) : ∃ e, load rxOk db dq raw = .error e := by
  refine reject_of rxOk db dq raw fun cfg h => ?_
  obtain ⟨_, _, _, _, _, _, _, _, _, _, _, _, _, _, _, _, _, f, _⟩ := accepted_rule_facts h r (mem_rules raw pre post r hr)
  rw [hbad] at f; cases f

/-- **illegal name**: a rule whose metric name fails `metricNameRE` is rejected. -/
theorem rejects_bad_name (hbad : metricNameOk r.name = false) : ∃ e, load rxOk db dq raw = .error e := by
  refine reject_of rxOk db dq raw fun cfg h => ?_
  obtain ⟨_, _, _, _, _, _, _, _, _, _, _, _, _, _, _, _, _, _, f, _⟩ := accepted_rule_facts h r (mem_rules raw pre post r hr)
  rw [hbad] at f; cases f

/-- **glob match**: a rule whose effective match type is `glob` (its own `match_type`, `mt`, else that of
    the defaults, `dmt`, else glob) and whose `match` fails `metricLineRE` is rejected. -/
theorem rejects_bad_glob_match (mt dmt : Option MatchTy)
    (hmt : optDec decMatchType r.matchType = .ok mt) (hdmt : optDec decMatchType raw.defaults.matchType = .ok dmt)
    (hglob : mt.getD (dmt.getD .glob) = .glob) (hbad : matchLineOk (splitOn 46 r.matchStr) = false) :
    ∃ e, load rxOk db dq raw = .error e := by
  refine reject_of rxOk db dq raw fun cfg h => ?_
  obtain ⟨_, _, dmt0, _, _, mt0, _, _, _, _, d3, _, _, f3, _, _, _, _, _, f, _⟩ :=
    accepted_rule_facts h r (mem_rules raw pre post r hr)
  rw [hmt] at f3; rw [hdmt] at d3
  injection f3 with f3; injection d3 with d3
  subst f3 d3
  rw [f hglob] at hbad; cases hbad

/-- … in particular with `match_type: glob` on the rule itself, -/
theorem rejects_bad_glob_match_explicit (hty : r.matchType = some (strBytes "glob"))
    (hbad : matchLineOk (splitOn 46 r.matchStr) = false) : ∃ e, load rxOk db dq raw = .error e := by
  refine reject_of rxOk db dq raw fun cfg h => ?_
  obtain ⟨_, _, dmt0, _, _, mt0, _, _, _, _, d3, _, _, f3, _, _, _, _, _, f, _⟩ :=
    accepted_rule_facts h r (mem_rules raw pre post r hr)
  rw [hty] at f3
  have : mt0 = some .glob := by
    have e : optDec decMatchType (some (strBytes "glob")) = .ok (some MatchTy.glob) := rfl
    rw [e] at f3; injection f3 with f3; exact f3.symm
  subst this
  rw [f rfl] at hbad; cases hbad

/-- … and with no `match_type` at all (glob is the default of the default). -/
theorem rejects_bad_glob_match_default (hty : r.matchType = none) (hd : raw.defaults.matchType = none)
    (hbad : matchLineOk (splitOn 46 r.matchStr) = false) : ∃ e, load rxOk db dq raw = .error e :=
  rejects_bad_glob_match rxOk db dq raw pre post r hr none none (by rw [hty]; rfl) (by rw [hd]; rfl) rfl hbad

/-- **regex match**: a rule whose effective match type is `regex` and whose `match` does not compile
    (`rxOk` = `regexp.Compile` succeeds) is rejected. -/
theorem rejects_bad_regex (mt dmt : Option MatchTy)
    (hmt : optDec decMatchType r.matchType = .ok mt) (hdmt : optDec decMatchType raw.defaults.matchType = .ok dmt)
    (hregex : mt.getD (dmt.getD .glob) = .regex) (hbad : rxOk r.matchStr = false) :
    ∃ e, load rxOk db dq raw = .error e := by
  refine reject_of rxOk db dq raw fun cfg h => ?_
  obtain ⟨_, _, dmt0, _, _, mt0, _, _, _, _, d3, _, _, f3, _, _, _, _, _, _, f, _⟩ :=
    accepted_rule_facts h r (mem_rules raw pre post r hr)
  rw [hmt] at f3; rw [hdmt] at d3
  injection f3 with f3; injection d3 with d3
  subst f3 d3
  rw [f (by rw [hregex]; decide)] at hbad; cases hbad

/-- … in particular with `match_type: regex` on the rule itself. -/
theorem rejects_bad_regex_explicit (hty : r.matchType = some (strBytes "regex")) (hbad : rxOk r.matchStr = false) :
    ∃ e, load rxOk db dq raw = .error e := by
  refine reject_of rxOk db dq raw fun cfg h => ?_
  obtain ⟨_, _, dmt0, _, _, mt0, _, _, _, _, d3, _, _, f3, _, _, _, _, _, _, f, _⟩ :=
    accepted_rule_facts h r (mem_rules raw pre post r hr)
  rw [hty] at f3
  have : mt0 = some .regex := by
    have e : optDec decMatchType (some (strBytes "regex")) = .ok (some MatchTy.regex) := rfl
    rw [e] at f3; injection f3 with f3; exact f3.symm
  subst this
  rw [f nofun] at hbad; cases hbad

/-- **unknown `match_type`** on a rule (anything but `glob`, `regex` or the empty string) -/
theorem rejects_unknown_match_type (s : Bytes) (hs : r.matchType = some s)
    (h1 : s ≠ strBytes "regex") (h2 : s ≠ strBytes "glob") (h3 : s ≠ []) : ∃ e, load rxOk db dq raw = .error e := by
  refine reject_of rxOk db dq raw fun cfg h => ?_
  obtain ⟨_, _, _, _, _, _, _, _, _, _, _, _, _, f, _⟩ := accepted_rule_facts h r (mem_rules raw pre post r hr)
  rw [hs, optDec_error _ _ _ (decMatchType_unknown s h1 h2 h3)] at f; cases f

/-- **unknown `action`** on a rule (anything but `map`, `drop` or the empty string) -/
theorem rejects_unknown_action (s : Bytes) (hs : r.action = some s)
    (h1 : s ≠ strBytes "drop") (h2 : s ≠ strBytes "map") (h3 : s ≠ []) : ∃ e, load rxOk db dq raw = .error e := by
  refine reject_of rxOk db dq raw fun cfg h => ?_
  obtain ⟨_, _, _, _, _, _, _, _, _, _, _, _, _, _, f, _⟩ := accepted_rule_facts h r (mem_rules raw pre post r hr)
  rw [hs, optDec_error _ _ _ (decAction_unknown s h1 h2 h3)] at f; cases f

/-- **unknown `match_metric_type`** on a rule (anything but `counter`, `gauge`, `observer`, `timer`) -/
theorem rejects_unknown_match_metric_type (s : Bytes) (hs : r.matchMetricType = some s)
    (h1 : s ≠ strCounter) (h2 : s ≠ strGauge) (h3 : s ≠ strObserver) (h4 : s ≠ strTimer) :
    ∃ e, load rxOk db dq raw = .error e := by
  refine reject_of rxOk db dq raw fun cfg h => ?_
  obtain ⟨_, _, _, _, _, _, _, _, _, _, _, _, _, _, _, f, _⟩ := accepted_rule_facts h r (mem_rules raw pre post r hr)
  rw [hs, optDec_error _ _ _ (decMetricType_unknown s h1 h2 h3 h4)] at f; cases f

/-- **unknown `observer_type`** on a rule (anything but `histogram`, `summary` or the empty string) -/
theorem rejects_unknown_observer_type (s : Bytes) (hs : r.observerType = some s)
    (h1 : s ≠ strBytes "histogram") (h2 : s ≠ strBytes "summary") (h3 : s ≠ []) :
    ∃ e, load rxOk db dq raw = .error e := by
  refine reject_of rxOk db dq raw fun cfg h => ?_
  obtain ⟨_, _, _, _, _, _, _, _, _, _, _, f, _⟩ := accepted_rule_facts h r (mem_rules raw pre post r hr)
  rw [hs, optDec_error _ _ _ (decObserverType_unknown s h1 h2 h3)] at f; cases f

/-- **unknown `timer_type`** on a rule -/
theorem rejects_unknown_timer_type (s : Bytes) (hs : r.timerType = some s)
    (h1 : s ≠ strBytes "histogram") (h2 : s ≠ strBytes "summary") (h3 : s ≠ []) :
    ∃ e, load rxOk db dq raw = .error e := by
  refine reject_of rxOk db dq raw fun cfg h => ?_
  obtain ⟨_, _, _, _, _, _, _, _, _, _, _, _, f, _⟩ := accepted_rule_facts h r (mem_rules raw pre post r hr)
  rw [hs, optDec_error _ _ _ (decObserverType_unknown s h1 h2 h3)] at f; cases f

/-- **legacy `quantiles` together with `summary_options.quantiles`** -/
theorem rejects_quantiles_both (lq q : List (V × V)) (a : Int) (b c : Nat)
    (h1 : r.legacyQuantiles = some lq) (h2 : r.summaryOpts = some (some q, a, b, c)) :
    ∃ e, load rxOk db dq raw = .error e := by
  refine reject_of rxOk db dq raw fun cfg h => ?_
  obtain ⟨_, _, _, _, _, _, _, _, _, _, _, _, _, _, _, _, _, _, _, _, _, f, _⟩ :=
    accepted_rule_facts h r (mem_rules raw pre post r hr)
  unfold sumQuantSet at f
  rw [h1, h2] at f; cases f

/-- **legacy `buckets` together with `histogram_options.buckets`** -/
theorem rejects_buckets_both (lb b : List V) (h1 : r.legacyBuckets = some lb) (h2 : r.histOpts = some (some b)) :
    ∃ e, load rxOk db dq raw = .error e := by
  refine reject_of rxOk db dq raw fun cfg h => ?_
  obtain ⟨_, _, _, _, _, _, _, _, _, _, _, _, _, _, _, _, _, _, _, _, _, _, f, _⟩ :=
    accepted_rule_facts h r (mem_rules raw pre post r hr)
  unfold histBucketsSet at f
  rw [h1, h2] at f; cases f

/-- **observer type histogram with `summary_options`**, whatever the source of the observer type: the rule's
    `observer_type` (`obs`), else its `timer_type` (`tim`), else the defaults' (`dobs`, `dtim`). -/
theorem rejects_histogram_with_summary_options (obs tim dobs dtim : Option ObsTy)
    (h1 : optDec decObserverType r.observerType = .ok obs) (h2 : optDec decObserverType r.timerType = .ok tim)
    (h3 : optDec decObserverType raw.defaults.observerType = .ok dobs)
    (h4 : optDec decObserverType raw.defaults.timerType = .ok dtim)
    (hty : effObs obs tim (defaultObs dobs dtim) = .histogram)
    (hopts : r.summaryOpts.isSome = true) : ∃ e, load rxOk db dq raw = .error e := by
  refine reject_of rxOk db dq raw fun cfg h => ?_
  obtain ⟨dobs0, dtim0, _, obs0, tim0, _, _, _, d1, d2, _, f1, f2, _, _, _, _, _, _, _, _, _, _, f, _⟩ :=
    accepted_rule_facts h r (mem_rules raw pre post r hr)
  rw [h1] at f1; rw [h2] at f2; rw [h3] at d1; rw [h4] at d2
  injection f1 with f1; injection f2 with f2; injection d1 with d1; injection d2 with d2
  subst f1 f2 d1 d2
  rw [f hty] at hopts; cases hopts

/-- **observer type summary with `histogram_options`**, whatever the source of the observer type. -/
theorem rejects_summary_with_histogram_options (obs tim dobs dtim : Option ObsTy)
    (h1 : optDec decObserverType r.observerType = .ok obs) (h2 : optDec decObserverType r.timerType = .ok tim)
    (h3 : optDec decObserverType raw.defaults.observerType = .ok dobs)
    (h4 : optDec decObserverType raw.defaults.timerType = .ok dtim)
    (hty : effObs obs tim (defaultObs dobs dtim) = .summary)
    (hopts : r.histOpts.isSome = true) : ∃ e, load rxOk db dq raw = .error e := by
  refine reject_of rxOk db dq raw fun cfg h => ?_
  obtain ⟨dobs0, dtim0, _, obs0, tim0, _, _, _, d1, d2, _, f1, f2, _, _, _, _, _, _, _, _, _, _, _, f⟩ :=
    accepted_rule_facts h r (mem_rules raw pre post r hr)
  rw [h1] at f1; rw [h2] at f2; rw [h3] at d1; rw [h4] at d2
  injection f1 with f1; injection f2 with f2; injection d1 with d1; injection d2 with d2
  subst f1 f2 d1 d2
  rw [f hty] at hopts; cases hopts

/-- … in particular `observer_type: histogram` on the rule itself with `summary_options` (no assumption on
    the defaults: if they do not decode the configuration is rejected anyway), -/
theorem rejects_explicit_histogram_with_summary_options (hty : r.observerType = some (strBytes "histogram"))
    (hopts : r.summaryOpts.isSome = true) : ∃ e, load rxOk db dq raw = .error e := by
  refine reject_of rxOk db dq raw fun cfg h => ?_
  obtain ⟨dobs0, dtim0, _, obs0, tim0, _, _, _, _, _, _, f1, _, _, _, _, _, _, _, _, _, _, _, f, _⟩ :=
    accepted_rule_facts h r (mem_rules raw pre post r hr)
  rw [hty] at f1
  have : obs0 = some .histogram := by
    have e : optDec decObserverType (some (strBytes "histogram")) = .ok (some ObsTy.histogram) := rfl
    rw [e] at f1; injection f1 with f1; exact f1.symm
  subst this
  rw [f rfl] at hopts; cases hopts

/-- … and `observer_type: summary` on the rule itself with `histogram_options`. -/
theorem rejects_explicit_summary_with_histogram_options (hty : r.observerType = some (strBytes "summary"))
    (hopts : r.histOpts.isSome = true) : ∃ e, load rxOk db dq raw = .error e := by
  refine reject_of rxOk db dq raw fun cfg h => ?_
  obtain ⟨dobs0, dtim0, _, obs0, tim0, _, _, _, _, _, _, f1, _, _, _, _, _, _, _, _, _, _, _, _, f⟩ :=
    accepted_rule_facts h r (mem_rules raw pre post r hr)
  rw [hty] at f1
  have : obs0 = some .summary := by
    have e : optDec decObserverType (some (strBytes "summary")) = .ok (some ObsTy.summary) := rfl
    rw [e] at f1; injection f1 with f1; exact f1.symm
  subst this
  rw [f rfl] at hopts; cases hopts

omit hr

/-- **unknown `observer_type` in the defaults** -/
theorem rejects_unknown_default_observer_type (s : Bytes) (hs : raw.defaults.observerType = some s)
    (h1 : s ≠ strBytes "histogram") (h2 : s ≠ strBytes "summary") (h3 : s ≠ []) :
    ∃ e, load rxOk db dq raw = .error e := by
  refine except_error_of_not_ok fun cfg h => ?_
  obtain ⟨_, _, _, f, _⟩ := load_ok_inv h
  rw [hs, optDec_error _ _ _ (decObserverType_unknown s h1 h2 h3)] at f; cases f

/-- **unknown `timer_type` in the defaults** -/
theorem rejects_unknown_default_timer_type (s : Bytes) (hs : raw.defaults.timerType = some s)
    (h1 : s ≠ strBytes "histogram") (h2 : s ≠ strBytes "summary") (h3 : s ≠ []) :
    ∃ e, load rxOk db dq raw = .error e := by
  refine except_error_of_not_ok fun cfg h => ?_
  obtain ⟨_, _, _, _, f, _⟩ := load_ok_inv h
  rw [hs, optDec_error _ _ _ (decObserverType_unknown s h1 h2 h3)] at f; cases f

/-- **unknown `match_type` in the defaults** -/
theorem rejects_unknown_default_match_type (s : Bytes) (hs : raw.defaults.matchType = some s)
    (h1 : s ≠ strBytes "regex") (h2 : s ≠ strBytes "glob") (h3 : s ≠ []) :
    ∃ e, load rxOk db dq raw = .error e := by
  refine except_error_of_not_ok fun cfg h => ?_
  obtain ⟨_, _, _, _, _, f, _⟩ := load_ok_inv h
  rw [hs, optDec_error _ _ _ (decMatchType_unknown s h1 h2 h3)] at f; cases f

end reject

/-! ## (b) a safe configuration never panics -/

section safe
variable {V : Type} [NumOps V]

/-- The empty registry (with any pre-registered families) is safe. -/
theorem vecs_safe_empty (pre : List (Bytes × MType × Bytes)) : VecsSafe ({ metrics := [], pre := pre } : Reg V) :=
  VecsSafe_empty pre

/-- The stale-series sweep keeps the registry safe. -/
theorem vecs_safe_sweep (r : Reg V) (now : Int) (h : VecsSafe r) : VecsSafe (r.sweep now) := VecsSafe_sweep h now

/-- **A safe configuration never panics.** If the current configuration is `ConfigSafe` and every existing
    vector was created under a safe configuration (`VecsSafe`), then for every event, every tag set and every
    regex oracle `handleEvent` does not end in a `Panic` outcome (constructor panic or `summaryHang`). -/
theorem config_safe_never_panics (p : Pipe V) (rx : Rx) (ev : Ev V) (tags : Labels)
    (hc : ConfigSafe p.mapper.cfg) (hv : VecsSafe p.reg) (pn : Panic) :
    handleEvent p rx ev tags ≠ some (.error pn) :=
  handleEvent_no_panic hc hv pn

/-- … and the registry it leaves is safe again (so is the unchanged configuration). -/
theorem vecs_safe_preserved (p p' : Pipe V) (rx : Rx) (ev : Ev V) (tags : Labels)
    (hc : ConfigSafe p.mapper.cfg) (hv : VecsSafe p.reg) (h : handleEvent p rx ev tags = some (.ok p')) :
    VecsSafe p'.reg ∧ ConfigSafe p'.mapper.cfg :=
  ⟨VecsSafe_handleEvent hc hv h, by rw [(handleEvent_keeps h).1]; exact hc⟩

/-- All events of a line. -/
theorem config_safe_events_never_panic (p : Pipe V) (rx : Rx) (tags : Labels) (evs : List (Ev V))
    (hc : ConfigSafe p.mapper.cfg) (hv : VecsSafe p.reg) :
    (∀ pn, handleEvents p rx tags evs ≠ some (.error pn)) ∧
    (∀ p', handleEvents p rx tags evs = some (.ok p') → VecsSafe p'.reg ∧ ConfigSafe p'.mapper.cfg) := by
  obtain ⟨h1, h2⟩ := handleEvents_safe (rx := rx) (tags := tags) evs hc hv
  refine ⟨h1, fun p' h => ?_⟩
  obtain ⟨a, b, _⟩ := h2 p' h
  exact ⟨a, by rw [b]; exact hc⟩

/-- **Whole histories**: event batches, sweeps, clock changes and configuration reloads in any order. If the
    initial configuration and every reloaded one is safe (`OpsSafe`) and the initial registry is safe (for
    instance empty), the history never ends in a `Panic` outcome, and the final state is safe. -/
theorem config_safe_history_never_panics (rx : Rx) (p : Pipe V) (ops : List (PipeOp V))
    (hc : ConfigSafe p.mapper.cfg) (hv : VecsSafe p.reg) (hs : OpsSafe ops) :
    (∀ pn, runOps rx p ops ≠ some (.error pn)) ∧
    (∀ p', runOps rx p ops = some (.ok p') → VecsSafe p'.reg ∧ ConfigSafe p'.mapper.cfg) :=
  runOps_safe rx ops hc hv hs

/-- **`Gather` does not panic on a safe registry** (no summary objective indexes out of range). -/
theorem config_safe_gather_never_panics (r : Reg V) (h : VecsSafe r) : r.gatherPanics = false :=
  gatherPanics_false_of_safe h

/-- … hence after every history among safe configurations. -/
theorem history_gather_never_panics (rx : Rx) (p p' : Pipe V) (ops : List (PipeOp V))
    (hc : ConfigSafe p.mapper.cfg) (hv : VecsSafe p.reg) (hs : OpsSafe ops)
    (h : runOps rx p ops = some (.ok p')) : p'.reg.gatherPanics = false :=
  gatherPanics_false_of_safe ((runOps_safe rx ops hc hv hs).2 p' h).1

/-- `ConfigSafe` is the decidable check `configOk` (buckets strictly increasing, `MaxAge ≥ 0`, non-zero
    stream duration, for every non-drop rule and the defaults) plus the one undecidable-in-general part:
    the objectives of every summary-typed option set never index out of range. -/
theorem config_safe_iff (cfg : Config V) :
    ConfigSafe cfg ↔ configOk cfg = true ∧
      (∀ r, r ∈ cfg.rules → r.action ≠ .drop → ruleObsTy cfg r ≠ .histogram → ObjectivesSafe (ruleObjectives cfg r)) ∧
      (cfg.dObserverType ≠ .histogram → ObjectivesSafe (cfg.dQuantiles.map (·.1))) :=
  configSafe_iff cfg

/-- What "objectives safe" means arithmetically: it suffices that `ceil(l·q)` lies in `[0, l]` for every sample
    count `l` — which IEEE arithmetic gives for every rank `q ∈ [0, 1]`. -/
theorem objectives_safe_of_ceil_bounds (objs : List V)
    (h : ∀ (l : Nat) (q : V), q ∈ objs → 0 ≤ NumOps.ceilMul l q ∧ NumOps.ceilMul l q ≤ (l : Int)) :
    ObjectivesSafe objs := by
  intro l q hq
  obtain ⟨h0, h1⟩ := h l q hq
  unfold queryPanics
  simp only [Bool.and_eq_false_imp, decide_eq_true_eq, Bool.or_eq_false_iff, decide_eq_false_iff_not]
  intro hl
  split <;> omega

end safe

/-! ## (c) the loader does not establish `ConfigSafe` -/

/-- (FALSE on the current code) every configuration that `load` accepts is safe to run -/
def accepted_config_safe_statement : Prop :=
  ∀ (V : Type) [NumOps V] (rxOk : Bytes → Bool) (db : List V) (dq : List (V × V)) (raw : RawConfig V) (cfg : Config V),
    load rxOk db dq raw = .ok cfg → ConfigSafe cfg

section counterexamples
attribute [local instance] toyNumOps

/-- `prometheus.DefBuckets` and `defaultQuantiles` stand-ins on the toy number type: sorted buckets, ranks 0 and 1 -/
private def db0 : List Int := [1, 2, 3]
private def dq0 : List (Int × Int) := [(0, 0), (1, 0)]
private def noRx : Rx := fun _ _ => none
private def obsEv (name : Bytes) : Ev Int := { kind := .observer, name := name, value := 1, relative := false }

/-- the configuration loads and the first matching event ends in the panic `pn` (from the empty registry) -/
private def loadsAndPanics (raw : RawConfig Int) (ev : Ev Int) (pn : Panic) : Bool :=
  match load (fun _ => true) db0 dq0 raw with
  | .ok cfg =>
    (match handleEvent { mapper := MState.fresh cfg } noRx ev [] with
     | some (.error e) => e == pn
     | _ => false)
  | .error _ => false

private theorem loadsAndPanics_spec {raw : RawConfig Int} {ev : Ev Int} {pn : Panic} (h : loadsAndPanics raw ev pn = true) :
    ∃ cfg, load (fun _ => true) db0 dq0 raw = .ok cfg ∧
      handleEvent { mapper := MState.fresh cfg } noRx ev [] = some (.error pn) := by
  unfold loadsAndPanics at h
  split at h
  · rename_i cfg hl
    refine ⟨cfg, hl, ?_⟩
    split at h
    · rename_i e he
      rw [he, show e = pn from by simpa using h]
    · cases h
  · cases h

/-- one rule `match: a`, `name: a`, `observer_type: histogram`, `histogram_options: {buckets: [1, 0]}` -/
def rawUnsortedBuckets : RawConfig Int :=
  { rules := [{ matchStr := [97], name := [97], observerType := some (strBytes "histogram"), histOpts := some (some [1, 0]) }] }

/-- **The loader accepts unsorted buckets**, and the first timer event `a` panics in `NewHistogram`
    ("buckets must be in increasing order"). -/
theorem loader_accepts_unsorted_buckets :
    ∃ cfg, load (fun _ => true) db0 dq0 rawUnsortedBuckets = .ok cfg ∧
      handleEvent { mapper := MState.fresh cfg } noRx (obsEv [97]) [] = some (.error .bucketsNotIncreasing) :=
  loadsAndPanics_spec (by with_unfolding_all decide)

/-- defaults: `observer_type: summary`, `summary_options: {max_age: -1ns}`; no rules -/
def rawNegativeMaxAge : RawConfig Int :=
  { defaults := { observerType := some (strBytes "summary"), summaryOpts := { maxAge := -1 } } }

/-- **The loader accepts a negative `max_age`**, and the first (unmapped) timer event panics in `NewSummary`
    ("illegal max age"). -/
theorem loader_accepts_negative_max_age :
    ∃ cfg, load (fun _ => true) db0 dq0 rawNegativeMaxAge = .ok cfg ∧
      handleEvent { mapper := MState.fresh cfg } noRx (obsEv [97]) [] = some (.error .negativeMaxAge) :=
  loadsAndPanics_spec (by with_unfolding_all decide)

/-- defaults: `observer_type: summary`, `summary_options: {max_age: 4ns}` (age buckets left at their default 5) -/
def rawTinyMaxAge : RawConfig Int :=
  { defaults := { observerType := some (strBytes "summary"), summaryOpts := { maxAge := 4 } } }

/-- **The loader accepts `max_age: 4ns`** with the default five age buckets: the stream duration is
    `4 / 5 = 0` and the first `Observe` never returns (`summaryHang`). -/
theorem loader_accepts_zero_stream_duration :
    ∃ cfg, load (fun _ => true) db0 dq0 rawTinyMaxAge = .ok cfg ∧
      handleEvent { mapper := MState.fresh cfg } noRx (obsEv [97]) [] = some (.error .summaryHang) :=
  loadsAndPanics_spec (by with_unfolding_all decide)

/-- defaults: `observer_type: summary`, `summary_options: {quantiles: [{quantile: 2, error: 0}]}` -/
def rawBadObjective : RawConfig Int :=
  { defaults := { observerType := some (strBytes "summary"), summaryOpts := { quantiles := [(2, 0)] } } }

private def loadsAndGatherPanics (raw : RawConfig Int) (evs : List (Ev Int)) : Bool :=
  match load (fun _ => true) db0 dq0 raw with
  | .ok cfg =>
    (match handleEvents { mapper := MState.fresh cfg } noRx [] evs with
     | some (.ok p) => p.reg.gatherPanics
     | _ => false)
  | .error _ => false

/-- the rank 2 makes `Query` index out of range with three samples (on the toy type `ceil(l·q) = l·q`) -/
example : queryPanics 3 (2 : Int) = true := by decide

/-- **The loader accepts an objective outside [0, 1]**: the events are processed, and the next scrape panics
    inside `Gather` (perks' `Query`), leaving the summary's mutex locked. -/
theorem loader_accepts_bad_objective :
    ∃ cfg p, load (fun _ => true) db0 dq0 rawBadObjective = .ok cfg ∧
      handleEvents { mapper := MState.fresh cfg } noRx [] [obsEv [97], obsEv [97], obsEv [97]] = some (.ok p) ∧
      p.reg.gatherPanics = true := by
  have h : loadsAndGatherPanics rawBadObjective [obsEv [97], obsEv [97], obsEv [97]] = true := by
    with_unfolding_all decide
  unfold loadsAndGatherPanics at h
  split at h
  · rename_i cfg hl
    split at h
    · rename_i p hp
      exact ⟨cfg, p, hl, hp, h⟩
    · cases h
  · cases h

/-- **"accepted ⇒ safe" is false**: the accepted configuration with unsorted buckets is not `ConfigSafe`
    (if it were, `config_safe_never_panics` would exclude the panic it causes). -/
theorem accepted_config_not_safe : ¬ accepted_config_safe_statement := by
  intro hst
  obtain ⟨cfg, hl, hp⟩ := loader_accepts_unsorted_buckets
  have hc : ConfigSafe cfg := hst Int (fun _ => true) db0 dq0 rawUnsortedBuckets cfg hl
  exact config_safe_never_panics { mapper := MState.fresh cfg } noRx (obsEv [97]) [] hc (vecs_safe_empty []) _ hp

/-- none of the other three accepted configurations is `ConfigSafe` either -/
theorem accepted_configs_not_safe :
    (∃ cfg, load (fun _ => true) db0 dq0 rawNegativeMaxAge = .ok cfg ∧ ¬ ConfigSafe cfg) ∧
    (∃ cfg, load (fun _ => true) db0 dq0 rawTinyMaxAge = .ok cfg ∧ ¬ ConfigSafe cfg) ∧
    (∃ cfg, load (fun _ => true) db0 dq0 rawBadObjective = .ok cfg ∧ ¬ ConfigSafe cfg) := by
  refine ⟨?_, ?_, ?_⟩
  · obtain ⟨cfg, hl, hp⟩ := loader_accepts_negative_max_age
    exact ⟨cfg, hl, fun hc =>
      config_safe_never_panics { mapper := MState.fresh cfg } noRx (obsEv [97]) [] hc (vecs_safe_empty []) _ hp⟩
  · obtain ⟨cfg, hl, hp⟩ := loader_accepts_zero_stream_duration
    exact ⟨cfg, hl, fun hc =>
      config_safe_never_panics { mapper := MState.fresh cfg } noRx (obsEv [97]) [] hc (vecs_safe_empty []) _ hp⟩
  · obtain ⟨cfg, p, hl, hp, hg⟩ := loader_accepts_bad_objective
    refine ⟨cfg, hl, fun hc => ?_⟩
    have := ((config_safe_events_never_panic { mapper := MState.fresh cfg } noRx [] _ hc (vecs_safe_empty [])).2 p hp).1
    rw [config_safe_gather_never_panics p.reg this] at hg
    cases hg

/-! ### Non-vacuity of (a) and (b) -/

/-- a valid configuration loads: `match: a.*`, `name: b`, histogram with buckets 1 < 2 -/
private def rawGood : RawConfig Int :=
  { rules := [{ matchStr := strBytes "a.*", name := [98], observerType := some (strBytes "histogram"),
                histOpts := some (some [1, 2]) }] }

example : (load (fun _ => true) db0 dq0 rawGood).toBool = true := by with_unfolding_all decide

/-- … it is `ConfigSafe` (checked through `config_safe_iff`: the decidable part by evaluation, the objectives
    0 and 1 of the defaults by `objectives_safe_of_ceil_bounds`) -/
example : ∃ cfg, load (fun _ => true) db0 dq0 rawGood = .ok cfg ∧ ConfigSafe cfg := by
  have hobj : ObjectivesSafe (dq0.map (·.1)) := by
    apply objectives_safe_of_ceil_bounds
    intro l q hq
    have : q = 0 ∨ q = 1 := by simpa [dq0] using hq
    show 0 ≤ (l : Int) * q ∧ (l : Int) * q ≤ l
    rcases this with e | e <;> subst e <;> omega
  cases hl : load (fun _ => true) db0 dq0 rawGood with
  | error e =>
    have : (load (fun _ => true) db0 dq0 rawGood).toBool = true := by with_unfolding_all decide
    rw [hl] at this; cases this
  | ok cfg =>
    refine ⟨cfg, rfl, (config_safe_iff cfg).mpr ⟨?_, ?_, ?_⟩⟩
    · have : (match load (fun _ => true) db0 dq0 rawGood with | .ok c => configOk c | .error _ => false) = true := by
        with_unfolding_all decide
      rw [hl] at this; exact this
    · have hq : (match load (fun _ => true) db0 dq0 rawGood with
          | .ok c => c.rules.all (fun r => ruleObsTy c r == .histogram) | .error _ => false) = true := by
        with_unfolding_all decide
      rw [hl] at hq
      intro r hr _ hne
      have := List.all_eq_true.mp hq r hr
      exact absurd (by simpa using this) hne
    · have hq : (match load (fun _ => true) db0 dq0 rawGood with
          | .ok c => c.dQuantiles.map (·.1) == dq0.map (·.1) | .error _ => false) = true := by
        with_unfolding_all decide
      rw [hl] at hq
      intro _
      rw [show cfg.dQuantiles.map (·.1) = dq0.map (·.1) from by simpa using hq]
      exact hobj

/-- the same rule with an illegal label key `1x` is rejected, wherever it stands -/
example (pre post : List (RawRule Int)) :
    ∃ e, load (fun _ => true) db0 dq0
      { rules := pre ++ { matchStr := [97], name := [98], labels := [([49, 120], [99])] } :: post } = .error e :=
  rejects_bad_label_key _ _ _ _ pre post _ rfl [49, 120] [99] (by simp) (by decide)

end counterexamples

end SE.Props.C19
