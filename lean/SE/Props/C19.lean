import SE.Proofs.SafetyLoad
import SE.Proofs.SafetyPipe
import SE.Proofs.SafetyLoaded
import SE.Proofs.HelpUniform
import SE.Spec.FloatLaws
/-
C19 — A configuration that loads is safe to run; one that is invalid is rejected.

(a) *Invalid configurations are rejected*: one theorem per class of invalid mapping configuration,
    each for a rule at **any** position of `raw.rules` (`raw.rules = pre ++ r :: post`) and of the form
    `∃ e, load rxOk db dq raw = .error e`. `load` is the model of `InitFromYAMLString` including the
    `UnmarshalYAML` hooks (SE/Model/Mapper.lean); `rxOk` is the oracle "`regexp.Compile` succeeds".
(b) *A safe configuration never panics*: `ConfigSafe cfg` (SE/Proofs/SafetyPipe.lean) says that the
    options the exporter would hand to the histogram / summary constructors — for every non-drop rule and
    for the defaults — are accepted by client_golang: strictly increasing buckets, `MaxAge ≥ 0`, a non-zero
    stream duration, objectives that never index out of range. Under `ConfigSafe`, on a registry whose
    vectors were created under safe configurations (`VecsSafe`), `handleEvent` never yields a `Panic`
    outcome, `VecsSafe` is preserved, and `Gather` does not panic — for single events, lines, and whole
    histories with reloads among safe configurations.
(c) *The loader establishes `ConfigSafe`*: since `InitFromYAMLString` validates the effective bucket lists and
    summary options of the defaults and of every mapping (`validateBuckets`, `validateSummaryOptions`), every
    accepted configuration is `ConfigSafe` (`accepted_config_safe`) — under the hypotheses collected in the
    structure `LoaderAssumptions` (SE/Proofs/SafetyLoaded.lean; hypotheses, not axioms): the IEEE fact that a
    rank in [0, 1] never makes `Query` index out of range (`ObjectiveLaw`) - nothing else since the repair 2eac18a
    (before it also the `uint32` typing of `age_buckets`). Hence a loaded configuration never panics (`loaded_config_never_panics`). The four
    configurations that the old loader accepted and that killed the exporter goroutine (unsorted buckets,
    negative `max_age`, a `max_age` too small for the age buckets, an objective outside [0, 1]) are now
    rejected (`now_rejects_…`), as is every configuration of these four kinds (`rejects_unsorted_buckets`,
    `rejects_bad_summary_options` and their variants for the defaults).
(d) *… and every scrape succeeds*: "safe to run" used to stop at "no panic" — a configuration that loads could
    still give one metric name two help strings (two rules, or a reload), after which every scrape failed (the
    former finding `help_mismatch` of SE/Props/C03.lean). The registry now keeps one help string per metric name,
    so from an empty registry without pre-registered families `Gather` also returns no error after every history:
    `loaded_config_scrape_succeeds` (the only failure left needs a family registered by another collector under
    the same name: SE.Props.C03.preregistered_name_collision).
-/
namespace SE.Props.C19
open SE

/-! ## (a) invalid configurations are rejected -/

section reject
variable {V : Type} [NumOps V]

/-- `List.mapM` in `Except` (how `load` runs `loadRule` over the rules) fails if some element fails. -/
theorem mapM_fails_if_one_fails {ε α β} (f : α → Except ε β) (pre post : List α) (a : α)
    (h : ∃ e, f a = .error e) : ∃ e, (pre ++ a :: post).mapM f = .error e :=
  mapM_error_of_mem f pre post a h

/-- what every rule of an accepted configuration satisfies: the facts of `loadRule_ok_inv`, for the
    defaults that `load` decoded -/
theorem accepted_rule_facts {rxOk : Bytes → Bool} {db : List V} {dq : List (V × V)} {raw : RawConfig V} {cfg : Config V}
    (h : load rxOk db dq raw = .ok cfg) (r : RawRule V) (hr : r ∈ raw.rules) :
    ∃ dobs0 dtim0 dmt0 obs0 tim0 mt0 act0 mmt,
      optDec decObserverType raw.defaults.observerType = .ok dobs0 ∧
      optDec decObserverType raw.defaults.timerType = .ok dtim0 ∧
      optDec decMatchType raw.defaults.matchType = .ok dmt0 ∧
      optDec decObserverType r.observerType = .ok obs0 ∧
      optDec decObserverType r.timerType = .ok tim0 ∧
      optDec decMatchType r.matchType = .ok mt0 ∧
      optDec decAction r.action = .ok act0 ∧
      optDec decMetricType r.matchMetricType = .ok mmt ∧
      r.labels.all (fun kv => labelNameOk kv.1) = true ∧
      r.name.isEmpty = false ∧ metricNameOk r.name = true ∧
      (mt0.getD (dmt0.getD .glob) = .glob → matchLineOk (splitOn 46 r.matchStr) = true) ∧
      (mt0.getD (dmt0.getD .glob) ≠ .glob → rxOk r.matchStr = true) ∧
      (r.summaryOpts.isSome && r.legacyQuantiles.isSome && sumQuantSet r) = false ∧
      (r.histOpts.isSome && r.legacyBuckets.isSome && histBucketsSet r) = false ∧
      (effObs obs0 tim0 (defaultObs dobs0 dtim0) = .histogram → r.summaryOpts.isSome = false) ∧
      (effObs obs0 tim0 (defaultObs dobs0 dtim0) = .summary → r.histOpts.isSome = false) := by
  obtain ⟨dm, dobs, dt, dbk, dqu, dma, dab, dbc, rule, hrule, dobs0, dtim0, dmt0, d1, d2, d3, e1, e2, _⟩ := load_ok_rules h r hr
  obtain ⟨obs0, tim0, mt0, act0, mmt, f1, f2, f3, f4, f5, f6, f7, f8, f9, f10, f11, f12, f13, f14⟩ := loadRule_ok_inv hrule
  subst e1 e2
  exact ⟨dobs0, dtim0, dmt0, obs0, tim0, mt0, act0, mmt, d1, d2, d3, f1, f2, f3, f4, f5, f6, f7, f8, f9, f10, f11, f12, f13, f14⟩

/-- … and the outcome of `validateBuckets` / `validateSummaryOptions` on its effective options: with `ot` the
    rule's effective observer type, `effBuckets r ot _` (histogram-typed: legacy `buckets`, else
    `histogram_options.buckets`, else the default buckets; otherwise `histogram_options.buckets` as written) is
    strictly increasing if the rule ends up with histogram options (`effHasHist`), and the effective
    quantiles / `max_age` / `age_buckets` pass `summaryOptsOk` if it ends up with summary options. The defaults
    are the effective ones (`effDefBuckets`, `effDefQuantiles`, `defSumOpts`). -/
theorem accepted_rule_options {rxOk : Bytes → Bool} {db : List V} {dq : List (V × V)} {raw : RawConfig V} {cfg : Config V}
    (h : load rxOk db dq raw = .ok cfg) (r : RawRule V) (hr : r ∈ raw.rules) :
    ∃ dobs0 dtim0 obs0 tim0,
      optDec decObserverType raw.defaults.observerType = .ok dobs0 ∧
      optDec decObserverType raw.defaults.timerType = .ok dtim0 ∧
      optDec decObserverType r.observerType = .ok obs0 ∧
      optDec decObserverType r.timerType = .ok tim0 ∧
      (effHasHist r (effObs obs0 tim0 (defaultObs dobs0 dtim0)) &&
        !strictlyIncreasing (effBuckets r (effObs obs0 tim0 (defaultObs dobs0 dtim0)) (effDefBuckets raw db))) = false ∧
      (effHasSum r (effObs obs0 tim0 (defaultObs dobs0 dtim0)) &&
        !summaryOptsOk (effQuantiles r (effObs obs0 tim0 (defaultObs dobs0 dtim0)) (effDefQuantiles raw dq))
          (effMaxAge r (effObs obs0 tim0 (defaultObs dobs0 dtim0)) (defSumOpts raw).maxAge)
          (effAgeB r (effObs obs0 tim0 (defaultObs dobs0 dtim0)) (defSumOpts raw).ageBuckets)) = false := by
  obtain ⟨dm, dobs, dt, dbk, dqu, dma, dab, dbc, rule, hrule, dobs0, dtim0, dmt0, d1, d2, d3, e1, e2, e3, e4, e5, e6⟩ :=
    load_ok_rules h r hr
  obtain ⟨obs0, tim0, _, _, _, f1, f2, _, _, _, _, _, _, _, _, _, _, _, _, f⟩ := loadRule_ok_full hrule
  subst e1 e2 e3 e4 e5 e6
  exact ⟨dobs0, dtim0, obs0, tim0, d1, d2, f1, f2, f.bucketsOk, f.summaryOk⟩

/-- the common shape: an accepted configuration would contradict the defect -/
private theorem reject_of (rxOk : Bytes → Bool) (db : List V) (dq : List (V × V)) (raw : RawConfig V)
    (hbad : ∀ cfg, load rxOk db dq raw = .ok cfg → False) : ∃ e, load rxOk db dq raw = .error e :=
  except_error_of_not_ok fun cfg h => hbad cfg h

variable (rxOk : Bytes → Bool) (db : List V) (dq : List (V × V)) (raw : RawConfig V)
  (pre post : List (RawRule V)) (r : RawRule V) (hr : raw.rules = pre ++ r :: post)
include hr

omit [NumOps V] in
private theorem mem_rules : r ∈ raw.rules := by rw [hr]; simp

/-- **label key**: a rule with a label whose name does not match `^[a-zA-Z_][a-zA-Z0-9_]+$` is rejected. -/
theorem rejects_bad_label_key (k v : Bytes) (hk : (k, v) ∈ r.labels) (hbad : labelNameOk k = false) :
    ∃ e, load rxOk db dq raw = .error e := by
  refine reject_of rxOk db dq raw fun cfg h => ?_
  obtain ⟨_, _, _, _, _, _, _, _, _, _, _, _, _, _, _, _, f, _⟩ := accepted_rule_facts h r (mem_rules raw pre post r hr)
  have := List.all_eq_true.mp f (k, v) hk
  simp only at this
  rw [hbad] at this; cases this

/-- **empty name**: a rule without a metric name is rejected. -/
theorem rejects_empty_name (hbad : r.name = []) : ∃ e, load rxOk db dq raw = .error e := by
  refine reject_of rxOk db dq raw fun cfg h => ?_
  obtain ⟨_, _, _, _, _, _, _, _, _, _, _, _, _, _, _, _, _, f, _⟩ := accepted_rule_facts h r (mem_rules raw pre post r hr)
  rw [hbad] at f; cases f

/-- **illegal name**: a rule whose metric name fails `metricNameRE` is rejected. -/
theorem rejects_bad_name (hbad : metricNameOk r.name = false) : ∃ e, load rxOk db dq raw = .error e := by
  refine reject_of rxOk db dq raw fun cfg h => ?_
  obtain ⟨_, _, _, _, _, _, _, _, _, _, _, _, _, _, _, _, _, _, f, _⟩ := accepted_rule_facts h r (mem_rules raw pre post r hr)
  rw [hbad] at f; cases f

/-- **glob match**: a rule whose effective match type is `glob` (its own `match_type`, `mt`, else that of
    the defaults, `dmt`, else glob) and whose `match` fails `metricLineRE` is rejected. -/
theorem rejects_bad_glob_match (mt dmt : Option MatchTy)
    (hmt : optDec decMatchType r.matchType = .ok mt) (hdmt : optDec decMatchType raw.defaults.matchType = .ok dmt)
    (hglob : mt.getD (dmt.getD .glob) = .glob) (hbad : matchLineOk (splitOn 46 r.matchStr) = false) :
    ∃ e, load rxOk db dq raw = .error e := by
  refine reject_of rxOk db dq raw fun cfg h => ?_
  obtain ⟨_, _, dmt0, _, _, mt0, _, _, _, _, d3, _, _, f3, _, _, _, _, _, f, _⟩ :=
    accepted_rule_facts h r (mem_rules raw pre post r hr)
  rw [hmt] at f3; rw [hdmt] at d3
  injection f3 with f3; injection d3 with d3
  subst f3 d3
  rw [f hglob] at hbad; cases hbad

/-- … in particular with `match_type: glob` on the rule itself, -/
theorem rejects_bad_glob_match_explicit (hty : r.matchType = some (strBytes "glob"))
    (hbad : matchLineOk (splitOn 46 r.matchStr) = false) : ∃ e, load rxOk db dq raw = .error e := by
  refine reject_of rxOk db dq raw fun cfg h => ?_
  obtain ⟨_, _, dmt0, _, _, mt0, _, _, _, _, d3, _, _, f3, _, _, _, _, _, f, _⟩ :=
    accepted_rule_facts h r (mem_rules raw pre post r hr)
  rw [hty] at f3
  have : mt0 = some .glob := by
    have e : optDec decMatchType (some (strBytes "glob")) = .ok (some MatchTy.glob) := rfl
    rw [e] at f3; injection f3 with f3; exact f3.symm
  subst this
  rw [f rfl] at hbad; cases hbad

/-- … and with no `match_type` at all (glob is the default of the default). -/
theorem rejects_bad_glob_match_default (hty : r.matchType = none) (hd : raw.defaults.matchType = none)
    (hbad : matchLineOk (splitOn 46 r.matchStr) = false) : ∃ e, load rxOk db dq raw = .error e :=
  rejects_bad_glob_match rxOk db dq raw pre post r hr none none (by rw [hty]; rfl) (by rw [hd]; rfl) rfl hbad

/-- **regex match**: a rule whose effective match type is `regex` and whose `match` does not compile
    (`rxOk` = `regexp.Compile` succeeds) is rejected. -/
theorem rejects_bad_regex (mt dmt : Option MatchTy)
    (hmt : optDec decMatchType r.matchType = .ok mt) (hdmt : optDec decMatchType raw.defaults.matchType = .ok dmt)
    (hregex : mt.getD (dmt.getD .glob) = .regex) (hbad : rxOk r.matchStr = false) :
    ∃ e, load rxOk db dq raw = .error e := by
  refine reject_of rxOk db dq raw fun cfg h => ?_
  obtain ⟨_, _, dmt0, _, _, mt0, _, _, _, _, d3, _, _, f3, _, _, _, _, _, _, f, _⟩ :=
    accepted_rule_facts h r (mem_rules raw pre post r hr)
  rw [hmt] at f3; rw [hdmt] at d3
  injection f3 with f3; injection d3 with d3
  subst f3 d3
  rw [f (by rw [hregex]; decide)] at hbad; cases hbad

/-- … in particular with `match_type: regex` on the rule itself. -/
theorem rejects_bad_regex_explicit (hty : r.matchType = some (strBytes "regex")) (hbad : rxOk r.matchStr = false) :
    ∃ e, load rxOk db dq raw = .error e := by
  refine reject_of rxOk db dq raw fun cfg h => ?_
  obtain ⟨_, _, dmt0, _, _, mt0, _, _, _, _, d3, _, _, f3, _, _, _, _, _, _, f, _⟩ :=
    accepted_rule_facts h r (mem_rules raw pre post r hr)
  rw [hty] at f3
  have : mt0 = some .regex := by
    have e : optDec decMatchType (some (strBytes "regex")) = .ok (some MatchTy.regex) := rfl
    rw [e] at f3; injection f3 with f3; exact f3.symm
  subst this
  rw [f nofun] at hbad; cases hbad

/-- **unknown `match_type`** on a rule (anything but `glob`, `regex` or the empty string) -/
theorem rejects_unknown_match_type (s : Bytes) (hs : r.matchType = some s)
    (h1 : s ≠ strBytes "regex") (h2 : s ≠ strBytes "glob") (h3 : s ≠ []) : ∃ e, load rxOk db dq raw = .error e := by
  refine reject_of rxOk db dq raw fun cfg h => ?_
  obtain ⟨_, _, _, _, _, _, _, _, _, _, _, _, _, f, _⟩ := accepted_rule_facts h r (mem_rules raw pre post r hr)
  rw [hs, optDec_error _ _ _ (decMatchType_unknown s h1 h2 h3)] at f; cases f

/-- **unknown `action`** on a rule (anything but `map`, `drop` or the empty string) -/
theorem rejects_unknown_action (s : Bytes) (hs : r.action = some s)
    (h1 : s ≠ strBytes "drop") (h2 : s ≠ strBytes "map") (h3 : s ≠ []) : ∃ e, load rxOk db dq raw = .error e := by
  refine reject_of rxOk db dq raw fun cfg h => ?_
  obtain ⟨_, _, _, _, _, _, _, _, _, _, _, _, _, _, f, _⟩ := accepted_rule_facts h r (mem_rules raw pre post r hr)
  rw [hs, optDec_error _ _ _ (decAction_unknown s h1 h2 h3)] at f; cases f

/-- **unknown `match_metric_type`** on a rule (anything but `counter`, `gauge`, `observer`, `timer`) -/
theorem rejects_unknown_match_metric_type (s : Bytes) (hs : r.matchMetricType = some s)
    (h1 : s ≠ strCounter) (h2 : s ≠ strGauge) (h3 : s ≠ strObserver) (h4 : s ≠ strTimer) :
    ∃ e, load rxOk db dq raw = .error e := by
  refine reject_of rxOk db dq raw fun cfg h => ?_
  obtain ⟨_, _, _, _, _, _, _, _, _, _, _, _, _, _, _, f, _⟩ := accepted_rule_facts h r (mem_rules raw pre post r hr)
  rw [hs, optDec_error _ _ _ (decMetricType_unknown s h1 h2 h3 h4)] at f; cases f

/-- **unknown `observer_type`** on a rule (anything but `histogram`, `summary` or the empty string) -/
theorem rejects_unknown_observer_type (s : Bytes) (hs : r.observerType = some s)
    (h1 : s ≠ strBytes "histogram") (h2 : s ≠ strBytes "summary") (h3 : s ≠ []) :
    ∃ e, load rxOk db dq raw = .error e := by
  refine reject_of rxOk db dq raw fun cfg h => ?_
  obtain ⟨_, _, _, _, _, _, _, _, _, _, _, f, _⟩ := accepted_rule_facts h r (mem_rules raw pre post r hr)
  rw [hs, optDec_error _ _ _ (decObserverType_unknown s h1 h2 h3)] at f; cases f

/-- **unknown `timer_type`** on a rule -/
theorem rejects_unknown_timer_type (s : Bytes) (hs : r.timerType = some s)
    (h1 : s ≠ strBytes "histogram") (h2 : s ≠ strBytes "summary") (h3 : s ≠ []) :
    ∃ e, load rxOk db dq raw = .error e := by
  refine reject_of rxOk db dq raw fun cfg h => ?_
  obtain ⟨_, _, _, _, _, _, _, _, _, _, _, _, f, _⟩ := accepted_rule_facts h r (mem_rules raw pre post r hr)
  rw [hs, optDec_error _ _ _ (decObserverType_unknown s h1 h2 h3)] at f; cases f

/-- **legacy `quantiles` together with `summary_options.quantiles`** -/
theorem rejects_quantiles_both (lq q : List (V × V)) (a : Int) (b c : Nat)
    (h1 : r.legacyQuantiles = some lq) (h2 : r.summaryOpts = some (some q, a, b, c)) :
    ∃ e, load rxOk db dq raw = .error e := by
  refine reject_of rxOk db dq raw fun cfg h => ?_
  obtain ⟨_, _, _, _, _, _, _, _, _, _, _, _, _, _, _, _, _, _, _, _, _, f, _⟩ :=
    accepted_rule_facts h r (mem_rules raw pre post r hr)
  unfold sumQuantSet at f
  rw [h1, h2] at f; cases f

/-- **legacy `buckets` together with `histogram_options.buckets`** -/
theorem rejects_buckets_both (lb b : List V) (h1 : r.legacyBuckets = some lb) (h2 : r.histOpts = some (some b)) :
    ∃ e, load rxOk db dq raw = .error e := by
  refine reject_of rxOk db dq raw fun cfg h => ?_
  obtain ⟨_, _, _, _, _, _, _, _, _, _, _, _, _, _, _, _, _, _, _, _, _, _, f, _⟩ :=
    accepted_rule_facts h r (mem_rules raw pre post r hr)
  unfold histBucketsSet at f
  rw [h1, h2] at f; cases f

/-- **observer type histogram with `summary_options`**, whatever the source of the observer type: the rule's
    `observer_type` (`obs`), else its `timer_type` (`tim`), else the defaults' (`dobs`, `dtim`). -/
theorem rejects_histogram_with_summary_options (obs tim dobs dtim : Option ObsTy)
    (h1 : optDec decObserverType r.observerType = .ok obs) (h2 : optDec decObserverType r.timerType = .ok tim)
    (h3 : optDec decObserverType raw.defaults.observerType = .ok dobs)
    (h4 : optDec decObserverType raw.defaults.timerType = .ok dtim)
    (hty : effObs obs tim (defaultObs dobs dtim) = .histogram)
    (hopts : r.summaryOpts.isSome = true) : ∃ e, load rxOk db dq raw = .error e := by
  refine reject_of rxOk db dq raw fun cfg h => ?_
  obtain ⟨dobs0, dtim0, _, obs0, tim0, _, _, _, d1, d2, _, f1, f2, _, _, _, _, _, _, _, _, _, _, f, _⟩ :=
    accepted_rule_facts h r (mem_rules raw pre post r hr)
  rw [h1] at f1; rw [h2] at f2; rw [h3] at d1; rw [h4] at d2
  injection f1 with f1; injection f2 with f2; injection d1 with d1; injection d2 with d2
  subst f1 f2 d1 d2
  rw [f hty] at hopts; cases hopts

/-- **observer type summary with `histogram_options`**, whatever the source of the observer type. -/
theorem rejects_summary_with_histogram_options (obs tim dobs dtim : Option ObsTy)
    (h1 : optDec decObserverType r.observerType = .ok obs) (h2 : optDec decObserverType r.timerType = .ok tim)
    (h3 : optDec decObserverType raw.defaults.observerType = .ok dobs)
    (h4 : optDec decObserverType raw.defaults.timerType = .ok dtim)
    (hty : effObs obs tim (defaultObs dobs dtim) = .summary)
    (hopts : r.histOpts.isSome = true) : ∃ e, load rxOk db dq raw = .error e := by
  refine reject_of rxOk db dq raw fun cfg h => ?_
  obtain ⟨dobs0, dtim0, _, obs0, tim0, _, _, _, d1, d2, _, f1, f2, _, _, _, _, _, _, _, _, _, _, _, f⟩ :=
    accepted_rule_facts h r (mem_rules raw pre post r hr)
  rw [h1] at f1; rw [h2] at f2; rw [h3] at d1; rw [h4] at d2
  injection f1 with f1; injection f2 with f2; injection d1 with d1; injection d2 with d2
  subst f1 f2 d1 d2
  rw [f hty] at hopts; cases hopts

/-- … in particular `observer_type: histogram` on the rule itself with `summary_options` (no assumption on
    the defaults: if they do not decode the configuration is rejected anyway), -/
theorem rejects_explicit_histogram_with_summary_options (hty : r.observerType = some (strBytes "histogram"))
    (hopts : r.summaryOpts.isSome = true) : ∃ e, load rxOk db dq raw = .error e := by
  refine reject_of rxOk db dq raw fun cfg h => ?_
  obtain ⟨dobs0, dtim0, _, obs0, tim0, _, _, _, _, _, _, f1, _, _, _, _, _, _, _, _, _, _, _, f, _⟩ :=
    accepted_rule_facts h r (mem_rules raw pre post r hr)
  rw [hty] at f1
  have : obs0 = some .histogram := by
    have e : optDec decObserverType (some (strBytes "histogram")) = .ok (some ObsTy.histogram) := rfl
    rw [e] at f1; injection f1 with f1; exact f1.symm
  subst this
  rw [f rfl] at hopts; cases hopts

/-- … and `observer_type: summary` on the rule itself with `histogram_options`. -/
theorem rejects_explicit_summary_with_histogram_options (hty : r.observerType = some (strBytes "summary"))
    (hopts : r.histOpts.isSome = true) : ∃ e, load rxOk db dq raw = .error e := by
  refine reject_of rxOk db dq raw fun cfg h => ?_
  obtain ⟨dobs0, dtim0, _, obs0, tim0, _, _, _, _, _, _, f1, _, _, _, _, _, _, _, _, _, _, _, _, f⟩ :=
    accepted_rule_facts h r (mem_rules raw pre post r hr)
  rw [hty] at f1
  have : obs0 = some .summary := by
    have e : optDec decObserverType (some (strBytes "summary")) = .ok (some ObsTy.summary) := rfl
    rw [e] at f1; injection f1 with f1; exact f1.symm
  subst this
  rw [f rfl] at hopts; cases hopts

/-- **buckets not strictly increasing**: a rule that ends up with histogram options — it is histogram-typed
    (`observer_type` / `timer_type` of the rule or of the defaults), or it has `histogram_options` — and whose
    effective bucket list (legacy `buckets`, `histogram_options.buckets`, or the effective default buckets,
    see `effBuckets`) is not strictly increasing is rejected (`validateBuckets`). -/
theorem rejects_unsorted_buckets (obs tim dobs dtim : Option ObsTy)
    (h1 : optDec decObserverType r.observerType = .ok obs) (h2 : optDec decObserverType r.timerType = .ok tim)
    (h3 : optDec decObserverType raw.defaults.observerType = .ok dobs)
    (h4 : optDec decObserverType raw.defaults.timerType = .ok dtim)
    (hhist : effHasHist r (effObs obs tim (defaultObs dobs dtim)) = true)
    (hbad : strictlyIncreasing (effBuckets r (effObs obs tim (defaultObs dobs dtim)) (effDefBuckets raw db)) = false) :
    ∃ e, load rxOk db dq raw = .error e := by
  refine reject_of rxOk db dq raw fun cfg h => ?_
  obtain ⟨dobs0, dtim0, obs0, tim0, d1, d2, f1, f2, f, _⟩ := accepted_rule_options h r (mem_rules raw pre post r hr)
  rw [h1] at f1; rw [h2] at f2; rw [h3] at d1; rw [h4] at d2
  injection f1 with f1; injection f2 with f2; injection d1 with d1; injection d2 with d2
  subst f1 f2 d1 d2
  rw [hhist, hbad] at f; cases f

/-- … in particular `histogram_options: {buckets: b}` with a non-empty `b` that is not strictly increasing,
    whatever the observer type and the defaults (no assumption on the rest of the configuration). -/
theorem rejects_unsorted_histogram_options (b : List V) (hopts : r.histOpts = some (some b)) (hne : b.isEmpty = false)
    (hbad : strictlyIncreasing b = false) : ∃ e, load rxOk db dq raw = .error e := by
  refine reject_of rxOk db dq raw fun cfg h => ?_
  obtain ⟨_, _, _, _, _, _, _, _, _, _, _, _, _, _, _, _, _, _, _, _, _, _, fb, _, _⟩ :=
    accepted_rule_facts h r (mem_rules raw pre post r hr)
  obtain ⟨dobs0, dtim0, obs0, tim0, _, _, _, _, f, _⟩ := accepted_rule_options h r (mem_rules raw pre post r hr)
  have hraw : rawBuckets r = b := by unfold rawBuckets; rw [hopts]
  -- legacy `buckets` cannot be present next to `histogram_options.buckets`
  have hleg : legacyOrRawBuckets r = b := by
    unfold legacyOrRawBuckets
    cases hl : r.legacyBuckets with
    | none => exact hraw
    | some lb =>
      unfold histBucketsSet at fb
      rw [hopts, hl] at fb; cases fb
  have hh : effHasHist r (effObs obs0 tim0 (defaultObs dobs0 dtim0)) = true := by
    unfold effHasHist; split
    · rfl
    · rw [hopts]; rfl
  have hb : effBuckets r (effObs obs0 tim0 (defaultObs dobs0 dtim0)) (effDefBuckets raw db) = b := by
    unfold effBuckets; split
    · rw [hleg, hne]; rfl
    · exact hraw
  rw [hh, hb, hbad] at f; cases f

/-- **invalid summary options**: a rule that ends up with summary options — it is summary-typed, or it has
    `summary_options` — and whose effective quantiles / `max_age` / `age_buckets` (its own, else the effective
    defaults', see `effQuantiles`, `effMaxAge`, `effAgeB`) fail `validateSummaryOptions` (a rank outside [0, 1],
    a negative `max_age`, or a non-zero `max_age` smaller than the number of age buckets) is rejected. -/
theorem rejects_bad_summary_options (obs tim dobs dtim : Option ObsTy)
    (h1 : optDec decObserverType r.observerType = .ok obs) (h2 : optDec decObserverType r.timerType = .ok tim)
    (h3 : optDec decObserverType raw.defaults.observerType = .ok dobs)
    (h4 : optDec decObserverType raw.defaults.timerType = .ok dtim)
    (hsum : effHasSum r (effObs obs tim (defaultObs dobs dtim)) = true)
    (hbad : summaryOptsOk (effQuantiles r (effObs obs tim (defaultObs dobs dtim)) (effDefQuantiles raw dq))
      (effMaxAge r (effObs obs tim (defaultObs dobs dtim)) (defSumOpts raw).maxAge)
      (effAgeB r (effObs obs tim (defaultObs dobs dtim)) (defSumOpts raw).ageBuckets) = false) :
    ∃ e, load rxOk db dq raw = .error e := by
  refine reject_of rxOk db dq raw fun cfg h => ?_
  obtain ⟨dobs0, dtim0, obs0, tim0, d1, d2, f1, f2, _, f⟩ := accepted_rule_options h r (mem_rules raw pre post r hr)
  rw [h1] at f1; rw [h2] at f2; rw [h3] at d1; rw [h4] at d2
  injection f1 with f1; injection f2 with f2; injection d1 with d1; injection d2 with d2
  subst f1 f2 d1 d2
  rw [hsum, hbad] at f; cases f

/-- … in particular `summary_options` with a negative `max_age`, whatever the observer type and the defaults. -/
theorem rejects_negative_max_age (q : Option (List (V × V))) (a : Int) (b c : Nat)
    (hopts : r.summaryOpts = some (q, a, b, c)) (hneg : a < 0) : ∃ e, load rxOk db dq raw = .error e := by
  refine reject_of rxOk db dq raw fun cfg h => ?_
  obtain ⟨dobs0, dtim0, obs0, tim0, _, _, _, _, _, f⟩ := accepted_rule_options h r (mem_rules raw pre post r hr)
  have hraw : rawMaxAge r = a := by unfold rawMaxAge; rw [hopts]
  have hs : effHasSum r (effObs obs0 tim0 (defaultObs dobs0 dtim0)) = true := by
    unfold effHasSum; split
    · rfl
    · rw [hopts]; rfl
  have hm : effMaxAge r (effObs obs0 tim0 (defaultObs dobs0 dtim0)) (defSumOpts raw).maxAge = a := by
    unfold effMaxAge; rw [hraw]
    have : (a == 0) = false := by
      have : a ≠ 0 := by omega
      simpa using this
    rw [this]; simp
  rw [hs, hm] at f
  have hbad : ∀ qs n, summaryOptsOk (V := V) qs a n = false := by
    intro qs n
    unfold summaryOptsOk
    have : decide (a < 0) = true := by simpa using hneg
    rw [this]; simp
  rw [hbad] at f; cases f

omit hr

/-- **unknown `observer_type` in the defaults** -/
theorem rejects_unknown_default_observer_type (s : Bytes) (hs : raw.defaults.observerType = some s)
    (h1 : s ≠ strBytes "histogram") (h2 : s ≠ strBytes "summary") (h3 : s ≠ []) :
    ∃ e, load rxOk db dq raw = .error e := by
  refine except_error_of_not_ok fun cfg h => ?_
  obtain ⟨_, _, _, f, _⟩ := load_ok_inv h
  rw [hs, optDec_error _ _ _ (decObserverType_unknown s h1 h2 h3)] at f; cases f

/-- **unknown `timer_type` in the defaults** -/
theorem rejects_unknown_default_timer_type (s : Bytes) (hs : raw.defaults.timerType = some s)
    (h1 : s ≠ strBytes "histogram") (h2 : s ≠ strBytes "summary") (h3 : s ≠ []) :
    ∃ e, load rxOk db dq raw = .error e := by
  refine except_error_of_not_ok fun cfg h => ?_
  obtain ⟨_, _, _, _, f, _⟩ := load_ok_inv h
  rw [hs, optDec_error _ _ _ (decObserverType_unknown s h1 h2 h3)] at f; cases f

/-- **unknown `match_type` in the defaults** -/
theorem rejects_unknown_default_match_type (s : Bytes) (hs : raw.defaults.matchType = some s)
    (h1 : s ≠ strBytes "regex") (h2 : s ≠ strBytes "glob") (h3 : s ≠ []) :
    ∃ e, load rxOk db dq raw = .error e := by
  refine except_error_of_not_ok fun cfg h => ?_
  obtain ⟨_, _, _, _, _, f, _⟩ := load_ok_inv h
  rw [hs, optDec_error _ _ _ (decMatchType_unknown s h1 h2 h3)] at f; cases f

/-- **default buckets not strictly increasing**: the effective default buckets — the defaults'
    `histogram_options.buckets`, else their legacy `buckets`, else the library's `db` — are validated as well. -/
theorem rejects_unsorted_default_buckets (hbad : strictlyIncreasing (effDefBuckets raw db) = false) :
    ∃ e, load rxOk db dq raw = .error e := by
  refine except_error_of_not_ok fun cfg h => ?_
  obtain ⟨_, _, _, _, _, _, d, _, _, _, _, _, e3, _, _, _, v1, _⟩ := load_ok_inv h
  rw [e3, hbad] at v1; cases v1

/-- **invalid default summary options**: the effective default quantiles (the defaults' `summary_options.quantiles`,
    else their legacy `quantiles`, else the exporter's `dq`), `max_age` and `age_buckets` are validated as well. -/
theorem rejects_bad_default_summary_options
    (hbad : summaryOptsOk (effDefQuantiles raw dq) (defSumOpts raw).maxAge (defSumOpts raw).ageBuckets = false) :
    ∃ e, load rxOk db dq raw = .error e := by
  refine except_error_of_not_ok fun cfg h => ?_
  obtain ⟨_, _, _, _, _, _, d, _, _, _, _, _, _, e4, e5, e6, _, v2, _⟩ := load_ok_inv h
  rw [e4, e5, e6, hbad] at v2; cases v2

end reject

/-! ## (b) a safe configuration never panics -/

section safe
variable {V : Type} [NumOps V]

/-- The empty registry (with any pre-registered families) is safe. -/
theorem vecs_safe_empty (pre : List (Bytes × MType × Bytes)) : VecsSafe ({ metrics := [], pre := pre } : Reg V) :=
  VecsSafe_empty pre

/-- The stale-series sweep keeps the registry safe. -/
theorem vecs_safe_sweep (r : Reg V) (now : Int) (h : VecsSafe r) : VecsSafe (r.sweep now) := VecsSafe_sweep h now

/-- **A safe configuration never panics.** If the current configuration is `ConfigSafe` and every existing
    vector was created under a safe configuration (`VecsSafe`), then for every event, every tag set and every
    regex oracle `handleEvent` does not end in a `Panic` outcome (constructor panic or `summaryHang`). -/
theorem config_safe_never_panics (p : Pipe V) (rx : Rx) (ev : Ev V) (tags : Labels)
    (hc : ConfigSafe p.mapper.cfg) (hv : VecsSafe p.reg) (pn : Panic) :
    handleEvent p rx ev tags ≠ some (.error pn) :=
  handleEvent_no_panic hc hv pn

/-- … and the registry it leaves is safe again (so is the unchanged configuration). -/
theorem vecs_safe_preserved (p p' : Pipe V) (rx : Rx) (ev : Ev V) (tags : Labels)
    (hc : ConfigSafe p.mapper.cfg) (hv : VecsSafe p.reg) (h : handleEvent p rx ev tags = some (.ok p')) :
    VecsSafe p'.reg ∧ ConfigSafe p'.mapper.cfg :=
  ⟨VecsSafe_handleEvent hc hv h, by rw [(handleEvent_keeps h).1]; exact hc⟩

/-- All events of a line. -/
theorem config_safe_events_never_panic (p : Pipe V) (rx : Rx) (tags : Labels) (evs : List (Ev V))
    (hc : ConfigSafe p.mapper.cfg) (hv : VecsSafe p.reg) :
    (∀ pn, handleEvents p rx tags evs ≠ some (.error pn)) ∧
    (∀ p', handleEvents p rx tags evs = some (.ok p') → VecsSafe p'.reg ∧ ConfigSafe p'.mapper.cfg) := by
  obtain ⟨h1, h2⟩ := handleEvents_safe (rx := rx) (tags := tags) evs hc hv
  refine ⟨h1, fun p' h => ?_⟩
  obtain ⟨a, b, _⟩ := h2 p' h
  exact ⟨a, by rw [b]; exact hc⟩

/-- **Whole histories**: event batches, sweeps, clock changes and configuration reloads in any order. If the
    initial configuration and every reloaded one is safe (`OpsSafe`) and the initial registry is safe (for
    instance empty), the history never ends in a `Panic` outcome, and the final state is safe. -/
theorem config_safe_history_never_panics (rx : Rx) (p : Pipe V) (ops : List (PipeOp V))
    (hc : ConfigSafe p.mapper.cfg) (hv : VecsSafe p.reg) (hs : OpsSafe ops) :
    (∀ pn, runOps rx p ops ≠ some (.error pn)) ∧
    (∀ p', runOps rx p ops = some (.ok p') → VecsSafe p'.reg ∧ ConfigSafe p'.mapper.cfg) :=
  runOps_safe rx ops hc hv hs

/-- **`Gather` does not panic on a safe registry** (no summary objective indexes out of range). -/
theorem config_safe_gather_never_panics (r : Reg V) (h : VecsSafe r) : r.gatherPanics = false :=
  gatherPanics_false_of_safe h

/-- … hence after every history among safe configurations. -/
theorem history_gather_never_panics (rx : Rx) (p p' : Pipe V) (ops : List (PipeOp V))
    (hc : ConfigSafe p.mapper.cfg) (hv : VecsSafe p.reg) (hs : OpsSafe ops)
    (h : runOps rx p ops = some (.ok p')) : p'.reg.gatherPanics = false :=
  gatherPanics_false_of_safe ((runOps_safe rx ops hc hv hs).2 p' h).1

/-- `ConfigSafe` is the decidable check `configOk` (buckets strictly increasing, `MaxAge ≥ 0`, non-zero
    stream duration, for every non-drop rule and the defaults) plus the one undecidable-in-general part:
    the objectives of every summary-typed option set never index out of range. -/
theorem config_safe_iff (cfg : Config V) :
    ConfigSafe cfg ↔ configOk cfg = true ∧
      (∀ r, r ∈ cfg.rules → r.action ≠ .drop → ruleObsTy cfg r ≠ .histogram → ObjectivesSafe (ruleObjectives cfg r)) ∧
      (cfg.dObserverType ≠ .histogram → ObjectivesSafe (cfg.dQuantiles.map (·.1))) :=
  configSafe_iff cfg

/-- What "objectives safe" means arithmetically: it suffices that `ceil(l·q)` lies in `[0, l]` for every sample
    count `l` — which IEEE arithmetic gives for every rank `q ∈ [0, 1]`. -/
theorem objectives_safe_of_ceil_bounds (objs : List V)
    (h : ∀ (l : Nat) (q : V), q ∈ objs → 0 ≤ NumOps.ceilMul l q ∧ NumOps.ceilMul l q ≤ (l : Int)) :
    ObjectivesSafe objs := by
  intro l q hq
  obtain ⟨h0, h1⟩ := h l q hq
  unfold queryPanics
  simp only [Bool.and_eq_false_imp, decide_eq_true_eq, Bool.or_eq_false_iff, decide_eq_false_iff_not]
  intro hl
  split <;> omega

end safe

/-! ## (c) the loader establishes `ConfigSafe` -/

section accepted
variable {V : Type} [NumOps V]

/-- **Every configuration the loader accepts is safe to run.** `LoaderAssumptions raw` (a structure of
    hypotheses, SE/Proofs/SafetyLoaded.lean) asks for
    * `objectiveLaw : ObjectiveLaw V` — for every rank `q` with `q ≥ 0` and `q ≤ 1` and every sample count `l`,
      `queryPanics l q = false` (IEEE: `ceil(l·q) ∈ [0, l]`);
      (the `uint32` hypotheses about `age_buckets` are gone since the repair 2eac18a: the loader checks the effective
      window itself).
    Nothing is assumed about the library defaults `db`, `dq`: the loader validates the effective defaults. -/
theorem accepted_config_safe (rxOk : Bytes → Bool) (db : List V) (dq : List (V × V)) (raw : RawConfig V) (cfg : Config V)
    (ha : LoaderAssumptions raw) (h : load rxOk db dq raw = .ok cfg) : ConfigSafe cfg :=
  load_configSafe ha h

/-- what the loader validated, without any assumption on the number type: all bucket lists the exporter can use
    are strictly increasing, all summary option sets it can use pass `summaryOptsOk` -/
theorem accepted_config_validated (rxOk : Bytes → Bool) (db : List V) (dq : List (V × V)) (raw : RawConfig V) (cfg : Config V)
    (h : load rxOk db dq raw = .ok cfg) : ConfigValidated cfg :=
  load_validated h

/-- **Every summary a loaded configuration can create steps its buffers by at least a millisecond**: the defaults and
    every rule with summary options of its own have `max_age / age_buckets ≥ 1ms` (library defaults filled in). This is
    the range in which the model's "`Observe` and `Gather` return" is faithful to client_golang's catch-up loop
    (elapsed / stream duration iterations); between 1ns and 1ms the loop is slow to practically endless, and no loaded
    configuration gets there. -/
theorem loaded_stream_duration_ge_1ms (rxOk : Bytes → Bool) (db : List V) (dq : List (V × V)) (raw : RawConfig V) (cfg : Config V)
    (h : load rxOk db dq raw = .ok cfg) :
    minStreamDuration ≤ streamDuration cfg.dMaxAge cfg.dAgeBuckets ∧
    ∀ r, r ∈ cfg.rules → r.hasSummaryOpts = true → minStreamDuration ≤ streamDuration r.maxAge r.ageBuckets := by
  have hv := load_validated h
  exact ⟨streamDuration_ge_of_ok hv.dSummary, fun r hr' hs => streamDuration_ge_of_ok (hv.ruleSummary r hr' hs)⟩

/-- **A loaded configuration never panics.** Let `cfg` be accepted by the loader (under `LoaderAssumptions`), be
    the current configuration of a pipeline whose registry is safe (`VecsSafe`: for instance empty, or left by
    earlier runs under loaded configurations). Then no event, no line and no history — with sweeps, clock
    changes and reloads among loaded configurations (`OpsLoaded`) — ends in a `Panic` outcome, and `Gather` does
    not panic after any such history. -/
theorem loaded_config_never_panics (rxOk : Bytes → Bool) (db : List V) (dq : List (V × V)) (raw : RawConfig V) (cfg : Config V)
    (ha : LoaderAssumptions raw) (h : load rxOk db dq raw = .ok cfg)
    (p : Pipe V) (hp : p.mapper.cfg = cfg) (hv : VecsSafe p.reg) (rx : Rx) :
    (∀ ev tags pn, handleEvent p rx ev tags ≠ some (.error pn)) ∧
    (∀ tags evs pn, handleEvents p rx tags evs ≠ some (.error pn)) ∧
    (∀ ops, OpsLoaded ops →
      (∀ pn, runOps rx p ops ≠ some (.error pn)) ∧
      (∀ p', runOps rx p ops = some (.ok p') → p'.reg.gatherPanics = false)) ∧
    p.reg.gatherPanics = false := by
  have hc : ConfigSafe p.mapper.cfg := by rw [hp]; exact load_configSafe ha h
  refine ⟨fun ev tags pn => config_safe_never_panics p rx ev tags hc hv pn,
    fun tags evs pn => (config_safe_events_never_panic p rx tags evs hc hv).1 pn,
    fun ops ho => ⟨(config_safe_history_never_panics rx p ops hc hv ho.opsSafe).1,
      fun p' h' => history_gather_never_panics rx p p' ops hc hv ho.opsSafe h'⟩,
    config_safe_gather_never_panics p.reg hv⟩

/-- … in particular from the start of the process: a freshly loaded mapper and an empty registry. -/
theorem loaded_config_never_panics_from_start (rxOk : Bytes → Bool) (db : List V) (dq : List (V × V)) (raw : RawConfig V)
    (cfg : Config V) (ha : LoaderAssumptions raw) (h : load rxOk db dq raw = .ok cfg)
    (pre : List (Bytes × MType × Bytes)) (rx : Rx) (ops : List (PipeOp V)) (ho : OpsLoaded ops) :
    (∀ pn, runOps rx { mapper := MState.fresh cfg, reg := { metrics := [], pre := pre } } ops ≠ some (.error pn)) ∧
    (∀ p', runOps rx { mapper := MState.fresh cfg, reg := { metrics := [], pre := pre } } ops = some (.ok p') →
      p'.reg.gatherPanics = false) :=
  ((loaded_config_never_panics rxOk db dq raw cfg ha h
    { mapper := MState.fresh cfg, reg := { metrics := [], pre := pre } } rfl (vecs_safe_empty pre) rx).2.2.1 ops ho)

/-- **A loaded configuration is safe to run, scrapes included.** From the start of the process — a freshly loaded
    mapper, an empty registry, no family pre-registered under a statsd name (`pre := []`) — no history (event
    batches, sweeps, clock changes, reloads among loaded configurations, in any order) ends in a panic, and after
    every such history `Gather` neither panics nor returns an error: no two help strings for one family (the
    registry's `helpFor`, `HelpUniform`), no `_sum/_count/_bucket` suffix collision (`SuffixFree`). Two rules that
    map to one metric name with different help strings, or a reload that changes a help string, are harmless: the
    first help string of the name stays. (The `gatherOk` part needs neither `LoaderAssumptions` nor `OpsLoaded`:
    it holds for every configuration and every history, SE.Props.C03.scrape_succeeds_without_preregistered.) -/
theorem loaded_config_scrape_succeeds (rxOk : Bytes → Bool) (db : List V) (dq : List (V × V)) (raw : RawConfig V)
    (cfg : Config V) (ha : LoaderAssumptions raw) (h : load rxOk db dq raw = .ok cfg)
    (rx : Rx) (ops : List (PipeOp V)) (ho : OpsLoaded ops) :
    (∀ pn, runOps rx { mapper := MState.fresh cfg, reg := { metrics := [], pre := [] } } ops ≠ some (.error pn)) ∧
    (∀ p', runOps rx { mapper := MState.fresh cfg, reg := { metrics := [], pre := [] } } ops = some (.ok p') →
      p'.reg.gatherPanics = false ∧ p'.reg.gatherOk = true) := by
  obtain ⟨h1, h2⟩ := loaded_config_never_panics_from_start rxOk db dq raw cfg ha h [] rx ops ho
  refine ⟨h1, fun p' h' => ⟨h2 p' h', ?_⟩⟩
  exact gatherOk_of_suffixFree_helpUniform
    (SuffixFree_runOps rx ops (RegWF_empty []) (SuffixFree_empty []) h').2
    (HelpUniform_runOps rx ops (RegWF_empty []) (HelpUniform_empty []) h').2
    (by rw [pre_runOps rx ops h'])

/-- with valid library defaults, the configuration without any setting is accepted (so the hypothesis
    `load … = .ok cfg` of the theorems above is satisfiable for every number type with such defaults) -/
theorem empty_config_accepted (rxOk : Bytes → Bool) (db : List V) (dq : List (V × V)) (hs : LibraryDefaultsSane db dq) :
    ∃ cfg, load rxOk db dq {} = .ok cfg := by
  have hq : summaryOptsOk dq 0 0 = true :=
    (summaryOptsOk_iff dq 0 0).mpr ⟨hs.quantiles, Int.le_refl 0, by decide⟩
  cases hl : load rxOk db dq {} with
  | ok cfg => exact ⟨cfg, rfl⟩
  | error e =>
    exfalso
    unfold load at hl
    simp [optDec, bind, Except.bind, pure, Except.pure, hs.buckets, hq] at hl

end accepted

/-- every configuration that `load` accepts is safe to run (under `LoaderAssumptions`), as one closed statement -/
def accepted_config_safe_statement : Prop :=
  ∀ (V : Type) [NumOps V] (rxOk : Bytes → Bool) (db : List V) (dq : List (V × V)) (raw : RawConfig V) (cfg : Config V),
    LoaderAssumptions raw → load rxOk db dq raw = .ok cfg → ConfigSafe cfg

/-- (this statement was false before the loader validated buckets and summary options) -/
theorem accepted_config_safe_holds : accepted_config_safe_statement :=
  fun _ _ rxOk db dq raw cfg ha h => accepted_config_safe rxOk db dq raw cfg ha h

section counterexamples
attribute [local instance] toyNumOps

/-- `prometheus.DefBuckets` and `defaultQuantiles` stand-ins on the toy number type: sorted buckets, ranks 0 and 1 -/
private def db0 : List Int := [1, 2, 3]
private def dq0 : List (Int × Int) := [(0, 0), (1, 0)]
private def noRx : Rx := fun _ _ => none
private def obsEv (name : Bytes) : Ev Int := { kind := .observer, name := name, value := 1, relative := false }

/-- the objective law holds on the toy number type (`ceil(l·q) = l·q`; the ranks in [0, 1] are 0 and 1) -/
theorem toy_objectiveLaw : ObjectiveLaw Int := by
  intro q h0 h1 l
  have h0' : q ≥ 0 := by have h : decide (q ≥ 0) = true := h0; simpa using h
  have h1' : q ≤ 1 := by have h : decide (q ≤ 1) = true := h1; simpa using h
  have hq : q = 0 ∨ q = 1 := by omega
  unfold queryPanics
  show (decide (l > 0) && (decide ((if (l : Int) * q > 0 then (l : Int) * q - 1 else (l : Int) * q) < 0) ||
    decide ((if (l : Int) * q > 0 then (l : Int) * q - 1 else (l : Int) * q) ≥ (l : Int)))) = false
  simp only [Bool.and_eq_false_imp, decide_eq_true_eq, Bool.or_eq_false_iff, decide_eq_false_iff_not]
  intro hl
  rcases hq with e | e <;> subst e <;> (split <;> omega)

/-- … and so do the library-default stand-ins -/
theorem toy_defaults_sane : LibraryDefaultsSane db0 dq0 :=
  ⟨by decide, by
    intro q hq
    have : q = (0, 0) ∨ q = (1, 0) := by simpa [dq0] using hq
    rcases this with e | e <;> subst e <;> decide⟩

/-- one rule `match: a`, `name: a`, `observer_type: histogram`, `histogram_options: {buckets: [1, 0]}` -/
def rawUnsortedBuckets : RawConfig Int :=
  { rules := [{ matchStr := [97], name := [97], observerType := some (strBytes "histogram"), histOpts := some (some [1, 0]) }] }

/-- **Unsorted buckets are now rejected** (the old loader accepted this configuration, and the first timer event
    `a` panicked in `NewHistogram`: "buckets must be in increasing order"). -/
theorem now_rejects_unsorted_buckets : ∃ e, load (fun _ => true) db0 dq0 rawUnsortedBuckets = .error e :=
  rejects_unsorted_histogram_options _ _ _ rawUnsortedBuckets [] [] _ rfl [1, 0] rfl rfl (by decide)

/-- defaults: `observer_type: summary`, `summary_options: {max_age: -1ns}`; no rules -/
def rawNegativeMaxAge : RawConfig Int :=
  { defaults := { observerType := some (strBytes "summary"), summaryOpts := { maxAge := -1 } } }

/-- **A negative `max_age` is now rejected** (the old loader accepted it, and the first unmapped timer event
    panicked in `NewSummary`: "illegal max age"). -/
theorem now_rejects_negative_max_age : ∃ e, load (fun _ => true) db0 dq0 rawNegativeMaxAge = .error e :=
  rejects_bad_default_summary_options _ _ _ rawNegativeMaxAge (by decide)

/-- defaults: `observer_type: summary`, `summary_options: {max_age: 4ns}` (age buckets left at their default 5) -/
def rawTinyMaxAge : RawConfig Int :=
  { defaults := { observerType := some (strBytes "summary"), summaryOpts := { maxAge := 4 } } }

/-- **`max_age: 4ns` with the default five age buckets is now rejected** (the old loader accepted it: the stream
    duration is `4 / 5 = 0` and the first `Observe` never returned, `summaryHang`). -/
theorem now_rejects_zero_stream_duration : ∃ e, load (fun _ => true) db0 dq0 rawTinyMaxAge = .error e :=
  rejects_bad_default_summary_options _ _ _ rawTinyMaxAge (by decide)

/-- defaults: `observer_type: summary`, `summary_options: {quantiles: [{quantile: 2, error: 0}]}` -/
def rawBadObjective : RawConfig Int :=
  { defaults := { observerType := some (strBytes "summary"), summaryOpts := { quantiles := [(2, 0)] } } }

/-- the rank 2 makes `Query` index out of range with three samples (on the toy type `ceil(l·q) = l·q`) -/
example : queryPanics 3 (2 : Int) = true := by decide

/-- **An objective outside [0, 1] is now rejected** (the old loader accepted it: the events were processed, and
    the next scrape panicked inside `Gather`, perks' `Query`, leaving the summary's mutex locked). -/
theorem now_rejects_bad_objective : ∃ e, load (fun _ => true) db0 dq0 rawBadObjective = .error e :=
  rejects_bad_default_summary_options _ _ _ rawBadObjective (by decide)

/-- defaults: `observer_type: summary`, `summary_options: {max_age: 30ns}`: the stream duration `30 / 5` is six
    nanoseconds, not zero -/
def rawNanosecondMaxAge : RawConfig Int :=
  { defaults := { observerType := some (strBytes "summary"), summaryOpts := { maxAge := 30 } } }

/-- **A stream duration of a few nanoseconds is now rejected** (the loader repaired by 05034cf rejected only a stream
    duration of zero and accepted this: client_golang's `swapBufs` advances the buffer expiry in steps of the stream
    duration until it has caught up with the wall clock, and with a step shorter than one loop iteration it never
    does - the first scrape or observation after the summary was created did not return; found when the C19 stream
    got `max_age` values of a few nanoseconds). The loader now wants at least a millisecond per age bucket. -/
theorem now_rejects_nanosecond_stream_duration : ∃ e, load (fun _ => true) db0 dq0 rawNanosecondMaxAge = .error e :=
  rejects_bad_default_summary_options _ _ _ rawNanosecondMaxAge (by decide)

/-- `age_buckets: 10^12` with `max_age` unset: the default ten-minute window split into 10^12 buckets has a stream
    duration of zero. The old model needed a `uint32` hypothesis in `LoaderAssumptions` to exclude it (and a
    `uint32` as large as 4·10^9 still gave 150ns); the loader now computes the effective window itself and rejects it,
    and the hypothesis is gone. -/
def rawHugeAgeBuckets : RawConfig Int :=
  { defaults := { observerType := some (strBytes "summary"), summaryOpts := { ageBuckets := 1000000000000 } } }

theorem now_rejects_huge_age_buckets : ∃ e, load (fun _ => true) db0 dq0 rawHugeAgeBuckets = .error e :=
  rejects_bad_default_summary_options _ _ _ rawHugeAgeBuckets (by decide)

/-! ### Non-vacuity of (a) and (b) -/

/-- a valid configuration loads: `match: a.*`, `name: b`, histogram with buckets 1 < 2 -/
private def rawGood : RawConfig Int :=
  { rules := [{ matchStr := strBytes "a.*", name := [98], observerType := some (strBytes "histogram"),
                histOpts := some (some [1, 2]) }] }

example : (load (fun _ => true) db0 dq0 rawGood).toBool = true := by with_unfolding_all decide

/-- … it is `ConfigSafe` (checked through `config_safe_iff`: the decidable part by evaluation, the objectives
    0 and 1 of the defaults by `objectives_safe_of_ceil_bounds`) -/
example : ∃ cfg, load (fun _ => true) db0 dq0 rawGood = .ok cfg ∧ ConfigSafe cfg := by
  have hobj : ObjectivesSafe (dq0.map (·.1)) := by
    apply objectives_safe_of_ceil_bounds
    intro l q hq
    have : q = 0 ∨ q = 1 := by simpa [dq0] using hq
    show 0 ≤ (l : Int) * q ∧ (l : Int) * q ≤ l
    rcases this with e | e <;> subst e <;> omega
  cases hl : load (fun _ => true) db0 dq0 rawGood with
  | error e =>
    have : (load (fun _ => true) db0 dq0 rawGood).toBool = true := by with_unfolding_all decide
    rw [hl] at this; cases this
  | ok cfg =>
    refine ⟨cfg, rfl, (config_safe_iff cfg).mpr ⟨?_, ?_, ?_⟩⟩
    · have : (match load (fun _ => true) db0 dq0 rawGood with | .ok c => configOk c | .error _ => false) = true := by
        with_unfolding_all decide
      rw [hl] at this; exact this
    · have hq : (match load (fun _ => true) db0 dq0 rawGood with
          | .ok c => c.rules.all (fun r => ruleObsTy c r == .histogram) | .error _ => false) = true := by
        with_unfolding_all decide
      rw [hl] at hq
      intro r hr _ hne
      have := List.all_eq_true.mp hq r hr
      exact absurd (by simpa using this) hne
    · have hq : (match load (fun _ => true) db0 dq0 rawGood with
          | .ok c => c.dQuantiles.map (·.1) == dq0.map (·.1) | .error _ => false) = true := by
        with_unfolding_all decide
      rw [hl] at hq
      intro _
      rw [show cfg.dQuantiles.map (·.1) = dq0.map (·.1) from by simpa using hq]
      exact hobj

/-- the hypotheses of (c) are satisfiable, and (c) gives the same conclusion without evaluating anything about the
    loaded configuration: `LoaderAssumptions rawGood` holds on the toy number type (`toy_objectiveLaw`), so `accepted_config_safe` applies -/
example : ∃ cfg, load (fun _ => true) db0 dq0 rawGood = .ok cfg ∧ ConfigSafe cfg := by
  have ha : LoaderAssumptions rawGood := ⟨toy_objectiveLaw⟩
  cases hl : load (fun _ => true) db0 dq0 rawGood with
  | error e =>
    have : (load (fun _ => true) db0 dq0 rawGood).toBool = true := by with_unfolding_all decide
    rw [hl] at this; cases this
  | ok cfg => exact ⟨cfg, rfl, accepted_config_safe _ _ _ _ _ ha hl⟩

/-- (d) is about something: two rules mapping `a` and `b` to the same metric `x` with the help strings "1" and "2" —
    the configuration that used to break every later scrape — load, satisfy `LoaderAssumptions`, and
    `loaded_config_scrape_succeeds` applies; the history `a:1|c`, `b:1|c|#k:v` runs to the end with both events
    applied, so its conclusion speaks about a family with two vectors -/
private def rawTwoHelps : RawConfig Int :=
  { rules := [{ matchStr := [97], name := [120], help := [49] }, { matchStr := [98], name := [120], help := [50] }] }

example : ∃ cfg, load (fun _ => true) db0 dq0 rawTwoHelps = .ok cfg ∧
    ∀ ops, OpsLoaded ops → ∀ p', runOps noRx { mapper := MState.fresh cfg, reg := { metrics := [], pre := [] } } ops = some (.ok p') →
      p'.reg.gatherPanics = false ∧ p'.reg.gatherOk = true := by
  have ha : LoaderAssumptions rawTwoHelps := ⟨toy_objectiveLaw⟩
  cases hl : load (fun _ => true) db0 dq0 rawTwoHelps with
  | error e =>
    have : (load (fun _ => true) db0 dq0 rawTwoHelps).toBool = true := by with_unfolding_all decide
    rw [hl] at this; cases this
  | ok cfg => exact ⟨cfg, rfl, fun ops ho => (loaded_config_scrape_succeeds _ _ _ _ _ ha hl noRx ops ho).2⟩

example : (match load (fun _ => true) db0 dq0 rawTwoHelps with
    | .ok cfg =>
      (match runOps noRx { mapper := MState.fresh cfg, reg := { metrics := [], pre := [] } }
          [.line [] [{ kind := .counter, name := [97], value := 1, relative := false }],
           .line [([107], [118])] [{ kind := .counter, name := [98], value := 1, relative := false }]] with
        | some (.ok p') => (p'.counts.applied, p'.reg.metrics.map fun m => m.vecs.map (·.help), p'.reg.gatherOk)
        | _ => (0, [], false))
    | .error _ => (0, [], false)) = (2, [[[49], [49]]], true) := by with_unfolding_all decide

/-- a summary-typed configuration with its own quantiles, `max_age` and `age_buckets` that is accepted -/
private def rawGoodSummary : RawConfig Int :=
  { defaults := { observerType := some (strBytes "summary"), summaryOpts := { quantiles := [(1, 0)], maxAge := 10000000000, ageBuckets := 2 } },
    rules := [{ matchStr := strBytes "a.*", name := [98], summaryOpts := some (some [(0, 0)], 0, 3, 0) }] }

example : (load (fun _ => true) db0 dq0 rawGoodSummary).toBool = true := by with_unfolding_all decide

/-- the empty configuration is accepted on the toy number type (`empty_config_accepted`) -/
example : ∃ cfg, load (fun _ => true) db0 dq0 {} = .ok cfg := empty_config_accepted _ _ _ toy_defaults_sane

/-- the same rule with an illegal label key `1x` is rejected, wherever it stands -/
example (pre post : List (RawRule Int)) :
    ∃ e, load (fun _ => true) db0 dq0
      { rules := pre ++ { matchStr := [97], name := [98], labels := [([49, 120], [99])] } :: post } = .error e :=
  rejects_bad_label_key _ _ _ _ pre post _ rfl [49, 120] [99] (by simp) (by decide)

end counterexamples

end SE.Props.C19
