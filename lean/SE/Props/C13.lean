import SE.Proofs.Cache
/-
C13 — The mapping cache is invisible.
For any configuration and any sequence of lookups and reloads, lookups answered with a mapping
cache of any kind (none / LRU / random replacement), any size and any eviction behaviour return
the same answer (`Option Mapped`: rule, expanded name, labels; `none` = not matched) as lookups
with no cache at all; a name cached as one metric type never answers for another type; nothing
cached under a previous configuration is returned after a reload.

Vocabulary (SE/Spec/History.lean): `Op` = one `GetMapping` call (with the eviction-oracle value a
random-replacement `Add` would consume) or the outcome of one config (re)load; `runCached` /
`runPlain` = the answers of the cached mapper / of the bare mapper object over a history. The
regex oracle `rx` (what Go's `regexp` answers) is arbitrary but fixed over a history.
-/
namespace SE.Props.C13
open SE
variable {V : Type}

/-- The string key `type + "." + name` determines the pair (type, name): the three type strings
    contain no `.`, so the first `.` separates them from the name. This justifies modelling cache
    keys as pairs. (`k.1 < 3`: the three metric types counter/gauge/observer.) -/
theorem formatKey_injective (k1 k2 : CKey) (h : formatKey k1 = formatKey k2) (h1 : k1.1 < 3) (h2 : k2.1 < 3) :
    k1 = k2 := by
  rw [formatKey_eq, formatKey_eq] at h
  obtain ⟨ht, hn⟩ := append_sep_inj 46 _ _ _ _ (tyStr_no_dot _) (tyStr_no_dot _) h
  exact Prod.ext (tyStr_inj _ _ h1 h2 ht) hn

/-- An empty cache (of any kind and size) is sound. -/
theorem empty_cache_sound (rx : Rx) (st : MState V) (kind size : Nat) :
    CacheSound rx { st := st, cache := { kind := kind, size := size, items := [] } } :=
  cacheSound_of_empty rx _ rfl

/-- `Get` returns only what is stored: a hit for `k` is the value of an entry with exactly key `k`. -/
theorem get_returns_stored {A : Type} (c : Cache A) (k : CKey) (a : A) (h : (c.get k).2 = some a) :
    (k, a) ∈ c.items :=
  Cache.get_some_mem c k a h

/-- `Get` changes neither kind nor size and invents no entry (LRU: move-to-front; others: unchanged). -/
theorem get_keeps_entries {A : Type} (c : Cache A) (k : CKey) :
    (c.get k).1.kind = c.kind ∧ (c.get k).1.size = c.size ∧ ∀ x, x ∈ (c.get k).1.items → x ∈ c.items :=
  ⟨Cache.get_kind c k, Cache.get_size c k, Cache.get_items_sub c k⟩

/-- With unique keys (which `Cache.WF` maintains) `Get` is a pure reordering of the entries. -/
theorem get_is_reordering {A : Type} (c : Cache A) (k : CKey) (h : c.WF) : (c.get k).1.items.Perm c.items :=
  Cache.get_items_perm c k h.nodup

/-- `Add` stores at most the new entry; whatever else is in the cache afterwards was there before —
    for every kind, every size (0 included) and every eviction choice. -/
theorem add_stores_only_new {A : Type} (c : Cache A) (k : CKey) (a : A) (choice : Nat) :
    ∀ x, x ∈ (c.add k a choice).items → x = (k, a) ∨ x ∈ c.items :=
  Cache.add_items_sub c k a choice

/-- Keys stay unique and a real cache never holds more than `size` entries, through `Get`, `Add`
    (any eviction choice) and `Reset`. -/
theorem wf_preserved {A : Type} (c : Cache A) (k : CKey) (a : A) (choice : Nat) (h : c.WF) :
    (c.get k).1.WF ∧ (c.add k a choice).WF ∧ c.reset.WF :=
  ⟨Cache.get_wf c k h, Cache.add_wf c k a choice h, Cache.reset_wf c⟩

/-- The cache law (DESIGN: `lru_lawful`, `rr_lawful`), one step at a time, for both real cache kinds,
    every size and every eviction choice: right after `Add(k, a)` a hit on `k` returns `a`, never an
    older value; a hit on another key returns what a hit on it would have returned before the `Add`;
    `Get` does not change what any later `Get` can return; after `Reset` nothing hits.
    (A miss is always possible: that is eviction.) -/
theorem cache_law {A : Type} (c : Cache A) (h : c.WF) (k k' : CKey) (a v : A) (choice : Nat) :
    (((c.add k a choice).get k).2 = some v → v = a) ∧
    (k' ≠ k → ((c.add k a choice).get k').2 = some v → (c.get k').2 = some v) ∧
    (((c.get k).1.get k').2 = some v → (c.get k').2 = some v) ∧
    (c.reset.get k).2 = none := by
  refine ⟨?_, ?_, ?_, ?_⟩
  · intro hg
    have hk : c.kind ≠ 0 := by
      intro h0
      rw [Cache.get_kind0 _ _ (by rw [Cache.add_kind]; exact h0)] at hg; cases hg
    exact Cache.add_items_key c k a v choice hk (Cache.get_some_mem _ _ _ hg)
  · intro hne hg
    have hk : c.kind ≠ 0 := by
      intro h0
      rw [Cache.get_kind0 _ _ (by rw [Cache.add_kind]; exact h0)] at hg; cases hg
    have hm := Cache.get_some_mem _ _ _ hg
    rcases Cache.add_items_sub c k a choice _ hm with heq | hin
    · exact absurd (Prod.mk.inj heq).1 hne
    · exact (Cache.get_some_iff c k' v h.nodup hk).mpr hin
  · intro hg
    have hk : c.kind ≠ 0 := by
      intro h0
      rw [Cache.get_kind0 _ _ (by rw [Cache.get_kind]; exact h0)] at hg; cases hg
    have hm := Cache.get_items_sub c k _ (Cache.get_some_mem _ _ _ hg)
    exact (Cache.get_some_iff c k' v h.nodup hk).mpr hm
  · cases hg : (c.reset.get k).2 with
    | none => rfl
    | some v' => have := Cache.get_some_mem _ _ _ hg; simp [Cache.reset] at this

/-- One cached `GetMapping` on a sound cached mapper: it answers exactly like the bare mapper
    object, does not touch the mapper object, and leaves the cache sound. -/
theorem lookup_sound (rx : Rx) (m : CachedMapper V) (name : Bytes) (ty choice : Nat) (h : CacheSound rx m) :
    (m.lookup rx name ty choice).2 = m.st.lookup rx name ty ∧
    (m.lookup rx name ty choice).1.st = m.st ∧
    CacheSound rx (m.lookup rx name ty choice).1 :=
  cached_lookup_spec rx m name ty choice h

/-- A reload keeps the cache sound: a successful one resets it (sound for the new mapper object),
    a failing one changes nothing. -/
theorem reload_sound (rx : Rx) (m : CachedMapper V) (l : Except LoadErr (Config V)) (h : CacheSound rx m) :
    CacheSound rx (m.reload l) :=
  cacheSound_reload rx m l h

/-- **The cache is invisible.** From a sound state, every history of lookups and reloads gets the
    same answers with the cache as without. -/
theorem cache_invisible (rx : Rx) (m : CachedMapper V) (st : MState V) (ops : List (Op V))
    (hs : CacheSound rx m) (hst : m.st = st) : runCached rx m ops = runPlain rx st ops := by
  subst hst; exact runCached_eq_runPlain rx ops m hs

/-- Corollary: a newly built mapper with an empty cache of any kind and any size, for every
    configuration, history, regex oracle and eviction oracle (the `choice`s inside `ops`). -/
theorem cache_invisible_fresh (rx : Rx) (n : Config V) (kind size : Nat) (ops : List (Op V)) :
    runCached rx (CachedMapper.fresh n kind size) ops = runPlain rx (MState.fresh n) ops :=
  cache_invisible rx _ _ ops (cacheSound_of_empty rx _ rfl) rfl

/-- Two cached mappers over the same mapper object — different cache kinds, sizes, contents and
    eviction oracles — give the same answers. -/
theorem cache_invisible_across_kinds (rx : Rx) (m1 m2 : CachedMapper V) (ops1 ops2 : List (Op V))
    (h1 : CacheSound rx m1) (h2 : CacheSound rx m2) (hst : m1.st = m2.st) (hops : sameUpToChoices ops1 ops2) :
    runCached rx m1 ops1 = runCached rx m2 ops2 := by
  rw [cache_invisible rx m1 _ ops1 h1 rfl, cache_invisible rx m2 _ ops2 h2 rfl, hst]
  exact runPlain_choice_irrelevant rx ops1 ops2 _ hops

/-- No cross-type answers: a hit for the key (ty, name) is the mapper's answer for exactly that
    type and that name (keys are pairs, see `formatKey_injective`). -/
theorem no_cross_type (rx : Rx) (m : CachedMapper V) (name : Bytes) (ty : Nat) (r : Option Mapped)
    (hs : CacheSound rx m) (hit : (m.cache.get (ty, name)).2 = some r) :
    r = m.st.lookup rx name ty := by
  have hk : m.cache.kind ≠ 0 := by
    intro h0; rw [Cache.get_kind0 _ _ h0] at hit; cases hit
  exact hs hk (ty, name) r (Cache.get_some_mem _ _ _ hit)

/-- Nothing cached under a previous configuration survives a successful reload: the cache is
    empty afterwards, whatever it contained (soundness of the old contents is not even needed),
    and every later answer is that of the cache-less mapper after the same swap. -/
theorem nothing_survives_reload (rx : Rx) (m : CachedMapper V) (n : Config V) (ops : List (Op V)) :
    (m.reload (.ok n)).cache.items = [] ∧
    runCached rx (m.reload (.ok n)) ops = runPlain rx (m.st.swap n) ops :=
  ⟨rfl, cache_invisible rx _ _ ops (cacheSound_of_empty rx _ rfl) rfl⟩

/- Non-vacuity: a full LRU evicts its oldest entry, a hit moves to the front, RR evicts the chosen index. -/
example : ((⟨1, 2, [((0, [1]), 7), ((0, [2]), 8)]⟩ : Cache Nat).add (0, [3]) 9 0).items
    = [((0, [3]), 9), ((0, [1]), 7)] := by decide
example : let r := (⟨1, 2, [((0, [1]), 7), ((0, [2]), 8)]⟩ : Cache Nat).get (0, [2])
    r.1.items = [((0, [2]), 8), ((0, [1]), 7)] ∧ r.2 = some 8 := by decide
example : ((⟨2, 2, [((0, [1]), 7), ((0, [2]), 8)]⟩ : Cache Nat).add (0, [3]) 9 1).items
    = [((0, [3]), 9), ((0, [2]), 8)] := by decide
example : ((⟨1, 2, [((0, [1]), 7)]⟩ : Cache Nat).get (1, [1])).2 = none := by decide   -- other type: miss
example : formatKey (1, [97]) = [103, 97, 117, 103, 101, 46, 97] := by with_unfolding_all decide  -- "gauge.a"


/- A whole history on a concrete configuration (one glob rule `a.*`), LRU of size 1: a miss that is
   cached, a hit, an eviction by a second key, a cached negative answer and its hit, a failing and a
   successful reload (to a configuration without rules) after which the old answer is gone. -/
private def mkRule (pat : Pat) : Rule Nat :=
  { matchStr := [], name := [120], labels := [], honorLabels := false, observerType := .dflt,
    matchType := .glob, help := [], action := .map, matchMetricType := none, ttl := 0, scale := none,
    buckets := [], hasHistOpts := false, quantiles := [], hasSummaryOpts := false, maxAge := 0,
    ageBuckets := 0, bufCap := 0, pat := pat, captureCount := countStars pat }
private def mkCfg (rules : List (Rule Nat)) (doFSM : Bool) : Config Nat :=
  { rules := rules, dObserverType := .dflt, dTtl := 0, dBuckets := [], dQuantiles := [], dMaxAge := 0,
    dAgeBuckets := 0, dBufCap := 0, orderingDisabled := false, doFSM := doFSM }
private def cfg1 : Config Nat := mkCfg [mkRule [[97], [42]]] true
private def cfg0 : Config Nat := mkCfg [] false
private def noRx : Rx := fun _ _ => none
private def history : List (Op Nat) :=
  [.get [97, 46, 98] 0 0, .get [97, 46, 98] 0 0, .get [99] 0 0, .get [99] 0 0, .get [97, 46, 98] 0 0,
   .reload (.error .badName), .get [97, 46, 98] 0 0, .reload (.ok cfg0), .get [97, 46, 98] 0 0]

example : runCached noRx (CachedMapper.fresh cfg1 1 1) history
    = [some ⟨0, some [120], []⟩, some ⟨0, some [120], []⟩, none, none, some ⟨0, some [120], []⟩,
       some ⟨0, some [120], []⟩, none] := by with_unfolding_all decide
example : runPlain noRx (MState.fresh cfg1) history
    = runCached noRx (CachedMapper.fresh cfg1 2 1) history := by with_unfolding_all decide
-- the cache really is in play: after the first two lookups the LRU holds the entry, after the third the other one
example : ((CachedMapper.fresh cfg1 1 1).lookup noRx [97, 46, 98] 0 0).1.cache.items
    = [((0, [97, 46, 98]), some ⟨0, some [120], []⟩)] := by with_unfolding_all decide
example : ((((CachedMapper.fresh cfg1 1 1).lookup noRx [97, 46, 98] 0 0).1).lookup noRx [99] 0 0).1.cache.items
    = [((0, [99]), none)] := by with_unfolding_all decide

end SE.Props.C13
