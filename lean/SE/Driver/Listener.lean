import SE.Spec.Listener
import SE.Driver.Mapper
/-
`frame dgram <hexpayload>`                     → L[<hexline> …] lines=N
`frame tcp <hexpayload> <chunksize>*`          → L[…] lines=N toolong=0|1   (chunk sizes cut the payload; the rest is one chunk)
`udpq <cap> | enq <hexbuf> <n> ; proc ; …`     → … ; packets=N drops=N L[…]
-/
namespace SE.Driver
open SE

def linesStr (ls : List Bytes) : String := "L[" ++ " ".intercalate (ls.map encHex) ++ "]"

def cutChunks : Bytes → List Nat → List Bytes
  | bs, [] => if bs.isEmpty then [] else [bs]
  | bs, k :: ks => if bs.isEmpty then [] else bs.take k :: cutChunks (bs.drop k) ks

def frameCmd : List String → String
  | ["dgram", h] =>
    match decHex h with
    | some p => let ls := datagramLines p; s!"{linesStr ls} lines={ls.length}"
    | none => "bad-op"
  | "tcp" :: h :: sizes =>
    match decHex h with
    | some p =>
      let chunks := cutChunks p (sizes.filterMap (·.toNat?))
      let o := tcpLinesOfChunks chunks
      let spec := tcpLinesOfStream p
      let note := if o.lines == spec.lines && o.tooLong == spec.tooLong then "" else "\tframe:none:stream-level spec differs"
      s!"{linesStr o.lines} lines={o.lines.length} toolong={if o.tooLong then 1 else 0}{note}"
    | none => "bad-op"
  | _ => "bad-op"

def udpqCmd (args : List String) : String :=
  match args with
  | cap :: "|" :: rest =>
    let subs := splitOnTok ";" rest
    let s0 : UdpQ := { cap := cap.toNat?.getD 0 }
    let s := subs.foldl (fun (s : UdpQ) sub =>
      match sub with
      | ["enq", h, n] =>
        match decHex h, n.toNat? with
        | some b, some k => s.enqueue b k
        | _, _ => s
      | ["proc"] => (s.process).getD s
      | _ => s) s0
    s!"packets={s.packets} drops={s.drops} queued={s.queue.length} {linesStr s.handled}"
  | _ => "bad-op"

end SE.Driver
