import SE.Spec.Listener
import SE.Driver.Mapper
import SE.Driver.Relay
import SE.Driver.Line
import SE.Model.Utf8
/-
`frame dgram <hexpayload>`                     → L[<hexline> …] lines=N
`frame tcp <hexpayload> <chunksize>*`          → L[…] lines=N toolong=0|1   (chunk sizes cut the payload; the rest is one chunk)
`udpq <cap> | enq <hexbuf> <n> ; proc ; …`     → … ; packets=N drops=N L[…]
-/
namespace SE.Driver
open SE

def linesStr (ls : List Bytes) : String := "L[" ++ " ".intercalate (ls.map encHex) ++ "]"

def cutChunks : Bytes → List Nat → List Bytes
  | bs, [] => if bs.isEmpty then [] else [bs]
  | bs, k :: ks => if bs.isEmpty then [] else bs.take k :: cutChunks (bs.drop k) ks

def frameCmd : List String → String
  | ["dgram", h] =>
    match decHex h with
    | some p => let ls := datagramLines p; s!"{linesStr ls} lines={ls.length} queued={ls.length} qsame=1"
    | none => "bad-op"
  | "tcp" :: h :: sizes =>
    match decHex h with
    | some p =>
      let chunks := cutChunks p (sizes.filterMap (·.toNat?))
      let o := tcpLinesOfChunks chunks
      let spec := tcpLinesOfStream p
      let note := if o.lines == spec.lines && o.tooLong == spec.tooLong then "" else "\tframe:none:stream-level spec differs"
      -- the events of every line handed to the parser reach the event handler, in order (`SE.lineOp` per line)
      s!"{linesStr o.lines} lines={o.lines.length} toolong={if o.tooLong then 1 else 0} queued={o.lines.length} qsame=1{note}"
    | none => "bad-op"
  | _ => "bad-op"

def udpqCmd (args : List String) : String :=
  match args with
  | cap :: "|" :: rest =>
    let subs := splitOnTok ";" rest
    let s0 : UdpQ := { cap := cap.toNat?.getD 0 }
    let s := subs.foldl (fun (s : UdpQ) sub =>
      match sub with
      | ["enq", h, n] =>
        match decHex h, n.toNat? with
        | some b, some k => s.enqueue b k
        | _, _ => s
      | ["proc"] => (s.process).getD s
      | _ => s) s0
    s!"packets={s.packets} drops={s.drops} queued={s.queue.length} {linesStr s.handled}"
  | _ => "bad-op"

/-- `udpl <cap> | send <hex> ; rel ; …` — the real `Listen` loop with the processing goroutine held inside the parser:
    the two-stage model `UdpL` (one datagram in flight inside the parser, `cap` in the channel); `rel` lets the datagram in
    flight through. `SE.Props.C18.udpl_refines_queue`: this is the packet queue `UdpQ` with `cap + 1` slots, so the
    `UdpQ` theorems apply. -/
def udplCmd (args : List String) : String :=
  match args with
  | cap :: "|" :: rest =>
    let subs := splitOnTok ";" rest
    let s0 : UdpL := { cap := cap.toNat?.getD 0 }
    let s := subs.foldl (fun (s : UdpL) sub =>
      match sub with
      | ["send", h] =>
        match decHex h with
        | some b => s.recv b b.length
        | none => s
      | ["rel"] => (s.release).getD s
      | _ => s) s0
    s!"packets={s.packets} drops={s.drops} queued={s.inflight.toList.length + s.queue.length} {linesStr s.handled}"
  | _ => "bad-op"

end SE.Driver

namespace SE.Driver
open SE

/-- `tcpconc <hexpayload>…` — every payload is one TCP connection's byte stream; every line starts with `<i>~`.
    Per connection (by that prefix) the lines handed to the parser, then the totals. Segmentation and interleaving of the
    connections are the operating system's: the model uses the stream-level specification per connection
    (`SE.Props.C18`: it equals `tcpLinesOfChunks` for every segmentation). -/
def tcpconcCmd (args : List String) : String :=
  match args.mapM decHex with
  | none => "bad-op"
  | some ps =>
    let outs := ps.map tcpLinesOfStream
    let strip (l : Bytes) : Bytes := (l.dropWhile (· != 126)).drop 1
    let per := outs.map fun o => linesStr (o.lines.map strip)
    let total := (outs.map (·.lines.length)).sum
    let tl := (outs.filter (·.tooLong)).length
    s!"{" ".intercalate per} lines={total} toolong={tl} other=0"

/-- `framerelay <pktlen> <hexpayload>` — a datagram through a listener with a relay attached: the lines for the parser
    and the datagrams the relay target has received after the next flush tick -/
def framerelayCmd : List String → String
  | [pl, h] =>
    match decHex h with
    | none => "bad-op"
    | some p =>
      let ls := datagramLines p
      let z0 : RelaySess := { s := { pktLen := pl.toNat?.getD 0 } }
      let z := (relayCallsOf ls).foldl (fun z l => (relaySub z ["l", encHex l]).1) z0
      let z := (relaySub z ["tick"]).1
      s!"{linesStr ls} lines={ls.length} relayed=D[{" ".intercalate (z.s.sent.map encHex)}]"
  | _ => "bad-op"

end SE.Driver

namespace SE.Driver
open SE

/-- `binframe <udp|tcp|unixgram> <hexpayload> [pfdict…]` — the accounting counters of listener and parser after one
    payload (all tag syntaxes enabled): the listener model frames, the line model parses every line -/
def binframeCmd : List String → String
  | tr :: h :: dict =>
    match decHex h, parseDict dict with
    | some p, some d =>
      let pf := dictPf d
      let fl : ParserFlags := ⟨true, true, true, true⟩
      let (lines, tooLong) : List Bytes × Bool :=
        if tr == "tcp" then ((tcpLinesOfStream p).lines, (tcpLinesOfStream p).tooLong) else (datagramLines p, false)
      let outs := lines.map fun l => lineToEvents fl pf (validUtf8 l) l
      let sum (f : ParseOut Float → Nat) : Nat := (outs.map f).sum
      let one (b : Bool) : Nat := if b then 1 else 0
      s!"lines={lines.length} toolong={one tooLong} udp={one (tr == "udp")} unixgram={one (tr == "unixgram")} tcpconn={one (tr == "tcp")} samples={sum (·.samples)} errs={sum (·.errs.length)} tagerrs={sum (·.tagErrs)} tags={sum (·.tagsRecv)}"
    | _, _ => "bad-op"
  | _ => "bad-op"

end SE.Driver
