import SE.Model.Exporter
import SE.Driver.Mapper
import SE.Driver.Line
import SE.Model.Hash
import SE.Spec.Registry
/-
`pipe` command: a whole history of the ingestion pipeline on one line.
`pipe <flags> <npre> (<hexname> <c|g|h|s> <hexhelp>)* | sub ; sub ; …`
  load <cfg>                                        → ok | err
  line <hexline> <ndict> <dict>* <rx oracle>        → ok | panic | unmodelled
  adv <ns> | sweep                                  → ok
  scrape                                            → S conf=… err=… drop=… F <families> | gather-error
After a panic every later sub-operation answers `dead`.
-/
namespace SE.Driver
open SE

def mtypeTag : MType → String
  | .counter => "c" | .gauge => "g" | .histogram => "h" | .summary => "s"

def mtypeOf (s : String) : MType :=
  if s == "c" then .counter else if s == "g" then .gauge else if s == "h" then .histogram else .summary

def cumulative : List Nat → List Nat
  | [] => []
  | x :: xs => x :: (cumulative xs).map (· + x)

def seriesStr (ty : MType) (l : Labels) (s : Series Float) (bounds : List Float) : String :=
  let lbl := "{" ++ labelsStr l ++ "}"
  match ty with
  | .counter => lbl ++ floatToHex (s.f + s.n.toFloat)
  | .gauge => lbl ++ floatToHex s.f
  | .summary => lbl ++ s!"{s.n}/{floatToHex s.f}"
  | .histogram =>
    let cum := cumulative s.bk
    let bs := (bounds.map floatToHex) ++ ["inf"]
    lbl ++ s!"{s.n}/{floatToHex s.f}/" ++ ".".intercalate ((bs.zip cum).map fun (b, c) => s!"{b}:{c}")

def familyStr (f : Family Float) : String :=
  let ss := (f.series.map fun (l, s, b) => seriesStr f.ty l s b).mergeSort (· ≤ ·)
  s!"{encHex f.name}:{mtypeTag f.ty}:{encHex f.help} " ++ " ".intercalate ss

def scrapeStr (p : Pipe Float) : String :=
  if !p.reg.gatherOk then "gather-error" else
  let fams := (p.reg.families.map familyStr).mergeSort (· ≤ ·)
  s!"S conf={p.counts.conflicts} err={p.counts.errors.length} drop={p.counts.dropped} F " ++ " ".intercalate fams

structure PipeSess where
  p : Pipe Float
  flags : ParserFlags
  dead : Bool := false
  /-- counter values at the previous scrape: (family, labels) ↦ value (spec side of C06) -/
  prevCounters : List ((Bytes × Labels) × Float) := []

/-- why the model's Gather fails (known-finding signatures) -/
def gatherClass (r : Reg Float) : String :=
  let live := r.metrics.filter (!·.series.isEmpty)
  if !(live.all helpConsistent) then "help_mismatch"
  else if !(live.all (fun m => r.pre.all fun p => p.1 != m.name ||
      (p.2.1 == m.ty && m.series.all fun s => ((m.vecs.find? (·.names == s.labels.map (·.1))).map (·.help)) == some p.2.2)))
    then "preregistered_name_collision"
  -- a suffix collision among the statsd families themselves is the repaired defect (edd038c; impossible in the model:
  -- SE.Props.C03.statsd_families_suffix_free); what remains is a collision with a pre-registered family
  else if suffixCollision (live.map fun m => (m.name, m.ty)) then "observer_companion_unchecked"
  -- what remains must involve a pre-registered family (SE.Props.C03.scrape_succeeds_if_live_names_avoid_preregistered)
  else if live.any (fun m => !AvoidsPre r.pre m.name m.ty) then "preregistered_name_collision"
  else "none"

def counterValues (r : Reg Float) : List ((Bytes × Labels) × Float) :=
  r.metrics.flatMap fun m =>
    if m.ty == .counter then m.series.map fun s => ((m.name, s.labels), s.f + s.n.toFloat) else []

/-- C06 at a scrape: a counter present at the previous scrape and now must not have decreased, and none may be NaN -/
def counterNotes (prev cur : List ((Bytes × Labels) × Float)) : List String :=
  cur.filterMap fun (k, v) =>
    if v.isNaN then some "counter:none:NaN" else
    match prev.find? (·.1 == k) with
    | some (_, old) => if v < old then some s!"counter:counter_uint64_wrap:{encHex k.1} {floatToHex old}->{floatToHex v}" else none
    | none => none

def rdDictTok (t : String) : Option (Bytes × Float × PfErr) :=
  match parseDict [t] with
  | some [x] => some x
  | _ => none

def pipeSub (s : PipeSess) (toks : List String) : PipeSess × String :=
  if s.dead then (s, "dead") else
  match toks with
  | "load" :: rest =>
    match rdConfig.run rest with
    | some (rc, []) =>
      match loadCfg rc with
      | .ok n => ({ s with p := { s.p with mapper := s.p.mapper.swap n } }, "ok")
      | .error e => (s, s!"err\tload:{errStr e}")
    | _ => (s, "bad-op")
  | "line" :: hexline :: nd :: rest =>
    match decHex hexline, nd.toNat? with
    | some l, some n =>
      match (rest.take n).mapM rdDictTok, rdRx.run (rest.drop n) with
      | some d, some (rxl, []) =>
        if hugeGuard (dictPf d) l then (s, "skip-huge") else
        let o := lineToEvents s.flags (dictPf d) (validUtf8 l) l
        let mult := if o.events.length > 64 * l.length then "\tmult:sampling_multiplicity_unbounded:" ++ toString o.events.length else ""
        match handleEvents s.p (rxOf s.p.mapper.cfg rxl) o.labels o.events with
        | none => ({ s with dead := true }, "unmodelled")
        | some (.error .summaryHang) => ({ s with dead := true }, "hang\tpanic:loader_accepts_tiny_max_age:summary stream duration 0")
        | some (.error .bucketsNotIncreasing) => ({ s with dead := true }, "panic\tpanic:loader_accepts_unsorted_buckets:histogram buckets not strictly increasing")
        | some (.error .negativeMaxAge) => ({ s with dead := true }, "panic\tpanic:loader_accepts_negative_max_age:summary max_age < 0")
        | some (.error _) => ({ s with dead := true }, "panic\tpanic:none:")
        | some (.ok p') => ({ s with p := p' }, "ok" ++ mult)
      | _, _ => (s, "bad-op")
    | _, _ => (s, "bad-op")
  | ["adv", ns] =>
    match ns.toInt? with
    | some d => ({ s with p := { s.p with now := s.p.now + d } }, "ok")
    | none => (s, "bad-op")
  | ["sweep"] =>
    let reg := s.p.reg.sweep s.p.now
    -- a series that expired is a new series if it comes back (C06's exception)
    let alive := counterValues reg
    ({ s with p := { s.p with reg := reg }, prevCounters := s.prevCounters.filter fun (k, _) => alive.any (·.1 == k) }, "ok")
  | ["scrape"] =>
    if s.p.reg.gatherPanics then ({ s with dead := true }, "gather-panic\tgather:loader_accepts_bad_quantile:summary objective outside 0..1") else
    if !s.p.reg.gatherOk then (s, "gather-error\tgather:" ++ gatherClass s.p.reg ++ ":") else
    let cur := counterValues s.p.reg
    let notes := counterNotes s.prevCounters cur
    ({ s with prevCounters := cur }, scrapeStr s.p ++ (if notes.isEmpty then "" else "\t" ++ "|".intercalate notes))
  | _ => (s, "bad-op")

def rdMap : Rd Labels := do
  let n ← rdNat
  let kvs ← rdMany n rdLabel
  pure (kvs.foldl (fun (l : Labels) kv => l.set kv.1 kv.2) [])

def rdTwoMaps : Rd (Labels × Labels) := do
  let a ← rdMap
  let t ← tok
  if t != "/" then failure else
  let b ← rdMap
  pure (a, b)

/-- `hl <n> (k v)* / <m> (k v)*`: do two label maps get the same names hash / values hash? (same iff the
    hash inputs are equal; FNV-64a collisions are assumed away) -/
def hlCmd (args : List String) : String :=
  match rdTwoMaps.run args with
  | some ((a, b), []) =>
    let n := if namesHashInput a == namesHashInput b then "same" else "diff"
    let v := if valuesHashInput a == valuesHashInput b then "same" else "diff"
    -- specification: names hash equal iff same name set; values hash equal iff same label set
    let sn := if a.sorted.map (·.1) == b.sorted.map (·.1) then "same" else "diff"
    let sv := if a.sorted == b.sorted then "same" else "diff"
    -- the 64-bit hashes themselves, compared bit for bit with Registry.HashLabels
    let hx := fun (l : Labels) => s!"{hex64 (UInt64.ofNat (namesHash l).toNat)}/{hex64 (UInt64.ofNat (valuesHash l).toNat)}"
    s!"N={n} V={v} A={hx a} B={hx b}" ++ (if n == sn && v == sv then "" else "\thash:none:spec says N={sn} V={sv}")
  | _ => "bad-op"

def rdPre : Rd (Bytes × MType × Bytes) := do
  let n ← rdHex
  let t ← tok
  let h ← rdHex
  pure (n, mtypeOf t, h)

def rdHeader : Rd (List (Bytes × MType × Bytes)) := do
  let n ← rdNat
  let pre ← rdMany n rdPre
  let bar ← tok
  if bar != "|" then failure else pure pre

def pipeCmd (args : List String) : String :=
  match args with
  | fl :: rest =>
    match parseFlags fl, rdHeader.run rest with
    | some flags, some (pre, body) =>
      let subs := splitOnTok ";" body
      let s0 : PipeSess := { p := { mapper := MState.fresh emptyCfg, reg := { pre := pre } }, flags := flags }
      let (_, outs) := subs.foldl (fun (acc : PipeSess × List String) sub =>
        let (s', o) := pipeSub acc.1 sub
        (s', acc.2 ++ [o])) (s0, [])
      let strict := " ; ".intercalate (outs.map fun o => (o.splitOn "\t").headD "")
      let info := ",".intercalate ((outs.zipIdx.filterMap fun (o, i) => ((o.splitOn "\t")[1]?).map fun n => s!"{i}@{n}"))
      s!"{strict}\t{info}"
    | _, _ => "bad-op"
  | _ => "bad-op"

end SE.Driver
