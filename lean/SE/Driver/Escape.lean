import SE.Spec.Escape
namespace SE.Driver
open SE

/-- `escape <hex>` → `ok <hex>` | `panic` -/
def escapeCmd : List String → String
  | [h] =>
    match decHex h with
    | none => "bad-op"
    | some bs =>
      match escape bs with
      | none => "panic"
      | some out => "ok " ++ encHex out
  | _ => "bad-op"

end SE.Driver
