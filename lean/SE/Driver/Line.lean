import SE.Model.Line
import SE.Driver.Float
namespace SE.Driver
open SE

def parseFlags (s : String) : Option ParserFlags :=
  match s.toList with
  | [a, b, c, d] => some ⟨a == '1', b == '1', c == '1', d == '1'⟩
  | _ => none

/-- dictionary shipped by the harness: every token of the line on which Go's ParseFloat did not
    return a syntax error, with its bits and `o` (ok) / `r` (range error) -/
def parseDict (toks : List String) : Option (List (Bytes × Float × PfErr)) :=
  toks.mapM fun t =>
    match t.splitOn "=" with
    | [k, v] =>
      match v.splitOn ":" with
      | [bits, e] => do
        let kb ← decHex k
        let f ← floatOfHex bits
        pure (kb, f, if e == "o" then PfErr.ok else PfErr.range)
      | _ => none
    | _ => none

def dictPf (d : List (Bytes × Float × PfErr)) : Pf Float := fun b =>
  match d.find? (·.1 == b) with
  | some (_, f, e) => (f, e)
  | none => (0.0, .syntax)

def kindTag (e : Ev Float) : String :=
  match e.kind with
  | .counter => "c"
  | .gauge => if e.relative then "g+" else "g"
  | .observer => "o"

def evStr (e : Ev Float) : String := s!"{kindTag e}:{encHex e.name}:{floatToHex e.value}"

def rle : List String → List String
  | [] => []
  | x :: xs =>
    let n := (xs.takeWhile (· == x)).length
    (if n == 0 then x else s!"{x}*{n + 1}") :: rle (xs.drop n)
termination_by l => l.length
decreasing_by simp; omega

def labelsStr (l : Labels) : String :=
  ",".intercalate (l.sorted.map fun (k, v) => s!"{encHex k}={encHex v}")

def reasonStr : Reason → String
  | .malformedLine => "malformed_line"
  | .mixedTaggingStyles => "mixed_tagging_styles"
  | .notEnoughParts => "not_enough_parts_after_colon"
  | .invalidExtAggType => "invalid_extended_aggregate_type"
  | .malformedComponent => "malformed_component"
  | .malformedValue => "malformed_value"
  | .invalidSampleFactor => "invalid_sample_factor"
  | .illegalEvent => "illegal_event"

def countReasons (errs : List Reason) : String :=
  let all : List Reason := [.illegalEvent, .invalidExtAggType, .invalidSampleFactor, .malformedComponent,
    .malformedLine, .malformedValue, .mixedTaggingStyles, .notEnoughParts]
  ",".intercalate ((all.filterMap fun r =>
    let n := (errs.filter (· == r)).length
    if n == 0 then none else some s!"{reasonStr r}:{n}"))

def parseOutStr (o : ParseOut Float) : String :=
  let evs := " ".intercalate (rle (o.events.map evStr))
  let lbl := if o.events.isEmpty then "" else labelsStr o.labels
  s!"n={o.events.length} [{evs}] L={lbl} S={o.samples} TE={o.tagErrs} TR={o.tagsRecv} NE={o.errs.length}\terrs={countReasons o.errs}"

/-- harness-side safety guard, mirrored here: a line with a sample-rate token `@r`, 0 < |r| < 1e-4, would ask
    for more than 10^4 events per sample and is skipped by both sides (C02's unbounded-multiplicity finding
    is replayed separately with a bounded rate) -/
def hugeGuard (pf : Pf Float) (line : Bytes) : Bool :=
  let pieces := (splitOn cPipe line).flatMap fun p => p :: splitOn cColon p
  pieces.any fun p =>
    match p with
    | b :: rest =>
      if b == cAt then
        let (v, e) := pf rest
        e != .syntax && v != 0.0 && v.abs < 1e-4
      else false
    | [] => false

/-- `parse <flags> <hexline> [<hextok>=<bits>:<o|r>]*` -/
def parseCmd : List String → String
  | fl :: line :: toks =>
    match parseFlags fl, decHex line, parseDict toks with
    | some f, some l, some d =>
      if hugeGuard (dictPf d) l then "skip-huge" else parseOutStr (lineToEvents f (dictPf d) (validUtf8 l) l)
    | _, _, _ => "bad-op"
  | _ => "bad-op"

end SE.Driver
