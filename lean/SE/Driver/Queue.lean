import SE.Spec.Queue
import SE.Driver.Mapper
/-
`queue <thr> | q <n> ; tick ; recv ; …`   deterministic call sequences on one producer + the ticker,
executed through the micro-step machine with the canonical schedule of each call.
`qjudge <thr> <nprod> <program>* => <batch>*`  the specification as a judge of an observed delivery
(`program` = `calls:sizes,…`, events are numbered producer*100000+seq).
-/
namespace SE.Driver
open SE

/-- run producer 0's current call to completion (canonical schedule), with fuel -/
def runCall (s : QSt Nat) : Nat → Option (QSt Nat)
  | 0 => none
  | fuel + 1 =>
    match s.prods[0]? with
    | some p =>
      match p.pc with
      | .holding rest => if rest.isEmpty then qStep s (.release 0) else (qStep s (.append 0)).bind (runCall · fuel)
      | .sending _ => (qStep s (.send 0)).bind (runCall · fuel)
      | .idle => none
    | none => none

structure QSess where
  s : QSt Nat
  next : Nat := 0

def qSub (z : QSess) (toks : List String) : QSess × String :=
  let show_ (s : QSt Nat) : String := s!"q={s.q.length} c={s.chan.length}"
  match toks with
  | ["q", n] =>
    match n.toNat? with
    | some k =>
      let batch := (List.range k).map (· + z.next)
      let s0 := { z.s with prods := [⟨[batch], .idle⟩] }
      match (qStep s0 (.acquire 0)).bind (runCall · (2 * k + 4)) with
      | some s' => ({ z with s := s', next := z.next + k }, show_ s')
      | none => (z, "blocked")
    | none => (z, "bad-op")
  | ["tick"] =>
    let s0 := { z.s with ticks := 1 }
    match qRun s0 [.tAcquire, .tSend, .tRelease] with
    | some s' => ({ z with s := s' }, show_ s')
    | none => (z, "blocked")
  | ["recv"] =>
    match qStep z.s .recv with
    | some s' => ({ z with s := s' }, "recv [" ++ ",".intercalate ((s'.delivered.getLast?.getD []).map toString) ++ "]")
    | none => (z, "empty")
  | _ => (z, "bad-op")

def queueCmd (args : List String) : String :=
  match args with
  | thr :: "|" :: rest =>
    let subs := splitOnTok ";" rest
    let z0 : QSess := { s := qInit (thr.toNat?.getD 1) 1000000 [] 0 }
    let (_, outs) := subs.foldl (fun (acc : QSess × List String) sub =>
      let (z', o) := qSub acc.1 sub
      (z', acc.2 ++ [o])) (z0, [])
    " ; ".intercalate outs
  | _ => "bad-op"

/-- scheduler for `queueblk`: the producer runs whenever it can, else the ticker, else the consumer receives -/
def blkRun : Nat → QSt Nat → QSt Nat
  | 0, s => s
  | fuel + 1, s =>
    let try1 (ls : List QLabel) : Option (QSt Nat) := ls.findSome? fun l => qStep s l
    match try1 [.append 0, .send 0, .release 0, .acquire 0] with
    | some s' => blkRun fuel s'
    | none =>
      match try1 [.tSend, .tRelease, .tAcquire] with
      | some s' => blkRun fuel s'
      | none =>
        match qStep s .recv with
        | some s' => blkRun fuel s'
        | none => s

/-- `queueblk <thr> <cap> <n>`: one `Queue(n events)` call on a channel of capacity `cap`, a flush tick requested
    while the producer is inside the call (it holds the mutex, possibly blocked on the full channel), then the
    consumer drains everything. Result: all batches in delivery order and the final queue length. -/
def queueblkCmd : List String → String
  | [thr, cap, n] =>
    match thr.toNat?, cap.toNat?, n.toNat? with
    | some t, some c, some k =>
      let s0 : QSt Nat := qInit t c [[List.range k]] 1
      -- the producer enters first (the harness waits until it is inside before it fires the tick)
      let s1 := (qStep s0 (.acquire 0)).getD s0
      let s := blkRun (4 * k + 4 * c + 20) s1
      -- empty tick batches carry nothing and are ignored by both sides
      let bs := (s.delivered.filter (!·.isEmpty)).map fun b => "[" ++ ",".intercalate (b.map toString) ++ "]"
      s!"got={" ".intercalate bs} len={s.q.length}"
    | _, _, _ => "bad-op"
  | _ => "bad-op"

def parseNatList (s : String) : List Nat :=
  if s == "-" then [] else (s.splitOn ",").filterMap (·.toNat?)

/-- `qjudge <thr> <nprod> <sizes of producer 0's calls> … => <batch>*` where a batch is `id,id,…` or `-` -/
def qjudgeCmd (args : List String) : String :=
  match args with
  | thr :: np :: rest =>
    match thr.toNat?, np.toNat? with
    | some t, some n =>
      let progs : List (List (List Nat)) := (rest.take n).zipIdx.map fun (sizes, p) =>
        let szs := parseNatList sizes
        (szs.foldl (fun (acc : List (List Nat) × Nat) k => (acc.1 ++ [(List.range k).map (· + acc.2)], acc.2 + k)) ([], p * 100000)).1
      match rest.drop n with
      | "=>" :: batches =>
        let delivered := batches.map parseNatList
        let owner : Nat → Nat := (· / 100000)
        let a := deliveryPrefixOk owner progs delivered
        let b := deliveryCompleteOk owner progs delivered
        let c := batchesBounded t delivered
        if a && b && c then "ok" else s!"violation prefix={a} complete={b} bounded={c}"
      | _ => "bad-op"
    | _, _ => "bad-op"
  | _ => "bad-op"

end SE.Driver
