import SE.Model.Cache
import SE.Spec.Mapping
import SE.Spec.TemplateRefs
import SE.Driver.Float
/-
Line-protocol front end of the mapper model. Shared by the `mapper` command (lookup/reload
histories with a cache) and by the pipeline command.
-/
namespace SE.Driver
open SE

abbrev Rd := StateT (List String) Option

def tok : Rd String := do
  match (← get) with
  | [] => failure
  | t :: ts => set ts; pure t

def rdNat : Rd Nat := do (← tok).toNat?
def rdInt : Rd Int := do (← tok).toInt?
def rdHex : Rd Bytes := do decHex (← tok)
def rdBool : Rd Bool := do pure ((← tok) == "1")
def rdFloat : Rd Float := do floatOfHex (← tok)

/-- `~` = absent -/
def rdOptHex : Rd (Option Bytes) := do
  let t ← tok
  if t == "~" then pure none else (decHex t).map some

def rdOptFloat : Rd (Option Float) := do
  let t ← tok
  if t == "~" then pure none else (floatOfHex t).map some

def rdMany {α} (n : Nat) (p : Rd α) : Rd (List α) := (List.range n).mapM fun _ => p

def rdFloats : Rd (List Float) := do rdMany (← rdNat) rdFloat
def rdQuant : Rd (Float × Float) := do pure (← rdFloat, ← rdFloat)
def rdQuants : Rd (List (Float × Float)) := do rdMany (← rdNat) rdQuant

/-- `~` or a list -/
def rdOptList {α} (p : Rd α) : Rd (Option (List α)) := do
  let t ← tok
  if t == "~" then pure none else do
    let n ← t.toNat?
    (rdMany n p).map some

def rdLabel : Rd (Bytes × Bytes) := do pure (← rdHex, ← rdHex)

/-- rule: `r <match> <name> <nlabels> (k v)* <honor> <obs> <timer> <matchtype> <help> <action> <mmt> <ttl> <scale>
          <legacybuckets> <legacyquantiles> <so: ~ | + quantiles maxage agebuckets bufcap> <ho: ~ | + buckets> <rxok>` -/
def rdRule : Rd (RawRule Float × Bool) := do
  let t ← tok
  if t != "r" then failure
  let m ← rdHex
  let name ← rdHex
  let labels ← rdMany (← rdNat) rdLabel
  let honor ← rdBool
  let obs ← rdOptHex
  let timer ← rdOptHex
  let mt ← rdOptHex
  let help ← rdHex
  let action ← rdOptHex
  let mmt ← rdOptHex
  let ttl ← rdInt
  let scale ← rdOptFloat
  let lb ← rdOptList rdFloat
  let lq ← rdOptList rdQuant
  let so ← do
    let t ← tok
    if t == "~" then pure none else do
      let q ← rdOptList rdQuant
      let ma ← rdInt
      let ab ← rdNat
      let bc ← rdNat
      pure (some (q, ma, ab, bc))
  let ho ← do
    let t ← tok
    if t == "~" then pure none else do
      let b ← rdOptList rdFloat
      pure (some b)
  let rxok ← rdBool
  pure ({ matchStr := m, name := name, labels := labels, honorLabels := honor, observerType := obs, timerType := timer,
          legacyBuckets := lb, legacyQuantiles := lq, matchType := mt, help := help, action := action,
          matchMetricType := mmt, ttl := ttl, summaryOpts := so, histOpts := ho, scale := scale }, rxok)

/-- `D <obs> <timer> <matchtype> <ordering-disabled> <ttl> <buckets> <legacybuckets> <quantiles> <legacyquantiles> <maxage> <agebuckets> <bufcap> <nrules> rule*` -/
def rdConfig : Rd (RawConfig Float × List (Bytes × Bool)) := do
  let t ← tok
  if t != "D" then failure
  let obs ← rdOptHex
  let timer ← rdOptHex
  let mt ← rdOptHex
  let ord ← rdBool
  let ttl ← rdInt
  let b ← rdFloats
  let lb ← rdFloats
  let q ← rdQuants
  let lq ← rdQuants
  let ma ← rdInt
  let ab ← rdNat
  let bc ← rdNat
  let rules ← rdMany (← rdNat) rdRule
  pure ({ defaults := { observerType := obs, timerType := timer, legacyBuckets := lb, legacyQuantiles := lq, matchType := mt,
                        globDisableOrdering := ord, ttl := ttl,
                        summaryOpts := { quantiles := q, maxAge := ma, ageBuckets := ab, bufCap := bc }, histBuckets := b },
          rules := rules.map (·.1) },
        rules.map fun (r, ok) => (r.matchStr, ok))

/-- prometheus.DefBuckets and mapper.defaultQuantiles (tied to the source by SE.Gen) -/
def defBuckets : List Float := [0.005, 0.01, 0.025, 0.05, 0.1, 0.25, 0.5, 1, 2.5, 5, 10]
def defQuantiles : List (Float × Float) := [(0.5, 0.05), (0.9, 0.01), (0.99, 0.001)]

def loadCfg (rc : RawConfig Float × List (Bytes × Bool)) : Except LoadErr (Config Float) :=
  load (fun m => (rc.2.find? (·.1 == m)).map (·.2) |>.getD false) defBuckets defQuantiles rc.1

/-- regex oracle of one lookup, keyed by pattern text (so that an op line stays meaningful when
    sub-operations are dropped by the shrinker): `<n> (<hexpattern> <ngroups> (<name> <text|~>)*)*`;
    patterns that do not match the name are absent -/
def rdRx : Rd (List (Bytes × RxMatch)) := do
  rdMany (← rdNat) do
    let i ← rdHex
    let gs ← rdMany (← rdNat) do
      let n ← rdHex
      let t ← rdOptHex
      pure (n, t)
    pure (i, gs)

def rxOf (cfg : Config Float) (l : List (Bytes × RxMatch)) : Rx := fun i _ =>
  match cfg.rules[i]? with
  | some r => (l.find? (·.1 == r.matchStr)).map (·.2)
  | none => none

def optStr : Option Bytes → String
  | some b => encHex b
  | none => "?"

def mappedStr : Option Mapped → String
  | none => "none"
  | some m =>
    let ls := ",".intercalate ((Labels.sorted (m.labels.map fun (k, v) => (k, strBytes (optStr v)))).map
      fun (k, v) => s!"{encHex k}={String.ofList (v.map fun b => Char.ofNat b.toNat)}")
    s!"r{m.ruleIdx} {optStr m.name} [{ls}]"

def errStr : LoadErr → String
  | .badEnum => "bad_enum" | .badLabelKey => "bad_label_key" | .emptyName => "empty_name" | .badName => "bad_name"
  | .badMatch => "bad_match" | .badRegex => "bad_regex" | .quantilesBoth => "quantiles_both" | .bucketsBoth => "buckets_both"
  | .histWithSummaryOpts => "hist_with_summary_opts" | .summaryWithHistOpts => "summary_with_hist_opts"
  | .badBuckets => "bad_buckets" | .badSummaryOpts => "bad_summary_opts"

def splitOnTok (sep : String) : List String → List (List String)
  | [] => [[]]
  | t :: ts =>
    if t == sep then [] :: splitOnTok sep ts
    else match splitOnTok sep ts with
      | [] => [[t]]
      | p :: ps => (t :: p) :: ps

structure MapperSess where
  m : Option (CachedMapper Float)      -- none until the first successful load
  kind : Nat
  size : Nat
  n : Nat := 0                         -- op counter (feeds the eviction oracle)

def emptyCfg : Config Float :=
  { rules := [], dObserverType := .dflt, dTtl := 0, dBuckets := [], dQuantiles := [], dMaxAge := 0, dAgeBuckets := 0,
    dBufCap := 0, orderingDisabled := false, doFSM := false }

def hasStarComp (name : Bytes) : Bool := (splitOn 46 name).contains starB

/-- classification of a rule-selection divergence between model and spec (known-finding signatures) -/
def classifyRule (cfg : Config Float) (name : Bytes) (ty : Nat) (spec : Option Nat) : String :=
  if cfg.orderingDisabled then
    let forced := pick false (dfs (rulesFor (toGRules cfg) ty) true [] [] (splitOn 46 name))
    let forcedIdx := forced.bind fun f => ((globRules cfg)[f.rule]?).map (·.1)
    if spec.isSome && (forcedIdx.isSome) && !(backtracking (toGRules cfg) true) then "backtracking_disabled_incomplete" else "none"
  else "none"

/-- some reference name of the template (bare or braced) is directly followed by a byte ≥ 0x80: at each `$`,
    skip an optional `{` and the (possibly empty) ASCII word run, test the next byte. Go's `regexp.Expand` (regex rules)
    scans names rune by rune and may take that byte into the name (`$1é`); until the repair a7bcc3e the glob
    formatter (and the then ASCII specification) did not (`SE.Props.C11.reference_syntax_repaired`). -/
def nonAsciiAfterRef : Bytes → Bool
  | [] => false
  | b :: rest =>
    (b == cDollar &&
      (let s1 := match rest with
         | c :: r => if c == cLBrace then r else rest
         | [] => []
       let name := s1.takeWhile isWordByte
       (match s1.drop name.length with
         | c :: _ => c ≥ 0x80
         | [] => false)))
    || nonAsciiAfterRef rest

def classifyTmpl (tmpl _name : Bytes) : String :=
  let refs := findRefs tmpl.length tmpl
  -- (`template_has_percent` and `template_ref_prefix_of_ref` are repaired by b74fba2 and no longer classes: a divergence
  --  on such a template must have one of the causes below, or is a new defect)
  -- (`literal_star_component` is repaired by 0275669 and no longer a class)
  if refs.any (fun r => r.2.contains cDollar) then "template_dollar_in_reference"   -- repaired (4d631d3): cannot fire with `isRefByte = isWordByte`
  else if hasDollarDollar tmpl then "template_dollar_escape"
  else if nonAsciiAfterRef tmpl then "template_unicode_letter_after_ref"
  else if refs.any (fun r => (r.1.contains cLBrace) != (r.1.contains cRBrace)) then "template_brace_mismatch"
  else if refs.any (fun r => r.2.head? == some 48 && r.2.length > 1 && (atoiDigits r.2).isSome) then "template_leading_zero_ref"
  else "none"

/-- does the template mention capture 0 (outside C11's statement, n ≥ 1)? -/
def mentionsZero (tmpl : Bytes) : Bool :=
  (findRefs tmpl.length tmpl).any fun r => atoiDigits r.2 == some 0

/-- spec-side expansion check of one lookup answer; returns notes `tmpl:<class>:<what>` -/
def tmplNotes (cfg : Config Float) (rx : Rx) (name : Bytes) (m : Mapped) : List String :=
  match cfg.rules[m.ruleIdx]? with
  | none => []
  | some r =>
    let caps : List Bytes :=
      if r.matchType == .glob then capturesOf r.pat (splitOn 46 name)
      else match rx m.ruleIdx name with
        | some gs => (gs.drop 1).map fun g => g.2.getD []
        | none => []
    -- named groups of a free-standing regex rule are outside C11 (it speaks about glob rules and their translations)
    let named : Bool := r.matchType == .regex && (match rx m.ruleIdx name with
      | some gs => gs.any (fun g => !g.1.isEmpty)
      | none => false)
    let chk (what : String) (tmpl : Bytes) (got : Option Bytes) : List String :=
      if mentionsZero tmpl || named then [] else
      match got with
      | none => []          -- outside the modelled Sprintf fragment: compared by nobody
      | some g =>
        match expandSpec caps tmpl.length tmpl with
        | none => []        -- a reference name with a rune outside the modelled Unicode fragment: nothing specified
        | some want =>
          if g == want then [] else [s!"tmpl:{classifyTmpl tmpl name}:{what}:want={encHex want}"]
    chk "name" r.name m.name ++ (r.labels.zip m.labels).flatMap fun (kt, kv) => chk (encHex kt.1) kt.2 kv.2

def mapperSub (s : MapperSess) (toks : List String) : MapperSess × String :=
  match toks with
  | "load" :: rest =>
    match rdConfig.run rest with
    | some (rc, []) =>
      let loaded := loadCfg rc
      let base : CachedMapper Float := s.m.getD { st := MState.fresh emptyCfg, cache := ⟨s.kind, s.size, []⟩ }
      let out := match loaded with
        | .ok _ => "ok"
        | .error e => s!"err\tload:{errStr e}"
      ({ s with m := some (base.reload loaded), n := s.n + 1 }, out)
    | _ => (s, "bad-op")
  | "get" :: ty :: name :: rest =>
    match ty.toNat?, decHex name, rdRx.run rest with
    | some t, some nm, some (rxl, []) =>
      let base : CachedMapper Float := s.m.getD { st := MState.fresh emptyCfg, cache := ⟨s.kind, s.size, []⟩ }
      let cfg := base.st.cfg
      let rx := rxOf cfg rxl
      let (m', r) := base.lookup rx nm t (s.n * 7 + 3)
      -- specification side (the theorems of C04/C12/C11/C13/C14 say these notes never appear
      -- outside the recorded finding classes)
      let specRule := if cfg.orderingDisabled then mostSpecific cfg rx nm t else firstMatch cfg rx nm t
      let n1 := if r.map (·.ruleIdx) == specRule then [] else
        [s!"rule:{classifyRule cfg nm t specRule}:want={match specRule with | some i => s!"r{i}" | none => "none"}"]
      let n2 := match r with
        | some m => tmplNotes cfg rx nm m
        | none => []
      let fresh := (MState.fresh cfg).lookup rx nm t
      let n3 := if fresh == r then [] else ["fresh:none:a freshly loaded mapper answers differently"]
      let notes := n1 ++ n2 ++ n3
      ({ s with m := some m', n := s.n + 1 }, mappedStr r ++ (if notes.isEmpty then "" else "\t" ++ "|".intercalate notes))
    | _, _, _ => (s, "bad-op")
  | _ => (s, "bad-op")

/-- `namerune <hex>`: `nameRune` on the bytes — `"<w> <0|1>"` (width, is a name rune) or `"?"` (not modelled) -/
def nameruneCmd (args : List String) : String :=
  match args with
  | [h] =>
    match decHex h with
    | some bs =>
      match nameRune bs with
      | some (w, b) => s!"{w}:{if b then 1 else 0}"
      | none => "?"
    | none => "bad-op"
  | _ => "bad-op"

/-- `mapperrace …`: a judged stream. What the real concurrent run must report is what
    `SE.Props.C14.racing_lookup_old_or_new_interleaved` and `nothing_survives_reload` (C13) prove for the model:
    every answer is old or new, and only new once the reload is over. -/
def mapperraceCmd (_ : List String) : String := "ok"

/-- `mapper <none|lru|rr> <size> | sub ; sub ; …` -/
def mapperCmd (args : List String) : String :=
  match args with
  | kind :: size :: "|" :: rest =>
    let k := if kind == "lru" then 1 else if kind == "rr" then 2 else 0
    let subs := splitOnTok ";" rest
    let (_, outs) := subs.foldl (fun (acc : MapperSess × List String) sub =>
      let (s', o) := mapperSub acc.1 sub
      (s', acc.2 ++ [o])) ({ m := none, kind := k, size := size.toNat?.getD 0 }, [])
    -- strict part: the answers; informational part: the load-error classes
    let strict := " ; ".intercalate (outs.map fun o => (o.splitOn "\t").headD "")
    let info := ",".intercalate ((outs.zipIdx.filterMap fun (o, i) => ((o.splitOn "\t")[1]?).map fun n => s!"{i}@{n}"))
    s!"{strict}\t{info}"
  | _ => "bad-op"

end SE.Driver
