import SE.Model.Relay
import SE.Driver.Mapper
/-
`relay <pktlen> | l <hexline> ; tick ; fail ; …`  deterministic histories: every accepted line is
dequeued by the sender before the next operation (the harness waits for the channel to drain), `fail`
makes every later send fail. Result: per sub-op what happened, then all datagrams and the counters.
-/
namespace SE.Driver
open SE

structure RelaySess where
  s : RelaySt
  failing : Bool := false

def relaySub (z : RelaySess) (toks : List String) : RelaySess × String :=
  match toks with
  | ["l", h] =>
    match decHex h with
    | some l =>
      match relayStep z.s (.line l) with
      | none => (z, "blocked")
      | some s1 =>
        if s1.chan.isEmpty then (⟨s1, z.failing⟩, if l.isEmpty then "empty" else "long")
        else match relayStep s1 (.deq (!z.failing)) with
          | some s2 => (⟨s2, z.failing⟩, "queued")
          | none => (z, "blocked")
    | none => (z, "bad-op")
  | ["tick"] =>
    match relayStep z.s (.tick (!z.failing)) with
    | some s1 => (⟨s1, z.failing⟩, "tick")
    | none => (z, "blocked")
  | ["fail"] =>
    -- the harness flushes (tick) before it closes the socket, so that no send is in flight
    match relayStep z.s (.tick (!z.failing)) with
    | some s1 => (⟨s1, true⟩, "fail")
    | none => (z, "blocked")
  | _ => (z, "bad-op")

def relayCmd (args : List String) : String :=
  match args with
  | pl :: "|" :: rest =>
    let subs := splitOnTok ";" rest
    let z0 : RelaySess := { s := { pktLen := pl.toNat?.getD 0 } }
    -- every history ends with an implicit tick (the harness needs it to know that all sends are done)
    let (z, outs) := (subs ++ [["tick"]]).foldl (fun (acc : RelaySess × List String) sub =>
      let (z', o) := relaySub acc.1 sub
      (z', acc.2 ++ [o])) (z0, [])
    let blocked := if outs.contains "blocked" then " BLOCKED" else ""
    s!"D[{" ".intercalate (z.s.sent.map encHex)}] packets={z.s.packets} long={z.s.longLines} relayed={z.s.relayed}{blocked}\t{" ".intercalate outs}"
  | _ => "bad-op"

end SE.Driver
