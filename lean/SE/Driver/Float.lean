import SE.Model.Num
namespace SE.Driver
open SE

def two63 : Float := 9223372036854775808.0

/-- Go `int(x)` for float64 on amd64 (CVTTSD2SQ): truncation when representable, else -2^63 -/
def goInt (r : Float) : Int :=
  if r.isNaN || r ≥ two63 || r < -two63 then -(2 ^ 63 : Int) else r.toInt64.toInt

instance : NumOps Float where
  zero := 0.0
  one := 1.0
  thousand := 1000.0
  add := (· + ·)
  mul := (· * ·)
  div := (· / ·)
  isZero x := x == 0.0
  ltZero x := x < 0.0
  isNaN x := x.isNaN
  le x y := x ≤ y
  recipInt x := goInt (1.0 / x)
  ofNat n := n.toFloat
  ge x y := x ≥ y
  lt x y := x < y
  isPosInf x := x.isInf && x > 0.0
  ceilMul l q := goInt (l.toFloat * q).ceil
  toUInt64Exact x :=
    if x ≥ 0.0 && x < 18446744073709551616.0 && x.floor == x then some x.toUInt64.toNat else none

def floatOfHex (s : String) : Option Float :=
  if s == "nan" then some (0.0 / 0.0) else (parseHex64 s).map Float.ofBits

def floatToHex (f : Float) : String :=
  if f.isNaN then "nan" else hex64 f.toBits

end SE.Driver
