import SE.Proofs.Registry
/-
The registry invariant `RegWF` (SE/Spec/Registry.lean): it holds for the empty registry and is
preserved by `getOrCreate`, `updateSeries` and `sweep`. Under it the membership reading
(`Reg.HasSeries`) and the lookup reading (`Reg.series?`) of a registry coincide.
-/
set_option linter.unusedSectionVars false
namespace SE
variable {V : Type} [NumOps V]

theorem RegWF_empty (pre : List (Bytes × MType × Bytes)) : RegWF ({ metrics := [], pre := pre } : Reg V) :=
  ⟨List.nodup_nil, fun _ h => (by cases h), fun _ h => (by cases h)⟩

theorem mem_of_find {r : Reg V} {name : Bytes} {m : MetricM V} (h : r.find name = some m) :
    m ∈ r.metrics ∧ m.name = name :=
  ⟨List.mem_of_find?_eq_some h, by simpa using List.find?_some h⟩

theorem RegWF.find_of_mem {r : Reg V} (h : RegWF r) {m : MetricM V} (hm : m ∈ r.metrics) : r.find m.name = some m :=
  find?_key_of_mem (fun m : MetricM V => m.name) r.metrics h.names_nodup m hm

theorem RegWF.find?_of_mem {r : Reg V} (h : RegWF r) {m : MetricM V} (hm : m ∈ r.metrics) {s : Series V}
    (hs : s ∈ m.series) : m.series.find? (·.labels == s.labels) = some s :=
  find?_key_of_mem (fun s : Series V => s.labels) m.series (h.labels_nodup m hm) s hs

/-- under `RegWF` the two readings of a registry agree -/
theorem RegWF.hasSeries_iff {r : Reg V} (h : RegWF r) (name : Bytes) (s : Series V) :
    r.HasSeries name s ↔ r.series? name s.labels = some s := by
  constructor
  · rintro ⟨m, hm, hn, hs⟩
    subst hn
    unfold Reg.series?
    rw [h.find_of_mem hm]
    exact h.find?_of_mem hm hs
  · intro hs
    unfold Reg.series? at hs
    cases hf : r.find name with
    | none => rw [hf] at hs; cases hs
    | some m =>
      rw [hf] at hs
      exact ⟨m, (mem_of_find hf).1, (mem_of_find hf).2, List.mem_of_find?_eq_some hs⟩

theorem hasSeries_of_series? {r : Reg V} {name : Bytes} {L : Labels} {s : Series V}
    (hs : r.series? name L = some s) : r.HasSeries name s ∧ s.labels = L := by
  unfold Reg.series? at hs
  cases hf : r.find name with
  | none => rw [hf] at hs; cases hs
  | some m =>
    rw [hf] at hs
    exact ⟨⟨m, (mem_of_find hf).1, (mem_of_find hf).2, List.mem_of_find?_eq_some hs⟩,
      by simpa using List.find?_some hs⟩

/-- under `RegWF`, a registered series has its vector -/
theorem RegWF.vec?_of_series? {r : Reg V} (h : RegWF r) {name : Bytes} {L : Labels} {s : Series V}
    (hs : r.series? name L = some s) : ∃ v, r.vec? name (L.map (·.1)) = some v := by
  unfold Reg.series? at hs
  unfold Reg.vec?
  cases hf : r.find name with
  | none => rw [hf] at hs; cases hs
  | some m =>
    rw [hf] at hs
    have hsl : s.labels = L := by simpa using List.find?_some hs
    obtain ⟨v, hv, hvn⟩ := h.has_vec m (mem_of_find hf).1 s (List.mem_of_find?_eq_some hs)
    simp only [Option.bind_some]
    cases hfv : m.vecs.find? (fun v => v.names == L.map (·.1)) with
    | some v' => exact ⟨v', rfl⟩
    | none =>
      rw [List.find?_eq_none] at hfv
      exact absurd (by simp [hvn, hsl]) (hfv v hv)

/-! ### preservation -/

theorem RegWF_updateMetric {r : Reg V} (h : RegWF r) (name : Bytes) (f : MetricM V → MetricM V)
    (hn : ∀ m, (f m).name = m.name)
    (hl : ∀ m, m ∈ r.metrics → m.name = name → ((f m).series.map (·.labels)).Nodup)
    (hv : ∀ m, m ∈ r.metrics → m.name = name → ∀ s, s ∈ (f m).series → ∃ v, v ∈ (f m).vecs ∧ v.names = s.labels.map (·.1)) :
    RegWF (updateMetric r name f) := by
  have hmem : ∀ m', m' ∈ (updateMetric r name f).metrics →
      ∃ m, m ∈ r.metrics ∧ ((m.name = name ∧ m' = f m) ∨ (m.name ≠ name ∧ m' = m)) := by
    intro m' hm'
    simp only [updateMetric, List.mem_map] at hm'
    obtain ⟨m, hm, e⟩ := hm'
    refine ⟨m, hm, ?_⟩
    by_cases hnm : m.name = name
    · left; simp only [hnm, beq_self_eq_true, if_true] at e; exact ⟨hnm, e.symm⟩
    · right
      have : (m.name == name) = false := by simpa using hnm
      simp only [this] at e
      exact ⟨hnm, e.symm⟩
  refine ⟨?_, ?_, ?_⟩
  · have : (updateMetric r name f).metrics.map (·.name) = r.metrics.map (·.name) := by
      simp only [updateMetric, List.map_map]
      apply List.map_congr_left
      intro m _
      simp only [Function.comp]
      split
      · exact hn m
      · rfl
    rw [this]; exact h.names_nodup
  · intro m' hm'
    obtain ⟨m, hm, ⟨hnm, e⟩ | ⟨_, e⟩⟩ := hmem m' hm'
    · subst e; exact hl m hm hnm
    · subst e; exact h.labels_nodup _ hm
  · intro m' hm'
    obtain ⟨m, hm, ⟨hnm, e⟩ | ⟨_, e⟩⟩ := hmem m' hm'
    · subst e; exact hv m hm hnm
    · subst e; exact h.has_vec _ hm

theorem RegWF_touch {r : Reg V} (h : RegWF r) (a : GetArgs V) (now : Int) : RegWF (r.touch a now) := by
  unfold Reg.touch
  refine RegWF_updateMetric h a.name _ ?_ ?_ ?_
  · intro _; rfl
  · intro m hm _
    have : (m.series.map (touchSeries a now)).map (·.labels) = m.series.map (·.labels) := by
      simp only [List.map_map]
      apply List.map_congr_left
      intro s _; exact touchSeries_labels a now s
    simp only [this]
    exact h.labels_nodup m hm
  · intro m hm _ s hs
    simp only [List.mem_map] at hs
    obtain ⟨s0, hs0, e⟩ := hs
    obtain ⟨v, hv, hvn⟩ := h.has_vec m hm s0 hs0
    exact ⟨v, hv, by rw [← e, touchSeries_labels]; exact hvn⟩

theorem RegWF_withMetric {r : Reg V} (h : RegWF r) (ty : MType) (name : Bytes) : RegWF (r.withMetric ty name) := by
  unfold Reg.withMetric
  cases hf : r.find name with
  | some m => simpa using h
  | none =>
    simp only [Option.isSome_none, Bool.false_eq_true, if_false]
    have hnone : ∀ m, m ∈ r.metrics → m.name ≠ name := by
      intro m hm
      have := List.find?_eq_none.mp hf m hm
      simpa using this
    refine ⟨?_, ?_, ?_⟩
    · simp only [List.map_append, List.map_cons, List.map_nil]
      rw [List.nodup_append]
      refine ⟨h.names_nodup, by simp, ?_⟩
      intro x hx y hy
      simp only [List.mem_map] at hx
      obtain ⟨m, hm, e⟩ := hx
      simp only [List.mem_singleton] at hy
      subst hy; subst e
      exact hnone m hm
    · intro m hm
      rcases List.mem_append.mp hm with hm | hm
      · exact h.labels_nodup m hm
      · simp only [List.mem_singleton] at hm; subst hm; exact List.nodup_nil
    · intro m hm
      rcases List.mem_append.mp hm with hm | hm
      · exact h.has_vec m hm
      · simp only [List.mem_singleton] at hm; subst hm; intro s hs; cases hs

theorem RegWF_create {r : Reg V} (h : RegWF r) (ty : MType) (a : GetArgs V) (now : Int)
    (hh : r.isHit ty a = false) (hc : r.conflicts a.name ty = false) : RegWF (r.create ty a now) := by
  have hw := RegWF_withMetric h ty a.name
  -- the metric being stored into is the one `find` returns
  have hfind : ∀ m, m ∈ (r.withMetric ty a.name).metrics → m.name = a.name →
      m = (r.find a.name).getD (newMetric ty a.name) := by
    intro m hm hn
    have h1 := hw.find_of_mem hm
    rw [hn, find_withMetric] at h1
    simpa using h1.symm
  have hvecSelf : (r.vecFor ty a).names = a.labels.map (·.1) := by
    unfold Reg.vecFor Reg.existingVec
    cases hm : r.find a.name with
    | none => rfl
    | some m =>
      simp only [Option.bind_some]
      split
      · cases hv : m.vecs.find? (fun v => v.names == a.labels.map (·.1)) with
        | none => rfl
        | some v => simpa using List.find?_some hv
      · rfl
  unfold Reg.create
  refine RegWF_updateMetric hw a.name _ ?_ ?_ ?_
  · intro _; rfl
  · intro m hm hn
    have hmeq := hfind m hm hn
    simp only [storeIn, List.map_append, List.map_cons, List.map_nil]
    rw [List.nodup_append]
    refine ⟨hw.labels_nodup m hm, by simp, ?_⟩
    intro x hx y hy
    simp only [List.mem_singleton] at hy
    subst hy
    simp only [List.mem_map] at hx
    obtain ⟨s, hs, e⟩ := hx
    subst e
    intro heq
    cases hf : r.find a.name with
    | none => rw [hf] at hmeq; subst hmeq; cases hs
    | some m0 =>
      rw [hf] at hmeq
      simp only [Option.getD_some] at hmeq
      subst hmeq
      have := List.find?_eq_none.mp (create_pre r ty a hh hc m hf).2 s hs
      exact this (by simpa [freshSeries] using heq)
  · intro m hm hn s hs
    simp only [storeIn] at hs ⊢
    rcases List.mem_append.mp hs with hs | hs
    · obtain ⟨v, hv, hvn⟩ := hw.has_vec m hm s hs
      refine ⟨v, ?_, hvn⟩
      split
      · exact hv
      · exact List.mem_append_left _ hv
    · simp only [List.mem_singleton] at hs
      subst hs
      cases he : r.existingVec ty a with
      | none =>
        simp only [Option.isSome_none, Bool.false_eq_true, if_false]
        exact ⟨r.vecFor ty a, by simp, hvecSelf⟩
      | some v =>
        simp only [Option.isSome_some, if_true]
        have hmeq := hfind m hm hn
        unfold Reg.existingVec at he
        cases hf : r.find a.name with
        | none => rw [hf] at he; cases he
        | some m0 =>
          rw [hf] at he hmeq
          simp only [Option.getD_some] at hmeq
          subst hmeq
          simp only [Option.bind_some] at he
          split at he
          · exact ⟨v, List.mem_of_find?_eq_some he, by simpa [freshSeries] using List.find?_some he⟩
          · cases he

/-- `getOrCreate` preserves well-formedness -/
theorem RegWF_getOrCreate {r r' : Reg V} (h : RegWF r) {ty : MType} {a : GetArgs V} {now : Int}
    (hg : r.getOrCreate ty a now = .ok (.ok r')) : RegWF r' := by
  rcases getOrCreate_ok_cases hg with ⟨_, e⟩ | ⟨hh, hc, _, _, _, e⟩
  · subst e; exact RegWF_touch h a now
  · subst e; exact RegWF_create h ty a now hh hc

/-- `updateSeries` preserves well-formedness when the update keeps the label set
    (every update the exporter performs does) -/
theorem RegWF_updateSeries {r : Reg V} (h : RegWF r) (name : Bytes) (labels : Labels)
    (f : VecM V → Series V → Series V) (hf : ∀ v s, (f v s).labels = s.labels) :
    RegWF (updateSeries r name labels f) := by
  rw [updateSeries_eq]
  have hlab : ∀ (m : MetricM V) (s : Series V),
      (if s.labels == labels then
        match m.vecs.find? (·.names == labels.map (·.1)) with
        | some v => f v s
        | none => s
       else s).labels = s.labels := by
    intro m s
    split
    · split
      · rw [hf]
      · rfl
    · rfl
  refine RegWF_updateMetric h name _ ?_ ?_ ?_
  · intro _; rfl
  · intro m hm _
    have : (updSeriesIn labels f m).series.map (·.labels) = m.series.map (·.labels) := by
      simp only [updSeriesIn, List.map_map]
      apply List.map_congr_left
      intro s _; exact hlab m s
    rw [this]
    exact h.labels_nodup m hm
  · intro m hm _ s hs
    simp only [updSeriesIn, List.mem_map] at hs
    obtain ⟨s0, hs0, e⟩ := hs
    obtain ⟨v, hv, hvn⟩ := h.has_vec m hm s0 hs0
    refine ⟨v, hv, ?_⟩
    have hl : s.labels = s0.labels := by rw [← e]; exact hlab m s0
    rw [hl]; exact hvn

/-! ### sweep -/

def keepSeries (now : Int) (s : Series V) : Bool := !(s.ttl != 0 && s.last + s.ttl < now)

def sweepMetric (now : Int) (m : MetricM V) : MetricM V := { m with series := m.series.filter (keepSeries now) }

theorem sweep_metrics (r : Reg V) (now : Int) : (r.sweep now).metrics = r.metrics.map (sweepMetric now) := rfl

theorem keepSeries_iff (now : Int) (s : Series V) : keepSeries now s = true ↔ (s.ttl = 0 ∨ now ≤ s.last + s.ttl) := by
  unfold keepSeries
  simp only [Bool.not_eq_true', Bool.and_eq_false_imp, bne_iff_ne, ne_eq, decide_eq_false_iff_not, Int.not_lt]
  constructor
  · intro h
    by_cases h0 : s.ttl = 0
    · exact Or.inl h0
    · exact Or.inr (h h0)
  · rintro (h | h) h0
    · exact absurd h h0
    · exact h

theorem find_sweep (r : Reg V) (now : Int) (name : Bytes) :
    (r.sweep now).find name = (r.find name).map (sweepMetric now) := by
  unfold Reg.find
  rw [sweep_metrics]
  exact find?_map_keep _ _ _ (fun _ => rfl)

theorem type?_sweep (r : Reg V) (now : Int) (name : Bytes) : (r.sweep now).type? name = r.type? name := by
  unfold Reg.type?
  rw [find_sweep]
  cases r.find name <;> rfl

theorem vec?_sweep (r : Reg V) (now : Int) (name : Bytes) (names : List Bytes) :
    (r.sweep now).vec? name names = r.vec? name names := by
  unfold Reg.vec?
  rw [find_sweep]
  cases r.find name <;> rfl

theorem RegWF_sweep {r : Reg V} (h : RegWF r) (now : Int) : RegWF (r.sweep now) := by
  refine ⟨?_, ?_, ?_⟩
  · have : (r.sweep now).metrics.map (·.name) = r.metrics.map (·.name) := by
      rw [sweep_metrics, List.map_map]; rfl
    rw [this]; exact h.names_nodup
  · intro m' hm'
    rw [sweep_metrics, List.mem_map] at hm'
    obtain ⟨m, hm, e⟩ := hm'
    subst e
    simp only [sweepMetric]
    have hsub : ((m.series.filter (keepSeries now)).map (·.labels)).Sublist (m.series.map (·.labels)) :=
      (List.filter_sublist).map _
    exact hsub.nodup (h.labels_nodup m hm)
  · intro m' hm' s hs
    rw [sweep_metrics, List.mem_map] at hm'
    obtain ⟨m, hm, e⟩ := hm'
    subst e
    simp only [sweepMetric] at hs ⊢
    exact h.has_vec m hm s (List.mem_filter.mp hs).1

/-- membership after a sweep: exactly the non-stale series of the same metric -/
theorem hasSeries_sweep (r : Reg V) (now : Int) (name : Bytes) (s : Series V) :
    (r.sweep now).HasSeries name s ↔ r.HasSeries name s ∧ (s.ttl = 0 ∨ now ≤ s.last + s.ttl) := by
  unfold Reg.HasSeries
  rw [sweep_metrics]
  constructor
  · rintro ⟨m', hm', hn, hs⟩
    rw [List.mem_map] at hm'
    obtain ⟨m, hm, e⟩ := hm'
    subst e
    simp only [sweepMetric, List.mem_filter] at hs
    exact ⟨⟨m, hm, hn, hs.1⟩, (keepSeries_iff now s).mp hs.2⟩
  · rintro ⟨⟨m, hm, hn, hs⟩, hk⟩
    refine ⟨sweepMetric now m, List.mem_map_of_mem hm, hn, ?_⟩
    simp only [sweepMetric, List.mem_filter]
    exact ⟨hs, (keepSeries_iff now s).mpr hk⟩

/-- lookup after a sweep, under `RegWF` -/
theorem RegWF.series?_sweep {r : Reg V} (h : RegWF r) (now : Int) (name : Bytes) (L : Labels) :
    (r.sweep now).series? name L = (r.series? name L).filter (keepSeries now) := by
  cases hs : r.series? name L with
  | none =>
    cases hs' : (r.sweep now).series? name L with
    | none => rfl
    | some s' =>
      obtain ⟨hh, hl⟩ := hasSeries_of_series? hs'
      have := (h.hasSeries_iff name s').mp ((hasSeries_sweep r now name s').mp hh).1
      rw [hl, hs] at this; cases this
  | some s =>
    obtain ⟨hh, hl⟩ := hasSeries_of_series? hs
    simp only [Option.filter]
    by_cases hk : keepSeries now s = true
    · simp only [hk, if_true]
      have := (hasSeries_sweep r now name s).mpr ⟨hh, (keepSeries_iff now s).mp hk⟩
      have := ((RegWF_sweep h now).hasSeries_iff name s).mp this
      rw [hl] at this; exact this
    · simp only [hk]
      cases hs' : (r.sweep now).series? name L with
      | none => rfl
      | some s' =>
        obtain ⟨hh', hl'⟩ := hasSeries_of_series? hs'
        have h1 := (hasSeries_sweep r now name s').mp hh'
        have := (h.hasSeries_iff name s').mp h1.1
        rw [hl', hs] at this
        injection this with this
        subst this
        exact absurd ((keepSeries_iff now s).mpr h1.2) hk

end SE
