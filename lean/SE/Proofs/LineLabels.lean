import SE.Proofs.Line
/-
The label map of a line as a function of the incoming map: every `#`-section is a sequence of
`Labels.set` operations that does not depend on the map, and applying the same sequence twice
is the same as applying it once (`applyKVs_idem`). Used for the extended-aggregation label
theorem of C10, where every rebuilt sample re-parses the same tag section into the shared map.
-/
namespace SE
variable {V : Type} [NumOps V]

/-! ### `Labels.set` algebra -/

theorem Labels.has_nil (k : Bytes) : Labels.has [] k = false := rfl

theorem Labels.has_cons (k' v' : Bytes) (rest : Labels) (k : Bytes) :
    Labels.has ((k', v') :: rest) k = (k' == k || Labels.has rest k) := by
  simp only [Labels.has, Labels.get?]
  by_cases h : (k' == k) = true <;> simp [h]

theorem Labels.has_set_self (L : Labels) (k v : Bytes) : (L.set k v).has k = true := by
  induction L with
  | nil => simp [Labels.set, Labels.has_cons]
  | cons kv rest ih =>
    obtain ⟨k', v'⟩ := kv
    by_cases h : (k' == k) = true
    · simp [Labels.set, h, Labels.has_cons]
    · simp [Labels.set, h, Labels.has_cons, ih]

theorem Labels.has_set_of_has (L : Labels) (k v k1 : Bytes) (h1 : L.has k1 = true) :
    (L.set k v).has k1 = true := by
  induction L with
  | nil => simp [Labels.has_nil] at h1
  | cons kv rest ih =>
    obtain ⟨k', v'⟩ := kv
    rw [Labels.has_cons] at h1
    by_cases h : (k' == k) = true
    · simp only [Labels.set, h, if_true, Labels.has_cons]; exact h1
    · simp only [Labels.set, h]
      rw [if_neg (by simp), Labels.has_cons]
      rcases Bool.or_eq_true _ _ ▸ h1 with h2 | h2
      · simp [h2]
      · simp [ih h2]

theorem Labels.set_set_same (L : Labels) (k v v' : Bytes) : (L.set k v).set k v' = L.set k v' := by
  induction L with
  | nil => simp [Labels.set]
  | cons kv rest ih =>
    obtain ⟨k', w⟩ := kv
    by_cases h : (k' == k) = true
    · simp [Labels.set, h]
    · simp [Labels.set, h, ih]

theorem Labels.set_comm (L : Labels) (k v k1 v1 : Bytes) (hne : k ≠ k1) (h1 : L.has k1 = true) :
    (L.set k v).set k1 v1 = (L.set k1 v1).set k v := by
  induction L with
  | nil => simp [Labels.has_nil] at h1
  | cons kv rest ih =>
    obtain ⟨k', w⟩ := kv
    rw [Labels.has_cons] at h1
    by_cases h : k' = k
    · subst h
      have hk1 : (k' == k1) = false := by simpa using hne
      simp [Labels.set, hk1]
    · have hk : (k' == k) = false := by simpa using h
      by_cases h' : k' = k1
      · subst h'
        simp [Labels.set, hk]
      · have hk1 : (k' == k1) = false := by simpa using h'
        simp only [hk1, Bool.false_or] at h1
        simp [Labels.set, hk, hk1, ih h1]

/-! ### sequences of `set` operations -/

def applyKVs (L : Labels) (kvs : List (Bytes × Bytes)) : Labels :=
  kvs.foldl (fun l kv => l.set kv.1 kv.2) L

theorem applyKVs_nil (L : Labels) : applyKVs L [] = L := rfl
theorem applyKVs_cons (L : Labels) (kv : Bytes × Bytes) (t : List (Bytes × Bytes)) :
    applyKVs L (kv :: t) = applyKVs (L.set kv.1 kv.2) t := rfl
theorem applyKVs_append (L : Labels) (a b : List (Bytes × Bytes)) :
    applyKVs L (a ++ b) = applyKVs (applyKVs L a) b := by
  simp [applyKVs, List.foldl_append]

theorem has_applyKVs_of_has (kvs : List (Bytes × Bytes)) :
    ∀ (L : Labels) (k : Bytes), L.has k = true → (applyKVs L kvs).has k = true := by
  induction kvs with
  | nil => intro L k h; exact h
  | cons kv t ih => intro L k h; exact ih _ k (Labels.has_set_of_has L _ _ k h)

theorem has_applyKVs_mem (kvs : List (Bytes × Bytes)) :
    ∀ (L : Labels), ∀ kv ∈ kvs, (applyKVs L kvs).has kv.1 = true := by
  induction kvs with
  | nil => intro L kv h; simp at h
  | cons x t ih =>
    intro L kv h
    rcases List.mem_cons.mp h with e | h'
    · subst e
      exact has_applyKVs_of_has t _ _ (Labels.has_set_self L _ _)
    · exact ih _ kv h'

/-- re-setting `k` at the end absorbs an earlier `set k`, provided the keys in between exist -/
theorem applyKVs_set_absorb (a : List (Bytes × Bytes)) :
    ∀ (M : Labels) (k v : Bytes), (∀ kv ∈ a, M.has kv.1 = true) →
      (applyKVs (M.set k v) a).set k v = (applyKVs M a).set k v := by
  induction a with
  | nil => intro M k v _; simp [applyKVs_nil, Labels.set_set_same]
  | cons x t ih =>
    intro M k v h
    have hx : M.has x.1 = true := h x (by simp)
    have ht : ∀ kv ∈ t, (M.set x.1 x.2).has kv.1 = true :=
      fun kv hkv => Labels.has_set_of_has M _ _ _ (h kv (by simp [hkv]))
    rw [applyKVs_cons, applyKVs_cons]
    by_cases hk : k = x.1
    · subst hk; rw [Labels.set_set_same]
    · rw [Labels.set_comm M k v x.1 x.2 hk hx, ih _ k v ht]

theorem applyKVs_idem_rev (l : List (Bytes × Bytes)) :
    ∀ L : Labels, applyKVs (applyKVs L l.reverse) l.reverse = applyKVs L l.reverse := by
  induction l with
  | nil => intro L; rfl
  | cons x t ih =>
    intro L
    rw [List.reverse_cons, applyKVs_append, applyKVs_append]
    simp only [applyKVs_cons, applyKVs_nil]
    rw [applyKVs_set_absorb t.reverse (applyKVs L t.reverse) x.1 x.2
      (fun kv hkv => has_applyKVs_mem t.reverse L kv hkv), ih]

/-- applying the same sequence of label assignments twice is the same as applying it once -/
theorem applyKVs_idem (L : Labels) (kvs : List (Bytes × Bytes)) :
    applyKVs (applyKVs L kvs) kvs = applyKVs L kvs := by
  have := applyKVs_idem_rev kvs.reverse L
  rwa [List.reverse_reverse] at this

/-! ### the tag loops as `applyKVs` -/

/-- the assignment a tag stands for, if it is well-formed -/
def tagKV (sep : UInt8) (tag : Bytes) : List (Bytes × Bytes) :=
  if tag.isEmpty then [] else
  match cut sep tag with
  | none => []
  | some (k, v) => if k.isEmpty || v.isEmpty then [] else [(specEscape k, v)]

theorem parseTag_fst (tag : Bytes) (sep : UInt8) (L : Labels) :
    (parseTag tag sep L).1 = applyKVs L (tagKV sep tag) := by
  by_cases h0 : tag.isEmpty = true
  · simp [parseTag, tagKV, h0, applyKVs_nil]
  · cases hc : cut sep tag with
    | none => simp [parseTag, tagKV, h0, hc, applyKVs_nil]
    | some kv =>
      obtain ⟨k, v⟩ := kv
      by_cases h1 : (k.isEmpty || v.isEmpty) = true
      · simp only [parseTag, tagKV, h0, hc, h1, if_true]
        rfl
      · simp only [parseTag, tagKV, h0, hc, h1]
        simp [applyKVs]

def piecesKVs (trim : Bytes → Bytes) (sep : UInt8) : List Bytes → List (Bytes × Bytes)
  | [] => []
  | [last] => if last.isEmpty then [] else tagKV sep (trim last)
  | p :: ps => tagKV sep (trim p) ++ piecesKVs trim sep ps

theorem parseTagPieces_fst (trim : Bytes → Bytes) (sep : UInt8) (ps : List Bytes) :
    ∀ (L : Labels) (e : Nat),
      (parseTagPieces trim sep ps L e).1 = applyKVs L (piecesKVs trim sep ps) := by
  induction ps with
  | nil => intro L e; rfl
  | cons p rest ih =>
    intro L e
    cases rest with
    | nil =>
      simp only [parseTagPieces, piecesKVs]
      split
      · rfl
      · exact parseTag_fst _ _ _
    | cons q qs =>
      simp only [parseTagPieces, piecesKVs]
      rw [ih, applyKVs_append, parseTag_fst]

/-- the assignments of one `|`-component -/
def compKVs (fl : ParserFlags) : Bytes → List (Bytes × Bytes)
  | [] => []
  | b :: rest =>
    if b == cAt then [] else if b == cHash then
      (if fl.dogstatsd then piecesKVs trimLeftHash cColon (splitOn cComma rest) else [])
    else []

theorem stepComponent_labels (fl : ParserFlags) (pf : Pf V) (st : StatType) (s : CompSt V) (c : Bytes) :
    (stepComponent fl pf st s c).labels = applyKVs s.labels (compKVs fl c) := by
  cases c with
  | nil => rfl
  | cons b rest =>
    by_cases hb : (b == cAt) = true
    · by_cases he : ((pf rest).2 != PfErr.ok) = true <;>
        cases st <;> simp [stepComponent, compKVs, hb, he, applyKVs_nil]
    · by_cases hh : (b == cHash) = true
      · cases hd : fl.dogstatsd with
        | true =>
          simp [stepComponent, compKVs, hb, hh, parseDogStatsDTags, hd, parseTagPieces_fst]
        | false => simp [stepComponent, compKVs, hb, hh, parseDogStatsDTags, hd, applyKVs_nil]
      · simp [stepComponent, compKVs, hb, hh, applyKVs_nil]

theorem foldl_stepComponent_labels (fl : ParserFlags) (pf : Pf V) (st : StatType) (cs : List Bytes) :
    ∀ (s : CompSt V), (cs.foldl (stepComponent fl pf st) s).labels =
      applyKVs s.labels (cs.flatMap (compKVs fl)) := by
  induction cs with
  | nil => intro s; rfl
  | cons c cs ih =>
    intro s
    rw [List.foldl_cons, ih, stepComponent_labels, List.flatMap_cons, applyKVs_append]

/-- the label map after one sample: the `#`-sections' assignments if the sample is accepted,
    otherwise the incoming map -/
theorem parseSample_labels (fl : ParserFlags) (pf : Pf V) (m : Bytes) (o : ParseOut V) (s : Bytes) :
    (parseSample fl pf m o s).labels =
      if sampleAccepted pf s = true then
        applyKVs o.labels (((splitOn cPipe s).drop 2).flatMap (compKVs fl))
      else o.labels := by
  unfold sampleAccepted
  rcases hsp : splitOn cPipe s with _ | ⟨v, _ | ⟨stB, extra⟩⟩
  · simp [parseSample, hsp]
  · simp [parseSample, hsp]
  · by_cases hl : extra.length > 2
    · have : ¬ extra.length ≤ 2 := by omega
      simp [parseSample, hsp, hl, this]
    · have hl' : extra.length ≤ 2 := by omega
      by_cases hv : ((pf v).2 != PfErr.ok) = true
      · have : ((pf v).2 == PfErr.ok) = false := by simpa using hv
        simp [parseSample, hsp, hl, hv, this]
      · have hv' : ((pf v).2 == PfErr.ok) = true := by simpa using hv
        by_cases he : extra.any (·.isEmpty) = true
        · simp [parseSample, hsp, hl, hv, he]
        · have hf := foldl_stepComponent_labels fl pf (statTypeOf stB) extra ⟨(pf v).1, 1, o.labels, [], 0⟩
          simp only [parseSample, hsp, hl, hv, he]
          simp only [if_false, Bool.false_eq_true]
          simp only [hl', hv', decide_true, Bool.true_and, Bool.not_false, if_true, List.drop_succ_cons,
            List.drop_zero]
          rw [← hf]
          (repeat' split) <;> rfl


/-- the assignments of a rebuilt extended-aggregation sample `v|tail` do not depend on `v` -/
theorem parseSample_labels_rebuilt (fl : ParserFlags) (pf : Pf V) (m : Bytes) (o : ParseOut V)
    (v tail : Bytes) (hv : cPipe ∉ v) :
    (parseSample fl pf m o (v ++ cPipe :: tail)).labels =
      if sampleAccepted pf (v ++ cPipe :: tail) = true then
        applyKVs o.labels (((splitOn cPipe tail).drop 1).flatMap (compKVs fl))
      else o.labels := by
  rw [parseSample_labels, splitOn_append _ hv]
  rfl

theorem foldl_rebuilt_labels (fl : ParserFlags) (pf : Pf V) (m : Bytes) (tail : Bytes) (vs : List Bytes)
    (hvs : ∀ v ∈ vs, cPipe ∉ v) :
    ∀ o : ParseOut V,
      ((vs.map fun v => v ++ cPipe :: tail).foldl (parseSample fl pf m) o).labels =
        if vs.any (fun v => sampleAccepted pf (v ++ cPipe :: tail)) = true then
          applyKVs o.labels (((splitOn cPipe tail).drop 1).flatMap (compKVs fl))
        else o.labels := by
  induction vs with
  | nil => intro o; rfl
  | cons v vs ih =>
    intro o
    rw [List.map_cons, List.foldl_cons, ih (fun x hx => hvs x (by simp [hx])),
      parseSample_labels_rebuilt fl pf m o v tail (hvs v (by simp)), List.any_cons]
    cases hacc : sampleAccepted pf (v ++ cPipe :: tail) with
    | true =>
      simp only [if_true, Bool.true_or, applyKVs_idem]
      split <;> rfl
    | false => simp

end SE
