import SE.Proofs.RegistryPipe
import SE.Spec.PipeHistory
/-
Helper definitions and lemmas for C19(b) and C02: when is a configuration safe to run
(`ConfigSafe`), when is a registry safe (`VecsSafe`: every vector was created with options the
client_golang constructors accept), and the proofs that a safe configuration keeps a safe
registry safe and never reaches one of the `Panic` outcomes of `Reg.getOrCreate`.
-/
set_option linter.unusedSectionVars false
namespace SE
variable {V : Type} [NumOps V]

/-! ### vocabulary -/

/-- client_golang's stream duration `MaxAge / AgeBuckets` with its defaults (10 min / 5), in ns -/
def streamDuration (maxAge : Int) (ageBuckets : Nat) : Int :=
  (if maxAge == 0 then 600000000000 else maxAge) / ((if ageBuckets == 0 then 5 else ageBuckets) : Int)

/-- the decidable part of "these summary options are accepted": `NewSummary` does not panic
    (`MaxAge ≥ 0`) and `Observe` does not hang (non-zero stream duration) -/
def maxAgeOk (maxAge : Int) (ageBuckets : Nat) : Bool :=
  decide (0 ≤ maxAge) && streamDuration maxAge ageBuckets != 0

/-- no objective makes perks' `Query` index out of range, whatever the number of samples -/
def ObjectivesSafe (objs : List V) : Prop := ∀ (l : Nat) (q : V), q ∈ objs → queryPanics l q = false

/-- summary options that neither panic at construction, nor hang at `Observe`, nor panic at `Gather` -/
structure SummarySafe (maxAge : Int) (ageBuckets : Nat) (objs : List V) : Prop where
  maxAge_nonneg : 0 ≤ maxAge
  duration_ne_zero : streamDuration maxAge ageBuckets ≠ 0
  objectives : ObjectivesSafe objs

/-- options that are safe for a vector of type `ty` -/
def OptsSafe (ty : MType) (bounds : List V) (maxAge : Int) (ageBuckets : Nat) (objs : List V) : Prop :=
  (ty = .histogram → strictlyIncreasing bounds = true) ∧ (ty = .summary → SummarySafe maxAge ageBuckets objs)

def VecSafe (ty : MType) (v : VecM V) : Prop := OptsSafe ty v.bounds v.maxAge v.ageBuckets v.objectives

def ArgsSafe (ty : MType) (a : GetArgs V) : Prop := OptsSafe ty a.bounds a.maxAge a.ageBuckets a.objectives

/-- **registry invariant**: every histogram vector has strictly increasing bounds, every summary
    vector has safe `MaxAge` / `AgeBuckets` / objectives -/
def VecsSafe (r : Reg V) : Prop := ∀ m, m ∈ r.metrics → ∀ v, v ∈ m.vecs → VecSafe m.ty v

/-- the observer type `handleEvent` uses for a rule -/
def ruleObsTy (cfg : Config V) (r : Rule V) : ObsTy :=
  if r.observerType == .dflt then cfg.dObserverType else r.observerType

/-- the bucket list `handleEvent` hands to `GetHistogram` for a rule -/
def ruleBounds (cfg : Config V) (r : Rule V) : List V :=
  if r.hasHistOpts && !r.buckets.isEmpty then r.buckets else cfg.dBuckets

/-- `MaxAge`, `AgeBuckets` handed to `GetSummary` for a rule -/
def ruleMaxAge (cfg : Config V) (r : Rule V) : Int × Nat :=
  if r.hasSummaryOpts then (r.maxAge, r.ageBuckets) else (cfg.dMaxAge, cfg.dAgeBuckets)

/-- the objectives (quantile ranks) handed to `GetSummary` for a rule -/
def ruleObjectives (cfg : Config V) (r : Rule V) : List V :=
  (if r.hasSummaryOpts && !r.quantiles.isEmpty then r.quantiles else cfg.dQuantiles).map (·.1)

/-- the options of an observer of type `t` are safe: buckets for a histogram, summary options otherwise
    (`dflt` behaves as summary in `handleEvent`) -/
def ObserverSafe (t : ObsTy) (bounds : List V) (maxAge : Int) (ageBuckets : Nat) (objs : List V) : Prop :=
  if t = .histogram then strictlyIncreasing bounds = true else SummarySafe maxAge ageBuckets objs

/-- **a configuration that is safe to run**: for every rule that is not a `drop` rule, and for the
    defaults (used by unmapped events), the options the exporter would hand to the histogram /
    summary constructor are accepted by client_golang and never make `Gather` panic. -/
structure ConfigSafe (cfg : Config V) : Prop where
  rules : ∀ r, r ∈ cfg.rules → r.action ≠ .drop →
    ObserverSafe (ruleObsTy cfg r) (ruleBounds cfg r) (ruleMaxAge cfg r).1 (ruleMaxAge cfg r).2 (ruleObjectives cfg r)
  defaults : ObserverSafe cfg.dObserverType cfg.dBuckets cfg.dMaxAge cfg.dAgeBuckets (cfg.dQuantiles.map (·.1))

/-- the decidable part of `ConfigSafe` for one option set (everything but the objectives) -/
def observerOk (t : ObsTy) (bounds : List V) (maxAge : Int) (ageBuckets : Nat) : Bool :=
  if t == .histogram then strictlyIncreasing bounds else maxAgeOk maxAge ageBuckets

/-- the decidable part of `ConfigSafe` -/
def configOk (cfg : Config V) : Bool :=
  cfg.rules.all (fun r => r.action == .drop ||
    observerOk (ruleObsTy cfg r) (ruleBounds cfg r) (ruleMaxAge cfg r).1 (ruleMaxAge cfg r).2) &&
  observerOk cfg.dObserverType cfg.dBuckets cfg.dMaxAge cfg.dAgeBuckets

theorem maxAgeOk_iff (maxAge : Int) (ageBuckets : Nat) :
    maxAgeOk maxAge ageBuckets = true ↔ 0 ≤ maxAge ∧ streamDuration maxAge ageBuckets ≠ 0 := by
  unfold maxAgeOk
  simp only [Bool.and_eq_true, decide_eq_true_eq, bne_iff_ne, ne_eq]

theorem summarySafe_iff (maxAge : Int) (ageBuckets : Nat) (objs : List V) :
    SummarySafe maxAge ageBuckets objs ↔ maxAgeOk maxAge ageBuckets = true ∧ ObjectivesSafe objs := by
  rw [maxAgeOk_iff]
  exact ⟨fun h => ⟨⟨h.1, h.2⟩, h.3⟩, fun h => ⟨h.1.1, h.1.2, h.2⟩⟩

theorem observerSafe_iff (t : ObsTy) (bounds : List V) (maxAge : Int) (ageBuckets : Nat) (objs : List V) :
    ObserverSafe t bounds maxAge ageBuckets objs ↔
      observerOk t bounds maxAge ageBuckets = true ∧ (t ≠ .histogram → ObjectivesSafe objs) := by
  unfold ObserverSafe observerOk
  by_cases ht : t = .histogram
  · subst ht; simp
  · have : (t == ObsTy.histogram) = false := by simpa using ht
    rw [if_neg ht, this, summarySafe_iff]
    simp [ht]

/-- `ConfigSafe` = the decidable check `configOk` + the objectives of every summary-typed option set
    never index out of range -/
theorem configSafe_iff (cfg : Config V) :
    ConfigSafe cfg ↔ configOk cfg = true ∧
      (∀ r, r ∈ cfg.rules → r.action ≠ .drop → ruleObsTy cfg r ≠ .histogram → ObjectivesSafe (ruleObjectives cfg r)) ∧
      (cfg.dObserverType ≠ .histogram → ObjectivesSafe (cfg.dQuantiles.map (·.1))) := by
  unfold configOk
  simp only [Bool.and_eq_true, List.all_eq_true, Bool.or_eq_true, beq_iff_eq]
  constructor
  · intro h
    refine ⟨⟨fun r hr => ?_, ((observerSafe_iff _ _ _ _ _).mp h.defaults).1⟩, fun r hr hd => ?_,
      ((observerSafe_iff _ _ _ _ _).mp h.defaults).2⟩
    · by_cases hd : r.action = .drop
      · exact Or.inl hd
      · exact Or.inr ((observerSafe_iff _ _ _ _ _).mp (h.rules r hr hd)).1
    · exact ((observerSafe_iff _ _ _ _ _).mp (h.rules r hr hd)).2
  · rintro ⟨⟨h1, h2⟩, h3, h4⟩
    refine ⟨fun r hr hd => (observerSafe_iff _ _ _ _ _).mpr ⟨?_, h3 r hr hd⟩, (observerSafe_iff _ _ _ _ _).mpr ⟨h2, h4⟩⟩
    rcases h1 r hr with e | e
    · exact absurd e hd
    · exact e

/-! ### the empty options are safe for every type -/

theorem summarySafe_default : SummarySafe (V := V) 0 0 [] :=
  ⟨Int.le_refl 0, by decide, fun _ _ h => by cases h⟩

theorem optsSafe_default (t : MType) : OptsSafe (V := V) t [] 0 0 [] :=
  ⟨fun _ => rfl, fun _ => summarySafe_default⟩

/-! ### safe vectors never trip a constructor check -/

theorem ctorPanic_none_of_safe {ty : MType} {v : VecM V} (h : VecSafe ty v) : ctorPanic ty v = none := by
  unfold ctorPanic
  cases ty with
  | counter => rfl
  | gauge => rfl
  | histogram =>
    have hb := h.1 rfl
    simp [hb]
  | summary =>
    have hs := h.2 rfl
    have h1 : ¬ v.maxAge < 0 := by have := hs.maxAge_nonneg; omega
    have h2 := hs.duration_ne_zero
    unfold streamDuration at h2
    simp only [beq_iff_eq] at h2
    simp [h1, h2]

theorem existingVec_mem {r : Reg V} {ty : MType} {a : GetArgs V} {v : VecM V} (h : r.existingVec ty a = some v) :
    ∃ m, m ∈ r.metrics ∧ m.ty = ty ∧ v ∈ m.vecs := by
  unfold Reg.existingVec at h
  cases hf : r.find a.name with
  | none => rw [hf] at h; cases h
  | some m =>
    rw [hf] at h
    simp only [Option.bind_some] at h
    split at h
    · rename_i hty
      exact ⟨m, (mem_of_find hf).1, by simpa using hty, List.mem_of_find?_eq_some h⟩
    · cases h

theorem vecFor_safe {r : Reg V} {ty : MType} {a : GetArgs V} (hr : VecsSafe r) (ha : ArgsSafe ty a) :
    VecSafe ty (r.vecFor ty a) := by
  unfold Reg.vecFor
  cases he : r.existingVec ty a with
  | none => exact ha
  | some v =>
    obtain ⟨m, hm, hty, hv⟩ := existingVec_mem he
    have := hr m hm v hv
    rw [hty] at this
    exact this

/-- **no panic**: a safe registry asked with safe arguments never reaches a `Panic` outcome -/
theorem getOrCreate_no_panic {r : Reg V} {ty : MType} {a : GetArgs V} (now : Int) (hr : VecsSafe r) (ha : ArgsSafe ty a)
    (pn : Panic) : r.getOrCreate ty a now ≠ .error pn := by
  rw [Reg.getOrCreate_eq, ctorPanic_none_of_safe (vecFor_safe hr ha)]
  intro h
  split at h
  · cases h
  · split at h
    · cases h
    · split at h
      · cases h
      · split at h
        · cases h
        · cases h

/-! ### `VecsSafe` is preserved -/

theorem VecsSafe_empty (pre : List (Bytes × MType × Bytes)) : VecsSafe ({ metrics := [], pre := pre } : Reg V) :=
  fun _ h => by cases h

theorem VecsSafe_map {r : Reg V} (g : MetricM V → MetricM V) (hg : ∀ m, (g m).ty = m.ty ∧ (g m).vecs = m.vecs)
    (h : VecsSafe r) : VecsSafe { r with metrics := r.metrics.map g } := by
  intro m' hm' v hv
  obtain ⟨m, hm, e⟩ := List.mem_map.mp hm'
  subst e
  rw [(hg m).1]
  rw [(hg m).2] at hv
  exact h m hm v hv

theorem VecsSafe_updateMetric {r : Reg V} (name : Bytes) (f : MetricM V → MetricM V)
    (hf : ∀ m, (f m).ty = m.ty ∧ (f m).vecs = m.vecs) (h : VecsSafe r) : VecsSafe (updateMetric r name f) := by
  unfold updateMetric
  apply VecsSafe_map _ _ h
  intro m
  split
  · exact hf m
  · exact ⟨rfl, rfl⟩

theorem VecsSafe_sweep {r : Reg V} (h : VecsSafe r) (now : Int) : VecsSafe (r.sweep now) :=
  VecsSafe_map _ (fun _ => ⟨rfl, rfl⟩) h

theorem VecsSafe_updateSeries {r : Reg V} (h : VecsSafe r) (name : Bytes) (labels : Labels)
    (f : VecM V → Series V → Series V) : VecsSafe (updateSeries r name labels f) :=
  VecsSafe_updateMetric name _ (fun _ => ⟨rfl, rfl⟩) h

theorem VecsSafe_touch {r : Reg V} (h : VecsSafe r) (a : GetArgs V) (now : Int) : VecsSafe (r.touch a now) :=
  VecsSafe_updateMetric a.name _ (fun _ => ⟨rfl, rfl⟩) h

theorem VecsSafe_withMetric {r : Reg V} (h : VecsSafe r) (ty : MType) (name : Bytes) : VecsSafe (r.withMetric ty name) := by
  unfold Reg.withMetric
  split
  · exact h
  · intro m hm v hv
    simp only [List.mem_append, List.mem_singleton] at hm
    rcases hm with hm | e
    · exact h m hm v hv
    · subst e; cases hv

theorem VecsSafe_create {r : Reg V} (h : VecsSafe r) (ty : MType) (a : GetArgs V) (now : Int)
    (ha : ∀ t, ArgsSafe t a) : VecsSafe (r.create ty a now) := by
  have hw := VecsSafe_withMetric h ty a.name
  unfold Reg.create updateMetric
  intro m' hm' v hv
  obtain ⟨m, hm, e⟩ := List.mem_map.mp hm'
  subst e
  split at hv
  · rename_i hname
    simp only [hname, if_true]
    show VecSafe m.ty v
    simp only [storeIn] at hv
    split at hv
    · exact hw m hm v hv
    · rename_i hnone
      rcases List.mem_append.mp hv with hv | hv
      · exact hw m hm v hv
      · rw [List.mem_singleton] at hv
        subst hv
        unfold Reg.vecFor
        have : r.existingVec ty a = none := by
          cases he : r.existingVec ty a with
          | none => rfl
          | some x => rw [he] at hnone; exact absurd rfl hnone
        rw [this]
        exact ha m.ty
  · rename_i hname
    simp only [hname] at hv ⊢
    exact hw m hm v hv

theorem VecsSafe_getOrCreate {r r' : Reg V} (h : VecsSafe r) {ty : MType} {a : GetArgs V} {now : Int}
    (ha : ∀ t, ArgsSafe t a) (hg : r.getOrCreate ty a now = .ok (.ok r')) : VecsSafe r' := by
  rcases getOrCreate_ok_cases hg with ⟨_, e⟩ | ⟨_, _, _, _, _, e⟩
  · subst e; exact VecsSafe_touch h a now
  · subst e; exact VecsSafe_create h ty a now ha

/-! ### the requests a safe configuration issues are safe -/

theorem evRule_mem {p : Pipe V} {rx : Rx} {ev : Ev V} {r : Rule V} (h : evRule p rx ev = some r) :
    r ∈ p.mapper.cfg.rules := by
  unfold evRule at h
  cases hf : evFound p rx ev with
  | none => rw [hf] at h; cases h
  | some m =>
    rw [hf] at h
    simp only [Option.bind_some] at h
    exact List.mem_of_getElem? h

/-- under `ConfigSafe`, the options in the registry request of a non-dropped event are safe for the
    requested type — and (being the defaults) for every other type as well -/
theorem evPlan_safe (p : Pipe V) (rx : Rx) (ev : Ev V) (nm : Bytes) (sorted : Labels)
    (hc : ConfigSafe p.mapper.cfg) (hd : evDropped p rx ev = false) :
    ∀ t, ArgsSafe t (evPlan p rx ev nm sorted).2.1 := by
  intro t
  unfold evPlan
  cases ev.kind
  · exact optsSafe_default t
  · exact optsSafe_default t
  · simp only []
    -- the options `ConfigSafe` speaks about, for the matched rule or the defaults
    have key : ObserverSafe (evObsTy p rx ev)
        (match evRule p rx ev with
          | some r => if r.hasHistOpts && !r.buckets.isEmpty then r.buckets else p.mapper.cfg.dBuckets
          | none => p.mapper.cfg.dBuckets)
        (match evRule p rx ev with
          | some r => if r.hasSummaryOpts then (r.maxAge, r.ageBuckets) else (p.mapper.cfg.dMaxAge, p.mapper.cfg.dAgeBuckets)
          | none => (p.mapper.cfg.dMaxAge, p.mapper.cfg.dAgeBuckets)).1
        (match evRule p rx ev with
          | some r => if r.hasSummaryOpts then (r.maxAge, r.ageBuckets) else (p.mapper.cfg.dMaxAge, p.mapper.cfg.dAgeBuckets)
          | none => (p.mapper.cfg.dMaxAge, p.mapper.cfg.dAgeBuckets)).2
        ((match evRule p rx ev with
          | some r => if r.hasSummaryOpts && !r.quantiles.isEmpty then r.quantiles else p.mapper.cfg.dQuantiles
          | none => p.mapper.cfg.dQuantiles : List (V × V)).map (·.1)) := by
      unfold evObsTy
      cases hr : evRule p rx ev with
      | none => exact hc.defaults
      | some r =>
        have hnd : r.action ≠ .drop := by
          intro hdrop
          unfold evDropped at hd
          rw [hr] at hd
          simp [hdrop] at hd
        exact hc.rules r (evRule_mem hr) hnd
    unfold ObserverSafe at key
    split
    · rename_i hh
      have hh' : evObsTy p rx ev = .histogram := by simpa using hh
      rw [if_pos hh'] at key
      exact ⟨fun _ => key, fun _ => summarySafe_default⟩
    · rename_i hh
      have hh' : ¬ evObsTy p rx ev = .histogram := by simpa using hh
      rw [if_neg hh'] at key
      exact ⟨fun _ => rfl, fun _ => key⟩

theorem evTarget_safe {p : Pipe V} {rx : Rx} {ev : Ev V} {tags : Labels} {c : Counts} {pl : Plan V}
    (hc : ConfigSafe p.mapper.cfg) (ht : evTarget p rx ev tags = some (c, pl)) : ∀ t, ArgsSafe t pl.2.1 := by
  obtain ⟨hd, _, nm, _, hpl⟩ := evTarget_spec ht
  subst hpl
  exact evPlan_safe p rx ev nm _ hc hd

/-! ### `handleEvent`, `handleEvents`, `runOps` -/

/-- **a safe configuration on a safe registry never panics** -/
theorem handleEvent_no_panic {p : Pipe V} {rx : Rx} {ev : Ev V} {tags : Labels}
    (hc : ConfigSafe p.mapper.cfg) (hv : VecsSafe p.reg) (pn : Panic) :
    handleEvent p rx ev tags ≠ some (.error pn) := by
  intro h
  cases ht : evTarget p rx ev tags with
  | none =>
    rcases handleEvent_no_target ht with h0 | ⟨c', h1, _⟩
    · rw [h0] at h; cases h
    · rw [h1] at h; injection h with h; cases h
  | some cp =>
    obtain ⟨c, pl⟩ := cp
    rw [handleEvent_of_target ht] at h
    rcases finishPlan_cases p c pl with ⟨pn', hg, _⟩ | ⟨e, _, h1⟩ | ⟨reg, _, h1⟩
    · exact getOrCreate_no_panic p.now hv (evTarget_safe hc ht pl.1) pn' hg
    · rw [h1] at h; injection h with h; cases h
    · rw [h1] at h; injection h with h; cases h

/-- … and leaves the registry safe -/
theorem VecsSafe_handleEvent {p p' : Pipe V} {rx : Rx} {ev : Ev V} {tags : Labels}
    (hc : ConfigSafe p.mapper.cfg) (hv : VecsSafe p.reg)
    (h : handleEvent p rx ev tags = some (.ok p')) : VecsSafe p'.reg := by
  by_cases ha : p'.counts.applied = p.counts.applied + 1
  · obtain ⟨c, pl, reg, ht, hg, e⟩ := handleEvent_applied h ha
    subst e
    simp only [appliedPipe]
    exact VecsSafe_updateSeries (VecsSafe_getOrCreate hv (evTarget_safe hc ht) hg) _ _ _
  · rw [handleEvent_not_applied h ha]; exact hv

theorem handleEvents_safe {rx : Rx} {tags : Labels} (evs : List (Ev V)) :
    ∀ {p : Pipe V}, ConfigSafe p.mapper.cfg → VecsSafe p.reg →
      (∀ pn, handleEvents p rx tags evs ≠ some (.error pn)) ∧
      (∀ p', handleEvents p rx tags evs = some (.ok p') → VecsSafe p'.reg ∧ p'.mapper = p.mapper ∧ p'.now = p.now) := by
  induction evs with
  | nil =>
    intro p _ hv
    refine ⟨fun pn h => ?_, fun p' h => ?_⟩
    · simp only [handleEvents] at h; injection h with h; cases h
    · simp only [handleEvents] at h; injection h with h; injection h with h; subst h; exact ⟨hv, rfl, rfl⟩
  | cons e es ih =>
    intro p hc hv
    simp only [handleEvents]
    cases h1 : handleEvent p rx e tags with
    | none => exact ⟨fun pn h => (by cases h), fun p' h => (by cases h)⟩
    | some x =>
      cases x with
      | error pn => exact absurd h1 (handleEvent_no_panic hc hv pn)
      | ok p1 =>
        have hk := handleEvent_keeps h1
        have hv1 := VecsSafe_handleEvent hc hv h1
        have hc1 : ConfigSafe p1.mapper.cfg := by rw [hk.1]; exact hc
        obtain ⟨i1, i2⟩ := ih hc1 hv1
        refine ⟨i1, fun p' h => ?_⟩
        obtain ⟨a, b, c⟩ := i2 p' h
        exact ⟨a, by rw [b, hk.1], by rw [c, hk.2]⟩

/-- every configuration a history reloads is safe -/
def OpsSafe (ops : List (PipeOp V)) : Prop := ∀ m, PipeOp.reload m ∈ ops → ConfigSafe m.cfg

theorem runOps_safe (rx : Rx) (ops : List (PipeOp V)) :
    ∀ {p : Pipe V}, ConfigSafe p.mapper.cfg → VecsSafe p.reg → OpsSafe ops →
      (∀ pn, runOps rx p ops ≠ some (.error pn)) ∧
      (∀ p', runOps rx p ops = some (.ok p') → VecsSafe p'.reg ∧ ConfigSafe p'.mapper.cfg) := by
  induction ops with
  | nil =>
    intro p hc hv _
    refine ⟨fun pn h => ?_, fun p' h => ?_⟩
    · simp only [runOps] at h; injection h with h; cases h
    · simp only [runOps] at h; injection h with h; injection h with h; subst h; exact ⟨hv, hc⟩
  | cons op rest ih =>
    intro p hc hv hs
    have hs' : OpsSafe rest := fun m hm => hs m (List.mem_cons_of_mem _ hm)
    cases op with
    | line tags evs =>
      obtain ⟨n1, n2⟩ := handleEvents_safe (rx := rx) (tags := tags) evs hc hv
      simp only [runOps]
      cases h1 : handleEvents p rx tags evs with
      | none => exact ⟨fun pn h => (by cases h), fun p' h => (by cases h)⟩
      | some x =>
        cases x with
        | error pn => exact absurd h1 (n1 pn)
        | ok p1 =>
          obtain ⟨a, b, _⟩ := n2 p1 h1
          exact ih (by rw [b]; exact hc) a hs'
    | sweep => simp only [runOps]; exact ih hc (VecsSafe_sweep hv p.now) hs'
    | advance now => simp only [runOps]; exact ih hc hv hs'
    | reload m => simp only [runOps]; exact ih (hs m (List.mem_cons_self ..)) hv hs'

/-! ### `Gather` -/

/-- a safe registry never panics inside `Gather` -/
theorem gatherPanics_false_of_safe {r : Reg V} (h : VecsSafe r) : r.gatherPanics = false := by
  unfold Reg.gatherPanics
  rw [List.any_eq_false]
  intro m hm
  cases hty : m.ty == MType.summary with
  | false => simp
  | true =>
    simp only [Bool.true_and, Bool.not_eq_true]
    rw [List.any_eq_false]
    intro s _
    split
    · rename_i v hv
      have hs := (h m hm v (List.mem_of_find?_eq_some hv)).2 (by simpa using hty)
      simp only [Bool.not_eq_true]
      rw [List.any_eq_false]
      intro q hq
      simp only [Bool.not_eq_true]
      exact hs.objectives s.n q hq
    · simp

end SE
