import SE.Spec.Escape
namespace SE

def pend (inp : Bytes) (s : EscSt) : Bytes := (inp.drop s.offset).take (s.i - s.offset)
def outOf (inp : Bytes) (s : EscSt) : Bytes := s.sb ++ pend inp s

/-- loop invariant of `EscapeMetricName` -/
structure EscInv (s : EscSt) : Prop where
  le : s.offset ≤ s.i
  lazy : s.escaped = false → s.sb = [] ∧ s.offset = 0
  pd : s.prevDash = true → s.escaped = true
  pd2 : s.prevDash = true → s.offset = s.i

theorem slice_eq (inp : Bytes) (a b : Nat) (h1 : a ≤ b) (h2 : b ≤ inp.length) :
    slice inp a b = some ((inp.drop a).take (b - a)) := by
  simp [slice, h1, h2]

theorem pend_self (inp : Bytes) (s : EscSt) (h : s.offset = s.i) : pend inp s = [] := by
  simp [pend, h]

theorem dash_w (t : Tok) (h : t.cls = .dash) : t.w = 1 := by
  unfold Tok.cls at h
  unfold Tok.w
  split at h
  · rename_i heq; simp [heq]
  · simp at h

theorem run_spec (inp : Bytes) :
    ∀ (ts : List Tok) (pre : Bytes) (s : EscSt),
      inp = pre ++ flat ts → s.i = pre.length → EscInv s →
      ∃ s', runToks inp s ts = some s' ∧ s'.i = inp.length ∧ EscInv s' ∧
        outOf inp s' = outOf inp s ++ specBody s.prevDash ts := by
  intro ts
  induction ts with
  | nil =>
    intro pre s hinp hi hJ
    refine ⟨s, rfl, ?_, hJ, ?_⟩
    · simp [hinp, flat, hi]
    · simp [specBody]
  | cons t ts ih =>
    intro pre s hinp hi hJ
    have hinp' : inp = (pre ++ t.bytes) ++ flat ts := by
      simp [hinp, flat, List.append_assoc]
    have hlen : s.i + t.w ≤ inp.length := by
      rw [hinp']; simp [hi, Tok.w]
    have hcur : (inp.drop s.i).take t.w = t.bytes := by
      rw [hinp, hi]; simp [flat, Tok.w]
    have hle := hJ.le
    have escStep : ∀ (pdNew : Bool),
        let s1 : EscSt := { offset := s.i + t.w, i := s.i + t.w, escaped := true,
                            sb := s.sb ++ pend inp s ++ [us], prevDash := pdNew }
        EscInv s1 ∧ outOf inp s1 = outOf inp s ++ [us] := by
      intro pdNew s1
      refine ⟨⟨by simp [s1], by intro h; simp [s1] at h, by intro _; rfl, by intro _; simp [s1]⟩, ?_⟩
      simp [outOf, s1, pend_self inp ⟨s.i + t.w, s.i + t.w, true, _, pdNew⟩ (by simp), List.append_assoc]
    cases hc : t.cls with
    | ok =>
      let s1 : EscSt := { s with i := s.i + t.w, prevDash := false }
      have hstep : stepTok inp s t = some s1 := by simp [stepTok, hc, s1]
      have hJ1 : EscInv s1 := ⟨by simp [s1]; omega, hJ.lazy, by simp [s1], by simp [s1]⟩
      obtain ⟨s', hrun, hi', hJ', hout⟩ := ih (pre ++ t.bytes) s1 hinp' (by simp [s1, hi, Tok.w]) hJ1
      refine ⟨s', by simp [runToks, hstep, hrun], hi', hJ', ?_⟩
      rw [hout]
      have : outOf inp s1 = outOf inp s ++ t.bytes := by
        simp only [outOf, pend, s1, List.append_assoc]
        congr 1
        have e : s.i + t.w - s.offset = (s.i - s.offset) + t.w := by omega
        rw [e, List.take_add, List.drop_drop]
        have e2 : s.offset + (s.i - s.offset) = s.i := by omega
        rw [e2, hcur]
      simp [this, specBody, hc, s1, List.append_assoc]
    | dash =>
      have hw : t.w = 1 := dash_w t hc
      by_cases hpd : s.prevDash = true
      · let s1 : EscSt := { s with offset := s.i + 1, i := s.i + t.w }
        have hstep : stepTok inp s t = some s1 := by simp [stepTok, hc, hpd, s1]
        have hesc : s.escaped = true := hJ.pd hpd
        have hJ1 : EscInv s1 := ⟨by simp [s1, hw], by intro h; simp [s1, hesc] at h,
                            by intro _; simpa [s1] using hesc, by intro _; simp [s1, hw]⟩
        obtain ⟨s', hrun, hi', hJ', hout⟩ := ih (pre ++ t.bytes) s1 hinp' (by simp [s1, hi, Tok.w]) hJ1
        refine ⟨s', by simp [runToks, hstep, hrun], hi', hJ', ?_⟩
        have h1 : pend inp s = [] := pend_self inp s (hJ.pd2 hpd)
        have h2 : pend inp s1 = [] := pend_self inp s1 (by simp [s1, hw])
        have h3 : outOf inp s1 = outOf inp s := by simp [outOf, h1, h2, s1]
        have h4 : s1.prevDash = true := by simpa [s1] using hpd
        rw [hout, h3, h4]
        simp [specBody, hc]
      · have hpd' : s.prevDash = false := by simpa using hpd
        obtain ⟨hJ1, hout1⟩ := escStep true
        have hsl := slice_eq inp s.offset s.i hle (by omega)
        have hstep : stepTok inp s t = some ⟨s.i + t.w, s.i + t.w, true, s.sb ++ pend inp s ++ [us], true⟩ := by
          simp [stepTok, hc, hpd', hsl, pend]
        obtain ⟨s', hrun, hi', hJ', hout⟩ := ih (pre ++ t.bytes) _ hinp' (by simp [hi, Tok.w]) hJ1
        refine ⟨s', by rw [runToks, hstep]; exact hrun, hi', hJ', ?_⟩
        rw [hout, hout1]
        simp [specBody, hc, hpd', List.append_assoc]
    | other =>
      obtain ⟨hJ1, hout1⟩ := escStep false
      have hsl := slice_eq inp s.offset s.i hle (by omega)
      have hstep : stepTok inp s t = some ⟨s.i + t.w, s.i + t.w, true, s.sb ++ pend inp s ++ [us], false⟩ := by
        simp [stepTok, hc, hsl, pend]
      obtain ⟨s', hrun, hi', hJ', hout⟩ := ih (pre ++ t.bytes) _ hinp' (by simp [hi, Tok.w]) hJ1
      refine ⟨s', by rw [runToks, hstep]; exact hrun, hi', hJ', ?_⟩
      rw [hout, hout1]
      simp [specBody, hc, List.append_assoc]

end SE

namespace SE

theorem ok_bytes (t : Tok) (h : t.cls = .ok) : ∃ b, t.bytes = [b] ∧ isNameByte b = true := by
  unfold Tok.cls at h
  split at h
  · rename_i b heq
    refine ⟨b, heq, ?_⟩
    by_cases hb : isNameByte b = true
    · exact hb
    · simp [hb] at h; split at h <;> simp at h
  · simp at h

theorem us_name : isNameByte us = true := by decide
theorem us_not_digit : isDigit us = false := by decide

theorem specBody_all_name : ∀ (ts : List Tok) (pd : Bool), (specBody pd ts).all isNameByte = true := by
  intro ts
  induction ts with
  | nil => intro pd; simp [specBody]
  | cons t ts ih =>
    intro pd
    cases hc : t.cls with
    | ok =>
      obtain ⟨b, hb, hn⟩ := ok_bytes t hc
      simp only [specBody, hc, hb, List.all_append, ih false]
      simp [hn]
    | dash =>
      simp only [specBody, hc, List.all_append, ih true]
      cases pd <;> simp [us_name]
    | other =>
      simp only [specBody, hc, List.all_append, ih false]
      simp [us_name]

theorem spec_legal_toks (ts : List Tok) (h : flat ts ≠ []) : legalName (specEscapeToks ts) = true := by
  unfold specEscapeToks
  split
  · rename_i heq; exact absurd heq h
  · rename_i b0 rest heq
    by_cases hd : isDigit b0 = true
    · simp [hd, legalName, us_name, us_not_digit, specBody_all_name]
    · simp only [hd, Bool.false_eq_true, ↓reduceIte, List.nil_append]
      cases ts with
      | nil => simp [flat] at heq
      | cons t ts =>
        cases hc : t.cls with
        | ok =>
          obtain ⟨b, hb, hn⟩ := ok_bytes t hc
          have : b = b0 := by
            simp [flat, hb] at heq; exact heq.1
          subst this
          simp [specBody, hc, hb, legalName, hn, hd, specBody_all_name]
        | dash => simp [specBody, hc, legalName, us_name, us_not_digit, specBody_all_name]
        | other => simp [specBody, hc, legalName, us_name, us_not_digit, specBody_all_name]

/-- the run on the whole input, from the initial state -/
theorem escapeToks_eq_spec (inp : Bytes) (ts : List Tok) (h : flat ts = inp) :
    escapeToks inp ts = some (specEscapeToks ts) := by
  unfold escapeToks specEscapeToks
  rw [h]
  cases inp with
  | nil => rfl
  | cons b0 rest =>
    simp only
    let s0 : EscSt := { offset := 0, i := 0, escaped := isDigit b0,
                        sb := if isDigit b0 then [us] else [], prevDash := false }
    have hJ0 : EscInv s0 := ⟨by simp [s0], by intro h; simp [s0] at h; simp [s0, h], by simp [s0], by simp [s0]⟩
    obtain ⟨s', hrun, hi', hJ', hout⟩ := run_spec (b0 :: rest) ts [] s0 (by simp [h]) (by simp [s0]) hJ0
    have hout0 : outOf (b0 :: rest) s0 = (if isDigit b0 then [us] else []) := by
      simp [outOf, pend, s0]
    rw [hrun]
    simp only
    rw [hout0] at hout
    simp only [s0] at hout
    by_cases he : s'.escaped = true
    · simp only [he, Bool.not_true, Bool.false_eq_true, ↓reduceIte]
      have hp : pend (b0 :: rest) s' = (b0 :: rest).drop s'.offset := by
        rw [pend, hi']
        apply List.take_of_length_le
        simp
      split
      · rw [← hout, outOf, hp]
      · rename_i hlt
        rw [← hout, outOf, hp]
        have : s'.offset ≥ (b0 :: rest).length := by omega
        simp [List.drop_eq_nil_of_le this]
    · have he' : s'.escaped = false := by simpa using he
      simp only [he', Bool.not_false, ↓reduceIte]
      obtain ⟨hsb, hoff⟩ := hJ'.lazy he'
      rw [← hout, outOf, hsb, pend, hoff, hi']
      simp

/-- bytes of a rune that does not take the "valid character" branch are never name bytes -/
def TokWF (t : Tok) : Prop := t.cls ≠ .ok → ∀ b ∈ t.bytes, isNameByte b = false

theorem runeWidth_multi (b0 : UInt8) (bs : Bytes) (h : 2 ≤ (runeWidth (b0 :: bs)).1) :
    ∀ b ∈ (b0 :: bs).take (runeWidth (b0 :: bs)).1, 0x80 ≤ b := by
  unfold runeWidth at h ⊢
  by_cases h1 : b0 < 0x80
  · simp [h1] at h
  · simp only [h1, ↓reduceIte] at h ⊢
    have hb0 : (0x80 : UInt8) ≤ b0 := by
      simpa [UInt8.not_lt] using h1
    by_cases h2 : (0xC2 ≤ b0 && b0 ≤ 0xDF) = true
    · simp only [h2, ↓reduceIte] at h ⊢
      cases bs with
      | nil => simp at h
      | cons b1 r =>
        by_cases c1 : isCont b1 = true
        · simp only [c1, ↓reduceIte] at h ⊢
          intro b hb
          simp [isCont] at c1
          simp at hb
          rcases hb with rfl | rfl
          · exact hb0
          · exact c1.1
        · simp [c1] at h
    · simp only [h2, Bool.false_eq_true, ↓reduceIte] at h ⊢
      by_cases h3 : (0xE0 ≤ b0 && b0 ≤ 0xEF) = true
      · simp only [h3, ↓reduceIte] at h ⊢
        match bs, h with
        | [], h => simp at h
        | [_], h => simp at h
        | b1 :: b2 :: r, h =>
          by_cases c : ok3 b0 b1 b2 = true
          · simp only [c, ↓reduceIte] at h ⊢
            intro b hb
            simp [ok3, isCont] at c
            simp at hb
            have hb1 : (0x80 : UInt8) ≤ b1 := by
              have := c.1.1
              split at this
              · exact UInt8.le_trans (by decide) this
              · exact this
            rcases hb with rfl | rfl | rfl
            · exact hb0
            · exact hb1
            · exact c.2.1
          · simp [c] at h
      · simp only [h3, Bool.false_eq_true, ↓reduceIte] at h ⊢
        by_cases h4 : (0xF0 ≤ b0 && b0 ≤ 0xF4) = true
        · simp only [h4, ↓reduceIte] at h ⊢
          match bs, h with
          | [], h => simp at h
          | [_], h => simp at h
          | [_, _], h => simp at h
          | b1 :: b2 :: b3 :: r, h =>
            by_cases c : ok4 b0 b1 b2 b3 = true
            · simp only [c, ↓reduceIte] at h ⊢
              intro b hb
              simp [ok4, isCont] at c
              simp at hb
              have hb1 : (0x80 : UInt8) ≤ b1 := by
                have := c.1.1.1
                split at this
                · exact UInt8.le_trans (by decide) this
                · exact this
              rcases hb with rfl | rfl | rfl | rfl
              · exact hb0
              · exact hb1
              · exact c.1.2.1
              · exact c.2.1
            · simp [c] at h
        · simp [h4] at h

end SE

namespace SE

theorem name_lt_80 (b : UInt8) (h : isNameByte b = true) : b < 0x80 := by
  simp [isNameByte] at h
  rcases h with ((h | h) | h) | h
  · exact UInt8.lt_of_le_of_lt h.2 (by decide)
  · exact UInt8.lt_of_le_of_lt h.2 (by decide)
  · exact UInt8.lt_of_le_of_lt h.2 (by decide)
  · subst h; decide

theorem tokWF_of_take (b0 : UInt8) (bs : Bytes) (v : Bool) :
    TokWF ⟨(b0 :: bs).take (runeWidth (b0 :: bs)).1, v⟩ := by
  intro hc b hb
  by_cases h2 : 2 ≤ (runeWidth (b0 :: bs)).1
  · have := runeWidth_multi b0 bs h2 b hb
    by_cases hn : isNameByte b = true
    · have := name_lt_80 b hn
      exact absurd (UInt8.lt_of_lt_of_le this ‹_›) (UInt8.lt_irrefl _)
    · simpa using hn
  · have h1 : (runeWidth (b0 :: bs)).1 = 1 := by
      have := runeWidth_pos b0 bs; omega
    rw [h1] at hb hc
    simp at hb hc
    subst hb
    unfold Tok.cls at hc
    simp at hc
    by_cases hn : isNameByte b = true
    · simp [hn] at hc
    · simpa using hn

theorem tokens_wf : ∀ (fuel : Nat) (bs : Bytes), ∀ t ∈ tokensFuel fuel bs, TokWF t := by
  intro fuel
  induction fuel with
  | zero => intro bs t ht; simp [tokensFuel] at ht
  | succ n ih =>
    intro bs t ht
    cases bs with
    | nil => simp [tokensFuel] at ht
    | cons b bs =>
      simp only [tokensFuel, List.mem_cons] at ht
      rcases ht with rfl | ht
      · exact tokWF_of_take b bs _
      · exact ih _ t ht

def isAlnum (b : UInt8) : Bool := (97 ≤ b && b ≤ 122) || (65 ≤ b && b ≤ 90) || (48 ≤ b && b ≤ 57)

theorem alnum_name (b : UInt8) (h : isAlnum b = true) : isNameByte b = true := by
  simp [isAlnum] at h; simp [isNameByte]; exact Or.inl h

theorem specBody_filter_alnum : ∀ (ts : List Tok) (pd : Bool), (∀ t ∈ ts, TokWF t) →
    (specBody pd ts).filter isAlnum = (flat ts).filter isAlnum := by
  intro ts
  induction ts with
  | nil => intro pd _; simp [specBody, flat]
  | cons t ts ih =>
    intro pd hwf
    have hts : ∀ t' ∈ ts, TokWF t' := fun t' h => hwf t' (by simp [h])
    have hnone : t.cls ≠ .ok → t.bytes.filter isAlnum = [] := by
      intro hc
      rw [List.filter_eq_nil_iff]
      intro b hb hal
      have := hwf t (by simp) hc b hb
      rw [alnum_name b hal] at this; cases this
    have hus : isAlnum us = false := by decide
    have hflat : flat (t :: ts) = t.bytes ++ flat ts := by simp [flat]
    cases hc : t.cls with
    | ok => simp [specBody, hc, hflat, ih false hts]
    | dash =>
      have := hnone (by simp [hc])
      cases pd <;> simp [specBody, hc, hflat, ih true hts, this, hus]
    | other =>
      have := hnone (by simp [hc])
      simp [specBody, hc, hflat, ih false hts, this, hus]

theorem tokensFuel_ascii : ∀ (fuel : Nat) (bs : Bytes), bs.length ≤ fuel → (∀ b ∈ bs, b < 0x80) →
    tokensFuel fuel bs = bs.map (fun b => ⟨[b], true⟩) := by
  intro fuel
  induction fuel with
  | zero => intro bs h _; cases bs <;> simp_all [tokensFuel]
  | succ n ih =>
    intro bs h hall
    cases bs with
    | nil => simp [tokensFuel]
    | cons b bs =>
      have hb : b < 0x80 := hall b (by simp)
      have hw : runeWidth (b :: bs) = (1, true) := by simp [runeWidth, hb]
      simp only [tokensFuel, hw, List.map_cons]
      congr 1
      exact ih bs (by simp at h; omega) (fun b' h' => hall b' (by simp [h']))

theorem specBody_ok_map : ∀ (bs : Bytes) (pd : Bool), (bs.all isNameByte = true) →
    specBody pd (bs.map (fun b => ⟨[b], true⟩)) = bs := by
  intro bs
  induction bs with
  | nil => intro _ _; simp [specBody]
  | cons b bs ih =>
    intro pd h
    simp at h
    have : (⟨[b], true⟩ : Tok).cls = .ok := by simp [Tok.cls, h.1]
    simp [specBody, this]
    exact ih false (by simpa using h.2)

theorem legal_all_name (bs : Bytes) (h : legalName bs = true) :
    bs.all isNameByte = true ∧ ∃ b0 rest, bs = b0 :: rest ∧ isDigit b0 = false := by
  cases bs with
  | nil => simp [legalName] at h
  | cons b rest =>
    simp [legalName] at h
    exact ⟨by simp [h.1.1]; exact h.2, b, rest, rfl, by simpa using h.1.2⟩

theorem specEscape_legal_id (bs : Bytes) (h : legalName bs = true) : specEscape bs = bs := by
  obtain ⟨hall, b0, rest, rfl, hd⟩ := legal_all_name bs h
  have hlt : ∀ b ∈ (b0 :: rest), b < 0x80 := by
    intro b hb
    exact name_lt_80 b (List.all_eq_true.mp hall b hb)
  unfold specEscape specEscapeToks
  rw [flat_tokens]
  simp only [hd]
  unfold tokens
  rw [tokensFuel_ascii _ _ (Nat.le_refl _) hlt, specBody_ok_map _ _ hall]
  simp

end SE
