import SE.Proofs.GlobOrdered
/-
Index plumbing between a `Config` and the type root handed to the glob FSM:
`globKK cfg ty` lists, in configuration order, every glob rule that passes the type filter,
together with its index in `cfg.rules` and its glob index (= FSM priority).
-/
namespace SE
open SE.ListLemmas
variable {V : Type}

/-- glob rules with their configuration index -/
def globK (cfg : Config V) : List (Rule V × Nat) :=
  cfg.rules.zipIdx.filter (fun x => x.1.matchType == .glob)

/-- ((rule, configuration index), glob index) of the glob rules that pass the type filter -/
def globKK (cfg : Config V) (ty : Nat) : List ((Rule V × Nat) × Nat) :=
  (globK cfg).zipIdx.filter (fun y => typeOk y.1.1.matchMetricType ty)

def kkRule (y : (Rule V × Nat) × Nat) : Nat × Pat := (y.2, y.1.1.pat)

theorem typeOk_eq (m : Option Nat) (ty : Nat) : (m.isNone || m == some ty) = typeOk m ty := by
  cases m <;> simp [typeOk]

theorem globRules_eq (cfg : Config V) : globRules cfg = (globK cfg).map (fun x => (x.2, x.1)) := rfl

theorem toGRules_eq (cfg : Config V) :
    toGRules cfg = (globK cfg).map (fun x => ⟨x.1.pat, x.1.matchMetricType⟩) := by
  simp [toGRules, globRules_eq, List.map_map, Function.comp_def]

theorem rulesFor_toGRules (cfg : Config V) (ty : Nat) :
    rulesFor (toGRules cfg) ty = (globKK cfg ty).map kkRule := by
  rw [toGRules_eq]
  unfold rulesFor globKK
  rw [List.zipIdx_map, List.filter_map, List.map_map]
  simp only [Function.comp_def, Prod.map, typeOk_eq, id]
  rfl

theorem mem_globKK {cfg : Config V} {ty : Nat} {y : (Rule V × Nat) × Nat} (h : y ∈ globKK cfg ty) :
    (globRules cfg)[y.2]? = some (y.1.2, y.1.1) ∧ cfg.rules[y.1.2]? = some y.1.1 ∧
      y.1.1.matchType = .glob ∧ typeOk y.1.1.matchMetricType ty = true := by
  simp only [globKK, List.mem_filter] at h
  obtain ⟨h1, h2⟩ := h
  have h3 := List.mem_zipIdx_iff_getElem?.mp h1
  have h4 : y.1 ∈ globK cfg := List.mem_of_getElem? h3
  simp only [globK, List.mem_filter, beq_iff_eq] at h4
  refine ⟨?_, List.mem_zipIdx_iff_getElem?.mp h4.1, h4.2, h2⟩
  rw [globRules_eq, List.getElem?_map, h3]; rfl

/-- the spec's candidate scan, expressed on `globKK` -/
theorem find?_ruleMatchesGlob (cfg : Config V) (name : Pat) (ty : Nat) :
    cfg.rules.zipIdx.find? (fun x => ruleMatchesGlob x.1 name ty) =
      ((globKK cfg ty).find? (fun y => globMatches y.1.1.pat name)).map (·.1) := by
  unfold globKK
  rw [List.find?_filter]
  have := find?_zipIdx_fst
    (fun (x : Rule V × Nat) => decide (typeOk x.1.matchMetricType ty = true ∧ globMatches x.1.pat name = true))
    (globK cfg) 0
  rw [this]
  unfold globK
  rw [List.find?_filter]
  congr 1
  funext x
  simp only [ruleMatchesGlob, Bool.decide_and, Bool.decide_eq_true]
  cases (x.1.matchType == MatchTy.glob) <;> cases (globMatches x.1.pat name) <;>
    cases (typeOk x.1.matchMetricType ty) <;> rfl

theorem firstGlob_eq (cfg : Config V) (name : Bytes) (ty : Nat) :
    firstGlob cfg name ty =
      ((globKK cfg ty).find? (fun y => globMatches y.1.1.pat (splitOn 46 name))).map (·.1.2) := by
  unfold firstGlob
  have : (fun (x : Rule V × Nat) => match x with | (r, _) => ruleMatchesGlob r (splitOn 46 name) ty)
      = (fun x => ruleMatchesGlob x.1 (splitOn 46 name) ty) := by
    funext x; rfl
  rw [this, find?_ruleMatchesGlob, Option.map_map]; rfl

theorem splitOn_ne_nil (sep : UInt8) (s : Bytes) : splitOn sep s ≠ [] := by
  induction s with
  | nil => simp [splitOn]
  | cons b bs ih =>
    simp only [splitOn]
    split
    · simp
    · split
      · simp
      · simp

theorem needBT_ordered (pats : List Pat) : needBT pats false = true := by
  simp [needBT]

/-- ordered mode always backtracks (`TestIfNeedBacktracking` answers `true` at once) -/
theorem backtracking_ordered (rules : List GRule) : backtracking rules false = true := by
  simp [backtracking, needBT_ordered]

end SE

namespace SE
open SE.ListLemmas
variable {V : Type}

theorem find?_rulesFor_toGRules (cfg : Config V) (name : Pat) (ty : Nat) :
    (rulesFor (toGRules cfg) ty).find? (fun r => globMatches r.2 name) =
      ((globKK cfg ty).find? (fun y => globMatches y.1.1.pat name)).map kkRule := by
  rw [rulesFor_toGRules, List.find?_map]; rfl

/-- ordered mode: what the FSM returns, in terms of the first matching entry of `globKK` -/
theorem globLookup_ordered (cfg : Config V) (hord : cfg.orderingDisabled = false)
    (name : Pat) (hne : name ≠ []) (ty : Nat) :
    match (globKK cfg ty).find? (fun y => globMatches y.1.1.pat name) with
    | none => globLookup (toGRules cfg) cfg.orderingDisabled name ty = none
    | some y => ∃ b, globLookup (toGRules cfg) cfg.orderingDisabled name ty = some b ∧ b.rule = y.2 ∧
        b.caps = capturesOf y.1.1.pat name := by
  have hfind := find?_rulesFor_toGRules cfg name ty
  simp only [globLookup, hord, backtracking_ordered, Bool.not_false]
  cases hk : (globKK cfg ty).find? (fun y => globMatches y.1.1.pat name) with
  | none =>
    rw [hk] at hfind
    simp only [Option.map_none] at hfind
    simp only
    rw [dfs_nil_of_no_match _ _ _ hfind]; rfl
  | some y =>
    rw [hk] at hfind
    simp only [Option.map_some, kkRule] at hfind
    exact ordered_pick_dfs _ (rulesFor_sorted _ _) name hne _ _ hfind

end SE

namespace SE
open SE.ListLemmas
variable {V : Type}

/-- `lookupRegex` is "the first regex rule, in configuration order, that matches and passes the type filter". -/
theorem regex_eq_firstRegex (cfg : Config V) (rx : Rx) (name : Bytes) (ty : Nat) :
    (lookupRegex cfg rx name ty).map (·.ruleIdx) = firstRegex cfg rx name ty := by
  unfold lookupRegex firstRegex
  apply findSome?_eq_find?_map
  · rintro ⟨r, i⟩ hp
    simp only at hp ⊢
    cases hmt : (r.matchType == MatchTy.regex)
    · have : (r.matchType != MatchTy.regex) = true := by simp [bne, hmt]
      simp [this]
    · have : (r.matchType != MatchTy.regex) = false := by simp [bne, hmt]
      simp only [this, Bool.false_eq_true, if_false]
      cases hrx : rx i name with
      | none => rfl
      | some mm =>
        simp only [hmt, hrx, Option.isSome_some, Bool.and_self, Bool.true_and] at hp
        cases hty : r.matchMetricType with
        | none => simp [hty, typeOk] at hp
        | some t =>
          simp only [hty, typeOk, beq_eq_false_iff_ne, ne_eq] at hp
          simp [hp]
  · rintro ⟨r, i⟩ hp
    simp only at hp ⊢
    simp only [Bool.and_eq_true] at hp
    obtain ⟨⟨hmt, hrx⟩, hty⟩ := hp
    have : (r.matchType != MatchTy.regex) = false := by simp [bne, hmt]
    simp only [this, Bool.false_eq_true, if_false]
    cases hrx' : rx i name with
    | none => simp [hrx'] at hrx
    | some mm =>
      cases hmm : r.matchMetricType with
      | none => simp
      | some t =>
        simp only [hmm, typeOk, beq_iff_eq] at hty
        simp [hty]

/-- the loader's invariant on the `doFSM` flag (`load` sets it this way) -/
def DoFSMConsistent (cfg : Config V) : Prop := cfg.doFSM = cfg.rules.any (·.matchType == .glob)

theorem mem_of_mem_zipIdx {α} {l : List α} {x : α × Nat} (h : x ∈ l.zipIdx) : x.1 ∈ l :=
  List.mem_of_getElem? (List.mem_zipIdx_iff_getElem?.mp h)

/-- "the glob answer if any, else the regex answer" -/
def globThenRegex (g r : Option Nat) : Option Nat :=
  match g with
  | some i => some i
  | none => r

/-- `lookup`'s branch structure collapses to "glob result, else first regex rule" as soon as the glob
    part is known (and is `none` when there is no glob rule at all) -/
theorem lookup_eq_of_glob (cfg : Config V) (hwf : DoFSMConsistent cfg) (rx : Rx) (name : Bytes) (ty : Nat)
    (g : Option Nat) (hg : (lookupGlob cfg name ty).map (·.ruleIdx) = g)
    (hnone : (∀ r ∈ cfg.rules, (r.matchType == MatchTy.glob) = false) → g = none) :
    (lookup cfg rx name ty).map (·.ruleIdx) = globThenRegex g (firstRegex cfg rx name ty) := by
  have hr := regex_eq_firstRegex cfg rx name ty
  unfold lookup globThenRegex
  cases hfsm : cfg.doFSM
  · have hall : cfg.rules.any (·.matchType == .glob) = false := by rw [← hwf]; exact hfsm
    rw [List.any_eq_false] at hall
    have hno := hnone (fun r hr => by simpa using hall r hr)
    simp only [Bool.false_eq_true, if_false, hno, hr]
  · simp only [if_true]
    cases hl : lookupGlob cfg name ty with
    | some m =>
      rw [hl] at hg; simp only [Option.map_some] at hg
      simp only [← hg, Option.map_some]
    | none =>
      rw [hl] at hg; simp only [Option.map_none] at hg
      simp only [← hg]
      by_cases hany : cfg.rules.any (·.matchType == .regex) = true
      · simp only [hany, if_true, hr]
      · simp only [hany, Bool.false_eq_true, if_false, Option.map_none]
        symm
        unfold firstRegex
        rw [Option.map_eq_none_iff, List.find?_eq_none]
        rintro ⟨r, i⟩ hmem
        have hr : r ∈ cfg.rules := mem_of_mem_zipIdx hmem
        have hall : cfg.rules.any (·.matchType == .regex) = false := by simpa using hany
        rw [List.any_eq_false] at hall
        have := hall r hr
        simp [this]

theorem firstGlob_none_of_no_glob (cfg : Config V) (name : Bytes) (ty : Nat)
    (h : ∀ r ∈ cfg.rules, (r.matchType == MatchTy.glob) = false) : firstGlob cfg name ty = none := by
  unfold firstGlob
  rw [Option.map_eq_none_iff, List.find?_eq_none]
  rintro ⟨r, i⟩ hmem
  have := h r (mem_of_mem_zipIdx hmem)
  simp only [ruleMatchesGlob]
  simp [this]

end SE

namespace SE
variable {V : Type}

theorem except_bind_ok {ε α β} {x : Except ε α} {f : α → Except ε β} {c : β}
    (h : (x >>= f) = .ok c) : ∃ a, x = .ok a ∧ f a = .ok c := by
  cases x with
  | error e => cases h
  | ok a => exact ⟨a, rfl, h⟩

theorem except_throw_step {ε α : Type} {c : Bool} {e : ε} {k : Unit → Except ε α} {x : α}
    (h : (if c = true then (throw e >>= k) else k ()) = Except.ok x) : k () = .ok x := by
  cases c
  · exact h
  · cases h

/-- every configuration produced by the loader has a consistent `doFSM` flag -/
theorem load_doFSMConsistent [NumOps V] (rxOk : Bytes → Bool) (db : List V) (dq : List (V × V)) (raw : RawConfig V)
    (cfg : Config V) (h : load rxOk db dq raw = .ok cfg) : DoFSMConsistent cfg := by
  unfold load at h
  obtain ⟨_, _, h⟩ := except_bind_ok h
  obtain ⟨_, _, h⟩ := except_bind_ok h
  obtain ⟨_, _, h⟩ := except_bind_ok h
  -- `validateBuckets` / `validateSummaryOptions` on the effective defaults
  have h := except_throw_step h
  have h := except_throw_step h
  obtain ⟨_, _, h⟩ := except_bind_ok h
  cases h
  rfl

end SE
