import SE.Proofs.RegistryPipe
import SE.Proofs.LineLabels
/-
Label algebra for C05: `Labels.get?` through `Labels.set`, `mergeLabels` and `Labels.sorted`;
and the fact that the registry request of an event depends on the pipeline state only through
the mapper.
-/
set_option linter.unusedSectionVars false
namespace SE
variable {V : Type} [NumOps V]

/-! ### `get?` / `set` -/

theorem Labels.get?_set_eq (L : Labels) (k v : Bytes) : (L.set k v).get? k = some v := by
  induction L with
  | nil => simp [Labels.set, Labels.get?]
  | cons kv rest ih =>
    obtain ⟨k', v'⟩ := kv
    by_cases h : (k' == k) = true
    · simp [Labels.set, Labels.get?, h]
    · simp [Labels.set, Labels.get?, h, ih]

theorem Labels.get?_set_ne (L : Labels) (k v k1 : Bytes) (hne : k ≠ k1) : (L.set k v).get? k1 = L.get? k1 := by
  induction L with
  | nil =>
    have : (k == k1) = false := by simpa using hne
    simp [Labels.set, Labels.get?, this]
  | cons kv rest ih =>
    obtain ⟨k', v'⟩ := kv
    by_cases h : k' = k
    · subst h
      have : (k' == k1) = false := by simpa using hne
      simp [Labels.set, Labels.get?, this]
    · have hk : (k' == k) = false := by simpa using h
      by_cases h1 : (k' == k1) = true
      · simp [Labels.set, Labels.get?, hk, h1]
      · simp [Labels.set, Labels.get?, hk, h1, ih]

theorem Labels.mem_set (L : Labels) (k v : Bytes) (x : Bytes × Bytes) (h : x ∈ L.set k v) : x ∈ L ∨ x = (k, v) := by
  induction L with
  | nil => simp only [Labels.set, List.mem_singleton] at h; exact Or.inr h
  | cons kv rest ih =>
    obtain ⟨k', v'⟩ := kv
    by_cases hk : (k' == k) = true
    · simp only [Labels.set, hk, if_true, List.mem_cons] at h
      rcases h with h | h
      · have : k' = k := by simpa using hk
        right; rw [h, this]
      · left; exact List.mem_cons_of_mem _ h
    · simp only [Labels.set, hk] at h
      rw [if_neg (by simp)] at h
      simp only [List.mem_cons] at h
      rcases h with h | h
      · left; rw [h]; exact List.mem_cons_self
      · rcases ih h with h' | h'
        · left; exact List.mem_cons_of_mem _ h'
        · right; exact h'

def keysOf (L : Labels) : List Bytes := L.map (·.1)

theorem Labels.has_iff_mem_keys (L : Labels) (k : Bytes) : L.has k = true ↔ k ∈ keysOf L := by
  induction L with
  | nil => simp [Labels.has_nil, keysOf]
  | cons kv rest ih =>
    obtain ⟨k', v'⟩ := kv
    rw [Labels.has_cons, Bool.or_eq_true, ih]
    simp only [keysOf, List.map_cons, List.mem_cons, beq_iff_eq]
    constructor
    · rintro (h | h)
      · exact Or.inl h.symm
      · exact Or.inr h
    · rintro (h | h)
      · exact Or.inl h.symm
      · exact Or.inr h

/-- `set` keeps the keys pairwise distinct: it overwrites in place or appends a new key -/
theorem Labels.keys_set (L : Labels) (k v : Bytes) :
    keysOf (L.set k v) = if k ∈ keysOf L then keysOf L else keysOf L ++ [k] := by
  induction L with
  | nil => simp [Labels.set, keysOf]
  | cons kv rest ih =>
    obtain ⟨k', v'⟩ := kv
    by_cases hk : k' = k
    · subst hk; simp [Labels.set, keysOf]
    · have hk' : (k' == k) = false := by simpa using hk
      have hk2 : ¬ k = k' := fun h => hk h.symm
      simp only [Labels.set, hk']
      rw [if_neg (by simp)]
      simp only [keysOf, List.map_cons, List.mem_cons, hk2, false_or] at ih ⊢
      rw [ih]
      by_cases hm : k ∈ List.map (fun x => x.fst) rest <;> simp [hm]

theorem Labels.nodup_keys_set (L : Labels) (k v : Bytes) (h : (keysOf L).Nodup) : (keysOf (L.set k v)).Nodup := by
  rw [Labels.keys_set]
  split
  · exact h
  · rename_i hk
    rw [List.nodup_append]
    refine ⟨h, by simp, ?_⟩
    intro a ha b hb
    simp only [List.mem_singleton] at hb
    subst hb
    intro e; subst e; exact hk ha

/-- with pairwise distinct keys, `get?` finds exactly the pairs of the list -/
theorem Labels.get?_eq_some_iff (L : Labels) (h : (keysOf L).Nodup) (k v : Bytes) :
    L.get? k = some v ↔ (k, v) ∈ L := by
  induction L with
  | nil => simp [Labels.get?]
  | cons kv rest ih =>
    obtain ⟨k', v'⟩ := kv
    simp only [keysOf, List.map_cons, List.nodup_cons] at h
    by_cases hk : k' = k
    · subst hk
      simp only [Labels.get?, beq_self_eq_true, if_true, Option.some.injEq, List.mem_cons, Prod.mk.injEq, true_and]
      constructor
      · intro e; exact Or.inl e.symm
      · rintro (e | hm)
        · exact e.symm
        · exact absurd (List.mem_map_of_mem (f := (·.1)) hm) h.1
    · have hk' : (k' == k) = false := by simpa using hk
      simp only [Labels.get?, hk', List.mem_cons, Prod.mk.injEq]
      rw [if_neg (by simp), ih h.2]
      constructor
      · intro hm; exact Or.inr hm
      · rintro (⟨e, _⟩ | hm)
        · exact absurd e.symm hk
        · exact hm

/-! ### `mergeLabels` -/

/-- the last binding of `k` in a list of rule labels (with distinct keys: the only one) -/
def lastGet : List (Bytes × Bytes) → Bytes → Option Bytes
  | [], _ => none
  | (k1, v1) :: t, k =>
    match lastGet t k with
    | some v => some v
    | none => if k1 == k then some v1 else none

theorem mergeLabels_get?_aux (tags : Labels) (honor : Bool) (k : Bytes) (rl : List (Bytes × Bytes)) :
    ∀ acc : Labels,
      (rl.foldl (fun acc (kv : Bytes × Bytes) => if honor && tags.has kv.1 then acc else acc.set kv.1 kv.2) acc).get? k =
        if (honor && tags.has k) = true then acc.get? k else
        match lastGet rl k with
        | some v => some v
        | none => acc.get? k := by
  induction rl with
  | nil => intro acc; simp [lastGet]
  | cons kv t ih =>
    intro acc
    obtain ⟨k1, v1⟩ := kv
    have hstep : (if (honor && tags.has k1) = true then acc else acc.set k1 v1).get? k =
        if (honor && tags.has k) = true then acc.get? k else if (k1 == k) = true then some v1 else acc.get? k := by
      by_cases hk : k1 = k
      · subst hk
        by_cases h1 : (honor && tags.has k1) = true
        · simp only [h1, if_true]
        · simp only [h1, beq_self_eq_true, if_true]
          exact Labels.get?_set_eq acc k1 v1
      · have hk' : (k1 == k) = false := by simpa using hk
        simp only [hk', Bool.false_eq_true, if_false, ite_self]
        split
        · rfl
        · exact Labels.get?_set_ne acc k1 v1 k hk
    rw [List.foldl_cons, ih]
    simp only [hstep, lastGet]
    by_cases hh : (honor && tags.has k) = true
    · simp only [hh, if_true]
    · simp only [hh]
      cases lastGet t k with
      | some v => rfl
      | none => cases (k1 == k) <;> rfl

theorem mergeLabels_eq_foldl (tags : Labels) (rl : List (Bytes × Bytes)) (honor : Bool) :
    mergeLabels tags rl honor =
      rl.foldl (fun acc (kv : Bytes × Bytes) => if honor && tags.has kv.1 then acc else acc.set kv.1 kv.2) tags := rfl

/-- the merged map, key by key (no assumption on the rule labels: the last binding of a key wins) -/
theorem mergeLabels_get? (tags : Labels) (rl : List (Bytes × Bytes)) (honor : Bool) (k : Bytes) :
    (mergeLabels tags rl honor).get? k =
      if (honor && tags.has k) = true then tags.get? k else
      match lastGet rl k with
      | some v => some v
      | none => tags.get? k := by
  rw [mergeLabels_eq_foldl]; exact mergeLabels_get?_aux tags honor k rl tags

theorem lastGet_eq_get? (rl : List (Bytes × Bytes)) (h : (keysOf rl).Nodup) (k : Bytes) :
    lastGet rl k = Labels.get? rl k := by
  induction rl with
  | nil => rfl
  | cons kv t ih =>
    obtain ⟨k1, v1⟩ := kv
    simp only [keysOf, List.map_cons, List.nodup_cons] at h
    simp only [lastGet, Labels.get?]
    rw [ih h.2]
    by_cases hk : k1 = k
    · subst hk
      have : Labels.get? t k1 = none := by
        cases hg : Labels.get? t k1 with
        | none => rfl
        | some v => exact absurd (List.mem_map_of_mem (f := (·.1)) (((Labels.get?_eq_some_iff t h.2 k1 v).mp hg))) h.1
      simp [this]
    · have hk' : (k1 == k) = false := by simpa using hk
      simp only [hk']
      cases Labels.get? t k <;> simp

theorem mem_mergeLabels_aux (tags : Labels) (honor : Bool) (x : Bytes × Bytes) (rl : List (Bytes × Bytes)) :
    ∀ acc : Labels,
      x ∈ rl.foldl (fun acc (kv : Bytes × Bytes) => if honor && tags.has kv.1 then acc else acc.set kv.1 kv.2) acc →
      x ∈ acc ∨ x ∈ rl := by
  induction rl with
  | nil => intro acc h; exact Or.inl h
  | cons kv t ih =>
    intro acc h
    rw [List.foldl_cons] at h
    rcases ih _ h with h' | h'
    · split at h'
      · exact Or.inl h'
      · rcases Labels.mem_set acc kv.1 kv.2 x h' with h'' | h''
        · exact Or.inl h''
        · right; rw [h'']; exact List.mem_cons_self
    · exact Or.inr (List.mem_cons_of_mem _ h')

theorem nodup_keys_mergeLabels_aux (tags : Labels) (honor : Bool) (rl : List (Bytes × Bytes)) :
    ∀ acc : Labels, (keysOf acc).Nodup →
      (keysOf (rl.foldl (fun acc (kv : Bytes × Bytes) => if honor && tags.has kv.1 then acc else acc.set kv.1 kv.2) acc)).Nodup := by
  induction rl with
  | nil => intro acc h; exact h
  | cons kv t ih =>
    intro acc h
    rw [List.foldl_cons]
    apply ih
    split
    · exact h
    · exact Labels.nodup_keys_set acc _ _ h

/-! ### `sorted` -/

theorem insertSorted_perm (kv : Bytes × Bytes) (l : Labels) : (insertSorted kv l).Perm (kv :: l) := by
  induction l with
  | nil => exact List.Perm.refl _
  | cons x xs ih =>
    simp only [insertSorted]
    split
    · exact List.Perm.refl _
    · exact (List.Perm.cons x ih).trans (List.Perm.swap kv x xs)

/-- sorting only reorders -/
theorem sorted_perm (l : Labels) : l.sorted.Perm l := by
  unfold Labels.sorted
  induction l with
  | nil => exact List.Perm.refl _
  | cons x xs ih =>
    simp only [List.foldr_cons]
    exact (insertSorted_perm x _).trans (List.Perm.cons x ih)

theorem mem_sorted (l : Labels) (x : Bytes × Bytes) : x ∈ l.sorted ↔ x ∈ l := (sorted_perm l).mem_iff

theorem nodup_keys_sorted (l : Labels) (h : (keysOf l).Nodup) : (keysOf l.sorted).Nodup :=
  (((sorted_perm l).map (fun x : Bytes × Bytes => x.1)).nodup_iff).mpr h

theorem get?_sorted (l : Labels) (h : (keysOf l).Nodup) (k : Bytes) : l.sorted.get? k = l.get? k := by
  have h' := nodup_keys_sorted l h
  cases hg : l.get? k with
  | some v =>
    exact (Labels.get?_eq_some_iff _ h' k v).mpr ((mem_sorted l _).mpr ((Labels.get?_eq_some_iff l h k v).mp hg))
  | none =>
    cases hs : l.sorted.get? k with
    | none => rfl
    | some v =>
      have := (Labels.get?_eq_some_iff l h k v).mpr ((mem_sorted l _).mp ((Labels.get?_eq_some_iff _ h' k v).mp hs))
      rw [hg] at this; cases this

/-! ### the registry request depends on the state only through the mapper -/

theorem evNamed_congr (p q : Pipe V) (hm : p.mapper = q.mapper) (rx : Rx) (ev : Ev V) (tags : Labels) :
    evNamed p rx ev tags =
      match evNamed q rx ev tags with
      | none => none
      | some (.error e) => some (.error e)
      | some (.ok (nm, l, c)) =>
        some (.ok (nm, l, if c.mapped = q.counts.mapped + 1 ∧ c.unmapped = q.counts.unmapped
                          then { p.counts with mapped := p.counts.mapped + 1 }
                          else { p.counts with unmapped := p.counts.unmapped + 1 })) := by
  have h1 : evFound p rx ev = evFound q rx ev := by unfold evFound; rw [hm]
  have h2 : evRule p rx ev = evRule q rx ev := by unfold evRule; rw [h1, hm]
  unfold evNamed
  rw [h1, h2]
  split
  · split
    · rfl
    · split
      · rfl
      · split
        · rfl
        · simp
  · split
    · rfl
    · simp

theorem evPlan_congr (p q : Pipe V) (hm : p.mapper = q.mapper) (rx : Rx) (ev : Ev V) (nm : Bytes) (l : Labels) :
    evPlan p rx ev nm l = evPlan q rx ev nm l := by
  obtain ⟨m, r, n, c⟩ := p
  obtain ⟨m', r', n', c'⟩ := q
  simp only at hm
  subst hm
  rfl

/-- the registry request (type, `GetArgs`, update) of an event is a function of the mapper, the regex
    oracle, the event and the line's tags — not of the registry, the clock or the counters -/
theorem evTarget_congr (p q : Pipe V) (hm : p.mapper = q.mapper) (rx : Rx) (ev : Ev V) (tags : Labels) :
    (evTarget p rx ev tags).map (·.2) = (evTarget q rx ev tags).map (·.2) := by
  have h1 : evDropped p rx ev = evDropped q rx ev := by
    unfold evDropped evRule evFound; rw [hm]
  have h2 : evBadCounter p rx ev = evBadCounter q rx ev := by
    unfold evBadCounter evValue evRule evFound; rw [hm]
  unfold evTarget
  rw [h1, evNamed_congr p q hm, h2]
  split
  · rfl
  · cases evNamed q rx ev tags with
    | none => rfl
    | some x =>
      cases x with
      | error e => rfl
      | ok y =>
        obtain ⟨nm, l, c⟩ := y
        simp only []
        split
        · rfl
        · simp only [Option.map_some, evPlan_congr p q hm]

end SE
