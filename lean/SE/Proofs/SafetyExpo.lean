import SE.Proofs.RegistryPipe
import SE.Proofs.Escape
import SE.Spec.PipeHistory
/-
Helper lemmas for C03 (names and labels of the exposition): two registry invariants —
every metric name is a legal Prometheus name, no series carries a reserved label name — and their
preservation by `getOrCreate`, `updateSeries`, `sweep`, `handleEvent(s)` and whole histories.
-/
set_option linter.unusedSectionVars false
namespace SE
variable {V : Type} [NumOps V]

/-- every metric name in the registry matches `[a-zA-Z_][a-zA-Z0-9_]*` -/
def NamesLegal (r : Reg V) : Prop := ∀ m, m ∈ r.metrics → legalName m.name = true

/-- no series has a label name with the reserved prefix `__`; no histogram series has the label `le`,
    no summary series the label `quantile` (`checkLabelNames`) -/
def LabelsOk (r : Reg V) : Prop :=
  ∀ m, m ∈ r.metrics → ∀ s, s ∈ m.series → labelNamesBad (s.labels.map (·.1)) (reservedFor m.ty) = false

/-- the invariant of the exposition-relevant registry structure -/
structure ExpoInv (r : Reg V) : Prop where
  wf : RegWF r
  names : NamesLegal r
  labels : LabelsOk r

theorem legal_specEscape (inp : Bytes) (h : inp ≠ []) : legalName (specEscape inp) = true :=
  spec_legal_toks (tokens inp) (by rw [flat_tokens]; exact h)

/-! ### membership after the registry operations -/

theorem mem_updateMetric {r : Reg V} {name : Bytes} {f : MetricM V → MetricM V} {m' : MetricM V}
    (hm' : m' ∈ (updateMetric r name f).metrics) :
    ∃ m, m ∈ r.metrics ∧ ((m.name = name ∧ m' = f m) ∨ (m.name ≠ name ∧ m' = m)) := by
  simp only [updateMetric, List.mem_map] at hm'
  obtain ⟨m, hm, e⟩ := hm'
  refine ⟨m, hm, ?_⟩
  by_cases hnm : m.name = name
  · left; simp only [hnm, beq_self_eq_true, if_true] at e; exact ⟨hnm, e.symm⟩
  · right
    have : (m.name == name) = false := by simpa using hnm
    simp only [this] at e
    exact ⟨hnm, e.symm⟩

theorem mem_withMetric {r : Reg V} {ty : MType} {name : Bytes} {m : MetricM V}
    (hm : m ∈ (r.withMetric ty name).metrics) : m ∈ r.metrics ∨ (m = newMetric ty name ∧ r.find name = none) := by
  unfold Reg.withMetric at hm
  cases hf : r.find name with
  | some m0 => rw [hf] at hm; exact Or.inl (by simpa using hm)
  | none =>
    rw [hf] at hm
    simp only [Option.isSome_none, Bool.false_eq_true, if_false, List.mem_append, List.mem_singleton] at hm
    rcases hm with h | h
    · exact Or.inl h
    · exact Or.inr ⟨h, rfl⟩

/-! ### `NamesLegal` -/

theorem NamesLegal_empty (pre : List (Bytes × MType × Bytes)) : NamesLegal ({ metrics := [], pre := pre } : Reg V) :=
  fun _ h => by cases h

theorem NamesLegal_updateMetric {r : Reg V} (h : NamesLegal r) (name : Bytes) (f : MetricM V → MetricM V)
    (hf : ∀ m, (f m).name = m.name) : NamesLegal (updateMetric r name f) := by
  intro m' hm'
  obtain ⟨m, hm, ⟨_, e⟩ | ⟨_, e⟩⟩ := mem_updateMetric hm'
  · subst e; rw [hf]; exact h m hm
  · rw [e]; exact h m hm

theorem NamesLegal_sweep {r : Reg V} (h : NamesLegal r) (now : Int) : NamesLegal (r.sweep now) := by
  intro m' hm'
  simp only [Reg.sweep, List.mem_map] at hm'
  obtain ⟨m, hm, e⟩ := hm'
  subst e; exact h m hm

theorem NamesLegal_updateSeries {r : Reg V} (h : NamesLegal r) (name : Bytes) (labels : Labels)
    (f : VecM V → Series V → Series V) : NamesLegal (updateSeries r name labels f) :=
  NamesLegal_updateMetric h name _ (fun _ => rfl)

theorem NamesLegal_getOrCreate {r r' : Reg V} (h : NamesLegal r) {ty : MType} {a : GetArgs V} {now : Int}
    (hn : legalName a.name = true) (hg : r.getOrCreate ty a now = .ok (.ok r')) : NamesLegal r' := by
  rcases getOrCreate_ok_cases hg with ⟨_, e⟩ | ⟨_, _, _, _, _, e⟩
  · subst e; exact NamesLegal_updateMetric h a.name _ (fun _ => rfl)
  · subst e
    unfold Reg.create
    refine NamesLegal_updateMetric ?_ a.name _ (fun _ => rfl)
    intro m hm
    rcases mem_withMetric hm with hm | ⟨e, _⟩
    · exact h m hm
    · subst e; exact hn

/-! ### `LabelsOk` -/

theorem LabelsOk_empty (pre : List (Bytes × MType × Bytes)) : LabelsOk ({ metrics := [], pre := pre } : Reg V) :=
  fun _ h => by cases h

theorem LabelsOk_sweep {r : Reg V} (h : LabelsOk r) (now : Int) : LabelsOk (r.sweep now) := by
  intro m' hm' s hs
  simp only [Reg.sweep, List.mem_map] at hm'
  obtain ⟨m, hm, e⟩ := hm'
  subst e
  exact h m hm s (List.mem_filter.mp hs).1

/-- an operation that maps the series of the metric `name` keeping their label sets -/
theorem LabelsOk_updateMetric_map {r : Reg V} (h : LabelsOk r) (name : Bytes) (f : MetricM V → MetricM V)
    (hty : ∀ m, (f m).ty = m.ty)
    (hs : ∀ m s', s' ∈ (f m).series → ∃ s, s ∈ m.series ∧ s'.labels = s.labels) : LabelsOk (updateMetric r name f) := by
  intro m' hm' s' hs'
  obtain ⟨m, hm, ⟨_, e⟩ | ⟨_, e⟩⟩ := mem_updateMetric hm'
  · subst e
    obtain ⟨s, hs0, hl⟩ := hs m s' hs'
    rw [hty, hl]; exact h m hm s hs0
  · rw [e] at hs' ⊢; exact h m hm s' hs'

theorem LabelsOk_touch {r : Reg V} (h : LabelsOk r) (a : GetArgs V) (now : Int) : LabelsOk (r.touch a now) := by
  unfold Reg.touch
  refine LabelsOk_updateMetric_map h a.name _ (fun _ => rfl) ?_
  intro m s' hs'
  simp only [List.mem_map] at hs'
  obtain ⟨s, hs, e⟩ := hs'
  exact ⟨s, hs, by rw [← e, touchSeries_labels]⟩

theorem LabelsOk_updateSeries {r : Reg V} (h : LabelsOk r) (name : Bytes) (labels : Labels)
    (f : VecM V → Series V → Series V) (hf : ∀ v s, (f v s).labels = s.labels) :
    LabelsOk (updateSeries r name labels f) := by
  rw [updateSeries_eq]
  refine LabelsOk_updateMetric_map h name _ (fun _ => rfl) ?_
  intro m s' hs'
  simp only [updSeriesIn, List.mem_map] at hs'
  obtain ⟨s, hs, e⟩ := hs'
  refine ⟨s, hs, ?_⟩
  rw [← e]
  split
  · split
    · exact hf _ _
    · rfl
  · rfl

theorem LabelsOk_create {r : Reg V} (hw : RegWF r) (h : LabelsOk r) (ty : MType) (a : GetArgs V) (now : Int)
    (hh : r.isHit ty a = false) (hc : r.conflicts a.name ty = false)
    (hl : labelNamesBad (a.labels.map (·.1)) (reservedFor ty) = false) : LabelsOk (r.create ty a now) := by
  unfold Reg.create
  intro m' hm' s' hs'
  obtain ⟨m, hm, ⟨hn, e⟩ | ⟨_, e⟩⟩ := mem_updateMetric hm'
  · subst e
    -- the metric stored into has the requested type
    have hmty : m.ty = ty ∧ ∀ s, s ∈ m.series → labelNamesBad (s.labels.map (·.1)) (reservedFor m.ty) = false := by
      rcases mem_withMetric hm with hm0 | ⟨e, _⟩
      · have hf := hw.find_of_mem hm0
        rw [hn] at hf
        exact ⟨(create_pre r ty a hh hc m hf).1, h m hm0⟩
      · subst e; exact ⟨rfl, fun _ hs => by cases hs⟩
    simp only [storeIn, List.mem_append, List.mem_singleton] at hs'
    show labelNamesBad (s'.labels.map (·.1)) (reservedFor m.ty) = false
    rcases hs' with hs' | hs'
    · exact hmty.2 s' hs'
    · subst hs'
      rw [hmty.1]; exact hl
  · rw [e] at hs' ⊢
    rcases mem_withMetric hm with hm0 | ⟨e, _⟩
    · exact h m hm0 s' hs'
    · subst e; cases hs'

theorem LabelsOk_getOrCreate {r r' : Reg V} (hw : RegWF r) (h : LabelsOk r) {ty : MType} {a : GetArgs V} {now : Int}
    (hg : r.getOrCreate ty a now = .ok (.ok r')) : LabelsOk r' := by
  rcases getOrCreate_ok_cases hg with ⟨_, e⟩ | ⟨hh, hc, _, hl, _, e⟩
  · subst e; exact LabelsOk_touch h a now
  · subst e; exact LabelsOk_create hw h ty a now hh hc hl

/-! ### the names `handleEvent` registers are escaped, non-empty names -/

theorem evNamed_name_legal {p : Pipe V} {rx : Rx} {ev : Ev V} {tags : Labels} {nm : Bytes} {labels : Labels} {c : Counts}
    (h : evNamed p rx ev tags = some (.ok (nm, labels, c))) : legalName nm = true := by
  unfold evNamed at h
  split at h
  · split at h
    · cases h
    · rename_i nm0 _
      split at h
      · cases h
      · rename_i hne
        split at h
        · cases h
        · simp only [Option.some.injEq, Except.ok.injEq, Prod.mk.injEq] at h
          rw [← h.1]
          exact legal_specEscape nm0 (by intro e; rw [e] at hne; exact hne rfl)
  · by_cases he : ev.name.isEmpty = true
    · rw [if_pos he] at h; cases h
    · rw [if_neg he] at h
      simp only [Option.some.injEq, Except.ok.injEq, Prod.mk.injEq] at h
      rw [← h.1]
      exact legal_specEscape ev.name (by intro e; rw [e] at he; exact he rfl)

theorem evTarget_name_legal {p : Pipe V} {rx : Rx} {ev : Ev V} {tags : Labels} {c : Counts} {pl : Plan V}
    (h : evTarget p rx ev tags = some (c, pl)) : legalName pl.2.1.name = true := by
  obtain ⟨_, _, nm, hn, hpl⟩ := evTarget_spec h
  subst hpl
  rw [(evPlan_args p rx ev nm _).1]
  exact evNamed_name_legal hn

/-! ### the invariant along steps and histories -/

theorem ExpoInv_empty (pre : List (Bytes × MType × Bytes)) : ExpoInv ({ metrics := [], pre := pre } : Reg V) :=
  ⟨RegWF_empty pre, NamesLegal_empty pre, LabelsOk_empty pre⟩

theorem ExpoInv_sweep {r : Reg V} (h : ExpoInv r) (now : Int) : ExpoInv (r.sweep now) :=
  ⟨RegWF_sweep h.wf now, NamesLegal_sweep h.names now, LabelsOk_sweep h.labels now⟩

theorem ExpoInv_handleEvent {p p' : Pipe V} {rx : Rx} {ev : Ev V} {tags : Labels} (hi : ExpoInv p.reg)
    (h : handleEvent p rx ev tags = some (.ok p')) : ExpoInv p'.reg := by
  by_cases ha : p'.counts.applied = p.counts.applied + 1
  · obtain ⟨c, pl, reg, ht, hg, e⟩ := handleEvent_applied h ha
    subst e
    simp only [appliedPipe]
    have hk := fun v s => (evTarget_keeps ht v s).1
    exact ⟨RegWF_updateSeries (RegWF_getOrCreate hi.wf hg) _ _ _ hk,
      NamesLegal_updateSeries (NamesLegal_getOrCreate hi.names (evTarget_name_legal ht) hg) _ _ _,
      LabelsOk_updateSeries (LabelsOk_getOrCreate hi.wf hi.labels hg) _ _ _ hk⟩
  · rw [handleEvent_not_applied h ha]; exact hi

theorem ExpoInv_handleEvents {rx : Rx} {tags : Labels} (evs : List (Ev V)) :
    ∀ {p p' : Pipe V}, ExpoInv p.reg → handleEvents p rx tags evs = some (.ok p') → ExpoInv p'.reg := by
  induction evs with
  | nil => intro p p' hi h; simp only [handleEvents] at h; injection h with h; injection h with h; subst h; exact hi
  | cons e es ih =>
    intro p p' hi h
    simp only [handleEvents] at h
    split at h
    · cases h
    · cases h
    · rename_i p1 h1
      exact ih (ExpoInv_handleEvent hi h1) h

theorem ExpoInv_runOps (rx : Rx) (ops : List (PipeOp V)) :
    ∀ {p p' : Pipe V}, ExpoInv p.reg → runOps rx p ops = some (.ok p') → ExpoInv p'.reg := by
  induction ops with
  | nil => intro p p' hi h; simp only [runOps] at h; injection h with h; injection h with h; subst h; exact hi
  | cons op rest ih =>
    intro p p' hi h
    cases op with
    | line tags evs =>
      simp only [runOps] at h
      split at h
      · rename_i p1 h1
        exact ih (ExpoInv_handleEvents evs hi h1) h
      · rename_i other hne
        cases ho : handleEvents p rx tags evs with
        | none => rw [ho] at h; cases h
        | some x =>
          cases x with
          | error pn => rw [ho] at h; injection h with h; cases h
          | ok p1 => exact absurd ho (hne p1)
    | sweep => simp only [runOps] at h; exact ih (p := { p with reg := p.reg.sweep p.now }) (ExpoInv_sweep hi p.now) h
    | advance now => simp only [runOps] at h; exact ih (p := { p with now := now }) hi h
    | reload m => simp only [runOps] at h; exact ih (p := { p with mapper := m }) hi h

/-! ### reading the label invariant -/

theorem labelNamesBad_false_iff (names : List Bytes) (reserved : Bytes) :
    labelNamesBad names reserved = false ↔
      ∀ n, n ∈ names → reservedPrefix.isPrefixOf n = false ∧ (reserved ≠ [] → n ≠ reserved) := by
  unfold labelNamesBad
  rw [List.any_eq_false]
  constructor
  · intro h n hn
    have := h n hn
    simp only [Bool.or_eq_true, Bool.and_eq_true, Bool.not_eq_true', beq_iff_eq, not_or, not_and,
      Bool.not_eq_true] at this
    refine ⟨this.1, fun hr e => ?_⟩
    have h2 := this.2 (by cases reserved with | nil => exact absurd rfl hr | cons _ _ => rfl)
    exact h2 e
  · intro h n hn
    obtain ⟨h1, h2⟩ := h n hn
    simp only [Bool.or_eq_true, Bool.and_eq_true, Bool.not_eq_true', beq_iff_eq, not_or, not_and, Bool.not_eq_true]
    refine ⟨h1, fun hr e => ?_⟩
    exact h2 (by intro e'; rw [e'] at hr; cases hr) e

end SE
