import SE.Model.Mapper
/-
Helper lemmas for C19(a): what a successful `load` / `loadRule` implies (every validation step
passed), and that `List.mapM` in `Except` fails as soon as one element fails. The rejection
theorems of SE/Props/C19.lean are the contrapositives.
-/
namespace SE
variable {V : Type}

/-! ### `Except` and `mapM` -/

theorem except_ok_of_bind {ε α β} {x : Except ε α} {f : α → Except ε β} {c : β}
    (h : (x >>= f) = .ok c) : ∃ a, x = .ok a ∧ f a = .ok c := by
  cases x with
  | error e => cases h
  | ok a => exact ⟨a, rfl, h⟩

theorem except_error_of_not_ok {ε α} {x : Except ε α} (h : ∀ a, x ≠ .ok a) : ∃ e, x = .error e := by
  cases x with
  | error e => exact ⟨e, rfl⟩
  | ok a => exact absurd rfl (h a)

/-- `mapM` in `Except` succeeds only if the function succeeds on every element -/
theorem mapM_ok_all {ε α β} (f : α → Except ε β) :
    ∀ (l : List α) (out : List β), l.mapM f = .ok out → ∀ a, a ∈ l → ∃ b, f a = .ok b := by
  intro l
  induction l with
  | nil => intro _ _ a ha; cases ha
  | cons x t ih =>
    intro out h a ha
    rw [List.mapM_cons] at h
    obtain ⟨b, hb, h⟩ := except_ok_of_bind h
    obtain ⟨bs, hbs, _⟩ := except_ok_of_bind h
    rcases List.mem_cons.mp ha with e | hat
    · subst e; exact ⟨b, hb⟩
    · exact ih bs hbs a hat

/-- **`mapM` fails if some element fails**, whatever its position -/
theorem mapM_error_of_mem {ε α β} (f : α → Except ε β) (pre post : List α) (a : α)
    (h : ∃ e, f a = .error e) : ∃ e, (pre ++ a :: post).mapM f = .error e := by
  apply except_error_of_not_ok
  intro out hout
  obtain ⟨b, hb⟩ := mapM_ok_all f _ out hout a (by simp)
  obtain ⟨e, he⟩ := h
  rw [he] at hb; cases hb

/-! ### the enum decoders -/

theorem decObserverType_unknown (s : Bytes) (h1 : s ≠ strBytes "histogram") (h2 : s ≠ strBytes "summary") (h3 : s ≠ []) :
    decObserverType s = .error .badEnum := by
  unfold decObserverType
  rw [if_neg (by simpa using h1), if_neg (by simp [h2, h3])]

theorem decMatchType_unknown (s : Bytes) (h1 : s ≠ strBytes "regex") (h2 : s ≠ strBytes "glob") (h3 : s ≠ []) :
    decMatchType s = .error .badEnum := by
  unfold decMatchType
  rw [if_neg (by simpa using h1), if_neg (by simp [h2, h3])]

theorem decAction_unknown (s : Bytes) (h1 : s ≠ strBytes "drop") (h2 : s ≠ strBytes "map") (h3 : s ≠ []) :
    decAction s = .error .badEnum := by
  unfold decAction
  rw [if_neg (by simpa using h1), if_neg (by simp [h2, h3])]

theorem decMetricType_unknown (s : Bytes) (h1 : s ≠ strCounter) (h2 : s ≠ strGauge) (h3 : s ≠ strObserver) (h4 : s ≠ strTimer) :
    decMetricType s = .error .badEnum := by
  unfold decMetricType
  rw [if_neg (by simpa using h1), if_neg (by simpa using h2), if_neg (by simp [h3, h4])]

theorem optDec_error {α} (f : Bytes → Except LoadErr α) (s : Bytes) (e : LoadErr) (h : f s = .error e) :
    optDec f (some s) = .error e := by
  show Except.map some (f s) = _; rw [h]; rfl

theorem optDec_some_ok {α} (f : Bytes → Except LoadErr α) (s : Bytes) (x : α) (h : f s = .ok x) :
    optDec f (some s) = .ok (some x) := by
  show Except.map some (f s) = _; rw [h]; rfl

/-! ### what a successful `loadRule` passed -/

/-- the observer type a rule ends up with: its `observer_type`, else its `timer_type`, else the default -/
def effObs (obs0 tim0 : Option ObsTy) (dobs : ObsTy) : ObsTy :=
  match (match obs0 with | some o => some o | none => tim0) with
  | some o => o
  | none => dobs

/-- `summary_options.quantiles` is present -/
def sumQuantSet (r : RawRule V) : Bool := match r.summaryOpts with | some (some _, _) => true | _ => false
/-- `histogram_options.buckets` is present -/
def histBucketsSet (r : RawRule V) : Bool := match r.histOpts with | some (some _) => true | _ => false

theorem step_throw {α : Type} {c : Bool} {e : LoadErr} {k : Unit → Except LoadErr α} {x : α}
    (h : (if c = true then (throw e >>= k) else k ()) = Except.ok x) : c = false ∧ k () = .ok x := by
  cases c
  · exact ⟨rfl, h⟩
  · cases h

theorem step_if {α : Type} {c : Bool} {A B : Except LoadErr α} {x : α}
    (h : (if c = true then A else B) = Except.ok x) : (c = true ∧ A = .ok x) ∨ (c = false ∧ B = .ok x) := by
  cases c
  · exact Or.inr ⟨rfl, h⟩
  · exact Or.inl ⟨rfl, h⟩

theorem step_two {α : Type} {g a b : Bool} {e1 e2 : LoadErr} {k : Unit → Except LoadErr α} {x : α}
    (h : (if g = true then (if a = true then (throw e1 >>= k) else k ())
          else (if b = true then (throw e2 >>= k) else k ())) = Except.ok x) :
    (g = true → a = false) ∧ (g = false → b = false) ∧ k () = .ok x := by
  cases g
  · obtain ⟨c, h'⟩ := step_throw (c := b) h
    exact ⟨nofun, fun _ => c, h'⟩
  · obtain ⟨c, h'⟩ := step_throw (c := a) h
    exact ⟨fun _ => c, nofun, h'⟩

/-- every validation step of `loadRule`, read off a successful result -/
theorem loadRule_ok_inv {rxOk : Bytes → Bool} {dm : MatchTy} {dobs : ObsTy} {dt : Int} {db : List V} {dq : List (V × V)}
    {dma : Int} {dab dbc : Nat} {r : RawRule V} {rule : Rule V}
    (h : loadRule rxOk dm dobs dt db dq dma dab dbc r = .ok rule) :
    ∃ obs0 tim0 mt0 act0 mmt,
      optDec decObserverType r.observerType = .ok obs0 ∧
      optDec decObserverType r.timerType = .ok tim0 ∧
      optDec decMatchType r.matchType = .ok mt0 ∧
      optDec decAction r.action = .ok act0 ∧
      optDec decMetricType r.matchMetricType = .ok mmt ∧
      r.labels.all (fun kv => labelNameOk kv.1) = true ∧
      r.name.isEmpty = false ∧ metricNameOk r.name = true ∧
      (mt0.getD dm = .glob → matchLineOk (splitOn 46 r.matchStr) = true) ∧
      (mt0.getD dm ≠ .glob → rxOk r.matchStr = true) ∧
      (r.summaryOpts.isSome && r.legacyQuantiles.isSome && sumQuantSet r) = false ∧
      (r.histOpts.isSome && r.legacyBuckets.isSome && histBucketsSet r) = false ∧
      (effObs obs0 tim0 dobs = .histogram → r.summaryOpts.isSome = false) ∧
      (effObs obs0 tim0 dobs = .summary → r.histOpts.isSome = false) := by
  unfold loadRule at h
  obtain ⟨obs0, h1, h⟩ := except_ok_of_bind h
  obtain ⟨tim0, h2, h⟩ := except_ok_of_bind h
  obtain ⟨mt0, h3, h⟩ := except_ok_of_bind h
  obtain ⟨act0, h4, h⟩ := except_ok_of_bind h
  obtain ⟨mmt, h5, h⟩ := except_ok_of_bind h
  refine ⟨obs0, tim0, mt0, act0, mmt, h1, h2, h3, h4, h5, ?_⟩
  clear h1 h2 h3 h4 h5
  obtain ⟨c1, h⟩ := step_throw h
  obtain ⟨c2, h⟩ := step_throw h
  obtain ⟨c3, h⟩ := step_throw h
  refine ⟨by simpa using c1, c2, by simpa using c3, ?_⟩
  clear c1 c2 c3
  obtain ⟨m1, m2, h⟩ := step_two h
  refine ⟨fun _ => by simpa using m1 (by simpa using ‹mt0.getD dm = .glob›),
    fun hn => by simpa using m2 (by simpa using hn), ?_⟩
  clear m1 m2
  obtain ⟨c5, h⟩ := step_throw h
  obtain ⟨c6, h⟩ := step_throw h
  refine ⟨c5, c6, ?_⟩
  clear c5 c6
  rcases step_if h with ⟨g, h'⟩ | ⟨g, h'⟩
  · obtain ⟨c7, _⟩ := step_throw h'
    have g' : effObs obs0 tim0 dobs = .histogram := by
      have : (effObs obs0 tim0 dobs == ObsTy.histogram) = true := g
      simpa using this
    exact ⟨fun _ => c7, fun hs => by rw [g'] at hs; cases hs⟩
  · have g' : effObs obs0 tim0 dobs ≠ .histogram := by
      intro hh
      have : (effObs obs0 tim0 dobs == ObsTy.histogram) = false := g
      rw [hh] at this; cases this
    refine ⟨fun hh => absurd hh g', fun hs => ?_⟩
    rcases step_if h' with ⟨g2, h''⟩ | ⟨g2, _⟩
    · exact (step_throw h'').1
    · have : (effObs obs0 tim0 dobs == ObsTy.summary) = false := g2
      rw [hs] at this; cases this

/-- a rule that fails one of the checks is rejected -/
theorem loadRule_error_of {rxOk : Bytes → Bool} {dm : MatchTy} {dobs : ObsTy} {dt : Int} {db : List V} {dq : List (V × V)}
    {dma : Int} {dab dbc : Nat} {r : RawRule V}
    (h : ∀ rule, loadRule rxOk dm dobs dt db dq dma dab dbc r ≠ .ok rule) :
    ∃ e, loadRule rxOk dm dobs dt db dq dma dab dbc r = .error e := except_error_of_not_ok h

/-! ### what a successful `load` passed -/

/-- the default observer type `load` computes: the defaults' `observer_type`, else their `timer_type`, else unset -/
def defaultObs (dobs dtim : Option ObsTy) : ObsTy :=
  match dobs with
  | some o => o
  | none => dtim.getD .dflt

/-- the defaults `load` hands to `loadRule` -/
structure LoadDefaults (V : Type) where
  dMatch : MatchTy
  dObs : ObsTy
  dTtl : Int
  dBuckets : List V
  dQuant : List (V × V)
  dMaxAge : Int
  dAgeB : Nat
  dBufCap : Nat

theorem load_ok_inv {rxOk : Bytes → Bool} {db : List V} {dq : List (V × V)} {raw : RawConfig V} {cfg : Config V}
    (h : load rxOk db dq raw = .ok cfg) :
    ∃ obs0 tim0 mt0,
      optDec decObserverType raw.defaults.observerType = .ok obs0 ∧
      optDec decObserverType raw.defaults.timerType = .ok tim0 ∧
      optDec decMatchType raw.defaults.matchType = .ok mt0 ∧
      ∃ d : LoadDefaults V, ∃ rules,
        raw.rules.mapM (loadRule rxOk d.dMatch d.dObs d.dTtl d.dBuckets d.dQuant d.dMaxAge d.dAgeB d.dBufCap) = .ok rules ∧
        cfg.rules = rules ∧
        d.dMatch = mt0.getD .glob ∧ d.dObs = defaultObs obs0 tim0 := by
  unfold load at h
  obtain ⟨obs0, h1, h⟩ := except_ok_of_bind h
  obtain ⟨tim0, h2, h⟩ := except_ok_of_bind h
  obtain ⟨mt0, h3, h⟩ := except_ok_of_bind h
  obtain ⟨rules, h4, h⟩ := except_ok_of_bind h
  refine ⟨obs0, tim0, mt0, h1, h2, h3, ⟨_, _, _, _, _, _, _, _⟩, rules, h4, ?_, rfl, rfl⟩
  cases h
  rfl

/-- a loaded configuration: every raw rule passed `loadRule` (for the defaults `load` computed) -/
theorem load_ok_rules {rxOk : Bytes → Bool} {db : List V} {dq : List (V × V)} {raw : RawConfig V} {cfg : Config V}
    (h : load rxOk db dq raw = .ok cfg) (r : RawRule V) (hr : r ∈ raw.rules) :
    ∃ dm dobs dt dbk dqu dma dab dbc rule, loadRule rxOk dm dobs dt dbk dqu dma dab dbc r = .ok rule ∧
      ∃ obs0 tim0 mt0, optDec decObserverType raw.defaults.observerType = .ok obs0 ∧
        optDec decObserverType raw.defaults.timerType = .ok tim0 ∧
        optDec decMatchType raw.defaults.matchType = .ok mt0 ∧
        dm = mt0.getD .glob ∧ dobs = defaultObs obs0 tim0 := by
  obtain ⟨obs0, tim0, mt0, h1, h2, h3, d, rules, hm, _, e1, e2⟩ := load_ok_inv h
  obtain ⟨rule, hrule⟩ := mapM_ok_all _ _ _ hm r hr
  exact ⟨_, _, _, _, _, _, _, _, rule, hrule, obs0, tim0, mt0, h1, h2, h3, e1, e2⟩

end SE
