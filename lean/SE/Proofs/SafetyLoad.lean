import SE.Model.Mapper
/-
Helper lemmas for C19(a): what a successful `load` / `loadRule` implies (every validation step
passed), and that `List.mapM` in `Except` fails as soon as one element fails. The rejection
theorems of SE/Props/C19.lean are the contrapositives.
-/
namespace SE
variable {V : Type}

/-! ### `Except` and `mapM` -/

theorem except_ok_of_bind {ε α β} {x : Except ε α} {f : α → Except ε β} {c : β}
    (h : (x >>= f) = .ok c) : ∃ a, x = .ok a ∧ f a = .ok c := by
  cases x with
  | error e => cases h
  | ok a => exact ⟨a, rfl, h⟩

theorem except_error_of_not_ok {ε α} {x : Except ε α} (h : ∀ a, x ≠ .ok a) : ∃ e, x = .error e := by
  cases x with
  | error e => exact ⟨e, rfl⟩
  | ok a => exact absurd rfl (h a)

/-- `mapM` in `Except` succeeds only if the function succeeds on every element -/
theorem mapM_ok_all {ε α β} (f : α → Except ε β) :
    ∀ (l : List α) (out : List β), l.mapM f = .ok out → ∀ a, a ∈ l → ∃ b, f a = .ok b := by
  intro l
  induction l with
  | nil => intro _ _ a ha; cases ha
  | cons x t ih =>
    intro out h a ha
    rw [List.mapM_cons] at h
    obtain ⟨b, hb, h⟩ := except_ok_of_bind h
    obtain ⟨bs, hbs, _⟩ := except_ok_of_bind h
    rcases List.mem_cons.mp ha with e | hat
    · subst e; exact ⟨b, hb⟩
    · exact ih bs hbs a hat

/-- **`mapM` fails if some element fails**, whatever its position -/
theorem mapM_error_of_mem {ε α β} (f : α → Except ε β) (pre post : List α) (a : α)
    (h : ∃ e, f a = .error e) : ∃ e, (pre ++ a :: post).mapM f = .error e := by
  apply except_error_of_not_ok
  intro out hout
  obtain ⟨b, hb⟩ := mapM_ok_all f _ out hout a (by simp)
  obtain ⟨e, he⟩ := h
  rw [he] at hb; cases hb

/-! ### the enum decoders -/

theorem decObserverType_unknown (s : Bytes) (h1 : s ≠ strBytes "histogram") (h2 : s ≠ strBytes "summary") (h3 : s ≠ []) :
    decObserverType s = .error .badEnum := by
  unfold decObserverType
  rw [if_neg (by simpa using h1), if_neg (by simp [h2, h3])]

theorem decMatchType_unknown (s : Bytes) (h1 : s ≠ strBytes "regex") (h2 : s ≠ strBytes "glob") (h3 : s ≠ []) :
    decMatchType s = .error .badEnum := by
  unfold decMatchType
  rw [if_neg (by simpa using h1), if_neg (by simp [h2, h3])]

theorem decAction_unknown (s : Bytes) (h1 : s ≠ strBytes "drop") (h2 : s ≠ strBytes "map") (h3 : s ≠ []) :
    decAction s = .error .badEnum := by
  unfold decAction
  rw [if_neg (by simpa using h1), if_neg (by simp [h2, h3])]

theorem decMetricType_unknown (s : Bytes) (h1 : s ≠ strCounter) (h2 : s ≠ strGauge) (h3 : s ≠ strObserver) (h4 : s ≠ strTimer) :
    decMetricType s = .error .badEnum := by
  unfold decMetricType
  rw [if_neg (by simpa using h1), if_neg (by simpa using h2), if_neg (by simp [h3, h4])]

theorem optDec_error {α} (f : Bytes → Except LoadErr α) (s : Bytes) (e : LoadErr) (h : f s = .error e) :
    optDec f (some s) = .error e := by
  show Except.map some (f s) = _; rw [h]; rfl

theorem optDec_some_ok {α} (f : Bytes → Except LoadErr α) (s : Bytes) (x : α) (h : f s = .ok x) :
    optDec f (some s) = .ok (some x) := by
  show Except.map some (f s) = _; rw [h]; rfl

/-! ### what a successful `loadRule` passed -/

/-- the observer type a rule ends up with: its `observer_type`, else its `timer_type`, else the default -/
def effObs (obs0 tim0 : Option ObsTy) (dobs : ObsTy) : ObsTy :=
  match (match obs0 with | some o => some o | none => tim0) with
  | some o => o
  | none => dobs

/-- `summary_options.quantiles` is present -/
def sumQuantSet (r : RawRule V) : Bool := match r.summaryOpts with | some (some _, _) => true | _ => false
/-- `histogram_options.buckets` is present -/
def histBucketsSet (r : RawRule V) : Bool := match r.histOpts with | some (some _) => true | _ => false

theorem step_throw {α : Type} {c : Bool} {e : LoadErr} {k : Unit → Except LoadErr α} {x : α}
    (h : (if c = true then (throw e >>= k) else k ()) = Except.ok x) : c = false ∧ k () = .ok x := by
  cases c
  · exact ⟨rfl, h⟩
  · cases h

theorem step_if {α : Type} {c : Bool} {A B : Except LoadErr α} {x : α}
    (h : (if c = true then A else B) = Except.ok x) : (c = true ∧ A = .ok x) ∨ (c = false ∧ B = .ok x) := by
  cases c
  · exact Or.inr ⟨rfl, h⟩
  · exact Or.inl ⟨rfl, h⟩

theorem step_two {α : Type} {g a b : Bool} {e1 e2 : LoadErr} {k : Unit → Except LoadErr α} {x : α}
    (h : (if g = true then (if a = true then (throw e1 >>= k) else k ())
          else (if b = true then (throw e2 >>= k) else k ())) = Except.ok x) :
    (g = true → a = false) ∧ (g = false → b = false) ∧ k () = .ok x := by
  cases g
  · obtain ⟨c, h'⟩ := step_throw (c := b) h
    exact ⟨nofun, fun _ => c, h'⟩
  · obtain ⟨c, h'⟩ := step_throw (c := a) h
    exact ⟨fun _ => c, nofun, h'⟩

theorem bnot_eq_false {b : Bool} (h : (!b) = false) : b = true := by
  cases b
  · cases h
  · rfl

/-- same continuation on both branches: the branches only choose an argument (a `mut` variable) -/
theorem step_ite_arg {α β : Type} {c : Bool} {a b : β} {k : β → Except LoadErr α} {x : α}
    (h : (if c = true then k a else k b) = Except.ok x) : k (if c = true then a else b) = .ok x := by
  cases c <;> exact h

/-! #### the effective per-rule options, as functions of the raw rule -/

/-- `histogram_options.buckets` (`[]` when absent) -/
def rawBuckets (r : RawRule V) : List V := match r.histOpts with | some (some b) => b | _ => []
/-- `summary_options.quantiles` (`[]` when absent) -/
def rawQuantiles (r : RawRule V) : List (V × V) := match r.summaryOpts with | some (some q, _) => q | _ => []
/-- `summary_options.max_age` (0 when absent) -/
def rawMaxAge (r : RawRule V) : Int := match r.summaryOpts with | some (_, a, _, _) => a | none => 0
/-- `summary_options.age_buckets` (0 when absent) -/
def rawAgeB (r : RawRule V) : Nat := match r.summaryOpts with | some (_, _, a, _) => a | none => 0

/-- buckets after the legacy `buckets` key was folded in (histogram-typed rules only) -/
def legacyOrRawBuckets (r : RawRule V) : List V :=
  match r.legacyBuckets with
  | some lb => if !lb.isEmpty then lb else rawBuckets r
  | none => rawBuckets r

/-- quantiles after the legacy `quantiles` key was folded in (summary-typed rules only) -/
def legacyOrRawQuantiles (r : RawRule V) : List (V × V) :=
  match r.legacyQuantiles with
  | some lq => if !lq.isEmpty then lq else rawQuantiles r
  | none => rawQuantiles r

/-- the rule ends up with `HistogramOptions != nil`: it is histogram-typed, or it has `histogram_options` -/
def effHasHist (r : RawRule V) (ot : ObsTy) : Bool := if ot == .histogram then true else r.histOpts.isSome

/-- the effective `HistogramOptions.Buckets` of a rule whose observer type is `ot`, for default buckets `db` -/
def effBuckets (r : RawRule V) (ot : ObsTy) (db : List V) : List V :=
  if ot == .histogram then (if (legacyOrRawBuckets r).isEmpty then db else legacyOrRawBuckets r) else rawBuckets r

/-- the rule ends up with `SummaryOptions != nil` -/
def effHasSum (r : RawRule V) (ot : ObsTy) : Bool := if ot == .summary then true else r.summaryOpts.isSome

def effQuantiles (r : RawRule V) (ot : ObsTy) (dq : List (V × V)) : List (V × V) :=
  if ot == .summary then (if (legacyOrRawQuantiles r).isEmpty then dq else legacyOrRawQuantiles r) else rawQuantiles r

def effMaxAge (r : RawRule V) (ot : ObsTy) (dma : Int) : Int :=
  if ot == .summary then (if rawMaxAge r == 0 then dma else rawMaxAge r) else rawMaxAge r

def effAgeB (r : RawRule V) (ot : ObsTy) (dab : Nat) : Nat :=
  if ot == .summary then (if rawAgeB r == 0 then dab else rawAgeB r) else rawAgeB r

/-- the age buckets of a loaded rule are its own `summary_options.age_buckets` or the defaults' -/
theorem effAgeB_cases (r : RawRule V) (ot : ObsTy) (dab : Nat) : effAgeB r ot dab = rawAgeB r ∨ effAgeB r ot dab = dab := by
  unfold effAgeB
  split
  · split
    · exact Or.inr rfl
    · exact Or.inl rfl
  · exact Or.inl rfl

variable [NumOps V]

/-- the option part of a successful `loadRule`: the effective options are the functions above, and they
    passed `validateBuckets` / `validateSummaryOptions` -/
structure RuleOptsFacts (r : RawRule V) (ot : ObsTy) (db : List V) (dq : List (V × V)) (dma : Int) (dab : Nat)
    (rule : Rule V) : Prop where
  observerType : rule.observerType = ot
  hasHistOpts : rule.hasHistOpts = effHasHist r ot
  buckets : rule.buckets = effBuckets r ot db
  hasSummaryOpts : rule.hasSummaryOpts = effHasSum r ot
  quantiles : rule.quantiles = effQuantiles r ot dq
  maxAge : rule.maxAge = effMaxAge r ot dma
  ageBuckets : rule.ageBuckets = effAgeB r ot dab
  bucketsOk : (effHasHist r ot && !strictlyIncreasing (effBuckets r ot db)) = false
  summaryOk : (effHasSum r ot && !summaryOptsOk (effQuantiles r ot dq) (effMaxAge r ot dma) (effAgeB r ot dab)) = false

/-- every validation step of `loadRule`, read off a successful result, and the options of the resulting rule -/
theorem loadRule_ok_full {rxOk : Bytes → Bool} {dm : MatchTy} {dobs : ObsTy} {dt : Int} {db : List V} {dq : List (V × V)}
    {dma : Int} {dab dbc : Nat} {r : RawRule V} {rule : Rule V}
    (h : loadRule rxOk dm dobs dt db dq dma dab dbc r = .ok rule) :
    ∃ obs0 tim0 mt0 act0 mmt,
      optDec decObserverType r.observerType = .ok obs0 ∧
      optDec decObserverType r.timerType = .ok tim0 ∧
      optDec decMatchType r.matchType = .ok mt0 ∧
      optDec decAction r.action = .ok act0 ∧
      optDec decMetricType r.matchMetricType = .ok mmt ∧
      r.labels.all (fun kv => labelNameOk kv.1) = true ∧
      r.name.isEmpty = false ∧ metricNameOk r.name = true ∧
      (mt0.getD dm = .glob → matchLineOk (splitOn 46 r.matchStr) = true) ∧
      (mt0.getD dm ≠ .glob → rxOk r.matchStr = true) ∧
      (r.summaryOpts.isSome && r.legacyQuantiles.isSome && sumQuantSet r) = false ∧
      (r.histOpts.isSome && r.legacyBuckets.isSome && histBucketsSet r) = false ∧
      (effObs obs0 tim0 dobs = .histogram → r.summaryOpts.isSome = false) ∧
      (effObs obs0 tim0 dobs = .summary → r.histOpts.isSome = false) ∧
      RuleOptsFacts r (effObs obs0 tim0 dobs) db dq dma dab rule := by
  unfold loadRule at h
  obtain ⟨obs0, h1, h⟩ := except_ok_of_bind h
  obtain ⟨tim0, h2, h⟩ := except_ok_of_bind h
  obtain ⟨mt0, h3, h⟩ := except_ok_of_bind h
  obtain ⟨act0, h4, h⟩ := except_ok_of_bind h
  obtain ⟨mmt, h5, h⟩ := except_ok_of_bind h
  refine ⟨obs0, tim0, mt0, act0, mmt, h1, h2, h3, h4, h5, ?_⟩
  clear h1 h2 h3 h4 h5
  obtain ⟨c1, h⟩ := step_throw h
  obtain ⟨c2, h⟩ := step_throw h
  obtain ⟨c3, h⟩ := step_throw h
  refine ⟨by simpa using c1, c2, by simpa using c3, ?_⟩
  clear c1 c2 c3
  obtain ⟨m1, m2, h⟩ := step_two h
  refine ⟨fun _ => by simpa using m1 (by simpa using ‹mt0.getD dm = .glob›),
    fun hn => by simpa using m2 (by simpa using hn), ?_⟩
  clear m1 m2
  obtain ⟨c5, h⟩ := step_throw h
  obtain ⟨c6, h⟩ := step_throw h
  refine ⟨c5, c6, ?_⟩
  clear c5 c6
  -- the `mut` variables: name the join points, then follow the one path through them
  extract_lets hasHist buckets hasSum quantiles maxAge ageB bufCap ttl tt dbc' dab' dma' dq' jpA db' jpH1 jpH0 at h
  -- observer type histogram: `hasHist := true`, legacy buckets, default buckets
  have hA : (effObs obs0 tim0 dobs = .histogram → r.summaryOpts.isSome = false) ∧
      jpA () (effHasHist r (effObs obs0 tim0 dobs)) (effBuckets r (effObs obs0 tim0 dobs) db) = .ok rule := by
    rcases step_if h with ⟨g, h'⟩ | ⟨g, h'⟩
    · obtain ⟨c7, h'⟩ := step_throw h'
      have g' : (effObs obs0 tim0 dobs == ObsTy.histogram) = true := g
      refine ⟨fun _ => c7, ?_⟩
      dsimp -zeta only [jpH0] at h'
      have h'' : jpH1 () (legacyOrRawBuckets r) = .ok rule := by
        unfold legacyOrRawBuckets
        split at h'
        · rename_i lb heq; simp only [heq]; exact step_ite_arg h'
        · rename_i heq; simp only [heq]; exact h'
      dsimp -zeta only [jpH1] at h''
      have h3 := step_ite_arg h''
      simp only [effHasHist, effBuckets, g', if_true]
      exact h3
    · have g' : (effObs obs0 tim0 dobs == ObsTy.histogram) = false := g
      refine ⟨fun hh => ?_, ?_⟩
      · rw [hh] at g'; cases g'
      · simp only [effHasHist, effBuckets, g']
        exact h'
  clear h
  obtain ⟨c7, hA⟩ := hA
  refine ⟨c7, ?_⟩
  clear c7
  dsimp -zeta only [jpA] at hA
  extract_lets jpF jpS2 jpS1 jpS0 at hA
  -- observer type summary: `hasSum := true`, legacy quantiles, the defaults for unset options
  have hF : (effObs obs0 tim0 dobs = .summary → r.histOpts.isSome = false) ∧
      ∃ bc, jpF () (effHasSum r (effObs obs0 tim0 dobs)) (effQuantiles r (effObs obs0 tim0 dobs) dq)
        (effMaxAge r (effObs obs0 tim0 dobs) dma) (effAgeB r (effObs obs0 tim0 dobs) dab) bc = .ok rule := by
    rcases step_if hA with ⟨g, h'⟩ | ⟨g, h'⟩
    · obtain ⟨c8, h'⟩ := step_throw h'
      have g' : (effObs obs0 tim0 dobs == ObsTy.summary) = true := g
      refine ⟨fun hs => ?_, ?_⟩
      · have : effHasHist r (effObs obs0 tim0 dobs) = r.histOpts.isSome := by rw [hs]; rfl
        rw [← this]; exact c8
      dsimp -zeta only [jpS0] at h'
      have h1 : jpS1 () (legacyOrRawQuantiles r) = .ok rule := by
        unfold legacyOrRawQuantiles
        split at h'
        · rename_i lq heq; simp only [heq]; exact step_ite_arg h'
        · rename_i heq; simp only [heq]; exact h'
      dsimp -zeta only [jpS1] at h1
      have h2 := step_ite_arg h1
      dsimp -zeta only [jpS2] at h2
      extract_lets jpM at h2
      have h3 := step_ite_arg h2
      dsimp -zeta only [jpM] at h3
      extract_lets jpAge at h3
      have h4 := step_ite_arg h3
      dsimp -zeta only [jpAge] at h4
      have h5 := step_ite_arg h4
      refine ⟨if (bufCap == 0) = true then dbc' else bufCap, ?_⟩
      simp only [effHasSum, effQuantiles, effMaxAge, effAgeB, g', if_true]
      exact h5
    · have g' : (effObs obs0 tim0 dobs == ObsTy.summary) = false := g
      refine ⟨fun hh => ?_, bufCap, ?_⟩
      · rw [hh] at g'; cases g'
      · simp only [effHasSum, effQuantiles, effMaxAge, effAgeB, g']
        exact h'
  clear hA
  obtain ⟨c8, bc, hF⟩ := hF
  refine ⟨c8, ?_⟩
  clear c8
  -- `validateBuckets`, `validateSummaryOptions`
  dsimp -zeta only [jpF] at hF
  obtain ⟨k1, hF⟩ := step_throw hF
  obtain ⟨k2, hF⟩ := step_throw hF
  cases hF
  exact ⟨rfl, rfl, rfl, rfl, rfl, rfl, rfl, k1, k2⟩

/-- every validation step of `loadRule`, read off a successful result -/
theorem loadRule_ok_inv {rxOk : Bytes → Bool} {dm : MatchTy} {dobs : ObsTy} {dt : Int} {db : List V} {dq : List (V × V)}
    {dma : Int} {dab dbc : Nat} {r : RawRule V} {rule : Rule V}
    (h : loadRule rxOk dm dobs dt db dq dma dab dbc r = .ok rule) :
    ∃ obs0 tim0 mt0 act0 mmt,
      optDec decObserverType r.observerType = .ok obs0 ∧
      optDec decObserverType r.timerType = .ok tim0 ∧
      optDec decMatchType r.matchType = .ok mt0 ∧
      optDec decAction r.action = .ok act0 ∧
      optDec decMetricType r.matchMetricType = .ok mmt ∧
      r.labels.all (fun kv => labelNameOk kv.1) = true ∧
      r.name.isEmpty = false ∧ metricNameOk r.name = true ∧
      (mt0.getD dm = .glob → matchLineOk (splitOn 46 r.matchStr) = true) ∧
      (mt0.getD dm ≠ .glob → rxOk r.matchStr = true) ∧
      (r.summaryOpts.isSome && r.legacyQuantiles.isSome && sumQuantSet r) = false ∧
      (r.histOpts.isSome && r.legacyBuckets.isSome && histBucketsSet r) = false ∧
      (effObs obs0 tim0 dobs = .histogram → r.summaryOpts.isSome = false) ∧
      (effObs obs0 tim0 dobs = .summary → r.histOpts.isSome = false) := by
  obtain ⟨obs0, tim0, mt0, act0, mmt, f1, f2, f3, f4, f5, f6, f7, f8, f9, f10, f11, f12, f13, f14, _⟩ := loadRule_ok_full h
  exact ⟨obs0, tim0, mt0, act0, mmt, f1, f2, f3, f4, f5, f6, f7, f8, f9, f10, f11, f12, f13, f14⟩

/-- what `validateBuckets` / `validateSummaryOptions` left on a loaded rule, in terms of the rule alone:
    if it carries histogram options their buckets are strictly increasing, if it carries summary options
    they pass `summaryOptsOk`; its age buckets are the raw rule's own or the defaults' -/
theorem loadRule_ok_opts {rxOk : Bytes → Bool} {dm : MatchTy} {dobs : ObsTy} {dt : Int} {db : List V} {dq : List (V × V)}
    {dma : Int} {dab dbc : Nat} {r : RawRule V} {rule : Rule V}
    (h : loadRule rxOk dm dobs dt db dq dma dab dbc r = .ok rule) :
    (rule.hasHistOpts = true → strictlyIncreasing rule.buckets = true) ∧
    (rule.hasSummaryOpts = true → summaryOptsOk rule.quantiles rule.maxAge rule.ageBuckets = true) ∧
    (rule.ageBuckets = rawAgeB r ∨ rule.ageBuckets = dab) := by
  obtain ⟨obs0, tim0, _, _, _, _, _, _, _, _, _, _, _, _, _, _, _, _, _, f⟩ := loadRule_ok_full h
  refine ⟨fun hh => ?_, fun hs => ?_, ?_⟩
  · have := f.bucketsOk
    rw [← f.hasHistOpts, ← f.buckets, hh] at this
    simpa using this
  · have := f.summaryOk
    rw [← f.hasSummaryOpts, ← f.quantiles, ← f.maxAge, ← f.ageBuckets, hs] at this
    simpa using this
  · rw [f.ageBuckets]; exact effAgeB_cases _ _ _

/-- a rule that fails one of the checks is rejected -/
theorem loadRule_error_of {rxOk : Bytes → Bool} {dm : MatchTy} {dobs : ObsTy} {dt : Int} {db : List V} {dq : List (V × V)}
    {dma : Int} {dab dbc : Nat} {r : RawRule V}
    (h : ∀ rule, loadRule rxOk dm dobs dt db dq dma dab dbc r ≠ .ok rule) :
    ∃ e, loadRule rxOk dm dobs dt db dq dma dab dbc r = .error e := except_error_of_not_ok h

/-! ### what a successful `load` passed -/

/-- the default observer type `load` computes: the defaults' `observer_type`, else their `timer_type`, else unset -/
def defaultObs (dobs dtim : Option ObsTy) : ObsTy :=
  match dobs with
  | some o => o
  | none => dtim.getD .dflt

/-- the defaults `load` hands to `loadRule` -/
structure LoadDefaults (V : Type) where
  dMatch : MatchTy
  dObs : ObsTy
  dTtl : Int
  dBuckets : List V
  dQuant : List (V × V)
  dMaxAge : Int
  dAgeB : Nat
  dBufCap : Nat

omit [NumOps V] in
/-- the defaults' summary options after `MapperConfigDefaults.UnmarshalYAML` (legacy `quantiles` replace an empty
    `summary_options.quantiles` — and with them the whole option set) -/
def defSumOpts (raw : RawConfig V) : RawSummaryOpts V :=
  if raw.defaults.summaryOpts.quantiles.isEmpty && !raw.defaults.legacyQuantiles.isEmpty
  then { quantiles := raw.defaults.legacyQuantiles } else raw.defaults.summaryOpts

omit [NumOps V] in
/-- the defaults' histogram buckets after `MapperConfigDefaults.UnmarshalYAML` -/
def defHistBuckets (raw : RawConfig V) : List V :=
  if raw.defaults.histBuckets.isEmpty && !raw.defaults.legacyBuckets.isEmpty
  then raw.defaults.legacyBuckets else raw.defaults.histBuckets

omit [NumOps V] in
/-- the effective default buckets: the configured ones, else the library's (`prometheus.DefBuckets`) -/
def effDefBuckets (raw : RawConfig V) (db : List V) : List V :=
  if (defHistBuckets raw).isEmpty then db else defHistBuckets raw

omit [NumOps V] in
/-- the effective default quantiles: the configured ones, else the exporter's `defaultQuantiles` -/
def effDefQuantiles (raw : RawConfig V) (dq : List (V × V)) : List (V × V) :=
  if (defSumOpts raw).quantiles.isEmpty then dq else (defSumOpts raw).quantiles

omit [NumOps V] in
theorem defSumOpts_ageBuckets (raw : RawConfig V) :
    (defSumOpts raw).ageBuckets = raw.defaults.summaryOpts.ageBuckets ∨ (defSumOpts raw).ageBuckets = 0 := by
  unfold defSumOpts
  split
  · exact Or.inr rfl
  · exact Or.inl rfl

theorem load_ok_inv {rxOk : Bytes → Bool} {db : List V} {dq : List (V × V)} {raw : RawConfig V} {cfg : Config V}
    (h : load rxOk db dq raw = .ok cfg) :
    ∃ obs0 tim0 mt0,
      optDec decObserverType raw.defaults.observerType = .ok obs0 ∧
      optDec decObserverType raw.defaults.timerType = .ok tim0 ∧
      optDec decMatchType raw.defaults.matchType = .ok mt0 ∧
      ∃ d : LoadDefaults V, ∃ rules,
        raw.rules.mapM (loadRule rxOk d.dMatch d.dObs d.dTtl d.dBuckets d.dQuant d.dMaxAge d.dAgeB d.dBufCap) = .ok rules ∧
        cfg.rules = rules ∧
        d.dMatch = mt0.getD .glob ∧ d.dObs = defaultObs obs0 tim0 ∧
        -- the effective defaults, and `validateBuckets` / `validateSummaryOptions` on them
        d.dBuckets = effDefBuckets raw db ∧ d.dQuant = effDefQuantiles raw dq ∧
        d.dMaxAge = (defSumOpts raw).maxAge ∧ d.dAgeB = (defSumOpts raw).ageBuckets ∧
        strictlyIncreasing d.dBuckets = true ∧ summaryOptsOk d.dQuant d.dMaxAge d.dAgeB = true ∧
        cfg.dObserverType = d.dObs ∧ cfg.dBuckets = d.dBuckets ∧ cfg.dQuantiles = d.dQuant ∧
        cfg.dMaxAge = d.dMaxAge ∧ cfg.dAgeBuckets = d.dAgeB := by
  unfold load at h
  obtain ⟨obs0, h1, h⟩ := except_ok_of_bind h
  obtain ⟨tim0, h2, h⟩ := except_ok_of_bind h
  obtain ⟨mt0, h3, h⟩ := except_ok_of_bind h
  obtain ⟨v1, h⟩ := step_throw h
  obtain ⟨v2, h⟩ := step_throw h
  obtain ⟨rules, h4, h⟩ := except_ok_of_bind h
  refine ⟨obs0, tim0, mt0, h1, h2, h3, ⟨_, _, _, _, _, _, _, _⟩, rules, h4, ?_, rfl, rfl, rfl, rfl, rfl, rfl,
    bnot_eq_false v1, bnot_eq_false v2, ?_⟩
  · cases h; rfl
  · cases h; exact ⟨rfl, rfl, rfl, rfl, rfl⟩

/-- a loaded configuration: every raw rule passed `loadRule` (for the defaults `load` computed) -/
theorem load_ok_rules {rxOk : Bytes → Bool} {db : List V} {dq : List (V × V)} {raw : RawConfig V} {cfg : Config V}
    (h : load rxOk db dq raw = .ok cfg) (r : RawRule V) (hr : r ∈ raw.rules) :
    ∃ dm dobs dt dbk dqu dma dab dbc rule, loadRule rxOk dm dobs dt dbk dqu dma dab dbc r = .ok rule ∧
      ∃ obs0 tim0 mt0, optDec decObserverType raw.defaults.observerType = .ok obs0 ∧
        optDec decObserverType raw.defaults.timerType = .ok tim0 ∧
        optDec decMatchType raw.defaults.matchType = .ok mt0 ∧
        dm = mt0.getD .glob ∧ dobs = defaultObs obs0 tim0 ∧
        dbk = effDefBuckets raw db ∧ dqu = effDefQuantiles raw dq ∧
        dma = (defSumOpts raw).maxAge ∧ dab = (defSumOpts raw).ageBuckets := by
  obtain ⟨obs0, tim0, mt0, h1, h2, h3, d, rules, hm, _, e1, e2, e3, e4, e5, e6, _⟩ := load_ok_inv h
  obtain ⟨rule, hrule⟩ := mapM_ok_all _ _ _ hm r hr
  exact ⟨_, _, _, _, _, _, _, _, rule, hrule, obs0, tim0, mt0, h1, h2, h3, e1, e2, e3, e4, e5, e6⟩

/-- `mapM` in `Except`: every element of the result comes from an element of the input -/
theorem mapM_ok_mem {ε α β} (f : α → Except ε β) :
    ∀ (l : List α) (out : List β), l.mapM f = .ok out → ∀ b, b ∈ out → ∃ a, a ∈ l ∧ f a = .ok b := by
  intro l
  induction l with
  | nil =>
    intro out h b hb
    rw [List.mapM_nil] at h
    cases h; cases hb
  | cons x t ih =>
    intro out h b hb
    rw [List.mapM_cons] at h
    obtain ⟨y, hy, h⟩ := except_ok_of_bind h
    obtain ⟨ys, hys, h⟩ := except_ok_of_bind h
    cases h
    rcases List.mem_cons.mp hb with e | hbt
    · subst e; exact ⟨x, List.mem_cons_self .., hy⟩
    · obtain ⟨a, ha, hfa⟩ := ih ys hys b hbt
      exact ⟨a, List.mem_cons_of_mem _ ha, hfa⟩

/-- every rule of a loaded configuration is the image of a raw rule under `loadRule` (for the validated defaults) -/
theorem load_ok_rule_of_mem {rxOk : Bytes → Bool} {db : List V} {dq : List (V × V)} {raw : RawConfig V} {cfg : Config V}
    (h : load rxOk db dq raw = .ok cfg) (rule : Rule V) (hr : rule ∈ cfg.rules) :
    ∃ dm dobs dt dbc r, r ∈ raw.rules ∧
      loadRule rxOk dm dobs dt cfg.dBuckets cfg.dQuantiles cfg.dMaxAge cfg.dAgeBuckets dbc r = .ok rule := by
  obtain ⟨_, _, _, _, _, _, d, rules, hm, e0, _, _, _, _, _, _, _, _, _, e7, e8, e9, e10⟩ := load_ok_inv h
  rw [e0] at hr
  obtain ⟨r, hrm, hl⟩ := mapM_ok_mem _ _ _ hm rule hr
  rw [← e7, ← e8, ← e9, ← e10] at hl
  exact ⟨_, _, _, _, r, hrm, hl⟩

end SE
